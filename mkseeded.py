#!/usr/bin/env python3
"""Regenerate section 18 of DESIGN.md (table of seeded changes) from seeded/*/meta.json."""
import json, glob
t = open('DESIGN.md').read()
k = t.index('## 18. Seeded changes and which checks catch them')
rows = []
for d in sorted(glob.glob('seeded/*/meta.json')):
    m = json.load(open(d))
    summ = m['summary'].replace('|', '\\|').replace('\n', ' ')
    if len(summ) > 230:
        summ = summ[:227] + '…'
    rows.append('| %s | %s | %s |' % (m['id'], summ, m.get('history', '').replace('|', '\\|')))
sec = '''## 18. Seeded changes and which checks catch them

Each change below was written by a fresh sub-agent that saw only the property's text and a
scratch worktree of /repo; I confirmed each in a scratch worktree (its demo passes on the
clean tree, the unedited suite passes with the change, the demo fails with the change)
before storing it as `seeded/<id>/` (patch.diff, demo_test.go, demo_output.txt, meta.json).
`./mutcheck <property> seeded/<id>/patch.diff` applies it to a scratch copy of /repo that is
bind-mounted over /repo in a private mount namespace (so /repo itself is never touched and
concurrent checks do not see the change), runs the property's quick check and removes the
copy.  All %d are detected today (exit 1 with a VIOLATION line); the last column says whether
that was so at the first attempt and, if not, what was added.

Eleven rounds were run.  Rounds 1-3 covered all twenty properties (three changes each per round), rounds
4 and 5 together covered them once more (8 + 12 properties), rounds 6 and 7 together a third time (12 + 8 properties); in rounds 2-7 the agents were told that the most obvious mechanisms had been tried already and were asked
for less central ones (interactions of two features, rarely used entry points, helper tables, error
paths, histories).  Share missed at the first attempt: round 1 40%%, round 2 27%%, round 3 20%%, round 4
(eight properties, 24 changes, the harder brief) 42%%, round 5 (twelve properties, 36 changes, same brief, after
the generators had been widened again) 11%%, round 6 (twelve properties, 36 changes; about a third of them
re-invented an idea of an earlier round, which were all caught) 8%%, round 7 (eight properties, 24 changes) 12%%, round 8 (eight properties once more — C01 C04 C07 C11 C13 C14 C15 C19, 24 changes, after the defect hunt's widenings) 12%% (a let that is the ONLY child of its block; an untranslated message inside a shadowing block; blank text right after the last header param), round 9 (the other twelve properties, 36 changes) 11%% (an escape cut short behind a high surrogate; a process-wide memo that is wrong from the first render on; an error dropped only for writers with WriteString; a map keyed by a named string type), round 10 (ten properties once more - C04 C05 C06 C07 C08 C11 C12 C13 C15 C20, 30 changes; a third of them re-invented earlier ideas) 3%% (an integral float result beyond 2^53 printed through int64), round 11 (ten properties - first C01 C02 C10 C14 C17 C19, two changes each, each needing a specific shape: a ?: in a ternary's condition, an exponent printed with +, an int-left comparison with a fractional float, a negation right after ?:, non-printable astral code points, Go-quoted map keys, an unterminated string on a later line of its tag, a failing callee behind a multi-line content param, fingerprints of length 12k, a base name of the form BASE_N, a let read before it is set in the next iteration, a default before a matching case; then C03 C09 C16 C18, two each) 10%% (the deprecated spelling of autoescape="contextual" - closed; concurrent fallback lookups on a shared pomsg provider - closed too, by a racer part of its own).  Six earlier changes were retired (seeded/obsolete/): later fix: commits made them moot - the library itself now does what they did, or the code they changed is gone; 38 patches whose context lines had moved were re-created on the current tree and re-confirmed.  Every miss pointed at an input CLASS the
generators did not produce (same-name nested loops, header-param defaults, one Bundle compiled twice,
Go structs as render data, catalogues whose plural rule is not the locale's customary one, lone CR,
runes that alias '<' modulo 256, ...) or at an oracle that took the implementation's word (an
un-extracted message looked like an untranslated one); each was closed by widening the generator or
adding the missing demand, never by special-casing the seeded change.

| id | change | detection history |
|---|---|---|
''' % len(rows) + '\n'.join(rows) + '\n'
open('DESIGN.md', 'w').write(t[:k] + sec)
print(len(rows), 'seeded changes')
