#!/usr/bin/env python3
"""Regenerates MANIFEST.json from props.json (the per-property registry)."""
import json, os
ROOT = os.path.dirname(os.path.abspath(__file__))
props = json.load(open(os.path.join(ROOT, "props.json")))
ids = [json.loads(l)["id"] for l in open(os.path.join(ROOT, "properties.jsonl"))]
checks, na = [], []
for pid in ids:
    p = props.get(pid)
    if not p or not p.get("claimed"):
        na.append({"property_id": pid, "reason": (p or {}).get("na_reason", "not yet covered by the machinery (work in progress); no check is registered")})
        continue
    checks.append({
        "property_id": pid,
        "quick_cmd": "./check %s --tier quick" % pid,
        "thorough_cmd": "./check %s --tier thorough" % pid,
        "evidence_file": "evidence/%s.json" % pid,
        "replay_cmd_template": "./check replay {path}",
        "engine": "lean4-proof+correspondence",
        "level_claimed": {"category": p.get("level", "proof"), "text": p["level_text"], "design_ref": p.get("design_ref", "DESIGN.md section 6 " + pid)},
        "level_note": p["level_note"],
        "technique": p.get("technique", "Lean 4 theorems about a hand-written model; model tied to the code by differential correspondence and regenerated tables"),
    })
man = {
    "version": 1,
    "setup_cmd": "./setup.sh",
    "hooks": {
        "guard": "verif",
        "enable": "go build -tags verif (the harness module replaces github.com/robfig/soy by /repo)",
        "baseline_off_cmd": "cd /repo && go test -vet=off -count=1 ./...",
        "source_commits": json.load(open(os.path.join(ROOT, "hooks.json"))),
        "add_only": True,
    },
    "engines": [{"name": "lean4-proof+correspondence", "path": "check", "serves_properties": [c["property_id"] for c in checks],
                 "kind_free_text": "Lean 4 kernel-checked theorems over a model of the code (lean/), Go harness running model and implementation on the same inputs (harness/), python orchestrator (check)"}],
    "checks": checks,
    "notes": "See DESIGN.md. known_findings.json lists recorded defects; replays/ receives failing cases.",
    "not_applicable": na,
}
json.dump(man, open(os.path.join(ROOT, "MANIFEST.json"), "w"), indent=1)
print("claimed:", [c["property_id"] for c in checks])
