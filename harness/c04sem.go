package main

// C04sem — the TRUSTED JavaScript semantics of the proofs (lean/SoyVerif/Spec/JsStmt.lean over Spec/JsSemRef.lean:
// readings of ECMA-262) against a JavaScript engine.
//
// For a generated template of the command fragment of Props/C04d (raw text, print with the escaping directives,
// let, if/elseif/else, foreach/ifempty, for-range, switch, content blocks, {call} of further templates of the file, over
// the expression fragment of Props/C04c) and a data set:
//   implementation side: soyjs.Write on the compiled file; the statements between `var output = '';` and
//       `return output;` of the template's function; the function run in otto (soyutils.js) on the data;
//   specification side (driver op `jssem`): the statement AST `toCmds` produces for the same compiled tree, printed with
//       `renderStmts`, and RUN WITH THE LEAN BIG-STEP SEMANTICS from opt_data = the same data, output = ''.
// Compared: the statement text byte for byte (so otto runs exactly the text of the AST the semantics ran), and the
// completion: the output string, or a thrown TypeError.  Where the semantics says `unspec` (outside the common subset)
// only the text is compared; such cases are counted in the report.

import (
	"encoding/json"
	"fmt"
	"sort"
	"strings"
	"time"

	"github.com/robfig/soy/data"
)

// ---- implementation side ----

func jsonOfValue(v data.Value) string {
	switch v := v.(type) {
	case data.Null:
		return "null"
	case data.Bool:
		if v {
			return "true"
		}
		return "false"
	case data.Int:
		return fmt.Sprintf("%d", int64(v))
	case data.String:
		b, _ := json.Marshal(string(v))
		return string(b)
	case data.List:
		parts := make([]string, len(v))
		for i, x := range v {
			parts[i] = jsonOfValue(x)
		}
		return "[" + strings.Join(parts, ",") + "]"
	case data.Map:
		keys := make([]string, 0, len(v))
		for k := range v {
			keys = append(keys, k)
		}
		sort.Strings(keys)
		var parts []string
		for _, k := range keys {
			if _, undef := v[k].(data.Undefined); undef {
				continue // JSON has no undefined: the key is absent
			}
			kb, _ := json.Marshal(k)
			parts = append(parts, string(kb)+":"+jsonOfValue(v[k]))
		}
		return "{" + strings.Join(parts, ",") + "}"
	}
	return "null"
}

// semBody: the statements of the template's function, between the declaration of the output variable and its return.
func semBody(js, tmpl string) (string, bool) {
	head := tmpl + " = function(opt_data, opt_sb, opt_ijData) {\n"
	i := strings.Index(js, head)
	if i < 0 {
		return "", false
	}
	rest := js[i+len(head):]
	const decl = "  var output = '';\n"
	j := strings.Index(rest, decl)
	if j < 0 {
		return "", false
	}
	rest = rest[j+len(decl):]
	k := strings.Index(rest, "  return output;\n};\n")
	if k < 0 {
		return "", false
	}
	return rest[:k], true
}

func semRun(encSrc, file, tmpl, dataSx, ijSx, globalsSx string) string {
	reg, err := jsCompileCached(encSrc, globalsSx)
	if err != nil {
		return "COMPILE-ERR " + hxs(err.Error())
	}
	js, ok := jsWrite(reg, file, "es5", nil)
	if !ok {
		return "WRITE-ERR " + hxs(js)
	}
	body, ok := semBody(js, tmpl)
	if !ok {
		return "NOBODY"
	}
	n, ok := parseSx(dataSx)
	if !ok {
		return "BADDATA"
	}
	dataJSON := jsonOfValue(valueOfSx(n))
	ijJSON := "{}"
	if ijSx != "-" {
		m, ok := parseSx(ijSx)
		if !ok {
			return "BADDATA"
		}
		ijJSON = jsonOfValue(valueOfSx(m))
	}
	base, err := jsBaseVM()
	if err != nil {
		return "NOVM " + hxs(err.Error())
	}
	vm := base.Copy()
	var out string
	jsErr := runWithTimeout(vm, 10*time.Second, func() error {
		if _, e := vm.Run(js); e != nil {
			return fmt.Errorf("load: %v", e)
		}
		var e error
		out, e = jsCall(vm, tmpl, dataJSON, ijJSON)
		return e
	})
	if jsErr != nil {
		msg := jsErr.Error()
		if strings.HasPrefix(msg, "TypeError") {
			return "ERROR " + hxs(body) + " " + hxs(js)
		}
		return "JSFAIL " + hxs(msg) + " " + hxs(body)
	}
	return "OK " + hxs(out) + " " + hxs(body) + " " + hxs(js)
}

var semStats = map[string]int{}

// semDiffers: does the engine's completion contradict the semantics' answer?
// The engine answers `OK <out> <body> <file>` / `ERROR <body> <file>`: the entry function's statements and the whole
// generated file.  The semantics answers `TAG [<out>] <text>` — the statements of the entry template, compared with
// <body> — or, at the FUNCTION level (every template of the file in the fragment), `TAG [<out>] <text> F`: the text of
// all functions of the file, which the generated file must END with (Props/C04f visitSoyFile_renders).
func semDiffers(c *Case, want, impl string) bool {
	wf, imf := strings.Split(want, " "), strings.Split(impl, " ")
	funcLevel := len(wf) >= 2 && wf[len(wf)-1] == "F"
	if funcLevel {
		wf = wf[:len(wf)-1]
		semStats["function level (through the table)"]++
	}
	semStats["semantics:"+wf[0]]++
	if strings.Contains(c.Req, "7b63616c6c20") { // "{call "
		semStats["with {call}, semantics:"+wf[0]]++
		if funcLevel {
			semStats["with {call}, function level, semantics:"+wf[0]]++
		}
		if strings.Contains(c.Req, "646174613d22616c6c22") { // data="all"
			semStats["with data=all, semantics:"+wf[0]]++
		}
		if strings.Contains(c.Req, "646174613d2224") { // data="$
			semStats["with data=$e, semantics:"+wf[0]]++
		}
		if strings.Contains(c.Req, "7b2f706172616d7d") { // {/param}
			semStats["with a content param, semantics:"+wf[0]]++
		}
	}
	if strings.Contains(c.Req, "24696a") { // "$ij"
		semStats["with $ij, semantics:"+wf[0]]++
	}
	if strings.Contains(c.Req, "(global ") {
		semStats["with a global, semantics:"+wf[0]]++
	}
	if strings.Contains(c.Req, "7b63737320") || strings.Contains(c.Req, "7b64656275676765727d") { // "{css ", "{debugger}"
		semStats["with {css} / {debugger}, semantics:"+wf[0]]++
	}
	if strings.Contains(c.Req, "7b706c7572616c20") { // "{plural "
		semStats["with {plural}, semantics:"+wf[0]]++
	}
	if strings.Contains(c.Req, "7b6d736720") { // "{msg "
		semStats["with {msg}, semantics:"+wf[0]]++
	}
	if wf[0] == "HANG" {
		semStats["unspec, engine:"+imf[0]]++
		return false // the driver's evaluator ran out of time (long nested loops): no answer to compare
	}
	// the text
	if len(wf) < 2 || len(imf) < 3 {
		return true
	}
	text := wf[len(wf)-1]
	if funcLevel {
		if !strings.HasSuffix(imf[len(imf)-1], text) {
			return true
		}
	} else if imf[len(imf)-2] != text {
		return true
	}
	if wf[0] == "UNSPEC" {
		// the semantics is silent about the completion
		semStats["unspec, engine:"+imf[0]]++
		return false
	}
	// the completion
	if wf[0] != imf[0] {
		return true
	}
	return wf[0] == "OK" && wf[1] != imf[1]
}

func init() {
	// fields: sources, compiled files (read by the model only), file name, template, data, fuel
	implOps["jssem"] = func(f []string) string {
		file, _ := unhx(f[2])
		tmpl, _ := unhx(f[3])
		if len(f) >= 8 {
			return semRun(f[0], string(file), string(tmpl), f[4], f[6], f[7])
		}
		return semRun(f[0], string(file), string(tmpl), f[4], "(m)", "(globals)")
	}
	register(&Prop{
		ID: "C04sem",
		Rule: "validation of the trusted JavaScript semantics: generated files ({msg} without a bundle — text, HTML tags, print and call placeholders, {plural} —, {css}, {debugger} among the commands) — an entry template and, in half of them, one or two templates it calls ({call} with value and content params, no data / data=\"all\" / data=\"$m\", callees calling callees, calls inside loops and content blocks; the semantics runs the callee's translated body as the callee oracle) — of the command fragment of Props/C04d (raw text with quotes, backslashes and HTML-special bytes; prints of int / string / bool expressions with no directive, |id, |noAutoescape, |escapeHtml under the three autoescape settings; let (value and content blocks) with fresh and SHADOWING names; if/elseif/else; foreach with and without ifempty over list parameters and map fields, for / foreach over range(…) with one to three arguments (positive literal step) with and without ifempty, switch on ints / strings with labels of both types, loop variables shadowing parameters, index / isFirst / isLast of the enclosing loops' variables; " +
			"expressions: $ij references (the injected data, also inside callees) and scalar compile-time globals, + - * % on small ints, string concatenation, comparisons, same-type equality, and/or/not, ?:, elvis on a nullable, .k / ?.k / [i] accesses, length, isNonnull, floor/ceiling/round/min/max) x 3 data sets (one of them with missing map fields, null and undefined values, empty lists: TypeErrors and ifempty branches); " +
			"soyjs.Write's statement text and its run in otto versus renderStmts(toCmds) and its run under Spec/JsStmt.execStmts in the driver, from the same data: text byte for byte, and the completion (output string / TypeError) wherever the semantics is not `unspec`; plus hand-written cases; non-trivial = the engine returns a non-empty string or throws",
		Gen:         genC04sem,
		Timeout:     60 * time.Second,
		SpecDiffers: semDiffers,
		NTOf: func(c *Case, impl string) bool {
			return strings.HasPrefix(impl, "ERROR") || (strings.HasPrefix(impl, "OK ") && !strings.HasPrefix(impl, "OK  "))
		},
		Oracle: func(c *Case, impl string) *Viol {
			tag := impl
			if i := strings.IndexByte(tag, ' '); i >= 0 {
				tag = tag[:i]
			}
			switch tag {
			case "OK", "ERROR":
				return nil
			}
			return &Viol{Key: "c04sem:" + tag, What: "C04sem: the generated program does not reach the comparison: " + impl[:min(len(impl), 200)] + " [" + c.Note + "]", Want: "OK | ERROR"}
		},
		Direct: func(g *G, rep *Report) {
			rep.Extra["semantics_answers"] = semStats
		},
	})
}

// ---- generator ----

type semTy int

const (
	semI semTy = iota
	semS
	semB
	semLI
	semLS
)

type semVar struct {
	name string
	ty   semTy
}

type semGen struct {
	r        *RNG
	vars     []semVar // locals in scope, innermost last
	used     map[string]bool
	fresh    int
	isCallee bool
	loops    int      // enclosing loops
	loopVars []string // their variables, innermost last
	kind     int      // which parameters the template under construction has (semKinds)
	callees  []semCallee
}

// a template another one may call: its name, its kind and the parameters it declares (all optional)
type semCallee struct {
	name string
	kind int
	used map[string]bool
}

// the parameters of a template by kind: 0 = the entry template (and callees meant for data="all"), 1 = a callee that
// reads its explicit params only ($p int, $c string, $pl list of ints), 2 = a callee meant for data="$m" (the fields
// of the map, and $p / $c)
type semKind struct {
	order []string
	ty    map[string]semTy
}

var semKinds = []semKind{
	{[]string{"n", "k", "s", "t", "b", "li", "ls", "p", "c"}, map[string]semTy{"n": semI, "k": semI, "s": semS, "t": semS, "b": semB, "li": semLI, "ls": semLS, "p": semI, "c": semS}},
	{[]string{"p", "c", "pl"}, map[string]semTy{"p": semI, "c": semS, "pl": semLI}},
	{[]string{"a", "s", "l", "p", "c"}, map[string]semTy{"a": semI, "s": semS, "l": semLI, "p": semI, "c": semS}},
}

var semAlphabet = []string{"a", "b", "Z", "0", "7", " ", "<", ">", "&", "\"", "'", "\\", ".", "-", "=", "é", "x"}

func (g *semGen) text(max int) string {
	n := 1 + g.r.Intn(max)
	var b strings.Builder
	for i := 0; i < n; i++ {
		b.WriteString(g.r.Pick(semAlphabet))
	}
	return b.String()
}

// a variable of the type: a local in scope (the innermost binding of its name) or a parameter
func (g *semGen) variable(t semTy) (string, bool) {
	var cands []string
	seen := map[string]bool{}
	for i := len(g.vars) - 1; i >= 0; i-- {
		v := g.vars[i]
		if seen[v.name] {
			continue
		}
		seen[v.name] = true
		if v.ty == t {
			cands = append(cands, v.name)
		}
	}
	kd := semKinds[g.kind]
	for _, p := range kd.order {
		if (p == "p" || p == "c") && g.kind == 0 && !g.isCallee {
			continue // the entry template has no $p / $c
		}
		if kd.ty[p] == t && !seen[p] {
			cands = append(cands, p)
		}
	}
	if len(cands) == 0 {
		return "", false
	}
	n := cands[g.r.Intn(len(cands))]
	if _, isParam := kd.ty[n]; isParam && !seen[n] {
		g.used[n] = true
	}
	return "$" + n, true
}

// a field of the map parameter $m; in the callees without $m, the parameter that plays its part
func (g *semGen) mapRef(path string) string {
	switch g.kind {
	case 1:
		switch path {
		case ".s", "?.s":
			g.used["c"] = true
			return "$c"
		case ".l":
			g.used["pl"] = true
			return "$pl"
		}
		g.used["p"] = true
		return "$p"
	case 2:
		switch path {
		case ".a":
			g.used["a"] = true
			return "$a"
		case ".s", "?.s":
			g.used["s"] = true
			return "$s"
		case ".l":
			g.used["l"] = true
			return "$l"
		}
		g.used["q"] = true
		return "$q" + strings.TrimPrefix(path, ".q") // $q.z, $q?.z
	}
	g.used["m"] = true
	return "$m" + path
}

// the compile-time globals of the generated files (scalars: the generator writes their literals)
var semGlobals = data.Map{"G_I": data.Int(42), "G_NEG": data.Int(-7), "G_S": data.String("g<'\"&\\"), "G_T": data.Bool(true), "G_NULL": data.Null{}}

func (g *semGen) intE(d int) string {
	if g.r.Intn(14) == 0 {
		return g.r.Pick([]string{"$ij.a", "$ij.a", "$ij.q.z", "G_I", "G_NEG", "$ij?.a"})
	}
	if len(g.loopVars) > 0 && g.r.Intn(6) == 0 {
		return "index($" + g.loopVars[g.r.Intn(len(g.loopVars))] + ")"
	}
	if d <= 0 || g.r.Intn(3) == 0 {
		switch g.r.Intn(6) {
		case 0, 1:
			return fmt.Sprintf("%d", g.r.Intn(21))
		case 2:
			return g.mapRef(".a")
		case 3:
			if g.r.Intn(3) == 0 {
				return g.mapRef(".q.z") // a TypeError when q is missing or null
			}
			return g.mapRef(".a")
		default:
			if v, ok := g.variable(semI); ok {
				return v
			}
			return "3"
		}
	}
	a := func() string { return g.intE(d - 1) }
	switch g.r.Intn(14) {
	case 0, 1:
		return "(" + a() + " + " + a() + ")"
	case 2:
		return "(" + a() + " - " + a() + ")"
	case 3:
		return "(" + a() + " * " + a() + ")"
	case 4:
		return "(" + a() + " % " + fmt.Sprintf("%d", 1+g.r.Intn(7)) + ")"
	case 5:
		return "min(" + a() + ", " + a() + ")"
	case 6:
		return "max(" + a() + ", " + a() + ")"
	case 7:
		return g.r.Pick([]string{"floor", "ceiling", "round"}) + "(" + a() + ")"
	case 8:
		return "(" + g.boolE(d-1) + " ? " + a() + " : " + a() + ")"
	case 9:
		g.used["u"] = true
		return "($u ?: " + a() + ")"
	case 10:
		return "(-" + a() + ")"
	case 11:
		if v, ok := g.variable(semLI); ok {
			return "length(" + v + ")"
		}
		return "length(" + g.mapRef(".l") + ")"
	case 12:
		g.used["u"] = true
		return "(isNonnull($u) ? $u : " + a() + ")"
	}
	return a()
}

func (g *semGen) strE(d int) string {
	if g.r.Intn(14) == 0 {
		return g.r.Pick([]string{"$ij.s", "$ij?.s", "G_S", "$ij.q?.s"})
	}
	if d <= 0 || g.r.Intn(3) == 0 {
		switch g.r.Intn(5) {
		case 0, 1:
			return soyQuote(g.text(5), nil)
		case 2:
			return g.mapRef(".s")
		case 3:
			return g.mapRef("?.s")
		default:
			if v, ok := g.variable(semS); ok {
				return v
			}
			return "'q'"
		}
	}
	switch g.r.Intn(5) {
	case 0, 1:
		return "(" + g.strE(d-1) + " + " + g.strE(d-1) + ")"
	case 2:
		return "(" + g.strE(d-1) + " + " + g.intE(d-1) + ")"
	case 3:
		return "(" + g.intE(d-1) + " + " + g.strE(d-1) + ")"
	}
	return "(" + g.boolE(d-1) + " ? " + g.strE(d-1) + " : " + g.strE(d-1) + ")"
}

func (g *semGen) boolE(d int) string {
	if g.r.Intn(20) == 0 {
		return g.r.Pick([]string{"G_T", "isNonnull(G_NULL)", "isNonnull($ij.u)", "($ij.a > G_I)"})
	}
	if len(g.loopVars) > 0 && g.r.Intn(4) == 0 {
		return g.r.Pick([]string{"isFirst", "isLast"}) + "($" + g.loopVars[g.r.Intn(len(g.loopVars))] + ")"
	}
	if d <= 0 || g.r.Intn(4) == 0 {
		switch g.r.Intn(4) {
		case 0:
			return g.r.Pick([]string{"true", "false"})
		case 1:
			g.used["u"] = true
			return "isNonnull($u)"
		default:
			if v, ok := g.variable(semB); ok {
				return v
			}
			return "true"
		}
	}
	switch g.r.Intn(8) {
	case 0, 1:
		return "(" + g.intE(d-1) + " " + g.r.Pick([]string{"<", "<=", ">", ">=", "==", "!="}) + " " + g.intE(d-1) + ")"
	case 2:
		return "(" + g.strE(d-1) + " " + g.r.Pick([]string{"==", "!="}) + " " + g.strE(d-1) + ")"
	case 3:
		return "(" + g.boolE(d-1) + " and " + g.boolE(d-1) + ")"
	case 4:
		return "(" + g.boolE(d-1) + " or " + g.boolE(d-1) + ")"
	case 5:
		return "(not " + g.boolE(d-1) + ")"
	case 6:
		return "(" + g.boolE(d-1) + " == " + g.boolE(d-1) + ")"
	}
	return "(" + g.boolE(d-1) + " ? " + g.boolE(d-1) + " : " + g.boolE(d-1) + ")"
}

func (g *semGen) exprOf(t semTy, d int) string {
	switch t {
	case semI:
		return g.intE(d)
	case semS:
		return g.strE(d)
	}
	return g.boolE(d)
}

// a name for a let / loop variable: fresh, or one that shadows a parameter or a local
func (g *semGen) bindName() string {
	switch g.r.Intn(4) {
	case 0:
		if g.kind == 0 {
			return g.r.Pick([]string{"n", "k", "s", "t", "b", "li"})
		}
		// (in the callees without $m a parameter stands for a field of it: not shadowed)
	case 1:
		if len(g.vars) > 0 {
			return g.vars[g.r.Intn(len(g.vars))].name
		}
	}
	g.fresh++
	return fmt.Sprintf("v%d", g.fresh)
}

func (g *semGen) block(d int) string {
	mark := len(g.vars)
	n := 1 + g.r.Intn(3)
	var b strings.Builder
	for i := 0; i < n; i++ {
		b.WriteString(g.cmd(d))
	}
	g.vars = g.vars[:mark]
	return b.String()
}

// {call}: of a template generated before; the data attribute its kind is meant for (now and then another one), value
// and content params for the parameters it declares
func (g *semGen) call(d int) string {
	c := g.callees[g.r.Intn(len(g.callees))]
	kind := c.kind
	if g.r.Intn(8) == 0 {
		kind = g.r.Intn(3)
	}
	attr := ""
	switch kind {
	case 0:
		attr = " data=\"all\""
	case 2:
		if g.kind == 0 {
			attr = " data=\"" + g.mapRef("") + "\""
		} else {
			attr = " data=\"all\""
		}
	}
	var ps strings.Builder
	keys := make([]string, 0, len(c.used))
	for _, k := range semKinds[c.kind].order {
		if c.used[k] {
			keys = append(keys, k)
		}
	}
	for _, k := range keys {
		if g.r.Intn(3) == 0 && kind != 1 {
			continue // left to the data (or undefined)
		}
		switch semKinds[c.kind].ty[k] {
		case semI:
			ps.WriteString("{param " + k + ": " + g.intE(1) + " /}")
		case semS:
			if d > 0 && g.r.Bool() {
				ps.WriteString("{param " + k + "}" + g.block(d-1) + "{/param}")
			} else {
				ps.WriteString("{param " + k + ": " + g.strE(1) + " /}")
			}
		case semB:
			ps.WriteString("{param " + k + ": " + g.boolE(1) + " /}")
		case semLI:
			if v, ok := g.variable(semLI); ok {
				ps.WriteString("{param " + k + ": " + v + " /}")
			} else if g.kind == 0 {
				ps.WriteString("{param " + k + ": " + g.mapRef(".l") + " /}")
			}
		}
	}
	if ps.Len() == 0 {
		return "{call ." + c.name + attr + " /}"
	}
	return "{call ." + c.name + attr + "}" + ps.String() + "{/call}"
}

// {msg}: without a message bundle the generator writes the parts one after the other — raw text, HTML tags and the
// placeholders (prints, now and then a call)
// the parts of a message or of a plural case: raw text, HTML tags, print (and call) placeholders
func (g *semGen) msgParts(b *strings.Builder) {
	for i, n := 0, 1+g.r.Intn(5); i < n; i++ {
		switch g.r.Intn(6) {
		case 0, 1:
			for j, m := 0, 1+g.r.Intn(4); j < m; j++ {
				b.WriteString(g.r.Pick([]string{"a", "b", "Z", "0", " ", "&", "\"", "'", "\\", ".", "é"}))
			}
		case 2:
			b.WriteString(g.r.Pick([]string{"<b>", "</b>", "<br/>", "<a href=\"x\">", "</a>"}))
		case 3:
			if len(g.callees) > 0 && g.r.Bool() {
				b.WriteString(g.call(0))
				break
			}
			fallthrough
		default:
			t := semTy(g.r.Intn(3))
			b.WriteString("{" + g.exprOf(t, 1) + g.r.Pick([]string{"", "", "|id", "|noAutoescape", "|escapeHtml"}) + "}")
		}
	}
}

func (g *semGen) msg(d int) string {
	var b strings.Builder
	b.WriteString("{msg desc=\"" + g.r.Pick([]string{"d", "a b", "x"}) + "\"}")
	if g.r.Intn(3) == 0 {
		// {plural}: without a bundle a switch on the value — explicit cases, then the default
		var val string
		if g.r.Intn(10) == 0 {
			val = g.strE(0) // no number: JavaScript takes the default, the semantics is silent
		} else {
			val = g.intE(1)
		}
		b.WriteString("{plural " + val + "}")
		seen := map[int]bool{}
		for i, n := 0, g.r.Intn(4); i < n; i++ {
			v := g.r.Intn(6)
			if seen[v] {
				continue
			}
			seen[v] = true
			b.WriteString(fmt.Sprintf("{case %d}", v))
			g.msgParts(&b)
		}
		b.WriteString("{default}")
		g.msgParts(&b)
		b.WriteString("{/plural}{/msg}")
		return b.String()
	}
	g.msgParts(&b)
	b.WriteString("{/msg}")
	return b.String()
}

func (g *semGen) cmd(d int) string {
	if len(g.callees) > 0 && g.r.Intn(5) == 0 {
		return g.call(d)
	}
	if g.r.Intn(12) == 0 {
		return g.msg(d)
	}
	if g.r.Intn(25) == 0 {
		// {css}: the name, or `value + '-' + name`, unescaped; {debugger}: nothing
		switch g.r.Intn(4) {
		case 0:
			return "{css " + g.r.Pick([]string{"foo", "a-b", "Zx0"}) + "}"
		case 1:
			return "{css " + g.strE(0) + ", " + g.r.Pick([]string{"foo", "bar-x"}) + "}"
		case 2:
			return "{css " + g.intE(1) + ", n}"
		}
		return "{debugger}"
	}
	k := g.r.Intn(10)
	if d <= 0 && k >= 6 {
		k = g.r.Intn(6)
	}
	switch k {
	case 0:
		return g.text(6)
	case 1, 2, 3:
		t := semTy(g.r.Intn(3))
		dir := g.r.Pick([]string{"", "", "", "|id", "|noAutoescape", "|escapeHtml", "|escapeHtml|id", "|noAutoescape|escapeHtml"})
		if g.r.Intn(8) == 0 {
			// a list element / a null-safe access in print position
			if v, ok := g.variable(semLS); ok {
				return "{" + v + ".0" + dir + "}"
			}
			return "{" + g.mapRef(".q?.z") + dir + "}"
		}
		return "{" + g.exprOf(t, 2) + dir + "}"
	case 4, 5:
		if d > 0 && g.r.Intn(4) == 0 {
			// a content block: the body writes to a buffer of its own; the name is a string afterwards
			name := g.bindName()
			body := g.block(d - 1)
			g.vars = append(g.vars, semVar{name, semS})
			return "{let $" + name + "}" + body + "{/let}{$" + name + g.r.Pick([]string{"", "", "|noAutoescape"}) + "}"
		}
		t := semTy(g.r.Intn(3))
		e := g.exprOf(t, 2)
		name := g.bindName()
		g.vars = append(g.vars, semVar{name, t})
		// the compiler rejects a {let} that is never read: read it once right away
		return "{let $" + name + ": " + e + " /}{$" + name + g.r.Pick([]string{"", "", "|noAutoescape"}) + "}"
	case 6, 7:
		var b strings.Builder
		b.WriteString("{if " + g.boolE(2) + "}" + g.block(d-1))
		for g.r.Intn(3) == 0 {
			b.WriteString("{elseif " + g.boolE(1) + "}" + g.block(d-1))
		}
		if g.r.Bool() {
			b.WriteString("{else}" + g.block(d-1))
		}
		b.WriteString("{/if}")
		return b.String()
	case 9:
		if g.r.Bool() {
			break
		}
		// {switch} on an int or a string: labels of both types, several per clause, {default} last
		t := semTy(g.r.Intn(2))
		var b strings.Builder
		b.WriteString("{switch " + g.exprOf(t, 1) + "}")
		for i, n := 0, 1+g.r.Intn(3); i < n; i++ {
			var labels []string
			for j, m := 0, 1+g.r.Intn(2); j < m; j++ {
				switch g.r.Intn(4) {
				case 0:
					labels = append(labels, soyQuote(g.text(2), nil))
				case 1:
					labels = append(labels, g.exprOf(t, 0))
				default:
					if t == semI {
						labels = append(labels, fmt.Sprintf("%d", g.r.Intn(8)))
					} else {
						labels = append(labels, soyQuote(g.text(1), nil))
					}
				}
			}
			b.WriteString("{case " + strings.Join(labels, ", ") + "}" + g.block(d-1))
		}
		if g.r.Bool() {
			b.WriteString("{default}" + g.block(d-1))
		}
		b.WriteString("{/switch}")
		return b.String()
	}
	switch k {
	case 8:
		// {for} over a range: one to three arguments, the step a positive literal
		var args string
		var lim string
		if g.loops > 0 {
			lim = fmt.Sprintf("%d", g.r.Intn(4)) // inside a loop: a few iterations (the driver's evaluator is a list machine)
		} else {
			lim = g.intE(1)
		}
		switch g.r.Intn(3) {
		case 0:
			args = lim
		case 1:
			args = fmt.Sprintf("%d", g.r.Intn(3)) + ", " + lim
		default:
			args = g.intE(0) + ", " + lim + ", " + fmt.Sprintf("%d", 1+g.r.Intn(4))
		}
		name := g.bindName()
		mark := len(g.vars)
		g.vars = append(g.vars, semVar{name, semI})
		g.loops++
		g.loopVars = append(g.loopVars, name)
		body := g.block(d - 1)
		g.loopVars = g.loopVars[:len(g.loopVars)-1]
		g.loops--
		g.vars = g.vars[:mark]
		kw := g.r.Pick([]string{"for", "for", "foreach"})
		s := "{" + kw + " $" + name + " in range(" + args + ")}" + body
		if g.r.Intn(3) == 0 {
			s += "{ifempty}" + g.block(d-1) // 2e1528d: after the loop, `if (index == 0) {…}`
		}
		return s + "{/" + kw + "}"
	default:
		var list string
		var et semTy
		switch g.r.Intn(4) {
		case 0:
			list, et = g.mapRef(".l"), semI
		case 1:
			if v, ok := g.variable(semLS); ok {
				list, et = v, semS
				break
			}
			fallthrough
		default:
			if v, ok := g.variable(semLI); ok {
				list, et = v, semI
			} else {
				list, et = g.mapRef(".l"), semI
			}
		}
		name := g.bindName()
		mark := len(g.vars)
		g.vars = append(g.vars, semVar{name, et})
		g.loops++
		g.loopVars = append(g.loopVars, name)
		body := g.block(d - 1)
		g.loopVars = g.loopVars[:len(g.loopVars)-1]
		g.loops--
		g.vars = g.vars[:mark]
		s := "{foreach $" + name + " in " + list + "}" + body
		if g.r.Bool() {
			s += "{ifempty}" + g.block(d-1)
		}
		return s + "{/foreach}"
	}
}

// one template: the entry template `.t` (kind 0, its parameters required) or a callee (its parameters optional)
func (g *semGen) one(name string, kind int, callee bool) (string, map[string]bool) {
	g.vars, g.used, g.fresh, g.kind, g.isCallee = nil, map[string]bool{}, 0, kind, callee
	depth := 3
	g.loops = 0
	if callee {
		depth = 2
		g.loops = 1 // a callee may run inside the caller's loops: its range loops are short
	}
	body := g.block(depth)
	var doc strings.Builder
	doc.WriteString("/**\n")
	for _, p := range []string{"n", "k", "s", "t", "b", "li", "ls", "m", "u", "p", "c", "pl", "a", "l", "q"} {
		if g.used[p] {
			opt := ""
			if p == "u" || callee {
				opt = "?"
			}
			doc.WriteString(" * @param" + opt + " " + p + "\n")
		}
	}
	doc.WriteString(" */\n")
	attr := g.r.Pick([]string{"", "", " autoescape=\"false\"", " autoescape=\"true\""})
	return doc.String() + "{template ." + name + attr + "}\n" + body + "\n{/template}\n", g.used
}

// a file: the entry template `.t` FIRST (the generator's counter of fresh names runs through the file), then — in
// about half of the files — one or two templates it calls (the second may call the first)
func (g *semGen) template() string {
	ns := g.r.Pick([]string{"{namespace sem}", "{namespace sem}", "{namespace sem autoescape=\"false\"}"})
	g.callees = nil
	var later []string
	if g.r.Bool() {
		for i, n := 0, 1+g.r.Intn(2); i < n; i++ {
			name := fmt.Sprintf("c%d", i+1)
			kind := g.r.Intn(3)
			src, used := g.one(name, kind, true)
			later = append(later, src)
			g.callees = append(g.callees, semCallee{name, kind, used})
		}
	}
	entry, _ := g.one("t", 0, false)
	return ns + "\n" + entry + strings.Join(later, "")
}

func (g *semGen) str() data.Value { return data.String(g.text(4)) }
func (g *semGen) num() data.Value { return data.Int(int64(g.r.Intn(26)) - 5) }

func (g *semGen) list(elem func() data.Value, min int) data.List {
	l := data.List{}
	for i, n := 0, min+g.r.Intn(3); i < n; i++ {
		l = append(l, elem())
	}
	return l
}

// data sets: `edge` = with missing map fields, null / undefined values and empty lists
func (g *semGen) dataSet(edge bool) data.Map {
	min := 1
	if edge {
		min = 0
	}
	m := data.Map{"a": g.num(), "s": g.str(), "l": g.list(g.num, min), "q": data.Map{"z": g.num()}}
	d := data.Map{"n": g.num(), "k": g.num(), "s": g.str(), "t": g.str(), "b": data.Bool(g.r.Bool()),
		"li": g.list(g.num, min), "ls": g.list(g.str, min), "m": m, "u": g.num()}
	if edge {
		switch g.r.Intn(3) {
		case 0:
			m["q"] = data.Null{}
		case 1:
			delete(m, "q")
		}
		switch g.r.Intn(3) {
		case 0:
			d["u"] = data.Null{}
		case 1:
			delete(d, "u")
		}
	}
	return d
}

// the injected data: the fields the generated expressions read; `edge`: some missing
func (g *semGen) ijSet(edge bool) data.Map {
	m := data.Map{"a": g.num(), "s": g.str(), "q": data.Map{"z": g.num(), "s": g.str()}, "u": g.num()}
	if edge {
		switch g.r.Intn(4) {
		case 0:
			delete(m, "q")
		case 1:
			m["q"] = data.Null{}
		case 2:
			delete(m, "u")
		}
	}
	return m
}

// hand-written programs: corners the random generator reaches rarely
var semHands = []struct{ src, data string }{
	// a `var` inside a branch stays visible; the generator's fresh names keep the outer binding
	{"{namespace sem}\n/** @param n */\n{template .t}\n{let $x: $n + 1 /}{if $x > 2}{let $x: '<' /}{$x}{else}{let $x: 'e' /}{$x}{/if}{$x}\n{/template}\n", "(m (6e (i 5)))"},
	{"{namespace sem}\n/** @param n */\n{template .t}\n{let $x: $n + 1 /}{if $x > 2}{let $x: '<' /}{$x}{else}{let $x: 'e' /}{$x}{/if}{$x}\n{/template}\n", "(m (6e (i 0)))"},
	// a loop variable shadowing the parameter it iterates over; ifempty
	{"{namespace sem}\n/** @param li */\n{template .t autoescape=\"false\"}\n{foreach $li in $li}[{$li}{let $li: $li * 2 /}{$li}]{ifempty}none{/foreach}{length($li)}\n{/template}\n", "(m (6c69 (l (i 1) (i 2) (i 3))))"},
	{"{namespace sem}\n/** @param li */\n{template .t autoescape=\"false\"}\n{foreach $li in $li}[{$li}{let $li: $li * 2 /}{$li}]{ifempty}none{/foreach}{length($li)}\n{/template}\n", "(m (6c69 (l)))"},
	// nested loops over the same list
	{"{namespace sem}\n/** @param li */\n{template .t}\n{foreach $a in $li}{foreach $b in $li}{$a * $b},{/foreach};{/foreach}\n{/template}\n", "(m (6c69 (l (i 2) (i 3))))"},
	// TypeError: a member of undefined / null; foreach over undefined
	{"{namespace sem}\n/** @param m */\n{template .t}\nA{$m.q.z}B\n{/template}\n", "(m (6d (m (61 (i 1)))))"},
	{"{namespace sem}\n/** @param m */\n{template .t}\nA{$m.q.z}B\n{/template}\n", "(m (6d (m (71 (n)))))"},
	{"{namespace sem}\n/** @param m */\n{template .t}\nA{$m.q?.z}B{$m?.q}\n{/template}\n", "(m (6d (m (71 (n)))))"},
	{"{namespace sem}\n/** @param? li */\n{template .t}\nA{foreach $x in $li}{$x}{/foreach}B\n{/template}\n", "(m)"},
	// string concatenation with numbers and booleans, null
	{"{namespace sem}\n/** @param n\n @param s */\n{template .t autoescape=\"false\"}\n{$s + $n}{$n + $s}{$n + $n}{$s + ($n > 1)}{$s + null}\n{/template}\n", "(m (6e (i 7)) (73 (s 3c61)))"},
	// escaping: every special byte, explicit and implicit
	{"{namespace sem}\n/** @param s */\n{template .t}\n{$s}{$s|noAutoescape}{$s|escapeHtml}{$s|id}\n{/template}\n", "(m (73 (s 3c3e2622275cc3a9)))"},
	// integers at the edge of exactness: 2^53 is exact, 2^53 + 1 is not
	{"{namespace sem}\n/** @param n */\n{template .t}\n{$n + 1}{$n * 2}\n{/template}\n", "(m (6e (i 9007199254740991)))"},
	{"{namespace sem}\n/** @param n */\n{template .t}\n{$n % 3}{-$n % 3}{$n - 10}\n{/template}\n", "(m (6e (i 7)))"},
	// range loops: empty, one argument, a step that overshoots, a loop variable shadowing the limit
	{"{namespace sem}\n/** @param n */\n{template .t}\n{for $i in range($n)}{$i}{/for}|{for $i in range(2, $n)}{$i}{/for}|{for $n in range(1, $n, 3)}{$n},{/for}{$n}\n{/template}\n", "(m (6e (i 8)))"},
	{"{namespace sem}\n/** @param n */\n{template .t}\n{for $i in range($n)}{$i}{/for}|{for $i in range(2, $n)}{$i}{/for}|{for $n in range(1, $n, 3)}{$n},{/for}{$n}\n{/template}\n", "(m (6e (i 0)))"},
	// the {ifempty} of a range loop: rendered when no iteration happened; the loop variable is out of scope in it
	{"{namespace sem}\n/** @param n */\n{template .t}\n{foreach $i in range($n)}[{$i}]{ifempty}nothing{/foreach}|{for $i in range(2, $n)}{$i}{ifempty}E{let $i: 'x' /}{$i}{/for}|{foreach $i in range(0, 3, 2)}{$i}{ifempty}no{/foreach}\n{/template}\n", "(m (6e (i 0)))"},
	{"{namespace sem}\n/** @param n */\n{template .t}\n{foreach $i in range($n)}[{$i}]{ifempty}nothing{/foreach}|{for $i in range(2, $n)}{$i}{ifempty}E{let $i: 'x' /}{$i}{/for}|{foreach $i in range(0, 3, 2)}{$i}{ifempty}no{/foreach}\n{/template}\n", "(m (6e (i 4)))"},
	// switch: === never coerces; null label; several labels; no default
	{"{namespace sem}\n/** @param n\n @param s */\n{template .t}\n{switch $n}{case '7'}str{case 7, 8}int{default}d{/switch}{switch $s}{case 7}int{case null}null{case 'a', '7'}s{/switch}|\n{/template}\n", "(m (6e (i 7)) (73 (s 37)))"},
	{"{namespace sem}\n/** @param n\n @param s */\n{template .t}\n{switch $n}{case '7'}str{case 7, 8}int{default}d{/switch}{switch $s}{case 7}int{case null}null{case 'a', '7'}s{/switch}|\n{/template}\n", "(m (6e (s 37)) (73 (n)))"},
	// content blocks: nested, shadowing, printed with and without escaping
	{"{namespace sem}\n/** @param n */\n{template .t}\na{let $x}<{$n}{let $n}in&{/let}{$n}>{/let}b{$x}{$x|noAutoescape}{$n}\n{/template}\n", "(m (6e (i 7)))"},
	// the loop functions: range loops count iterations (ed89aa1), nested loops over the same name, a let shadowing the variable
	{"{namespace sem}\n/** @param li */\n{template .t}\n{for $i in range(1, 8, 3)}{index($i)}{isFirst($i) ? 'F' : ''}{isLast($i) ? 'L' : ''}{$i},{/for}|{foreach $x in $li}{index($x)}{isFirst($x)}{isLast($x)}{foreach $x in $li}{index($x)}{isLast($x) ? 'l' : '-'}{/foreach}{let $x: 9 /}{$x}{isLast($x)};{/foreach}\n{/template}\n", "(m (6c69 (l (i 5) (i 6) (i 7))))"},
	{"{namespace sem}\n/** @param n */\n{template .t}\n{for $i in range($n)}{for $j in range(2)}{index($i)}{index($j)}{isLast($i)}{isLast($j)} {/for}{/for}\n{/template}\n", "(m (6e (i 2)))"},
	// calls: value params and no data; a missing param is undefined in the callee (elvis), a param the callee passes on
	{"{namespace sem}\n/** @param n */\n{template .t}\n[{call .c}{param p: $n + 1 /}{param c: 'a<' + $n /}{/call}][{call .c /}][{call .c}{param p: 2 /}{/call}]\n{/template}\n/** @param? p\n @param? c */\n{template .c}\n{$p ?: 'none'}:{$c ?: '-'}{if isNonnull($p)}{call .d}{param x: $p * 2 /}{/call}{/if}\n{/template}\n/** @param x */\n{template .d}\n<{$x}>\n{/template}\n", "(m (6e (i 5)))"},
	// data="all": the callee sees the caller's data; an explicit param overrides a key of it; content params (nested, with a let inside)
	{"{namespace sem}\n/** @param n\n @param s */\n{template .t}\n{call .c data=\"all\" /}|{call .c data=\"all\"}{param n: $n * 10 /}{/call}|{call .c data=\"all\"}{param s}<{$n}{let $n: 'in' /}{$n}{call .c data=\"all\"}{param s: 'deep' /}{/call}>{/param}{/call}|{$n}\n{/template}\n/** @param n\n @param s */\n{template .c}\n({$n},{$s})\n{/template}\n", "(m (6e (i 7)) (73 (s 3c26)))"},
	// data="$m": the fields of the map are the callee's parameters; a param beside it; a null map throws nothing by itself
	{"{namespace sem}\n/** @param m */\n{template .t autoescape=\"false\"}\n{call .c data=\"$m\" /}|{call .c data=\"$m\"}{param a: 1 /}{param z}Z{/param}{/call}|{call .c data=\"$m.q\" /}\n{/template}\n/** @param? a\n @param? s\n @param? z */\n{template .c}\n{$a ?: 0}{$s ?: ''}{$z ?: ''}\n{/template}\n", "(m (6d (m (61 (i 4)) (73 (s 78)) (71 (m (7a (i 9)))))))"},
	// a TypeError inside the callee, and in a param expression
	{"{namespace sem}\n/** @param m */\n{template .t}\nA{call .c data=\"$m\" /}B\n{/template}\n/** @param? q */\n{template .c}\n{$q.z}\n{/template}\n", "(m (6d (m (61 (i 1)))))"},
	{"{namespace sem}\n/** @param m */\n{template .t}\nA{call .c}{param p: $m.q.z /}{/call}B\n{/template}\n/** @param p */\n{template .c}\n{$p}\n{/template}\n", "(m (6d (m (61 (i 1)))))"},
	// a call inside a loop, the loop variable and index passed on; the callee loops itself
	{"{namespace sem}\n/** @param li */\n{template .t}\n{foreach $x in $li}{call .c}{param p: $x /}{param i: index($x) /}{param l: $li /}{/call};{/foreach}\n{/template}\n/** @param p\n @param i\n @param l */\n{template .c}\n{$i}:{foreach $y in $l}{$y * $p}{if not isLast($y)},{/if}{/foreach}\n{/template}\n", "(m (6c69 (l (i 2) (i 3))))"},
	// {msg} without a bundle: text, tags and placeholders in order; a let inside a placeholder's call param does not leak
	{"{namespace sem}\n/** @param n\n @param s */\n{template .t}\n{msg desc=\"d\"}Hello <b>{$s}</b>, you have {$n + 1} items{$s|noAutoescape}{call .c}{param p}{let $n: 'in' /}{$n}{/param}{/call}.{/msg}{$n}\n{/template}\n/** @param p */\n{template .c}\n[{$p}]\n{/template}\n", "(m (6e (i 4)) (73 (s 3c26)))"},
	// $ij: the third parameter, passed down by calls; null-safe access; globals are literals
	{"{namespace sem}\n/** @param n */\n{template .t}\n{$ij.a + $n}|{$ij.s}|{$ij.q.z}|{$ij.q?.z}{$ij?.a}|{call .c /}|{G_I + 1}{G_S}{G_T ? 'y' : 'n'}{isNonnull(G_NULL)}\n{/template}\n/***/\n{template .c}\n<{$ij.a * 2}{$ij.s|noAutoescape}{G_NEG}>\n{/template}\n", "(m (6e (i 5)))"},
	{"{namespace sem}\n/***/\n{template .t}\nA{$ij.x.y}B\n{/template}\n", "(m)"},
	// {plural} without a bundle: the explicit case, else the default
	{"{namespace sem}\n/** @param n\n @param s */\n{template .t}\n{msg desc=\"d\"}{plural $n}{case 0}none{case 4}four <b>{$s}</b>{default}{$n} things{/plural}{/msg}|{msg desc=\"e\"}{plural $n + 1}{case 1}one{default}many{/plural}{/msg}\n{/template}\n", "(m (6e (i 4)) (73 (s 3c26)))"},
	{"{namespace sem}\n/** @param n\n @param s */\n{template .t}\n{msg desc=\"d\"}{plural $n}{case 0}none{case 4}four <b>{$s}</b>{default}{$n} things{/plural}{/msg}|{msg desc=\"e\"}{plural $n + 1}{case 1}one{default}many{/plural}{/msg}\n{/template}\n", "(m (6e (i 0)) (73 (s 78)))"},
	// {css}: unescaped name / value-name; {debugger}
	{"{namespace sem}\n/** @param s\n @param n */\n{template .t}\n<{css foo}|{css $s, bar}|{css $n + 1, z}|{css null, q}{debugger}>\n{/template}\n", "(m (6e (i 4)) (73 (s 3c26)))"},
	// raw text with every escape class
	{"{namespace sem}\n{template .t}\na'b\"c\\d<e>&f=g{sp}{nil}{\\n}{\\t}{lb}{rb}é \n{/template}\n", "(m)"},
}

// the injected data of the hand-written cases
const semHandIj = "(m (61 (i 3)) (73 (s 696a3c)) (71 (m (7a (i 9)))))"

func genC04sem(g *G) {
	fuel := "60"
	for hi, h := range semHands {
		fs := []srcFile{{"sem.soy", h.src}}
		reg, err := jsCompile(fs, semGlobals)
		if err != nil {
			g.Add(Case{Req: req("jssem", encSources(fs), "(files)", hxs("sem.soy"), hxs("sem.t"), h.data, fuel), Class: "hand-rejected", NoModel: true, Note: "hand#" + itoa(hi) + " " + err.Error()})
			continue
		}
		r := req("jssem", encSources(fs), sx("files", sxFile(reg.SoyFiles[0])), hxs("sem.soy"), hxs("sem.t"), h.data, fuel, semHandIj, sxGlobals(semGlobals))
		g.Add(Case{Req: r, SpecReq: r, NoModel: true, Class: "hand", Note: "hand#" + itoa(hi) + " " + h.data})
	}
	n := g.N(700, 14000)
	sg := &semGen{r: g.R}
	rejected := 0
	for i := 0; i < n; i++ {
		src := sg.template()
		fs := []srcFile{{"sem.soy", src}}
		reg, err := jsCompile(fs, semGlobals)
		if err != nil {
			rejected++
			if rejected <= 3 {
				g.Add(Case{Req: req("jssem", encSources(fs), "(files)", hxs("sem.soy"), hxs("sem.t"), "(m)", fuel), Class: "generator-bug:" + err.Error(), NoModel: true, Note: "template#" + itoa(i)})
			}
			continue
		}
		wire := sx("files", sxFile(reg.SoyFiles[0]))
		enc := encSources(fs)
		for k := 0; k < 3; k++ {
			d := sg.dataSet(k == 2)
			class := "data"
			if k == 2 {
				class = "edge-data"
			}
			r := req("jssem", enc, wire, hxs("sem.soy"), hxs("sem.t"), sxValue(d), fuel, sxValue(sg.ijSet(k == 2)), sxGlobals(semGlobals))
			g.Add(Case{Req: r, SpecReq: r, NoModel: true, Class: class, Note: fmt.Sprintf("template#%d seed=%d %s", i, g.Seed, class)})
		}
	}
}
