package main

import (
	"time"
	"strconv"
	"strings"

	"github.com/robfig/soy/errortypes"
	"github.com/robfig/soy/parse"
)

// itemsWire renders the real lexer's token stream for the model parser.
func itemsWire(src string, exprMode bool) (string, bool) {
	var items []parse.VerifItem
	if c := guarded(5*time.Second, func() { items = parse.VerifLex("", src, exprMode, 200000) }); c != "" {
		return "Error:0:" + hxs(c), false
	}
	var parts []string
	hasFloat := false
	for _, it := range items {
		if it.Typ == "Float" {
			hasFloat = true
		}
		parts = append(parts, it.Typ+":"+strconv.Itoa(it.Pos)+":"+hxs(it.Val))
	}
	if len(parts) == 0 {
		return "-", hasFloat
	}
	return strings.Join(parts, ";"), hasFloat
}

func errClass(err error) string {
	if fp, ok := err.(errortypes.ErrFilePos); ok {
		return "ERR " + strconv.Itoa(fp.Line()) + " " + strconv.Itoa(fp.Col())
	}
	return "ERR ? ?"
}

func init() {
	implOps["parseexpr"] = func(f []string) string {
		src, _ := unhx(f[0])
		n, err := parse.Expr(string(src)) // a runtime panic propagates to answer() -> PANIC
		if err != nil {
			return errClass(err)
		}
		return "OK " + sxExpr(n)
	}
	register(&Prop{
		ID: "C01parse",
		Rule: "expression source (valid type-directed expressions, plus token deletions/duplications/truncations of them) -> tokens of the REAL lexer -> model parser vs parse.Expr: " +
			"tree with positions, or error line/col, or PANIC/HANG; non-trivial = more than 3 tokens",
		Gen:     genParseExpr,
		Timeout: 3e9,
	})
}

func mutateSrc(r *RNG, s string) string {
	if len(s) == 0 {
		return s
	}
	switch r.Intn(6) {
	case 0: // truncate
		return s[:r.Intn(len(s))]
	case 1: // delete a byte
		i := r.Intn(len(s))
		return s[:i] + s[i+1:]
	case 2: // duplicate a chunk
		i := r.Intn(len(s))
		j := i + r.Intn(len(s)-i)
		return s[:j] + s[i:j] + s[j:]
	case 3: // insert a token
		i := r.Intn(len(s) + 1)
		toks := []string{")", "(", "]", "[", ":", "?", "?:", ",", " and ", "'", "$", ".", "?.", "-", " not ", "|", "}", "{", "0x", "1e", "\\", "*", "[:", " 1 2 ", "$x.1a", "99999999999999999999", "'\\u12'", "'\\q'"}
		return s[:i] + toks[r.Intn(len(toks))] + s[i:]
	case 4: // swap two halves
		i := r.Intn(len(s))
		return s[i:] + s[:i]
	default: // random byte
		i := r.Intn(len(s))
		return s[:i] + string([]byte{byte(r.Intn(256))}) + s[i+1:]
	}
}

func genParseExpr(g *G) {
	n := g.N(8000, 150000)
	eg := &exprGen{r: g.R, funcs: true, redundantParens: 15, illTyped: 10, rawBytes: 8}
	add := func(src, class string) {
		toks, hasFloat := itemsWire(src, true)
		g.Add(Case{Req: req("parseexpr", hxs(src), toks), NT: strings.Count(toks, ";") >= 3, Class: class, Note: src, NoModel: hasFloat && !haveF64})
	}
	for _, h := range []string{"", " ", "1", "1 2 3", "(", ")", "[", "[:", "[:]", "[1,", "f(", "f(1", "$a[", "$a?.b?[0]", "a.b.c", "1 ? 2", "1 ? 2 : 3 : 4 : 5", "- - 1", "not", "'a", "$", "$a.1a", "0x", "08", "1.", "99999999999999999999", "-9223372036854775808", "9223372036854775808", "0x7FFFFFFFFFFFFFFF", "0x8000000000000000", "['a': 1, 'a': 2]", "[1: 2]", "['a': 1, 2: 3]", "'\\u00e9\\n\\'\\\\'", "'\\q'", "'\\u12'", "$a.b.c[1]['k'].3?.4",
		// string literals that are not valid UTF-8, with and without escapes (fast and slow path of unquoteString)
		"'\xff'", "'\xff\\n'", "'\xc3'", "'\xc3\\''", "['\xff\\'x': 1]", "['\xff': 1]", "'\xe2\x82\\t\xac'", "'\\\xff'", "'\xef\xbf\xbd\\n'", "'\xed\xa0\x80\\\\'", "'\\u00ff\xff'", "'a\xf0\x9f\x98\x80\\n\xf0\x9f'"} {
		add(h, "hand")
	}
	for i := 0; i < n; i++ {
		src := eg.expr(1+g.R.Intn(4), tAny)
		if g.R.Intn(3) == 0 {
			src = mutateSrc(g.R, src)
			if g.R.Intn(4) == 0 {
				src = mutateSrc(g.R, src)
			}
			add(src, "mutated")
		} else {
			add(src, "valid")
		}
	}
}
