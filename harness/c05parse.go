package main

import (
	"os"
	"path/filepath"
	"strconv"
	"strings"
	"time"

	"github.com/robfig/soy/parse"
)

// C05parse — sub-check of C05/C19: the file-level parser model (Model/FileParser.lean)
// against parse.SoyFile, tree by tree (every node with its position) or error line/col.
//   parsefile2: the model parser consumes the REAL lexer's tokens
//   parsesrc:   lexer model composed with the parser model (no real tokens)
//   gounquote:  the model of strconv.Unquote used for attribute values

func parseFileAnswer(name, src string) string {
	f, err := parse.SoyFile(name, src) // a runtime panic propagates to answer() -> PANIC
	if err != nil {
		return errClass(err)
	}
	return "OK " + sxFile(f)
}

func init() {
	implOps["parsefile2"] = func(f []string) string {
		name, _ := unhx(f[0])
		src, _ := unhx(f[1])
		return parseFileAnswer(string(name), string(src))
	}
	implOps["parsesrc"] = func(f []string) string {
		name, _ := unhx(f[0])
		src, _ := unhx(f[1])
		return parseFileAnswer(string(name), string(src))
	}
	implOps["gounquote"] = func(f []string) string {
		s, _ := unhx(f[0])
		v, err := strconv.Unquote(string(s))
		if err != nil {
			return "ERR"
		}
		return "OK " + hxs(v)
	}
	register(&Prop{
		ID: "C05parse",
		Rule: "parse.SoyFile(name, src) vs the file-parser model, twice per input: on the real lexer's tokens (parsefile2) and composed with the lexer model (parsesrc): " +
			"tree with every position, or error line/col, or PANIC/HANG.  Inputs: valid generated bundles, testdata, sample files; every prefix of a rotating subset; " +
			"tag-dictionary sequences at file, template and block level (if/for/switch/msg/plural/call/param/let/log/literal/css contexts); byte and token mutations; random bytes; " +
			"attribute values through strconv.Unquote (gounquote).  non-trivial = a tree with at least 3 nodes or an error beyond the first 8 bytes; distinct by (op,input)",
		Gen:     genC05parse,
		Timeout: 5 * time.Second,
		Canon: func(impl string) string {
			if impl == "CRASH" || strings.HasPrefix(impl, "PANIC") {
				return "PANIC"
			}
			return impl
		},
		NTOf: func(c *Case, impl string) bool {
			if strings.HasPrefix(impl, "OK ") {
				return strings.Count(impl, "(") >= 4
			}
			return strings.HasPrefix(impl, "ERR") && len(c.Req) > 40
		},
		Oracle: func(c *Case, impl string) *Viol {
			switch {
			case strings.HasPrefix(impl, "PANIC"):
				return &Viol{What: "the parser panics with a runtime error"}
			case impl == "HANG" || impl == "OOM":
				return &Viol{What: "the parser does not terminate"}
			case impl == "ERR ? ?":
				return &Viol{What: "the error carries no file position"}
			}
			return nil
		},
		KeyOf: func(c *Case, impl string) string {
			cl := "parse-panic"
			if impl == "HANG" || impl == "OOM" {
				cl = "parse-hang"
			} else if impl == "ERR ? ?" {
				cl = "parse-nopos"
			}
			return cl + ":" + c.Note
		},
	})
}

func parseCases(g *G, src, class string) {
	toks, hasFloat := itemsWire(src, false)
	nm := hxs("f.soy")
	g.Add(Case{Req: req("parsefile2", nm, hxs(src), toks), Class: "real-tokens/" + class, Note: quote([]byte(src)), NoModel: hasFloat && !haveF64})
	g.Add(Case{Req: req("parsesrc", nm, hxs(src)), Class: "model-tokens/" + class, Note: quote([]byte(src)), NoModel: hasFloat && !haveF64})
}

// ---- tag dictionary ------------------------------------------------------------

var parseOpeners = []string{
	"{namespace a.b}", "{namespace a autoescape=\"false\"}", "{namespace a autoescape=\"contextual\"}", "{namespace a autoescape=\"bogus\"}", "{namespace a b=\"c\"}", "{namespace}", "{namespace a.}",
	"{alias x.y.z}", "{alias q}", "{alias}", "{alias a b}",
	"{delpackage p}",
	"/** @param a @param? b\n * text */", "/** */", "/**\n * @param a\n * @param? b\n */",
	"{template .t}", "{template .t private=\"true\"}", "{template .t private=\"maybe\"}", "{template .t autoescape=\"true\" kind=\"html\"}", "{template t}", "{template .t x=\"y\"}", "{template .t private='t'}", "{template .t private=\"\\x74rue\"}",
	"{@param p: int}", "{@param? q: list<string> = ['a']}", "{@param r: ? = 1 + }", "{@param s}", "{@param s: }",
	"{if $a}", "{if}", "{if $a}}", "{elseif $b}", "{elseif}", "{else}", "{else $x}", "{/if}",
	"{for $i in $l}", "{foreach $i in range(3)}", "{for $i of $l}", "{for i in $l}", "{for $i in}", "{ifempty}", "{/for}", "{/foreach}",
	"{switch $s}", "{switch}", "{case 1}", "{case 1, 'a', $b}", "{case}", "{case 1,}", "{default}", "{default 1}", "{/switch}",
	"{msg desc=\"d\"}", "{msg desc=\"d\" meaning=\"m\" hidden=\"true\"}", "{msg meaning=\"m\"}", "{msg desc='d'}", "{msg desc=\"a\\tb\\u00e9\\x41\\101\"}", "{msg desc=\"d\" desc=\"e\"}", "{/msg}",
	"{plural $n}", "{plural length($l) + 1}", "{case 0}", "{case 'a'}", "{case 1, 2}", "{/plural}",
	"{call .u}", "{call .u /}", "{call .u data=\"all\"}", "{call .u data=\"all\" /}", "{call .u data=\"$d\" /}", "{call .u data=\"$d +\" /}", "{call .u data=\"1 2 3\" /}", "{call x.u /}", "{call q.r.u /}", "{call name=\".u\" /}", "{call name=\"\" /}", "{call /}", "{call a}", "{call .u data=\"\\\"\" /}", "{call .u data=\"'\" /}", "{/call}",
	"{call y.u /}", "{call z.u /}{call y.z.u /}", "{call .u data=\"$dddddddddddddddddddd + \" /}", "{call .u}{param k value=\"$dddddddddddddddddddd + \" /}{/call}", "{css $dddddddddddddddddddd +, c}",
	"{param key=\"a\" key=\"b\" value=\"1\" /}", "{msg desc=\"d\" desc=\"e\"}x{/msg}", "{call .u data=\"$a\" data=\"$b\" /}",
	"{param a: 1 /}", "{param a}", "{param a: 1}", "{param key=\"a\" value=\"1\" /}", "{param key=\"a\"}", "{param a kind=\"text\"}", "{param value=\"1\" /}", "{param a value=\"1 +\" /}", "{param 1}", "{param}", "{/param}",
	"{let $x: 1 /}", "{let $x: 1}", "{let $x}", "{let $x kind=\"text\"}", "{let x: 1 /}", "{let $x : }", "{/let}",
	"{log}", "{/log}", "{debugger}", "{debugger x}",
	"{literal}", "{literal} {a} {/literal}", "{/literal}",
	"{css a}", "{css $x, a-b}", "{css $x +, c}", "{css ,}", "{css a,b,c}", "{css \u00a0a\u2028, b\u3000}", "{css}",
	"{sp}", "{nil}", "{\\n}", "{\\r}", "{\\t}", "{lb}", "{rb}", "{sp x}",
	"{$a}", "{print $a}", "{$a|escapeHtml}", "{$a|truncate:5,true|id}", "{$a|}", "{$a|d:}", "{$a|d 1}", "{print}", "{1 + 2}", "{'s'}", "{not $a}", "{-$a}", "{[1, 2]}", "{(1)}", "{null}", "{true}", "{1.5}", "{f(1)}", "{a.b}",
	"{$a ? 1 : 2}", "{$a ?: $b}", "{$a.b?.c[0]}", "{$a", "{", "}", "{}", "{{$a}}", "{x y}", "{/}", "{/template}",
	"hello", " ", "\n", " world\n  and ", "<b>", "</b>", "<a href=\"x\">", "<br/>", "< b>", "<1", "<", ">", "a > b", "<a\n>", "</>", "<\xffb>", "é",
	"// c\n", " // c\n", "/* c */", "/* c", "\n// c", "x // y\n",
}

var parseContexts = []struct{ pre, post string }{
	{"", ""},
	{"{namespace a}\n", ""},
	{"{namespace a}\n{template .t}\n", "\n{/template}\n"},
	{"{namespace a}\n{template .t}{if $c}", "{/if}{/template}"},
	{"{namespace a}\n{template .t}{for $i in $l}", "{/for}{/template}"},
	{"{namespace a}\n{template .t}{switch $s}{case 1}", "{/switch}{/template}"},
	{"{namespace a}\n{template .t}{switch $s}", "{/switch}{/template}"},
	{"{namespace a}\n{template .t}{msg desc=\"d\"}", "{/msg}{/template}"},
	{"{namespace a}\n{template .t}{msg desc=\"d\"}{plural $n}{case 1}", "{default}x{/plural}{/msg}{/template}"},
	{"{namespace a}\n{template .t}{msg desc=\"d\"}{plural $n}", "{/plural}{/msg}{/template}"},
	{"{namespace a}\n{template .t}{call .u}", "{/call}{/template}"},
	{"{namespace a}\n{template .t}{call .u}{param p}", "{/param}{/call}{/template}"},
	{"{namespace a}\n{template .t}{let $x}", "{/let}{/template}"},
	{"{namespace a}\n{template .t}{log}", "{/log}{/template}"},
	{"{namespace a}\n{template .t}{msg desc=\"d\"}{log}", "{/log}{/msg}{/template}"},
	{"{namespace a}\n{alias x.y}{template .t}", "{/template}"},
}

var parseHand = []string{
	"", "{", "}", "{namespace a}", "{namespace a}{namespace b}", "{template .t}{/template}", "{template .t}x",
	"{namespace a}{template .t}{msg desc=\"d\"}a{plural $n}{case 1}x{default}y{/plural}{/msg}{/template}",
	"{namespace a}{template .t}{msg desc=\"d\"}{plural $n}{case 1}x{default}y{/plural}{/msg}{/template}",
	"{namespace a}{template .t}{msg desc=\"d\"}{plural $n}{case 1}x{/plural}{/msg}{/template}",
	"{namespace a}{template .t}{msg desc=\"d\"}{plural $n}{default}x{default}y{case 2}{plural $m}{default}z{/plural}{/plural}{/msg}{/template}",
	"{namespace a}{template .t}{msg desc=\"d\"}{log}{plural $n}{default}x{/plural}{/log}{/msg}{/template}",
	"{namespace a}{template .t}{msg desc=\"d\"}{let $x}{plural $n}{default}x{/plural}{/let}{/msg}{/template}",
	"{namespace a}{template .t}{msg desc=\"d\"}{call .u}{param p}{plural $n}{default}x{/plural}{/param}{/call}{/msg}{/template}",
	"{namespace a}{template .t}{msg desc=\"d\"}{template .u}{plural $n}{default}x{/plural}{/template}{/msg}{/template}",
	"{namespace a}{template .t}{msg desc=\"d\"}Hello <b class=\"x\">{$name}</b><br/> 1 < 2 > 0 <a\nhref=x>{call .u/}{/msg}{/template}",
	"{namespace a}{template .t}{msg desc=\"d\"}{if $x}{/if}{/msg}{/template}",
	"{namespace a}{template .t}{msg desc=\"d\"}{msg desc=\"e\"}{/msg}{/msg}{/template}",
	"{namespace a}{template .t}{plural $n}{default}x{/plural}{/template}",
	"{namespace a}{template .t}{switch $x}{case 1}a{default}b{case 2}c{/switch}{/template}",
	"{namespace a}{template .t}{switch $x} \n {case 1}a{/switch}{/template}",
	"{namespace a}{template .t}{switch $x} x {case 1}a{/switch}{/template}",
	"{namespace a}{template .t}{switch $x}// c\n{case 1}a/* d */{/switch}{/template}",
	"{namespace a}{template .t}{switch $x}{case 1}a{/plural}{/template}",
	"{namespace a}{template .t}{call .u}{param a: 1/} // c\n /* d */ {param b}x{/param}\n{/call}{/template}",
	"{namespace a}{template .t}{call .u} orphan {param a: 1/}{/call}{/template}",
	"{namespace a}{template .t}{call .u}{param a: 1/}{/template}",
	"{namespace a}{template .t}{call .u}{$x}{/call}{/template}",
	"{namespace a}{alias b.c.d}{template .t}{call d.u/}{call d.e.u/}{call c.u/}{call .u/}{/template}",
	"{namespace a}{alias b.c.d}{alias e}{alias f.d}{template .t}{call d.u/}{call e.u/}{call b.u/}{/template}",
	"{template .t}{namespace b}{/template}{template .u}{/template}",
	"{template .t}{call .u/}{namespace b.c}{call .u/}{/template}",
	"{namespace a}{template .t}{if $a}1{elseif $b}2{else}3{elseif $c}4{/if}{/template}",
	"{namespace a}{template .t}{if $a}1{else}2{else}3{/if}{/template}",
	"{namespace a}{template .t}{for $i in $l}a{ifempty}b{ifempty}c{/for}{/template}",
	"{namespace a}{template .t}{for $i in $l}a{/foreach}{foreach $i in $l}a{/for}{/template}",
	"{namespace a}{template .t}a // c\n b /* d */ c{sp}{nil}// e\n{/template}",
	"{namespace a}{template .t}{css $a, b}{css $a $b, c}{css (, c}{/template}",
	"{namespace a}{template .t}{literal}{/literal}{/template}",
	"{namespace a}{template .t}{literal}x{/literal}{/template}",
	"{namespace a}{template .t}{$x|a:1|b:2,3|c}{/template}",
	"{namespace a}{template .t}{let $x kind=\"html\"}b{/let}{let $y: $x/}{/template}",
	"{namespace a}{template .t}{@param a: int}{@param? b: string = 'x'}{$a}{/template}",
	"{namespace a}\n\n{template .t}\n  {$a\n  +}\n{/template}",
	"{namespace a}\n{template .t}\n{call .u data=\"\n\n$x +\"/}\n{/template}",
	"{namespace a}\n{template .t}\n{call .u}{param k value=\"(\"/}{/call}\n{/template}",
	"{namespace a}\n{template .t}\n'unclosed\n{$x + 'abc\n{/template}",
	"{namespace a}\n{template .t}\n{literal}never closed\n{/template}",
	"{namespace a}\n{template .t}\n/* never closed\n{/template}",
	"{namespace a}\n{template .t}\n/** never closed\n{/template}",
	"{namespace a}\n{template .t}\n{css never closed\n",
}

func parseSamples() []string {
	var out []string
	filepath.Walk("/repo/testdata", func(p string, info os.FileInfo, err error) error {
		if err == nil && !info.IsDir() && strings.HasSuffix(p, ".soy") {
			if b, e := os.ReadFile(p); e == nil {
				out = append(out, string(b))
			}
		}
		return nil
	})
	out = append(out, lexSamples...)
	out = append(out, c18Files...)
	return out
}

func genC05parse(g *G) {
	for _, s := range parseHand {
		parseCases(g, s, "hand")
	}
	// string literals whose escapes are cut off at every point (a surrogate-pair escape, \u, \x-like, octal-like, a
	// lone backslash before the closing quote), single- and double-quoted, in a print tag and in a quoted attribute
	for _, full := range []string{`\uD83D\uDE00`, `\uD83D\u00e9`, `\uDE00\uD83D`, `\u00e9`, `\uD83D\n`, `\uD83D\\`, `\uD83Dxyz`, `\x41`, `\101`, `\U0001F600`} {
		for cut := 1; cut <= len(full); cut++ {
			p := full[:cut]
			parseCases(g, "{namespace a}\n{template .t}\n{'"+p+"'}\n{/template}\n", "cut-escape")
			parseCases(g, "{namespace a}\n{template .t}\n{'a"+p+"b' + \""+p+"\"}\n{/template}\n", "cut-escape")
			parseCases(g, "{namespace a}\n{template .t}\n{call .t data=\"['k': '"+p+"']\"/}{msg desc=\""+p+"\"}x{/msg}\n{/template}\n", "cut-escape")
		}
	}
	samples := parseSamples()
	for _, s := range samples {
		parseCases(g, s, "sample")
	}
	// every dictionary entry in every context
	for ci, c := range parseContexts {
		for _, d := range parseOpeners {
			if g.Quick() && (ci*7+len(d))%3 != int(g.Seed%3+3)%3 {
				continue // quick tier: a rotating third of the (context, entry) grid
			}
			parseCases(g, c.pre+d+c.post, "dict-in-context")
		}
	}
	// random sequences of dictionary entries in a random context
	n := g.N(1500, 40000)
	for i := 0; i < n; i++ {
		c := parseContexts[g.R.Intn(len(parseContexts))]
		var sb strings.Builder
		sb.WriteString(c.pre)
		for k := 1 + g.R.Intn(6); k > 0; k-- {
			sb.WriteString(g.R.Pick(parseOpeners))
		}
		if g.R.Chance(3, 4) {
			sb.WriteString(c.post)
		}
		parseCases(g, sb.String(), "seq")
	}
	// valid generated bundles, their prefixes and mutations
	bg := newBundleGen(g.R, bundleOpts{msgs: true, directives: true, calls: true})
	n = g.N(250, 8000)
	for i := 0; i < n; i++ {
		b := bg.bundle()
		src := b.files[g.R.Intn(len(b.files))].source()
		parseCases(g, src, "valid-bundle")
		parseCases(g, src[:g.R.Intn(len(src)+1)], "bundle-prefix")
		m := mutateSrc(g.R, src)
		if g.R.Chance(1, 3) {
			m = mutateSrc(g.R, m)
		}
		parseCases(g, m, "bundle-mutated")
		// token-level mutation: delete / duplicate / swap / replace by a dictionary entry
		toks := reLexTok.FindAllString(src, -1)
		if len(toks) > 2 {
			j := g.R.Intn(len(toks))
			switch g.R.Intn(4) {
			case 0:
				toks = append(toks[:j:j], toks[j+1:]...)
			case 1:
				toks = append(toks[:j+1:j+1], toks[j:]...)
			case 2:
				if j+1 < len(toks) {
					toks[j], toks[j+1] = toks[j+1], toks[j]
				}
			default:
				toks[j] = g.R.Pick(parseOpeners)
			}
			parseCases(g, strings.Join(toks, ""), "bundle-token-mutated")
		}
	}
	// every prefix of a rotating subset of the samples and of some sequences
	var pref []string
	for i, s := range samples {
		if !g.Quick() || (i+int(g.Seed))%6 == 0 {
			pref = append(pref, s)
		}
	}
	for _, s := range parseHand {
		if !g.Quick() || g.R.Chance(1, 6) {
			pref = append(pref, s)
		}
	}
	for _, s := range pref {
		step := 1
		if len(s) > 400 {
			step = 1 + len(s)/400
		}
		for i := 0; i <= len(s); i += step {
			parseCases(g, s[:i], "prefix")
		}
	}
	// mutations of the samples, random bytes
	n = g.N(600, 15000)
	for i := 0; i < n; i++ {
		s := g.R.Pick(samples)
		if g.R.Chance(1, 2) {
			s = g.R.Pick(parseHand)
		}
		s = mutateSrc(g.R, s)
		if g.R.Chance(1, 3) {
			s = mutateSrc(g.R, s)
		}
		parseCases(g, s, "sample-mutated")
	}
	n = g.N(300, 6000)
	alpha := []string{"{", "}", "/", "*", "$", "a", " ", "\n", "'", "\"", "=", ":", ",", "|", ".", "1", "if", "msg", "call", "param", "template", "namespace", "desc", "\xff", "é", "<", ">"}
	for i := 0; i < n; i++ {
		var sb strings.Builder
		for k := 1 + g.R.Intn(20); k > 0; k-- {
			if g.R.Chance(1, 10) {
				sb.WriteByte(byte(g.R.Intn(256)))
			} else {
				sb.WriteString(g.R.Pick(alpha))
			}
		}
		parseCases(g, sb.String(), "random")
	}
	// strconv.Unquote on attribute-like strings
	n = g.N(1500, 30000)
	frag := []string{"a", "b", " ", "\\n", "\\t", "\\\\", "\\\"", "\\'", "'", "\"", "\\x41", "\\xe9", "\\xff\\x80", "\\x4", "\\xg1", "\\u00e9", "\\u12", "\\ud800", "\\U0001F600", "\\U00110000", "\\101", "\\400", "\\08", "\\7", "\\a\\b\\f\\r\\v", "\\q", "\\", "\n", "é", "\xff", "\xe2\x82", "\U0001F600", "`"}
	for i := 0; i < n; i++ {
		q := g.R.Pick([]string{"\"", "\"", "\"", "'", ""})
		var sb strings.Builder
		sb.WriteString(q)
		for k := g.R.Intn(5); k > 0; k-- {
			sb.WriteString(g.R.Pick(frag))
		}
		if g.R.Chance(9, 10) {
			sb.WriteString(q)
		}
		if g.R.Chance(1, 20) {
			sb.WriteString("x")
		}
		s := sb.String()
		g.Add(Case{Req: req("gounquote", hxs(s)), Class: "gounquote", Note: "unquote " + quote([]byte(s))})
	}
}
