package main

import (
	"sort"
	"strings"

	"github.com/robfig/soy/parse"
)

func init() {
	tableWriters = append(tableWriters, func(dir string) {
		t := parse.VerifTables()
		var b strings.Builder
		b.WriteString("import SoyVerif.Model.Token\n\nnamespace SoyVerif.Gen.ParseTables\nopen SoyVerif.Model\n\n")
		// precedence map
		var names []string
		for k := range t.Precedence {
			names = append(names, k)
		}
		sort.Strings(names)
		b.WriteString("/-- parse.precedence (token type -> level); absent types have Go's zero value 0 -/\ndef precedence : List (ItemType × Nat) := [\n")
		for i, k := range names {
			if i > 0 {
				b.WriteString(",\n")
			}
			b.WriteString("  (.t" + k + ", " + itoa(t.Precedence[k]) + ")")
		}
		b.WriteString("]\n\n")
		b.WriteString("/-- token types for which parse.isBinaryOp holds -/\ndef binaryOps : List ItemType := [" + joinCtors(t.BinaryOps) + "]\n\n")
		b.WriteString("/-- token types for which parse.isUnaryOp holds -/\ndef unaryOps : List ItemType := [" + joinCtors(t.UnaryOps) + "]\n\n")
		b.WriteString("/-- token types after which the lexer reads '-' as the unary operator (probed by running lexNegative) -/\ndef unaryMinusAfter : List ItemType := [" + joinCtors(t.UnaryMinusAfter) + "]\n\n")
		// special chars
		names = names[:0]
		for k := range t.SpecialChars {
			names = append(names, k)
		}
		sort.Strings(names)
		b.WriteString("/-- parse.specialChars -/\ndef specialChars : List (ItemType × List UInt8) := [\n")
		for i, k := range names {
			if i > 0 {
				b.WriteString(",\n")
			}
			b.WriteString("  (.t" + k + ", " + leanBytes(t.SpecialChars[k]) + ")")
		}
		b.WriteString("]\n\n")
		// unescapes
		var rs []int
		for k := range t.Unescapes {
			rs = append(rs, int(k))
		}
		sort.Ints(rs)
		b.WriteString("/-- parse.unescapes (escape letter -> rune) -/\ndef unescapes : List (Nat × Nat) := [")
		for i, k := range rs {
			if i > 0 {
				b.WriteString(", ")
			}
			b.WriteString("(" + itoa(k) + ", " + itoa(int(t.Unescapes[rune(k)])) + ")")
		}
		b.WriteString("]\n\nend SoyVerif.Gen.ParseTables\n")
		writeGen(dir, "ParseTables.lean", b.String())
	})
}

func joinCtors(names []string) string {
	var out []string
	for _, n := range names {
		out = append(out, ".t"+n)
	}
	return strings.Join(out, ", ")
}
