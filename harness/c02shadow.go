package main

import (
	"strings"
)

// C02shadow: the innermost binding of a name wins, whatever its VALUE is (undefined, null and the falsy values
// included) — lexical scoping does not look at values.  Every template is rendered twice: with an outer binding
// of the same name (param, let, loop variable, key of the data passed to a callee) and with that outer binding
// renamed; the two renders must be identical, because the reader can only see the inner binding.

func init() {
	register(&Prop{
		ID: "C02shadow",
		Rule: "matrix: inner binder {let value, let in nested block, call param with data=all / data=$m / no data} x inner value {undefined (absent optional param, absent map key), null, 0, '', false, 5, 'v', [], [:]} x outer binding of the same name {param, let, loop variable, key of the passed data} x reader {?:, if, isNonnull, and, or, not, ternary, print}; " +
			"oracle: the render equals the render of the same template with the OUTER binding renamed (the inner binding shadows it whatever its value); non-trivial = the inner value is undefined, null or falsy",
		Direct: directC02shadow,
	})
}

func directC02shadow(g *G, rep *Report) {
	inners := []struct{ expr, kind string }{
		{"$u", "undefined-param"}, {"$mm.nokey", "undefined-key"}, {"$mm?.nokey", "undefined-nullsafe"}, {"null", "null"}, {"0", "zero"}, {"''", "empty-string"}, {"false", "false"},
		{"5", "int"}, {"'v'", "string"}, {"[]", "empty-list"}, {"[:]", "empty-map"}, {"0.0", "float-zero"},
	}
	readers := []string{"{$NAME ?: 'D'}", "{if $NAME}T{else}F{/if}", "{isNonnull($NAME)}", "{$NAME and true}", "{$NAME or false}", "{not $NAME}", "{$NAME ? 'a' : 'b'}", "{if isNonnull($NAME)}{$NAME}{/if}", "[{$NAME}]"}
	type shape struct {
		name string
		// %O = outer name, %I = inner expression, %R = reader over the inner name x
		caller, callee string
	}
	shapes := []shape{
		{"let-over-param", "/** @param %O\n @param? u\n @param mm */\n{template .t}\n{$%O}{let $x: %I /}%R{if false}{$u}{$mm}{/if}\n{/template}\n", ""},
		{"let-over-let", "/** @param? u\n @param mm */\n{template .t}\n{let $%O: 'OUT' /}{$%O}{if true}{let $x: %I /}%R{/if}{if false}{$u}{$mm}{/if}\n{/template}\n", ""},
		{"let-over-loopvar", "/** @param? u\n @param mm */\n{template .t}\n{foreach $%O in ['OUT']}{$%O}{if true}{let $x: %I /}%R{/if}{/foreach}{if false}{$u}{$mm}{/if}\n{/template}\n", ""},
		{"let-in-loop-over-param", "/** @param %O\n @param? u\n @param mm */\n{template .t}\n{$%O}{foreach $k in [1, 2]}{let $x: %I /}%R{/foreach}{if false}{$u}{$mm}{/if}\n{/template}\n", ""},
		{"param-over-data-all", "/** @param %O\n @param? u\n @param mm */\n{template .t}\n{$%O}{call .c data=\"all\"}{param x: %I /}{/call}{if false}{$u}{$mm}{/if}\n{/template}\n", "/** @param? x\n @param? %O */\n{template .c}\n%R{if false}{$%O}{/if}\n{/template}\n"},
		{"param-over-data-expr", "/** @param dd\n @param? u\n @param mm */\n{template .t}\n{call .c data=\"$dd\"}{param x: %I /}{/call}{if false}{$u}{$mm}{/if}\n{/template}\n", "/** @param? x\n @param? %O */\n{template .c}\n%R{if false}{$%O}{/if}\n{/template}\n"},
		{"param-no-data", "/** @param %O\n @param? u\n @param mm */\n{template .t}\n{$%O}{call .c}{param x: %I /}{/call}{if false}{$u}{$mm}{/if}\n{/template}\n", "/** @param? x */\n{template .c}\n%R\n{/template}\n"},
	}
	for _, sh := range shapes {
		for _, in := range inners {
			for ri, rd := range readers {
				if g.Quick() && (ri+len(in.kind)+len(sh.name))%2 == 1 && !strings.HasPrefix(in.kind, "undefined") {
					continue
				}
				build := func(outer string) []srcFile {
					rep := strings.NewReplacer("%O", outer, "%I", in.expr, "%R", strings.ReplaceAll(rd, "NAME", "x"))
					return []srcFile{{"s.soy", "{namespace s}\n" + rep.Replace(sh.caller) + rep.Replace(sh.callee)}}
				}
				render := func(outer string) (string, string) {
					reg, err := compileBundle(build(outer))
					if err != nil {
						return "", "COMPILE-ERR " + err.Error()
					}
					d := map[string]interface{}{outer: "OUT", "mm": map[string]interface{}{"k": int64(1)}, "dd": map[string]interface{}{outer: "OUT"}}
					return renderSafe(reg, "s.t", toData(d), nil)
				}
				withOuter, c1 := render("x")
				renamed, c2 := render("y")
				rep.Evaluations++
				rep.Distribution[sh.name+":"+firstWord(c1)]++
				if strings.HasPrefix(c1, "COMPILE-ERR") || strings.HasPrefix(c2, "COMPILE-ERR") {
					if ce, _ := rep.Extra["compile_errors"].([]string); len(ce) < 8 {
						rep.Extra["compile_errors"] = append(ce, sh.name+": "+c1+" / "+c2)
					}
					if c1 != c2 && len(rep.Violations) < 20 {
						rep.Violations = append(rep.Violations, Viol{Key: "c02shadow:compile:" + sh.name, What: "the template compiles or not depending on the NAME of an outer binding", Req: req("c02shadow", encSources(build("x"))), Note: sh.name + " " + in.kind, Impl: c1, Want: c2})
					}
					continue
				}
				if withOuter != renamed || c1 != c2 {
					if len(rep.Violations) < 20 {
						rep.Violations = append(rep.Violations, Viol{Key: "c02shadow:" + sh.name + ":" + in.kind, What: "an outer binding of the same name shows through an inner binding whose value is " + in.kind + " (shape " + sh.name + ", reader " + rd + ")",
							Req: req("c02shadow", encSources(build("x"))), Note: sh.name + " inner=" + in.expr + " reader=" + rd, Impl: c1 + " " + quote([]byte(withOuter)), Want: c2 + " " + quote([]byte(renamed))})
					}
					continue
				}
				if in.kind != "int" && in.kind != "string" {
					rep.DistinctNT++
				}
			}
		}
	}
	// a binder binds ITS OWN name only: whatever bookkeeping a loop keeps for index/isFirst/isLast must not hide
	// other variables, however they are named (names built from the loop variable's name with the usual suffixes
	// of generated identifiers)
	for _, lv := range []string{"a", "x1", "item"} {
		for _, sfx := range []string{"__index", "__lastIndex", "_index", "Index", "__limit", "__isFirst", "__isLast", ".index"} {
			other := lv + sfx
			if strings.Contains(other, ".") {
				continue
			}
			for li, loop := range []string{"{foreach $" + lv + " in $l}[{$" + other + "}{index($" + lv + ")}]{/foreach}", "{for $" + lv + " in range(2)}[{$" + other + "}{isLast($" + lv + ")}]{/for}",
				"{let $" + other + ": 'L' /}{foreach $" + lv + " in $l}[{$" + other + "}]{/foreach}"} {
				hdr := "/** @param " + other + "\n @param l */\n"
				if li == 2 {
					hdr = "/** @param l */\n"
				}
				fs := []srcFile{{"s.soy", "{namespace s}\n" + hdr + "{template .t}\n" + loop + "\n{/template}\n"}}
				reg, err := compileBundle(fs)
				rep.Evaluations++
				if err != nil {
					continue
				}
				out, cls := renderSafe(reg, "s.t", toData(map[string]interface{}{other: "P", "l": []interface{}{"u", "v"}}), nil)
				want := map[int]string{0: "[P0][P1]", 1: "[Pfalse][Ptrue]", 2: "[L][L]"}[li]
				if cls != "OK" || out != want {
					if len(rep.Violations) < 20 {
						rep.Violations = append(rep.Violations, Viol{Key: "c02shadow:loop-hides-other-name:" + sfx, What: "inside a loop over $" + lv + " the variable $" + other + " (a param or let of its own) does not have its own value",
							Req: req("c02shadow", encSources(fs)), Note: loop, Impl: cls + " " + quote([]byte(out)), Want: "OK " + quote([]byte(want))})
					}
				} else {
					rep.DistinctNT++
				}
			}
		}
	}
	rep.Samples = append(rep.Samples, "{let $x: $u /}{$x ?: 'D'} under a param x = 'OUT' renders D")
}
