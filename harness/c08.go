package main

import (
	"bytes"
	"crypto/sha256"
	"encoding/hex"
	"fmt"
	"reflect"
	"runtime"
	"sort"
	"strconv"

	"github.com/robfig/soy/ast"
	"github.com/robfig/soy/data"
	"github.com/robfig/soy/soyhtml"
	"github.com/robfig/soy/soyjs"
	"github.com/robfig/soy/soymsg"
	"github.com/robfig/soy/template"
)

// C08hist: histories of renders over one compiled bundle.  After EVERY operation a deep
// structural digest (reflection walk incl. unexported fields, slice len AND cap, map contents
// sorted, pointer targets) of the registry, of every data map and of $ij must equal the
// digest taken before the first operation; and the same (template, data) must render the same
// bytes wherever it occurs in the history.

func init() {
	register(&Prop{
		ID: "C08hist",
		Rule: "generated bundles; histories of 2-30 operations mixing renders of all templates with several data sets (shared data maps, shared $ij), failing renders (missing params, hostile data), renders with a message-less bundle, and JS generation, " +
			"with and without an obligatory print directive and a custom function installed; oracle: deep digest of registry + data + ij unchanged after every operation, equal (template,data) => equal bytes and equal error class; " +
			"non-trivial = a history in which some (template,data) pair recurs after a different operation",
		Direct: directC08,
	})
}

// deepDigest hashes the structure reachable from v.
func deepDigest(vs ...interface{}) string {
	h := sha256.New()
	seen := map[uintptr]bool{}
	for _, v := range vs {
		digestValue(h, reflect.ValueOf(v), seen, 0)
	}
	return hex.EncodeToString(h.Sum(nil)[:12])
}

type hashWriter interface{ Write([]byte) (int, error) }

func digestValue(h hashWriter, v reflect.Value, seen map[uintptr]bool, depth int) {
	if !v.IsValid() {
		h.Write([]byte("<invalid>"))
		return
	}
	if depth > 200 {
		h.Write([]byte("<deep>"))
		return
	}
	fmt.Fprintf(h, "%s:", v.Kind())
	switch v.Kind() {
	case reflect.Bool:
		fmt.Fprint(h, v.Bool())
	case reflect.Int, reflect.Int8, reflect.Int16, reflect.Int32, reflect.Int64:
		fmt.Fprint(h, v.Int())
	case reflect.Uint, reflect.Uint8, reflect.Uint16, reflect.Uint32, reflect.Uint64, reflect.Uintptr:
		fmt.Fprint(h, v.Uint())
	case reflect.Float32, reflect.Float64:
		fmt.Fprint(h, v.Float())
	case reflect.String:
		fmt.Fprintf(h, "%d:%s", v.Len(), v.String())
	case reflect.Ptr:
		if v.IsNil() {
			h.Write([]byte("nil"))
			return
		}
		if seen[v.Pointer()] {
			h.Write([]byte("<seen>"))
			return
		}
		seen[v.Pointer()] = true
		digestValue(h, v.Elem(), seen, depth+1)
	case reflect.Interface:
		if v.IsNil() {
			h.Write([]byte("nil"))
			return
		}
		fmt.Fprintf(h, "%s:", v.Elem().Type())
		digestValue(h, v.Elem(), seen, depth+1)
	case reflect.Slice:
		if v.IsNil() {
			h.Write([]byte("nil"))
			return
		}
		fmt.Fprintf(h, "len%d:cap%d:", v.Len(), v.Cap())
		for i := 0; i < v.Len(); i++ {
			digestValue(h, v.Index(i), seen, depth+1)
		}
		// the hidden tail of the backing array (between len and cap) is also shared state
		if v.Cap() > v.Len() {
			tail := v.Slice3(0, v.Cap(), v.Cap())
			for i := v.Len(); i < v.Cap(); i++ {
				digestValue(h, tail.Index(i), seen, depth+1)
			}
		}
	case reflect.Array:
		for i := 0; i < v.Len(); i++ {
			digestValue(h, v.Index(i), seen, depth+1)
		}
	case reflect.Map:
		if v.IsNil() {
			h.Write([]byte("nil"))
			return
		}
		keys := v.MapKeys()
		ks := make([]string, len(keys))
		idx := map[string]reflect.Value{}
		for i, k := range keys {
			ks[i] = fmt.Sprint(k)
			idx[ks[i]] = k
		}
		sort.Strings(ks)
		fmt.Fprintf(h, "len%d:", len(ks))
		for _, k := range ks {
			fmt.Fprintf(h, "%s=>", k)
			digestValue(h, v.MapIndex(idx[k]), seen, depth+1)
		}
	case reflect.Struct:
		for i := 0; i < v.NumField(); i++ {
			fmt.Fprintf(h, "%s:", v.Type().Field(i).Name)
			digestValue(h, v.Field(i), seen, depth+1)
		}
	case reflect.Func, reflect.Chan, reflect.UnsafePointer:
		h.Write([]byte("<opaque>"))
	default:
		h.Write([]byte("<other>"))
	}
}

// probe templates added to every bundle: content blocks (let / param / log) whose inside can fail, a
// translated message followed by a {let} that shadows a param, an obligatory-directive-sensitive print.
const c08Probe = `{namespace probe}

/**
 * @param? u
 * @param visits
 */
{template .blk}
{let $c}Profile of {$u.name} {/let}{$c}
{call .wrap}{param body}inner {$u.name}{/param}{/call}
{log}log {$u.name}{/log}
{msg desc="greeting"}Hi {$visits}{/msg}
{let $visits: $visits + 1 /}#{$visits}
{/template}

/** @param body */
{template .wrap}
[{$body|noAutoescape|truncate:40}]
{/template}

/**
 * @param? u
 * @param? e
 */
{template .calls}
{call .show data="augmentMap($u, $e)"}{param name: 'P' /}{/call}
{call .show data="augmentMap($e, $u)"}{param name}Q{/param}{/call}
{call .show data="$u"}{param name: 'R' /}{param extra: 1 /}{/call}
{call .show data="$u.inner"}{param name: 'S' /}{/call}
{call .show data="$u?.inner"}{param extra}T{/param}{/call}
{call .show data="['name': 'lit']"}{param name: 'U' /}{/call}
{call .show data="[:]"}{param name: 'V' /}{/call}
{call .show data="$ij.m"}{param name: 'W' /}{/call}
{call .show data="all"}{param name: 'X' /}{param u: 'shadow' /}{/call}
{call .show data="$e ?: $u"}{param name: 'Y' /}{/call}
{/template}

/**
 * @param? name
 * @param? extra
 * @param? u
 */
{template .show}
<{$name}{$extra ?: ''}{if $u}.{/if}>
{/template}

/**
 * @param? u
 * @param? e
 */
{template .keys}
{foreach $k in keys($u)}{$k}={$u[$k]};{/foreach}|{foreach $k in keys(augmentMap($u, $e))}{$k},{/foreach}|{length(keys(['p': $u.zz.y, 'q': $e.zz.y, 'r': $u.name.x.y]))}
{/template}

/** @param name */
{template .greetA}
{msg desc="greeting"}Hello {$name}!{/msg}
{/template}

/** @param u */
{template .greetB}
{msg desc="greeting"}Hello {$u.name}!{/msg}
{/template}

/** @param visits */
{template .ok}
{let $d}Hello {/let}{$d}world{call .wrap}{param body}b{/param}{/call}
{msg desc="count"}You came {$visits} times{/msg}{let $visits: $visits * 2 /}{$visits}
{/template}
`

// memBundle is an in-memory soymsg.Bundle with the identity translation of every flat message.
type memBundle struct{ msgs map[uint64]*soymsg.Message }

func (b memBundle) Locale() string                    { return "xx" }
func (b memBundle) Message(id uint64) *soymsg.Message { return b.msgs[id] }
func (b memBundle) PluralCase(n int) int {
	if n == 1 {
		return 0
	}
	return 1
}

func identityBundle(reg *template.Registry) memBundle {
	b := memBundle{map[uint64]*soymsg.Message{}}
	var walk func(n ast.Node)
	walk = func(n ast.Node) {
		if m, ok := n.(*ast.MsgNode); ok {
			flat := true
			for _, c := range m.Body.Children() {
				if _, ok := c.(*ast.MsgPluralNode); ok {
					flat = false
				}
			}
			if flat {
				b.msgs[m.ID] = soymsg.NewMessage(m.ID, soymsg.PlaceholderString(m))
			}
			return
		}
		if p, ok := n.(ast.ParentNode); ok {
			for _, c := range p.Children() {
				if c != nil {
					walk(c)
				}
			}
		}
	}
	for _, t := range reg.Templates {
		walk(t.Node)
	}
	return b
}

type c08Op struct {
	kind string // render | js
	tmpl string
	di   int // index of the data set
	ij   bool
	msgs bool // render with the identity message bundle
}

func directC08(g *G, rep *Report) {
	nb := g.N(40, 800)
	bg := newBundleGen(g.R.Fork(), bundleOpts{msgs: true, directives: true, calls: true})
	r := g.R.Fork()
	for i := 0; i < nb; i++ {
		b := bg.bundle()
		fs := append(b.sources(), srcFile{"probe.soy", c08Probe})
		reg, err := compileBundle(fs)
		if err != nil {
			rep.Distribution["compile-error"]++
			continue
		}
		msgs := identityBundle(reg)
		cfg := "default"
		switch i % 3 {
		case 1:
			soyhtml.PrintDirectives["verifMark"] = soyhtml.PrintDirective{
				Apply: func(v data.Value, _ []data.Value) data.Value { return data.String(v.String() + "!") }, ValidArgLengths: []int{0}}
			soyhtml.ObligatoryPrintDirectiveNames = []string{"verifMark"}
			cfg = "obligatory-directive"
		case 2:
			soyhtml.Funcs["verifId"] = soyhtml.Func{Apply: func(a []data.Value) data.Value { return a[0] }, ValidArgLengths: []int{1}}
			soyhtml.ObligatoryPrintDirectiveNames = nil
			cfg = "custom-func"
		default:
			soyhtml.ObligatoryPrintDirectiveNames = nil
		}
		rep.Distribution["config:"+cfg]++
		// shared data sets: per template a good one, plus hostile ones shared by all
		var tmpls []*gTemplate
		for _, f := range b.files {
			tmpls = append(tmpls, f.tmpls...)
		}
		tmpls = append(tmpls, &gTemplate{ns: "probe", short: "blk"}, &gTemplate{ns: "probe", short: "ok"}, &gTemplate{ns: "probe", short: "blk"}, &gTemplate{ns: "probe", short: "ok"},
			&gTemplate{ns: "probe", short: "calls"}, &gTemplate{ns: "probe", short: "calls"}, &gTemplate{ns: "probe", short: "show"}, &gTemplate{ns: "probe", short: "keys"}, &gTemplate{ns: "probe", short: "keys"})
		var datas []data.Map
		for _, t := range tmpls {
			datas = append(datas, toData(bg.dataFor(t)))
		}
		datas = append(datas, toData(map[string]interface{}{"visits": int64(1), "u": map[string]interface{}{"name": "Ann"}}), toData(map[string]interface{}{"visits": int64(4)}))
		// data for probe.calls: maps handed to callees through every form of data="…" (empty and non-empty second maps)
		datas = append(datas,
			toData(map[string]interface{}{"u": map[string]interface{}{"name": "Ann", "inner": map[string]interface{}{"name": "In"}}, "e": map[string]interface{}{}}),
			toData(map[string]interface{}{"u": map[string]interface{}{"name": "Bob", "inner": map[string]interface{}{}}, "e": map[string]interface{}{"name": "E", "k": int64(1)}}),
			toData(map[string]interface{}{"u": map[string]interface{}{}, "e": map[string]interface{}{}}),
			// several keys: keys() and a map literal whose values fail must behave the same on every render
			toData(map[string]interface{}{"u": map[string]interface{}{"name": "Ann", "b": int64(2), "c": int64(3), "d": int64(4), "e": int64(5), "f": int64(6)}, "e": map[string]interface{}{"x": int64(1), "y": int64(2), "z": int64(3)}}))
		datas = append(datas, data.Map{}, toData(map[string]interface{}{"i": "str", "s": int64(5), "l": "notalist", "m": []interface{}{int64(1)}, "b": nil, "f": "x", "n": int64(1)}))
		ij := toData(map[string]interface{}{"s": "ij", "n": int64(2), "m": map[string]interface{}{"a": int64(1)}})
		tofu := soyhtml.NewTofu(reg)
		base := deepDigest(reg, datas, ij, msgs.msgs)
		first := map[string]string{}
		nops := 2 + r.Intn(29)
		recur := false
		lastKey := ""
		for k := 0; k < nops; k++ {
			ti := r.Intn(len(tmpls))
			op := c08Op{kind: "render", tmpl: tmpls[ti].full(), di: r.Intn(len(datas)), ij: r.Intn(3) > 0, msgs: r.Intn(3) == 0}
			if tmpls[ti].recursive {
				// recursion depth is bounded by the data (the property's guard): another template's data set may
				// bind i to 2^40, which is a stack overflow of the Go runtime, not a render outcome
				switch v := datas[op.di]["i"].(type) {
				case data.Int:
					if v > 64 {
						op.di = ti
					}
				case data.Float:
					if v > 64 {
						op.di = ti
					}
				}
			}
			if r.Intn(6) == 0 {
				op.kind = "js"
			}
			var out string
			key := op.kind + "|" + op.tmpl + "|" + strconv.Itoa(op.di) + "|" + strconv.FormatBool(op.ij) + "|" + strconv.FormatBool(op.msgs)
			if op.kind == "js" {
				var buf bytes.Buffer
				cls := safely(func() error { return soyjs.Write(&buf, reg.SoyFiles[r.Intn(len(reg.SoyFiles))], soyjs.Options{}) })
				out = cls
				key = "js"
				_ = buf
			} else {
				var buf bytes.Buffer
				cls := safely(func() error {
					rd := tofu.NewRenderer(op.tmpl)
					if op.ij {
						rd = rd.Inject(ij)
					}
					if op.msgs {
						rd = rd.WithMessages(msgs)
					}
					return rd.Execute(&buf, datas[op.di])
				})
				out = cls + ":" + buf.String()
				rep.Distribution["op:render:"+cls]++
			}
			rep.Evaluations++
			if d := deepDigest(reg, datas, ij, msgs.msgs); d != base {
				rep.Violations = append(rep.Violations, Viol{Key: "c08-mutated-shared-state:" + op.kind + ":" + cfg, What: "an operation modified the compiled bundle, a data map or $ij (deep digest changed)",
					Req: req("c08hist", encSources(fs)), Note: fmt.Sprintf("op %d of %d: %+v config=%s", k, nops, op, cfg), Impl: d, Want: base})
				base = d
			}
			if key != "js" {
				if prev, ok := first[key]; ok {
					if key != lastKey {
						recur = true
					}
					if prev != out {
						rep.Violations = append(rep.Violations, Viol{Key: "c08-history-dependent:" + cfg, What: "the same template with the same data rendered differently later in the history",
							Req: req("c08hist", encSources(fs)), Note: fmt.Sprintf("op %d of %d: %+v config=%s", k, nops, op, cfg), Impl: out, Want: prev})
					}
				} else {
					first[key] = out
				}
			}
			lastKey = key
		}
		// keys() of a map with several keys, and a map literal several of whose values fail: ten renders in a row
		{
			kd := toData(map[string]interface{}{"u": map[string]interface{}{"name": "Ann", "b": int64(2), "c": int64(3), "d": int64(4), "e": int64(5), "f": int64(6)}, "e": map[string]interface{}{"x": int64(1), "y": int64(2), "z": int64(3)}})
			var firstOut string
			for k := 0; k < 10; k++ {
				var buf bytes.Buffer
				cls := safely(func() error { return tofu.NewRenderer("probe.keys").Execute(&buf, kd) })
				var errTxt string
				safely(func() error {
					e := tofu.NewRenderer("probe.keys").Execute(&bytes.Buffer{}, kd)
					errTxt = errText(e)
					return e
				})
				out := cls + ":" + buf.String() + ":" + errTxt
				rep.Evaluations++
				if k == 0 {
					firstOut = out
				} else if out != firstOut {
					rep.Violations = append(rep.Violations, Viol{Key: "c08-history-dependent:keys:" + cfg, What: "the same template (keys() of a six-key map, a map literal with several failing values) with the same data rendered differently on a later render",
						Req: req("c08hist", encSources(fs)), Note: fmt.Sprintf("render %d of probe.keys", k), Impl: out, Want: firstOut})
					break
				}
			}
		}
		// a render that FAILS inside a content block, directly followed by the same template on good data, forty times in a
		// row on one OS thread: whatever a failing render leaves behind for "the next one" (a recycled buffer, a cached
		// frame) is picked up here with near certainty, also on a busy machine
		{
			good := toData(map[string]interface{}{"u": map[string]interface{}{"name": "Ann"}, "visits": int64(3)})
			bad := toData(map[string]interface{}{"u": "not-a-map", "visits": int64(3)})
			runtime.LockOSThread()
			var firstOut string
			for k := 0; k < 40; k++ {
				// (every other pair without the failure in front: if the failure leaves something behind, the two kinds differ)
				if k%2 == 0 {
					safely(func() error { return tofu.NewRenderer("probe.blk").Execute(&bytes.Buffer{}, bad) })
				}
				var buf bytes.Buffer
				cls := safely(func() error { return tofu.NewRenderer("probe.blk").Execute(&buf, good) })
				out := cls + ":" + buf.String()
				rep.Evaluations++
				if k == 0 {
					firstOut = out
				} else if out != firstOut {
					rep.Violations = append(rep.Violations, Viol{Key: "c08-history-dependent:after-failure:" + cfg, What: "the same template with the same data rendered differently directly after a render that failed inside a content block",
						Req: req("c08hist", encSources(fs)), Note: fmt.Sprintf("pair %d of probe.blk", k), Impl: out, Want: firstOut})
					break
				}
			}
			runtime.UnlockOSThread()
		}
		// two messages with the same text and placeholder NAME (so the same id) but different placeholder expressions,
		// rendered through the identity bundle in both orders: each must print ITS OWN expression (known expected text:
		// a process-wide memo keyed by message id would be wrong from the first render on, not "later in the history")
		if cfg != "obligatory-directive" {
			da := toData(map[string]interface{}{"name": "Zoe"})
			db := toData(map[string]interface{}{"u": map[string]interface{}{"name": "Ann"}})
			for k := 0; k < 2; k++ {
				order := [][2]interface{}{{"probe.greetA", da}, {"probe.greetB", db}}
				if (i+k)%2 == 1 {
					order[0], order[1] = order[1], order[0]
				}
				for _, o := range order {
					var buf bytes.Buffer
					cls := safely(func() error {
						return tofu.NewRenderer(o[0].(string)).WithMessages(msgs).Execute(&buf, o[1].(data.Map))
					})
					want := "OK:Hello Zoe!"
					if o[0].(string) == "probe.greetB" {
						want = "OK:Hello Ann!"
					}
					rep.Evaluations++
					if got := cls + ":" + buf.String(); got != want {
						rep.Violations = append(rep.Violations, Viol{Key: "c08-twin-messages:" + cfg, What: "two messages with the same text and placeholder name but different placeholder expressions, rendered through a bundle: " + o[0].(string) + " does not print its own expression",
							Req: req("c08hist", encSources(fs)), Note: o[0].(string), Impl: got, Want: want})
					}
				}
			}
		}
		if recur {
			rep.DistinctNT++
		}
		if len(rep.Samples) < 3 {
			rep.Samples = append(rep.Samples, fmt.Sprintf("bundle#%d config=%s: %d operations over %d templates x %d data sets, digest %s stable", i, cfg, nops, len(tmpls), len(datas), base))
		}
		if len(rep.Violations) > 20 {
			break
		}
	}
	soyhtml.ObligatoryPrintDirectiveNames = nil
	delete(soyhtml.Funcs, "verifId")
}
