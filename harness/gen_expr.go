package main

import (
	"strconv"
	"strings"
)

// Type-directed generator of Soy expression source text.  Every choice comes from
// the RNG handed in, so a case replays exactly from the seed.

type ty int

const (
	tAny ty = iota
	tInt
	tFloat
	tNum
	tStr
	tBool
	tNull
	tList
	tMap
)

// The data environment the generated expressions are evaluated in (see stdData).
var envVars = map[ty][]string{
	tInt:   {"$i", "$j", "$k", "$m.a", "$l[0]", "$l[1]", "$m.c.d", "$ij.n"},
	tFloat: {"$f", "$g", "$m.f"},
	tStr:   {"$s", "$t", "$m.b", "$h", "$ij.s"},
	tBool:  {"$b", "$c"},
	tNull:  {"$n", "$u", "$m.zz", "$l[9]", "$n?.x", "$u?.x.y"},
	tList:  {"$l", "$ll", "$e"},
	tMap:   {"$m", "$m.c", "$ij"},
}

type exprGen struct {
	r        *RNG
	illTyped int  // probability (percent) of picking an operand of a random type
	funcs    bool // allow builtin functions
	loopVars []string
	redundantParens int // percent
	noUndefined bool
	rawBytes int // percent of string chunks that are byte sequences which are not valid UTF-8
}

func (g *exprGen) pick(ss ...string) string { return ss[g.r.Intn(len(ss))] }

func (g *exprGen) intLit() string {
	switch g.r.Intn(10) {
	case 0:
		return "0"
	case 1:
		return "-" + strconv.Itoa(1+g.r.Intn(9))
	case 2:
		return "0x" + strings.ToUpper(strconv.FormatInt(int64(g.r.Intn(4096)), 16))
	case 3:
		return strconv.FormatInt(int64(g.r.U64()>>11)-(1<<52), 10) // 53-bit
	case 4:
		return strconv.Itoa(g.r.Intn(1000000))
	default:
		return strconv.Itoa(g.r.Intn(20))
	}
}

func (g *exprGen) floatLit() string {
	switch g.r.Intn(8) {
	case 0:
		return "0.0"
	case 1:
		return "-" + strconv.Itoa(g.r.Intn(9)) + ".5"
	case 2:
		return strconv.Itoa(1+g.r.Intn(9)) + g.pick("e", "e", "e+") + strconv.Itoa(g.r.Intn(5))
	case 3:
		return strconv.Itoa(1+g.r.Intn(9)) + ".25e-" + strconv.Itoa(g.r.Intn(3))
	case 4:
		return strconv.Itoa(g.r.Intn(100)) + ".125"
	default:
		return strconv.Itoa(g.r.Intn(50)) + "." + g.pick("0", "5", "25", "75", "5", "0")
	}
}

var strChunks = []string{"a", "b", "xyz", " ", "<", ">", "&", "\"", "\\'", "\\\\", "\\n", "\\t", "\\u00e9", "é", "日本", "😀", "</script>", "{", "}", "0", "12", "-", "&amp;", "%", "+", "=", "#"}

// invalidUtf8Chunks: bytes that are not valid UTF-8 (lone lead/continuation bytes, truncated and overlong
// sequences, a surrogate, a value above U+10FFFF)
var invalidUtf8Chunks = []string{"\xff", "\xc3", "\x80", "\xe2\x82", "\xf0\x9f\x98", "\xc0\xaf", "\xed\xa0\x80", "\xf4\x90\x80\x80", "\xfe"}

func (g *exprGen) strLit() string {
	n := g.r.Intn(4)
	var b strings.Builder
	b.WriteByte('\'')
	for i := 0; i < n; i++ {
		if g.rawBytes > 0 && g.r.Intn(100) < g.rawBytes {
			b.WriteString(invalidUtf8Chunks[g.r.Intn(len(invalidUtf8Chunks))])
			continue
		}
		b.WriteString(strChunks[g.r.Intn(len(strChunks))])
	}
	b.WriteByte('\'')
	return b.String()
}

func (g *exprGen) paren(s string) string {
	if g.r.Intn(100) < g.redundantParens {
		return "(" + s + ")"
	}
	return s
}

// atom returns a leaf of the given type.
func (g *exprGen) atom(t ty) string {
	if g.r.Intn(100) < g.illTyped {
		t = ty(1 + g.r.Intn(8))
	}
	switch t {
	case tAny:
		return g.atom(ty(1 + g.r.Intn(8)))
	case tNum:
		if g.r.Bool() {
			return g.atom(tInt)
		}
		return g.atom(tFloat)
	case tInt:
		if g.r.Intn(3) == 0 {
			if len(g.loopVars) > 0 && g.r.Bool() {
				return g.pick(g.loopVars...)
			}
			return g.pick(envVars[tInt]...)
		}
		return g.intLit()
	case tFloat:
		if g.r.Intn(3) == 0 {
			return g.pick(envVars[tFloat]...)
		}
		return g.floatLit()
	case tStr:
		if g.r.Intn(3) == 0 {
			return g.pick(envVars[tStr]...)
		}
		return g.strLit()
	case tBool:
		if g.r.Intn(3) == 0 {
			return g.pick(envVars[tBool]...)
		}
		return g.pick("true", "false")
	case tNull:
		if g.noUndefined {
			return g.pick("null", "$n", "$n?.x")
		}
		if g.r.Intn(2) == 0 {
			return g.pick(envVars[tNull]...)
		}
		return "null"
	case tList:
		if g.r.Intn(2) == 0 {
			return g.pick(envVars[tList]...)
		}
		return g.pick("[]", "[1, 2, 3]", "['a', 'b']", "[1]", "[[1], [2, 3]]", "[1.5, 'x', true, null]", "[1, 2,]", "[7,]")
	case tMap:
		if g.r.Intn(2) == 0 {
			return g.pick(envVars[tMap]...)
		}
		return g.pick("[:]", "['a': 1]", "['k': 'v', 'j': 2]", "['z': [1, 2], 'y': ['q': 0]]", "['a': 1,]", "['k': 'v', 'j': 2, ]",
			// keys that the printer has to re-quote: control characters, quotes, backslashes, non-ASCII
			"['\\u0001': 1]", "['a\\u001fbcde': 2, '\\u00010': 3, '\\u0010': 4]", "['\\u007f': 1]", "['k\\ny': 1, 'tab\\t': 2]", "['q\\'': 1, 'b\\\\': 2, 'dq\"': 3]", "['é': 1, '\\u00e9x': 2]", "['': 0]")
	}
	return "null"
}

// expr returns an expression of (mostly) the given type, nesting up to depth.
func (g *exprGen) expr(depth int, t ty) string {
	if depth <= 0 || g.r.Intn(5) == 0 {
		return g.paren(g.atom(t))
	}
	d := depth - 1
	switch t {
	case tAny:
		return g.expr(depth, ty(1+g.r.Intn(8)))
	case tNum:
		if g.r.Bool() {
			return g.expr(depth, tInt)
		}
		return g.expr(depth, tFloat)
	case tInt:
		switch g.r.Intn(12) {
		case 0, 1:
			return g.bin(d, tInt, g.pick("+", "-", "*"), tInt)
		case 2:
			return g.bin(d, tInt, "%", tInt)
		case 3:
			return "-" + g.operand(d, tInt, 6)
		case 4:
			return g.tern(d, tInt)
		case 5:
			return g.expr(d, tNull) + " ?: " + g.operand(d, tInt, 1)
		case 6:
			if g.funcs {
				return g.pick("length(", "length(") + g.expr(d, tList) + ")"
			}
		case 7:
			if g.funcs {
				return g.pick("floor(", "ceiling(", "round(") + g.expr(d, tNum) + ")"
			}
		case 8:
			if g.funcs {
				return g.pick("min(", "max(") + g.expr(d, tInt) + ", " + g.expr(d, tInt) + ")"
			}
		case 9:
			return "$l[" + g.expr(d, tInt) + "]"
		}
		return g.paren(g.atom(tInt))
	case tFloat:
		switch g.r.Intn(8) {
		case 0, 1:
			return g.bin(d, tNum, g.pick("+", "-", "*"), tFloat)
		case 2:
			return g.bin(d, tNum, "/", tNum)
		case 3:
			return g.bin(d, tFloat, g.pick("+", "-", "*"), tNum)
		case 4:
			return "-" + g.operand(d, tFloat, 6)
		case 5:
			return g.tern(d, tFloat)
		case 6:
			if g.funcs {
				return g.pick("min(", "max(") + g.expr(d, tFloat) + ", " + g.expr(d, tNum) + ")"
			}
		}
		return g.paren(g.atom(tFloat))
	case tStr:
		switch g.r.Intn(6) {
		case 0, 1:
			return g.bin(d, tStr, "+", ty(1+g.r.Intn(5)))
		case 2:
			return g.bin(d, ty(1+g.r.Intn(5)), "+", tStr)
		case 3:
			return g.tern(d, tStr)
		case 4:
			return "$m[" + g.pick("'b'", "'b'", "$h") + "]"
		}
		return g.paren(g.atom(tStr))
	case tBool:
		switch g.r.Intn(12) {
		case 0:
			return g.bin(d, tNum, g.pick("<", ">", "<=", ">="), tNum)
		case 1:
			return g.bin(d, tInt, g.pick("==", "!="), tInt)
		case 2:
			return g.bin(d, tStr, g.pick("==", "!="), tStr)
		case 3:
			return g.bin(d, tInt, g.pick("==", "!="), tFloat)
		case 4:
			return g.bin(d, tAny, g.pick("and", "or"), tAny)
		case 5:
			return g.bin(d, tBool, g.pick("and", "or"), tBool)
		case 6:
			return "not " + g.operand(d, tAny, 6)
		case 7:
			return g.tern(d, tBool)
		case 8:
			if g.funcs {
				return "isNonnull(" + g.expr(d, tAny) + ")"
			}
		case 9:
			if g.funcs {
				return "strContains(" + g.expr(d, tStr) + ", " + g.expr(d, tStr) + ")"
			}
		case 10:
			return g.bin(d, tBool, g.pick("==", "!="), tBool)
		}
		return g.paren(g.atom(tBool))
	case tNull:
		if g.r.Intn(3) == 0 {
			return g.tern(d, tNull)
		}
		return g.paren(g.atom(tNull))
	case tList:
		switch g.r.Intn(5) {
		case 0:
			n := g.r.Intn(4)
			var items []string
			for i := 0; i < n; i++ {
				items = append(items, g.expr(d, ty(1+g.r.Intn(5))))
			}
			return "[" + strings.Join(items, ", ") + "]"
		case 1:
			if g.funcs {
				return "range(" + strconv.Itoa(g.r.Intn(5)) + ")"
			}
		case 2:
			if g.funcs {
				return "keys(" + g.expr(d, tMap) + ")"
			}
		}
		return g.paren(g.atom(tList))
	case tMap:
		switch g.r.Intn(4) {
		case 0:
			n := 1 + g.r.Intn(3)
			var items []string
			for i := 0; i < n; i++ {
				items = append(items, "'"+g.pick("a", "b", "c", "k")+strconv.Itoa(i)+"': "+g.expr(d, ty(1+g.r.Intn(5))))
			}
			return "[" + strings.Join(items, ", ") + "]"
		case 1:
			if g.funcs {
				return "augmentMap(" + g.expr(d, tMap) + ", " + g.expr(d, tMap) + ")"
			}
		}
		return g.paren(g.atom(tMap))
	}
	return g.atom(t)
}

var precOf = map[string]int{"*": 5, "/": 5, "%": 5, "+": 4, "-": 4, "==": 3, "!=": 3, "<": 3, ">": 3, "<=": 3, ">=": 3, "and": 2, "or": 1, "?:": 0}

// operand generates a subexpression that is parenthesised unless it is an atom
// (so that the generated text has exactly the intended structure).
func (g *exprGen) operand(depth int, t ty, _ int) string {
	s := g.expr(depth, t)
	if isAtomText(s) {
		return s
	}
	return "(" + s + ")"
}

func isAtomText(s string) bool {
	if s == "" {
		return false
	}
	if s[0] == '(' && matchingParen(s) == len(s)-1 {
		return true
	}
	depth := 0
	inStr := false
	for i := 0; i < len(s); i++ {
		c := s[i]
		if inStr {
			if c == '\\' {
				i++
			} else if c == '\'' {
				inStr = false
			}
			continue
		}
		switch c {
		case '\'':
			inStr = true
		case '(', '[':
			depth++
		case ')', ']':
			depth--
		case ' ':
			if depth == 0 {
				return false
			}
		case '-':
			if depth == 0 && i == 0 && len(s) > 1 && !(s[1] >= '0' && s[1] <= '9') {
				return false
			}
		}
	}
	return true
}

func matchingParen(s string) int {
	depth := 0
	inStr := false
	for i := 0; i < len(s); i++ {
		c := s[i]
		if inStr {
			if c == '\\' {
				i++
			} else if c == '\'' {
				inStr = false
			}
			continue
		}
		switch c {
		case '\'':
			inStr = true
		case '(':
			depth++
		case ')':
			depth--
			if depth == 0 {
				return i
			}
		}
	}
	return -1
}

// bin generates `a op b`; operands are parenthesised unless atoms, or — with some
// probability — left bare so that precedence and associativity decide.
func (g *exprGen) bin(depth int, ta ty, op string, tb ty) string {
	var a, b string
	if g.r.Intn(3) == 0 {
		a, b = g.expr(depth, ta), g.expr(depth, tb) // rely on precedence: structure is whatever the language says
	} else {
		a, b = g.operand(depth, ta, 0), g.operand(depth, tb, 0)
	}
	return g.paren(a + " " + op + " " + b)
}

func (g *exprGen) tern(depth int, t ty) string {
	c := g.operand(depth, tAny, 0)
	a := g.operand(depth, t, 0)
	if depth > 1 && g.r.Intn(6) == 0 {
		a = g.tern(depth-1, t) // a ternary in the then-branch needs no parentheses
	}
	b := g.expr(depth, t)
	sp := g.pick(" ", " ", "")
	if sp == "" && (strings.HasPrefix(a, ".") || strings.HasPrefix(a, "[") || strings.HasPrefix(a, ":")) {
		sp = " "
	}
	return g.paren(c + " ?" + sp + a + sp + ":" + sp + b)
}
