package main

// C20: Soy data values (data/value.go) and the Go->Soy conversion (data/convert.go).
//
// Trees travel prefix-encoded as comma-separated tokens (see lean/SoyVerif/Ops/Value.lean):
//
//	Value:  U N T F  I<hex16>  D<hex16>  S<hex>  L<id>.<n> v...  M<id>.<n> (K<hex> v)...
//	GoVal:  n  b0 b1  i<w>.<hex16>  u<w>.<hex16>  f<hex16>  d<hex16>  s<hex>  t<hex>
//	        A<typed>.<n> g...  a   O<typed>.<n> (K<hex> g)...  o   X<n>
//	        R<n> (F<exported><embedded>.<hexname> g)...   P g   p   C g   V v   Y<ptrRecv> v   y   Z<variant>
//
// The worker BUILDS real Go values from a description with reflect, calls the real
// data.NewWith under recover and prints the result canonically.

import (
	"fmt"
	"math"
	"reflect"
	"sort"
	"strconv"
	"strings"
	"time"
	"unsafe"

	"github.com/robfig/soy/data"
)

// ---------------------------------------------------------------- Value descriptions

type VNode struct {
	Kind byte // U N T F I D S L M
	I    uint64
	S    []byte
	ID   int
	Xs   []*VNode
	Keys [][]byte
}

func (n *VNode) enc(out []string) []string {
	switch n.Kind {
	case 'U', 'N', 'T', 'F':
		return append(out, string(n.Kind))
	case 'I', 'D':
		return append(out, fmt.Sprintf("%c%016x", n.Kind, n.I))
	case 'S':
		return append(out, "S"+hx(n.S))
	case 'L':
		out = append(out, fmt.Sprintf("L%d.%d", n.ID, len(n.Xs)))
		for _, x := range n.Xs {
			out = x.enc(out)
		}
		return out
	case 'M':
		out = append(out, fmt.Sprintf("M%d.%d", n.ID, len(n.Xs)))
		for i, x := range n.Xs {
			out = append(out, "K"+hx(n.Keys[i]))
			out = x.enc(out)
		}
		return out
	}
	panic("bad VNode")
}

func (n *VNode) String() string { return strings.Join(n.enc(nil), ",") }

type badReq struct{ why string }

func bad(why string) { panic(badReq{why}) }

type tokStream struct {
	t []string
	i int
}

func (s *tokStream) next() string {
	if s.i >= len(s.t) {
		bad("short")
	}
	s.i++
	return s.t[s.i-1]
}

func splitDot(p string) (string, string) {
	k := strings.IndexByte(p, '.')
	if k < 0 {
		bad("dot")
	}
	return p[:k], p[k+1:]
}

func atoiStrict(s string) int {
	n, err := strconv.Atoi(s)
	if err != nil || n < 0 {
		bad("num")
	}
	return n
}

func hex16(s string) uint64 {
	if len(s) != 16 {
		bad("hex16")
	}
	u, err := strconv.ParseUint(s, 16, 64)
	if err != nil {
		bad("hex16")
	}
	return u
}

func unhxStrict(s string) []byte {
	b, ok := unhx(s)
	if !ok {
		bad("hex")
	}
	return b
}

func decKey(s *tokStream) []byte {
	t := s.next()
	if t == "" || t[0] != 'K' {
		bad("key")
	}
	return unhxStrict(t[1:])
}

func decV(s *tokStream) *VNode {
	t := s.next()
	if t == "" {
		bad("empty")
	}
	p := t[1:]
	switch t[0] {
	case 'U', 'N', 'T', 'F':
		if p != "" {
			bad("payload")
		}
		return &VNode{Kind: t[0]}
	case 'I', 'D':
		return &VNode{Kind: t[0], I: hex16(p)}
	case 'S':
		return &VNode{Kind: 'S', S: unhxStrict(p)}
	case 'L':
		a, b := splitDot(p)
		n := &VNode{Kind: 'L', ID: atoiStrict(a)}
		for k := atoiStrict(b); k > 0; k-- {
			n.Xs = append(n.Xs, decV(s))
		}
		return n
	case 'M':
		a, b := splitDot(p)
		n := &VNode{Kind: 'M', ID: atoiStrict(a)}
		for k := atoiStrict(b); k > 0; k-- {
			n.Keys = append(n.Keys, decKey(s))
			n.Xs = append(n.Xs, decV(s))
		}
		return n
	}
	bad("vtag")
	return nil
}

func decVField(f string) *VNode {
	s := &tokStream{t: strings.Split(f, ",")}
	n := decV(s)
	if s.i != len(s.t) {
		bad("trailing")
	}
	return n
}

// idTable keeps one Go object per identity of a request.
type idTable struct {
	lists map[int]data.List
	maps  map[int]data.Map
}

func newIDTable() *idTable { return &idTable{map[int]data.List{}, map[int]data.Map{}} }

func (n *VNode) build(t *idTable) data.Value {
	switch n.Kind {
	case 'U':
		return data.Undefined{}
	case 'N':
		return data.Null{}
	case 'T':
		return data.Bool(true)
	case 'F':
		return data.Bool(false)
	case 'I':
		return data.Int(int64(n.I))
	case 'D':
		return data.Float(math.Float64frombits(n.I))
	case 'S':
		return data.String(string(n.S))
	case 'L':
		if n.ID == 0 {
			if len(n.Xs) != 0 {
				bad("nil list with elements")
			}
			return data.List(nil)
		}
		if len(n.Xs) == 0 {
			return make(data.List, 0)
		}
		if l, ok := t.lists[n.ID]; ok {
			return l
		}
		l := make(data.List, len(n.Xs))
		t.lists[n.ID] = l
		for i, x := range n.Xs {
			l[i] = x.build(t)
		}
		return l
	case 'M':
		if n.ID == 0 {
			if len(n.Xs) != 0 {
				bad("nil map with entries")
			}
			return data.Map(nil)
		}
		if m, ok := t.maps[n.ID]; ok {
			return m
		}
		m := make(data.Map, len(n.Xs))
		t.maps[n.ID] = m
		for i, x := range n.Xs {
			m[string(n.Keys[i])] = x.build(t)
		}
		return m
	}
	panic("bad VNode")
}

// canon prints a real data.Value: maps sorted by key, identities renumbered by first occurrence
// (nil = 0, every empty non-nil list = 1): exactly what Equals can observe.
type renum struct {
	lists, maps map[uintptr]int
	next        int
}

func newRenum() *renum { return &renum{map[uintptr]int{}, map[uintptr]int{}, 2} }

func canonValue(v data.Value, st *renum, out []string) []string {
	switch v := v.(type) {
	case data.Undefined:
		return append(out, "U")
	case data.Null:
		return append(out, "N")
	case data.Bool:
		if v {
			return append(out, "T")
		}
		return append(out, "F")
	case data.Int:
		return append(out, fmt.Sprintf("I%016x", uint64(v)))
	case data.Float:
		return append(out, "D"+f64hex(float64(v)))
	case data.String:
		return append(out, "S"+hxs(string(v)))
	case data.List:
		p := reflect.ValueOf(v).Pointer()
		id := 0
		switch {
		case p == 0:
		case len(v) == 0:
			id = 1
		default:
			k, ok := st.lists[p]
			if !ok {
				k = st.next
				st.next++
				st.lists[p] = k
			}
			id = k
		}
		out = append(out, fmt.Sprintf("L%d.%d", id, len(v)))
		for _, x := range v {
			out = canonValue(x, st, out)
		}
		return out
	case data.Map:
		p := reflect.ValueOf(v).Pointer()
		id := 0
		if p != 0 {
			k, ok := st.maps[p]
			if !ok {
				k = st.next
				st.next++
				st.maps[p] = k
			}
			id = k
		}
		keys := make([]string, 0, len(v))
		for k := range v {
			keys = append(keys, k)
		}
		sort.Strings(keys)
		out = append(out, fmt.Sprintf("M%d.%d", id, len(v)))
		for _, k := range keys {
			out = append(out, "K"+hxs(k))
			out = canonValue(v[k], st, out)
		}
		return out
	case nil:
		return append(out, "NILVALUE")
	}
	return append(out, fmt.Sprintf("ALIEN(%T)", v))
}

// identical: the same value in every observable respect (used for "converting again changes nothing")
func identical(a, b data.Value) bool {
	if reflect.TypeOf(a) != reflect.TypeOf(b) {
		return false
	}
	switch x := a.(type) {
	case data.Float:
		return math.Float64bits(float64(x)) == math.Float64bits(float64(b.(data.Float)))
	case data.List:
		y := b.(data.List)
		return reflect.ValueOf(x).Pointer() == reflect.ValueOf(y).Pointer() && len(x) == len(y)
	case data.Map:
		y := b.(data.Map)
		return reflect.ValueOf(x).Pointer() == reflect.ValueOf(y).Pointer() && len(x) == len(y)
	}
	return a == b
}

// ---------------------------------------------------------------- Go value descriptions

type GNode struct {
	Kind    byte
	B       bool
	W       int    // width of int/uint kinds: 0 (int/uint), 8, 16, 32, 64
	U       uint64 // raw integer / float bits
	S       []byte
	Typed   bool // containers: element type taken from the elements when they agree
	N       int  // keyedMap entries / Z variant
	Xs      []*GNode
	Keys    [][]byte // map keys / field names
	Exp     []bool   // struct: exported (CanInterface)
	Emb     []bool   // struct: embedded
	V       *VNode
	PtrRecv bool
}

func (n *GNode) enc(out []string) []string {
	switch n.Kind {
	case 'n', 'a', 'o', 'p', 'y':
		return append(out, string(n.Kind))
	case 'b':
		return append(out, "b"+bit(n.B))
	case 'i', 'u':
		return append(out, fmt.Sprintf("%c%d.%016x", n.Kind, n.W, n.U))
	case 'f', 'd':
		return append(out, fmt.Sprintf("%c%016x", n.Kind, n.U))
	case 's', 't':
		return append(out, string(n.Kind)+hx(n.S))
	case 'A':
		out = append(out, fmt.Sprintf("A%s.%d", bit(n.Typed), len(n.Xs)))
		for _, x := range n.Xs {
			out = x.enc(out)
		}
		return out
	case 'O':
		out = append(out, fmt.Sprintf("O%s.%d", bit(n.Typed), len(n.Xs)))
		for i, x := range n.Xs {
			out = append(out, "K"+hx(n.Keys[i]))
			out = x.enc(out)
		}
		return out
	case 'X', 'Z':
		return append(out, fmt.Sprintf("%c%d", n.Kind, n.N))
	case 'R':
		out = append(out, fmt.Sprintf("R%d", len(n.Xs)))
		for i, x := range n.Xs {
			out = append(out, fmt.Sprintf("F%s%s.%s", bit(n.Exp[i]), bit(n.Emb[i]), hx(n.Keys[i])))
			out = x.enc(out)
		}
		return out
	case 'P', 'C':
		return n.Xs[0].enc(append(out, string(n.Kind)))
	case 'V':
		return n.V.enc(append(out, "V"))
	case 'Y':
		return n.V.enc(append(out, "Y"+bit(n.PtrRecv)))
	}
	panic("bad GNode")
}

func (n *GNode) String() string { return strings.Join(n.enc(nil), ",") }

func widthOK(w int) bool { return w == 0 || w == 8 || w == 16 || w == 32 || w == 64 }

func decG(s *tokStream) *GNode {
	t := s.next()
	if t == "" {
		bad("empty")
	}
	p := t[1:]
	switch t[0] {
	case 'n', 'a', 'o', 'p', 'y':
		if p != "" {
			bad("payload")
		}
		return &GNode{Kind: t[0]}
	case 'b':
		return &GNode{Kind: 'b', B: p == "1"}
	case 'i', 'u':
		w, h := splitDot(p)
		n := &GNode{Kind: t[0], W: atoiStrict(w), U: hex16(h)}
		if !widthOK(n.W) {
			bad("width")
		}
		return n
	case 'f', 'd':
		return &GNode{Kind: t[0], U: hex16(p)}
	case 's', 't':
		return &GNode{Kind: t[0], S: unhxStrict(p)}
	case 'A':
		a, b := splitDot(p)
		n := &GNode{Kind: 'A', Typed: a == "1"}
		for k := atoiStrict(b); k > 0; k-- {
			n.Xs = append(n.Xs, decG(s))
		}
		return n
	case 'O':
		a, b := splitDot(p)
		n := &GNode{Kind: 'O', Typed: a == "1"}
		for k := atoiStrict(b); k > 0; k-- {
			n.Keys = append(n.Keys, decKey(s))
			n.Xs = append(n.Xs, decG(s))
		}
		return n
	case 'X', 'Z':
		return &GNode{Kind: t[0], N: atoiStrict(p)}
	case 'R':
		n := &GNode{Kind: 'R'}
		for k := atoiStrict(p); k > 0; k-- {
			ft := s.next()
			if ft == "" || ft[0] != 'F' {
				bad("field")
			}
			fl, h := splitDot(ft[1:])
			if len(fl) != 2 {
				bad("flags")
			}
			n.Exp = append(n.Exp, fl[0] == '1')
			n.Emb = append(n.Emb, fl[1] == '1')
			n.Keys = append(n.Keys, unhxStrict(h))
			n.Xs = append(n.Xs, decG(s))
		}
		return n
	case 'P', 'C':
		return &GNode{Kind: t[0], Xs: []*GNode{decG(s)}}
	case 'V':
		return &GNode{Kind: 'V', V: decV(s)}
	case 'Y':
		return &GNode{Kind: 'Y', PtrRecv: p == "1", V: decV(s)}
	}
	bad("gtag")
	return nil
}

func decGField(f string) *GNode {
	s := &tokStream{t: strings.Split(f, ",")}
	n := decG(s)
	if s.i != len(s.t) {
		bad("trailing")
	}
	return n
}

// The marshaler types the harness can build (reflect.StructOf cannot attach methods).
type marshV struct{ V data.Value }

func (m marshV) MarshalValue() data.Value { return m.V }

type marshP struct{ V data.Value }

func (m *marshP) MarshalValue() data.Value { return m.V }

var (
	ifaceType = reflect.TypeOf((*interface{})(nil)).Elem()
	valueType = reflect.TypeOf((*data.Value)(nil)).Elem()
)

// holderType is the static type of a container element / struct field that holds n.
func (n *GNode) holderType(x interface{}) reflect.Type {
	switch n.Kind {
	case 'n', 'C':
		return ifaceType
	case 'V':
		return valueType
	}
	return reflect.TypeOf(x)
}

// build constructs the real Go value (the interface{} handed to data.NewWith).
func (n *GNode) build(t *idTable) interface{} {
	switch n.Kind {
	case 'n':
		return nil
	case 'b':
		return n.B
	case 'i':
		v := int64(n.U)
		switch n.W {
		case 0:
			return int(v)
		case 8:
			return int8(v)
		case 16:
			return int16(v)
		case 32:
			return int32(v)
		}
		return v
	case 'u':
		switch n.W {
		case 0:
			return uint(n.U)
		case 8:
			return uint8(n.U)
		case 16:
			return uint16(n.U)
		case 32:
			return uint32(n.U)
		}
		return n.U
	case 'f':
		return float32(math.Float64frombits(n.U))
	case 'd':
		return math.Float64frombits(n.U)
	case 's':
		return string(n.S)
	case 't':
		tm, err := time.Parse(time.RFC3339, string(n.S))
		if err != nil {
			bad("time")
		}
		return tm
	case 'A':
		xs := make([]interface{}, len(n.Xs))
		for i, c := range n.Xs {
			xs[i] = c.build(t)
		}
		if et := n.commonType(xs); et != nil {
			s := reflect.MakeSlice(reflect.SliceOf(et), len(xs), len(xs))
			for i, x := range xs {
				s.Index(i).Set(reflect.ValueOf(x))
			}
			return s.Interface()
		}
		return xs
	case 'a':
		return []string(nil)
	case 'O':
		xs := make([]interface{}, len(n.Xs))
		for i, c := range n.Xs {
			xs[i] = c.build(t)
		}
		if et := n.commonType(xs); et != nil {
			m := reflect.MakeMap(reflect.MapOf(reflect.TypeOf(""), et))
			for i, x := range xs {
				m.SetMapIndex(reflect.ValueOf(string(n.Keys[i])), reflect.ValueOf(x))
			}
			return m.Interface()
		}
		m := make(map[string]interface{}, len(xs))
		for i, x := range xs {
			m[string(n.Keys[i])] = x
		}
		return m
	case 'o':
		return map[string]interface{}(nil)
	case 'X':
		m := map[int]interface{}{}
		for i := 0; i < n.N; i++ {
			m[i] = i
		}
		return m
	case 'R':
		xs := make([]interface{}, len(n.Xs))
		fs := make([]reflect.StructField, len(n.Xs))
		for i, c := range n.Xs {
			xs[i] = c.build(t)
			ft := c.holderType(xs[i])
			f := reflect.StructField{Name: string(n.Keys[i]), Type: ft}
			if !n.Exp[i] {
				f.PkgPath = "verifharness"
			} else if n.Emb[i] && ft.NumMethod() == 0 && embeddable(ft.Kind()) {
				f.Anonymous = true
			}
			fs[i] = f
		}
		sv := reflect.New(reflect.StructOf(fs)).Elem()
		for i, x := range xs {
			if x == nil {
				continue
			}
			f := sv.Field(i)
			// unexported fields cannot be Set through reflect: write through the address
			reflect.NewAt(f.Type(), unsafe.Pointer(f.UnsafeAddr())).Elem().Set(reflect.ValueOf(x))
		}
		return sv.Interface()
	case 'P':
		c := n.Xs[0]
		x := c.build(t)
		switch c.Kind {
		case 'n', 'C':
			p := new(interface{})
			*p = x
			return p
		case 'V':
			p := new(data.Value)
			*p = x.(data.Value)
			return p
		}
		p := reflect.New(reflect.TypeOf(x))
		p.Elem().Set(reflect.ValueOf(x))
		return p.Interface()
	case 'p':
		return (*int)(nil)
	case 'C':
		return n.Xs[0].build(t)
	case 'V':
		return n.V.build(t)
	case 'Y':
		if n.PtrRecv {
			return marshP{n.V.build(t)}
		}
		return marshV{n.V.build(t)}
	case 'y':
		return (*marshV)(nil)
	case 'Z':
		switch n.N {
		case 0:
			return make(chan int)
		case 1:
			return func() {}
		case 2:
			return complex(1, 2)
		case 3:
			return [2]int{1, 2}
		case 4:
			return uintptr(5)
		case 5:
			return unsafe.Pointer(nil)
		case 6:
			return (func())(nil)
		}
		return complex64(1)
	}
	panic("bad GNode")
}

func embeddable(k reflect.Kind) bool {
	switch k {
	case reflect.Interface, reflect.Ptr, reflect.UnsafePointer, reflect.Chan, reflect.Func:
		return false
	}
	return true
}

// commonType: the element type of a typed container, nil for []interface{} / map[string]interface{}.
func (n *GNode) commonType(xs []interface{}) reflect.Type {
	if !n.Typed {
		return nil
	}
	if len(xs) == 0 {
		return reflect.TypeOf(0)
	}
	var et reflect.Type
	for i, x := range xs {
		ht := n.Xs[i].holderType(x)
		if ht == nil || ht.Kind() == reflect.Interface {
			return nil
		}
		if et == nil {
			et = ht
		} else if et != ht {
			return nil
		}
	}
	return et
}

// ---------------------------------------------------------------- worker operations

func protect(f func() string) (out string) {
	defer func() {
		if e := recover(); e != nil {
			if _, ok := e.(badReq); ok {
				out = "BADREQ"
				return
			}
			panic(e)
		}
	}()
	return f()
}

func strOrPanic(v data.Value) (out string) {
	defer func() {
		if recover() != nil {
			out = "PANIC"
		}
	}()
	return hxs(v.String())
}

func lowerFirstGo(key string) string {
	// the statement's "lowerCamel name", written independently of convert.go
	rs := []rune(key)
	if len(rs) == 0 {
		return key
	}
	return strings.ToLower(string(rs[:1])) + string(rs[1:])
}

func init() {
	implOps["vecho"] = func(f []string) string {
		return protect(func() string { return "OK " + decVField(f[0]).String() })
	}
	implOps["gecho"] = func(f []string) string {
		return protect(func() string {
			g := decGField(f[0])
			g.stripModelInvisible()
			return "OK " + g.String()
		})
	}
	implOps["vlaws"] = func(f []string) string {
		return protect(func() string {
			t := newIDTable()
			a := decVField(f[0]).build(t)
			b := decVField(f[1]).build(t)
			return strings.Join([]string{"OK", bit(a.Truthy()), bit(b.Truthy()), bit(a.Equals(b)), bit(b.Equals(a)),
				strOrPanic(a), strOrPanic(b), strOrPanic(a), strOrPanic(b)}, " ")
		})
	}
	implOps["vindex"] = func(f []string) string {
		return protect(func() string {
			l, ok := decVField(f[0]).build(newIDTable()).(data.List)
			if !ok {
				return "BADREQ"
			}
			return "OK " + strings.Join(rawEnc(l.Index(int(int64(hex16(f[1]))))), ",")
		})
	}
	implOps["vkey"] = func(f []string) string {
		return protect(func() string {
			m, ok := decVField(f[0]).build(newIDTable()).(data.Map)
			if !ok {
				return "BADREQ"
			}
			return "OK " + strings.Join(rawEnc(m.Key(string(unhxStrict(f[1])))), ",")
		})
	}
	implOps["convert"] = func(f []string) string {
		return protect(func() string {
			g := decGField(f[0])
			opts := data.StructOptions{LowerCamel: f[1] == "1", TimeFormat: time.RFC3339}
			var x interface{}
			if failed := func() (p bool) {
				defer func() {
					if e := recover(); e != nil {
						if _, ok := e.(badReq); ok {
							panic(e)
						}
						p = true
					}
				}()
				x = g.build(newIDTable())
				return false
			}(); failed {
				return "BUILDFAIL" // reflect could not build the described value: a generator bug, never a model answer
			}
			var res data.Value
			panicked := func() (p bool) {
				defer func() {
					if recover() != nil {
						p = true
					}
				}()
				res = data.NewWith(opts, x)
				return false
			}()
			if panicked {
				return "PANIC"
			}
			again := func() (same bool) {
				defer func() { recover() }()
				return identical(res, data.NewWith(opts, res))
			}()
			return "OK " + strings.Join(canonValue(res, newRenum(), nil), ",") + " R" + bit(again)
		})
	}
	implOps["lowerfirst"] = func(f []string) string {
		// through the real code: a one-field struct converted with LowerCamel
		return protect(func() string {
			name := string(unhxStrict(f[0]))
			var key string
			func() {
				defer func() {
					if recover() != nil {
						key = "\x00STRUCTOF"
					}
				}()
				st := reflect.New(reflect.StructOf([]reflect.StructField{{Name: name, Type: reflect.TypeOf(0)}})).Elem()
				for k := range data.NewWith(data.StructOptions{LowerCamel: true}, st.Interface()).(data.Map) {
					key = k
				}
			}()
			if key == "\x00STRUCTOF" {
				return "SKIP"
			}
			return "OK " + hxs(key)
		})
	}
}

// rawEnc prints an Index/Key result canonically (the driver does the same through `canonical`).
func rawEnc(v data.Value) []string { return canonValue(v, newRenum(), nil) }

// stripModelInvisible clears the flags the model's GoVal does not carry (gecho compares re-encodings).
func (n *GNode) stripModelInvisible() {
	n.Typed = false
	if n.Kind == 'Z' {
		n.N = 0
	}
	for i := range n.Emb {
		n.Emb[i] = false
	}
	for _, x := range n.Xs {
		x.stripModelInvisible()
	}
}
