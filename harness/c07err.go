package main

// `checkerr`: the error CheckDataRefs / Registry.Add REPORTS, as kind + payload, parsed from the real
// message text, against the model's `compileE` (Model/CheckErr.lean).  Answers (both sides):
//   OK | ERR reg <kind> [<hex name>] | ERR chk <hex template> <kind> <hex lists …>   ("-" = empty list)
// A message that does not have one of the known shapes is answered `ERR ?<text>` and shows up as a diff.

import (
	"regexp"
	"strconv"
	"strings"
)

func hexNames(ns []string) string {
	if len(ns) == 0 {
		return "-"
	}
	var out []string
	for _, n := range ns {
		out = append(out, hx([]byte(n)))
	}
	return strings.Join(out, ",")
}

// %q of a []string: ["a" "b"]
func parseQList(s string) ([]string, bool) {
	s = strings.TrimSpace(s)
	if !strings.HasPrefix(s, "[") || !strings.HasSuffix(s, "]") {
		return nil, false
	}
	s = s[1 : len(s)-1]
	var out []string
	for s = strings.TrimSpace(s); s != ""; s = strings.TrimSpace(s) {
		q, err := strconv.QuotedPrefix(s)
		if err != nil {
			return nil, false
		}
		u, err := strconv.Unquote(q)
		if err != nil {
			return nil, false
		}
		out = append(out, u)
		s = s[len(q):]
	}
	return out, true
}

// %v of a []string: [a b]  (names never contain spaces)
func parseVList(s string) ([]string, bool) {
	s = strings.TrimSpace(s)
	if !strings.HasPrefix(s, "[") || !strings.HasSuffix(s, "]") {
		return nil, false
	}
	return strings.Fields(s[1 : len(s)-1]), true
}

var (
	reTmplPrefix = regexp.MustCompile(`^template (\S+): (.*)$`)
	reUnused     = regexp.MustCompile(`^params (\[.*\]) are unused$`)
	reNotFound   = regexp.MustCompile(`^\{call\}: template (".*") not found$`)
	reUndeclared = regexp.MustCompile(`^Params (\[.*\]) are not declared by the callee\.$`)
	reMissing    = regexp.MustCompile(`(?s)^Required params (\[.*?\]) are not passed by the call: `)
	reLets       = regexp.MustCompile(`^\{let\} variables (\[.*\]) are not used\.$`)
	reDataRef    = regexp.MustCompile(`^data ref (".*") not found\. params: (\[.*\]), let variables: (\[.*\])$`)
	reLoopFn     = regexp.MustCompile(`^.*: the argument of (\S+) must be the variable of an enclosing foreach or for loop$`)
	reDup        = regexp.MustCompile(`^template (\S+) is defined more than once$`)
)

func canonCheckErr(msg string) string {
	switch {
	case msg == "namespace required":
		return "ERR reg namespaceRequired"
	case strings.HasPrefix(msg, "expected namespace, found "):
		return "ERR reg namespaceExpected"
	case msg == "template may not have both soydoc and header params specified":
		return "ERR reg bothParams"
	case strings.HasPrefix(msg, "command outside of a template: "):
		return "ERR reg commandOutside"
	}
	if m := reDup.FindStringSubmatch(msg); m != nil {
		return "ERR reg duplicate " + hexNames([]string{m[1]})
	}
	m := reTmplPrefix.FindStringSubmatch(strings.ReplaceAll(msg, "\n", " "))
	if m == nil {
		return "ERR ?" + msg
	}
	pre, body := "ERR chk "+hexNames([]string{m[1]})+" ", m[2]
	switch {
	case body == "unexpected {@param ...} tag found":
		return pre + "headerParam"
	case body == "Invalid variable name in 'let' command text: '$ij'":
		return pre + "letIj"
	}
	if x := reUnused.FindStringSubmatch(body); x != nil {
		if ns, ok := parseQList(x[1]); ok {
			return pre + "unusedParams " + hexNames(ns)
		}
	}
	if x := reNotFound.FindStringSubmatch(body); x != nil {
		if n, err := strconv.Unquote(x[1]); err == nil {
			return pre + "callNotFound " + hexNames([]string{n})
		}
	}
	if x := reUndeclared.FindStringSubmatch(body); x != nil {
		if ns, ok := parseQList(x[1]); ok {
			return pre + "undeclaredParams " + hexNames(ns)
		}
	}
	if x := reMissing.FindStringSubmatch(body); x != nil {
		if ns, ok := parseQList(x[1]); ok {
			return pre + "missingRequired " + hexNames(ns)
		}
	}
	if x := reLets.FindStringSubmatch(body); x != nil {
		if ns, ok := parseQList(x[1]); ok {
			return pre + "unusedLets " + hexNames(ns)
		}
	}
	if x := reDataRef.FindStringSubmatch(body); x != nil {
		k, err := strconv.Unquote(x[1])
		ps, ok1 := parseVList(x[2])
		vs, ok2 := parseVList(x[3])
		if err == nil && ok1 && ok2 {
			return pre + "dataRefNotFound " + hexNames([]string{k}) + " " + hexNames(ps) + " " + hexNames(vs)
		}
	}
	if x := reLoopFn.FindStringSubmatch(body); x != nil {
		return pre + "loopFuncArg " + hexNames([]string{x[1]})
	}
	return "ERR ?" + msg
}

func init() {
	implOps["checkerr"] = func(f []string) string {
		fs := decSources(f[0])
		// a parse error is not an error of the checker: such cases carry NoModel
		for _, s := range fs {
			if _, err := soyFileSafe(s.name, s.content); err != nil {
				return "PARSE"
			}
		}
		if _, err := compileCheck(fs); err != nil {
			return canonCheckErr(err.Error())
		}
		return "OK"
	}
}
