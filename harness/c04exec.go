package main

import (
	"math"
	"bytes"
	"fmt"
	"strconv"
	"strings"
	"sync"
	"time"

	"github.com/robfig/soy/data"
	"github.com/robfig/soy/soyhtml"
	"github.com/robfig/soy/soymsg"
	"github.com/robfig/soy/template"
)

// C04exec: translation validation.  Every generated program of the COMMON SUBSET is translated
// by soyjs.Write and the translation is executed (otto + soyutils.js): the string the JS function
// returns must be the string the Go renderer writes, for the same data and injected data, without
// and with a message bundle.

// ---- the common subset: generator hooks (bundleOpts{jsSafe: true, …}) ----

var c04Ints = []int{0, 1, 2, 3, 7, -1, 12, -5, 100}
// (no negative x.5: round() of a negative half is the known divergence c04:round-negative-half)
var c04Floats = []float64{0.5, 1.25, 2.5, 3.0, 0.125, 10.75, 1500000.5, 0.00001, 2.5e-7, 123456789.125, -1.25, -3.0, 0.1, -0.75, 1e-7}
var c04Strs = []string{"say \"hi\"", "", "abc", "<i>x</i>", "a&b", "q's", "é日本", "line1\nline2", "a b c d e f", "0", "</script>", "tab\there", "x y"}

func c04Value(g *bundleGen, t ty) (interface{}, bool) {
	r := g.r
	switch t {
	case tInt:
		return int64(c04Ints[r.Intn(len(c04Ints))]), true
	case tFloat:
		return c04Floats[r.Intn(len(c04Floats))], true
	case tStr:
		return c04Strs[r.Intn(len(c04Strs))], true
	case tMap:
		return []map[string]interface{}{{"a": int64(1), "b": "y"}, {"a": int64(2), "b": "x"}, {"a": int64(3), "b": "<m>", "c": nil}}[r.Intn(3)], true
	}
	return nil, false
}

func c04Lit(g *bundleGen, t ty) (string, bool) {
	r := g.r
	switch t {
	case tFloat:
		if r.Intn(5) == 0 {
			return []string{"2.5e-7", "1500000.5", "1.0e-6", "0.000015"}[r.Intn(4)], true
		}
		return strconv.Itoa(r.Intn(9)) + "." + []string{"5", "25", "75", "125"}[r.Intn(4)], true
	case tStr:
		return soyQuote(c04Strs[r.Intn(len(c04Strs))], r), true
	case tMap:
		return []string{"['a': 1, 'b': 'x']", "['a': 2, 'b': 'it\\'s', 'k\"q': 3, 'z\\\\': 4]", "['a': 0, 'b': '']"}[r.Intn(3)], true
	case tInt:
		if r.Intn(6) == 0 {
			return []string{"G_I", "0x1F"}[r.Intn(2)], true
		}
	case tBool:
		if r.Intn(6) == 0 {
			return []string{"G_T", "G_F"}[r.Intn(2)], true
		}
	case tNull:
		if r.Intn(4) == 0 {
			return "G_NULL", true
		}
	}
	return "", false
}

func c04Expr(e *scopedExprGen, depth int, t ty) (string, bool) {
	r := e.g.r
	if depth <= 0 || r.Intn(3) == 0 {
		return e.atom(t), true
	}
	d := depth - 1
	p := func(s string) string { return "(" + s + ")" }
	switch t {
	case tAny:
		return e.expr(depth, scalarTypes[r.Intn(len(scalarTypes))]), true
	case tNum, tInt:
		switch r.Intn(10) {
		case 0, 1:
			return p(e.expr(d, tInt)) + " " + []string{"+", "-", "*"}[r.Intn(3)] + " " + p(e.expr(d, tInt)), true
		case 2:
			return p(e.expr(d, tInt)) + " % " + strconv.Itoa(1+r.Intn(7)), true
		case 3:
			return e.expr(d, tBool) + " ? " + p(e.expr(d, tInt)) + " : " + e.expr(d, tInt), true
		case 4:
			return "length(" + e.expr(d, tList) + ")", true
		case 5:
			return []string{"min(", "max("}[r.Intn(2)] + e.expr(d, tInt) + ", " + e.expr(d, tInt) + ")", true
		case 6:
			return "-" + p(e.expr(d, tInt)), true
		case 7, 8:
			return e.atom(tNull) + " ?: " + e.atom(tInt), true
		case 9:
			if vs := e.s.ofType(tMap); len(vs) > 0 {
				i := vs[r.Intn(len(vs))]
				e.s.used[i] = true
				return "$" + e.s.vars[i].name + []string{".a", "?.a", "['a']", "?['a']"}[r.Intn(4)], true
			}
		}
		return e.atom(tInt), true
	case tFloat:
		switch r.Intn(4) {
		case 3:
			// (the Go functions return a float for a float argument)
			fn, arg := []string{"floor(", "ceiling(", "round("}[r.Intn(3)], e.atom(tFloat)
			if fn == "round(" && strings.HasPrefix(arg, "$") {
				// a variable may hold a negative half although no datum is one (a {let}, or the {param} of a
				// callee, computed from data: 2.5 - 100) — the known divergence c04:round-negative-half
				arg = "(" + arg + ") < 0 ? 0.5 : " + arg
			}
			return fn + arg + ")", true
		case 0:
			return p(e.expr(d, tFloat)) + " " + []string{"+", "-"}[r.Intn(2)] + " " + p(e.expr(d, tInt)), true
		case 1:
			return p(e.expr(d, tFloat)) + " * " + strconv.Itoa(1+r.Intn(4)), true
		}
		return e.atom(tFloat), true
	case tStr:
		switch r.Intn(6) {
		case 0, 1:
			return p(e.expr(d, tStr)) + " + " + p(e.expr(d, ty([]ty{tStr, tInt, tBool}[r.Intn(3)]))), true
		case 2:
			return e.expr(d, tBool) + " ? " + p(e.expr(d, tStr)) + " : " + e.expr(d, tStr), true
		case 3:
			return e.atom(tNull) + " ?: " + e.atom(tStr), true
		case 4:
			if vs := e.s.ofType(tMap); len(vs) > 0 {
				i := vs[r.Intn(len(vs))]
				e.s.used[i] = true
				return "$" + e.s.vars[i].name + []string{".b", "?.b", "['b']"}[r.Intn(3)], true
			}
		}
		return e.atom(tStr), true
	case tBool:
		switch r.Intn(9) {
		case 0:
			return p(e.expr(d, tInt)) + " " + []string{"<", ">", "<=", ">=", "==", "!="}[r.Intn(6)] + " " + p(e.expr(d, tInt)), true
		case 1:
			return p(e.expr(d, tStr)) + " " + []string{"==", "!="}[r.Intn(2)] + " " + p(e.expr(d, tStr)), true
		case 2:
			return p(e.expr(d, tBool)) + " " + []string{"and", "or"}[r.Intn(2)] + " " + p(e.expr(d, tBool)), true
		case 3:
			return "not " + p(e.expr(d, tBool)), true
		case 4:
			return "isNonnull(" + e.atom(ty([]ty{tNull, tInt, tStr}[r.Intn(3)])) + ")", true
		case 5:
			return "strContains(" + e.expr(d, tStr) + ", " + e.expr(d, tStr) + ")", true
		case 6:
			return p(e.expr(d, tFloat)) + " " + []string{"<", ">", "<=", ">="}[r.Intn(4)] + " " + p(e.expr(d, tInt)), true
		case 7:
			return "hasData()", true
		}
		return e.atom(tBool), true
	}
	return "", false
}

// directives both backends implement with the same documented result
// (truncate only on ASCII text, see c04Cmd: the Go directive counts bytes, soy.$$truncate UTF-16 units — hand case
//  c04:truncate-unicode; changeNewlineToBr is escaped by Go only — hand case c04:changeNewlineToBr-escaping)
//  insertWordBreaks likewise — hand case c04:insertWordBreaks-escaping — and its JS runs on bytes in otto)
var c04Directives = []string{"|escapeHtml", "|noAutoescape", "|id", "|escapeHtml|noAutoescape", "|id|escapeHtml", "|noAutoescape|id", "|changeNewlineToBr", "|changeNewlineToBr|escapeHtml", "|escapeHtml|changeNewlineToBr"}
var c04Truncs = []string{"|truncate:4", "|truncate:5,false", "|truncate:2,true", "|truncate:30", "|truncate:3|escapeHtml",
	// order-sensitive chains (the generated JavaScript once applied them right to left)
	"|truncate:9,false|escapeHtml", "|escapeHtml|truncate:10,false", "|insertWordBreaks:3", "|changeNewlineToBr", "|truncate:9,false|insertWordBreaks:2", "|insertWordBreaks:4|truncate:12", "|truncate:10,false|escapeUri|truncate:14,false"}

func c04Cmd(g *bundleGen, s *gScope, depth int) (string, bool) {
	r := g.r
	if r.Intn(8) != 0 {
		return "", false
	}
	switch r.Intn(6) {
	case 5:
		g.stat("c04-truncate")
		return "{'abcdefgh<&' + (" + g.expr(s, 1, tInt) + ")" + c04Truncs[r.Intn(len(c04Truncs))] + "}", true
	case 0:
		g.stat("c04-directive")
		return "{" + g.expr(s, 1, tStr) + c04Directives[r.Intn(len(c04Directives))] + "}", true
	case 1:
		g.stat("c04-ij")
		return "{$ij.foo}{$ij.bar.baz + 1}{$ij?.nope ?: 'd'}", true
	case 2:
		g.stat("c04-global")
		return "{" + []string{"G_I", "G_T", "G_FL", "G_FL3", "G_S", "G_S2", "G_NULL"}[r.Intn(7)] + "}", true
	case 3:
		g.stat("c04-debugger")
		return "{debugger}", true
	case 4:
		g.stat("c04-literal-text")
		return literalBlock(c04Strs[1+r.Intn(len(c04Strs)-1)]), true
	}
	return "", false
}

func newC04BundleGen(r *RNG) *bundleGen {
	return newBundleGen(r, bundleOpts{msgs: true, directives: false, calls: true, noFloatFmt: false, jsSafe: true, allParams: true,
		extraExpr: c04Expr, extraLit: c04Lit, extraValue: c04Value, extraCmd: c04Cmd})
}

var c04Globals = data.Map{
	"G_NULL": data.Null{}, "G_T": data.Bool(true), "G_F": data.Bool(false), "G_I": data.Int(42),
	"G_BIG": data.Int(1 << 52), "G_FL": data.Float(2.5), "G_FL3": data.Float(3), "G_S": data.String("he said 'hi'\n</script>\\ "),
	"G_S2": data.String("plain"),
	// floats that have no decimal spelling (reachable through AddGlobalsMap / a globals file line like X = 1/0)
	"G_INF": data.Float(math.Inf(1)), "G_NINF": data.Float(math.Inf(-1)), "G_NZERO": data.Float(math.Copysign(0, -1)),
}

const c04IJ = `{"foo":"ij<>","bar":{"baz":7}}`

// ---- execution (in the worker) ----

func renderWith(reg *template.Registry, name string, d data.Map, ij data.Map, msgs soymsg.Bundle) (out string, class string) {
	type res struct{ out, class string }
	ch := make(chan res, 1)
	go func() {
		defer func() {
			if e := recover(); e != nil {
				ch <- res{fmt.Sprint(e), "PANIC"}
			}
		}()
		var buf bytes.Buffer
		r := soyhtml.NewTofu(reg).NewRenderer(name).Inject(ij)
		if msgs != nil {
			r = r.WithMessages(msgs)
		}
		if err := r.Execute(&buf, d); err != nil {
			ch <- res{err.Error(), "ERR"}
			return
		}
		ch <- res{buf.String(), "OK"}
	}()
	select {
	case r := <-ch:
		return r.out, r.class
	case <-time.After(5 * time.Second):
		return "", "HANG"
	}
}

var (
	c04Mu    sync.Mutex
	c04JS    = map[string]string{} // bundle key -> concatenated ES5 JavaScript of all files ("" + error text after '\x00' on failure)
	c04JSKey []string
)

func c04BundleJS(reg *template.Registry, key string, msgs *jsMemBundle) (string, error) {
	c04Mu.Lock()
	defer c04Mu.Unlock()
	if js, ok := c04JS[key]; ok {
		if strings.HasPrefix(js, "\x00") {
			return "", fmt.Errorf("%s", js[1:])
		}
		return js, nil
	}
	var b strings.Builder
	var err error
	for _, f := range reg.SoyFiles {
		js, ok := jsWrite(reg, f.Name, "es5", msgs)
		if !ok {
			err = fmt.Errorf("soyjs.Write %s: %s", f.Name, js)
			break
		}
		b.WriteString(js)
		b.WriteString("\n")
	}
	if len(c04JSKey) >= 32 {
		delete(c04JS, c04JSKey[0])
		c04JSKey = c04JSKey[1:]
	}
	c04JSKey = append(c04JSKey, key)
	if err != nil {
		c04JS[key] = "\x00" + err.Error()
		return "", err
	}
	c04JS[key] = b.String()
	return b.String(), nil
}

func c04Bundle(reg *template.Registry, kind string) *jsMemBundle {
	switch kind {
	case "0":
		return translationsDet(reg, 0)
	case "1":
		return translationsDet(reg, 1)
	case "2":
		return translationsDet(reg, 2)
	}
	return nil
}

// c04Run: Go output versus the JavaScript function's result.
func c04Run(encSrc, encGlobals, kind, tmpl, dataJSON, ijJSON string) string {
	reg, err := jsCompileCached(encSrc, encGlobals)
	if err != nil {
		return "COMPILE-ERR " + hxs(err.Error())
	}
	msgs := c04Bundle(reg, kind)
	var bundle soymsg.Bundle
	if msgs != nil {
		bundle = msgs
	}
	goOut, goClass := renderWith(reg, tmpl, dataFromJSON(dataJSON), dataFromJSON(ijJSON), bundle)
	js, err := c04BundleJS(reg, encSrc+"|"+encGlobals+"|"+kind, msgs)
	if err != nil {
		return "WRITE-ERR " + hxs(err.Error())
	}
	base, err := jsBaseVM()
	if err != nil {
		return "NOVM " + hxs(err.Error())
	}
	vm := base.Copy()
	vm.Run("console = {log: function() {}};")
	var jsOut string
	jsErr := runWithTimeout(vm, 10*time.Second, func() error {
		if _, e := vm.Run(js); e != nil {
			return fmt.Errorf("load: %v", e)
		}
		var e error
		jsOut, e = jsCall(vm, tmpl, dataJSON, ijJSON)
		return e
	})
	switch {
	case goClass != "OK" && jsErr != nil:
		return "BOTH-ERR"
	case goClass != "OK":
		return "GOERR " + hxs(goClass+": "+goOut) + " " + hxs(jsOut)
	case jsErr != nil:
		return "JSERR " + hxs(goOut) + " " + hxs(jsErr.Error())
	case goOut != jsOut:
		return "DIFF " + hxs(goOut) + " " + hxs(jsOut)
	}
	return "SAME " + hxs(goOut)
}

func init() {
	// fields: sources, globals, bundle kind (- | 0 identity | 1 reversed | 2 some messages translated to the empty text), template, data JSON (hex), ij JSON (hex)
	implOps["c04exec"] = func(f []string) string {
		tmpl, _ := unhx(f[3])
		dj, _ := unhx(f[4])
		ij, _ := unhx(f[5])
		return c04Run(f[0], f[1], f[2], string(tmpl), string(dj), string(ij))
	}
	register(&Prop{
		ID: "C04exec",
		Rule: "translation validation: generated bundles of the COMMON SUBSET (well-typed operands, small ints, floats from 1e-7 to 1e9 in both notations (floor/ceiling/round of larger ones leave the integer range; larger magnitudes are hand cases), same-type equality, no round() of a negative half (the data hold none; round of a variable is guarded by `$v < 0 ? 0.5 : $v`), the directives escapeHtml/noAutoescape/id/truncate/changeNewlineToBr/insertWordBreaks, no keys() order, no randomInt, strings within the BMP (otto)), " +
			"all features otherwise (control flow, let, calls across files with data=all / data=$m / value and content params, msg and plural, globals, $ij, autoescape modes, css, log, debugger, literal text); each template x 2 data sets (every declared param supplied) x {no bundle, identity bundle, reversed bundle}: " +
			"Go renderer output versus the string returned by the soyjs-generated function run in otto with soyutils.js; plus hand-written programs for the divergences named in the property; non-trivial = the Go output is not empty",
		Gen:     genC04exec,
		Oracle:  c04Oracle,
		Timeout: 60 * time.Second,
		Direct: func(g *G, rep *Report) {
			rep.Extra["generator_stats"] = c04Stats
			rep.Extra["outcomes_outside_the_comparison"] = c04Skipped
		},
	})
}

var c04Stats = map[string]int{}
var c04Skipped = map[string]int{}

func c04Decode(impl string) (tag string, a, b string) {
	f := strings.Split(impl, " ")
	tag = f[0]
	if len(f) > 1 {
		x, _ := unhx(f[1])
		a = string(x)
	}
	if len(f) > 2 {
		x, _ := unhx(f[2])
		b = string(x)
	}
	return
}

func c04Oracle(c *Case, impl string) *Viol {
	tag, a, b := c04Decode(impl)
	key := ""
	if i := strings.Index(c.Note, "key="); i >= 0 {
		key = c.Note[i+4:]
	}
	switch tag {
	case "SAME":
		return nil
	}
	if c04Outside[key] && (tag == "DIFF" || tag == "JSERR") {
		// a program OUTSIDE the common subset (by the wording of the property): the backends are expected to
		// differ; observing the difference shows that the comparison is sensitive, it is not a violation.
		c04Skipped["outside-subset divergence observed: "+key]++
		return nil
	}
	switch tag {
	case "DIFF":
		return &Viol{Key: key, What: fmt.Sprintf("C04: Go renders %.200q, the generated JavaScript returns %.200q [%s]", a, b, c.Note), Want: "SAME"}
	case "JSERR":
		return &Viol{Key: key, What: fmt.Sprintf("C04: Go renders %.200q, the generated JavaScript fails: %.300s [%s]", a, b, c.Note), Want: "SAME"}
	case "WRITE-ERR":
		return &Viol{Key: key, What: fmt.Sprintf("C04: soyjs.Write fails on a bundle the compiler accepts: %.300s [%s]", a, c.Note), Want: "SAME"}
	default:
		// the Go renderer reports an error (no string to compare with), or the bundle does not compile
		c04Skipped[tag]++
		msg := a
		if i := strings.LastIndex(msg, ": "); i >= 0 && tag == "GOERR" {
			msg = msg[i+2:]
		}
		if len(msg) > 80 {
			msg = msg[:80]
		}
		c04Skipped[tag+": "+msg]++
		if c04Skipped[tag+": "+msg] == 1 {
			c04Stats["example of "+tag+": "+msg+" <= "+c.Note] = 1
		}
		return nil
	}
}

// hand cases outside the subset the property quantifies over: ill-typed operands (string and/or, mixed-type
// equality), an integer beyond 2^53, printing a list.
// escapeUri / escapeJsString: "no directive whose encoding is documented to differ" — the repository's twin test
// tables document both (soyhtml/exec_test.go escapeUri2 = a%25b+%3E+c, ejs5 = \'\' ; soyjs/exec_test.go = a%25b%20%3E%20c, \x27\x27).
var c04Outside = map[string]bool{"c04:escapeUri": true, "c04:escapeJsString": true, "c04:print-list": true, "c04:mixed-equality": true, "c04:int-overflow-2^53": true, "c04:and-or-value": true, "c04:switch-mixed": true}

type c04Hand struct {
	key, src, data string
}

// hand-written programs: the divergences the property names, and the corners of the scoping rules.
var c04Hands = []c04Hand{
	{"c04:round-negative-half", "{namespace h}\n/** @param f */\n{template .t}{round($f)}{/template}\n", `{"f":-2.5}`},
	{"c04:float-format-large", "{namespace h}\n/** @param f */\n{template .t}{$f * 1}{/template}\n", `{"f":1500000.5}`},
	{"c04:float-format-huge", "{namespace h}\n/** @param f\n @param g */\n{template .t}{$f * 1} {$g} {1.5e22} {6.02e23 * 1} {-$f}{/template}\n", `{"f":1e21,"g":1e300}`},
	{"c04:float-format-tiny", "{namespace h}\n/** @param f\n @param g */\n{template .t}{$f * 1} {$g} {2.5e-7} {1.0e-6} {-$f}{/template}\n", `{"f":1e-7,"g":1.5e-300}`},
	{"c04:float-format-small", "{namespace h}\n/** @param f */\n{template .t}{$f * 1}{/template}\n", `{"f":0.00001}`},
	{"c04:negative-zero", "{namespace h}\n/** @param f */\n{template .t}{$f * 0}{/template}\n", `{"f":-2.5}`},
	{"c04:integral-float-literal", "{namespace h}\n{template .t}{3.0}{1.0 + 2}{/template}\n", `{}`},
	{"c04:loopvar-scopes-list-expr", "{namespace h}\n/** @param x */\n{template .t}{foreach $x in $x}{$x}{/foreach}{/template}\n", `{"x":[1,2]}`},
	{"c04:loopvar-scopes-list-expr", "{namespace h}\n/** @param i */\n{template .t}{for $i in range($i)}{$i}{/for}{/template}\n", `{"i":3}`},
	{"c04:loopvar-internal-name", "{namespace h}\n{template .t}{foreach $__index in ['V']}{$__index}{/foreach}{/template}\n", `{}`},
	{"c04:loopvar-internal-name", "{namespace h}\n{template .t}{foreach $__limit in ['V', 'W']}{$__limit}{/foreach}{/template}\n", `{}`},
	{"c04:escapeHtml-double-quote", "{namespace h}\n/** @param s */\n{template .t}{$s}{/template}\n", `{"s":"\"q\""}`},
	{"c04:ifempty-sees-loop-var", "{namespace h}\n/** @param x\n @param l */\n{template .t}{foreach $x in $l}{$x}{ifempty}{$x}{/foreach}{/template}\n", `{"x":5,"l":[]}`},
	{"c04:isNonnull-nullsafe", "{namespace h}\n/** @param? a */\n{template .t}{isNonnull($a?.b)}{/template}\n", `{"a":null}`},
	{"c04:negated-nullsafe", "{namespace h}\n/** @param m */\n{template .t}{-($m?['a'])}{/template}\n", `{"m":{"a":3}}`},
	{"c04:negated-nullsafe", "{namespace h}\n/** @param a */\n{template .t}{-$a?.b}{/template}\n", `{"a":{"b":5}}`},
	{"c04:changeNewlineToBr-escaping", "{namespace h}\n/** @param x */\n{template .t}{$x|changeNewlineToBr}{/template}\n", `{"x":"<a>\n"}`},
	{"c04:let-in-untaken-if", "{namespace h}\n/** @param x */\n{template .t}{if false}{let $x: 5 /}{$x}{/if}{$x}{/template}\n", `{"x":1}`},
	{"c04:let-shadow-then-outer", "{namespace h}\n/** @param x */\n{template .t}{if true}{let $x: $x + 1 /}{$x}{/if}{$x}{let $x: $x * 10 /}{$x}{/template}\n", `{"x":1}`},
	{"c04:int-division", "{namespace h}\n/** @param i */\n{template .t}{$i / 2}{/template}\n", `{"i":7}`},
	{"c04:int-overflow-2^53", "{namespace h}\n/** @param i */\n{template .t}{$i + 1}{/template}\n", `{"i":9007199254740992}`},
	{"c04:mixed-equality", "{namespace h}\n/** @param i */\n{template .t}{$i == '1'}{/template}\n", `{"i":1}`},
	{"c04:print-list", "{namespace h}\n/** @param l */\n{template .t}{$l}{/template}\n", `{"l":[1,2]}`},
	{"c04:and-or-value", "{namespace h}\n/** @param s */\n{template .t}{$s and 'x'}{$s or 'y'}{/template}\n", `{"s":"a"}`},
	{"c04:escapeUri", "{namespace h}\n/** @param s */\n{template .t}{$s|escapeUri}{/template}\n", `{"s":"a b'c(d)*~!"}`},
	{"c04:escapeJsString", "{namespace h}\n/** @param s */\n{template .t}{$s|escapeJsString}{/template}\n", `{"s":"a'b\"c</script>\n"}`},
	{"c04:json-directive", "{namespace h}\n/** @param s */\n{template .t}{$s|json}{/template}\n", `{"s":"a<b>&'\""}`},
	{"c04:truncate-unicode", "{namespace h}\n/** @param s */\n{template .t}{$s|truncate:3}{$s|truncate:4,false}{/template}\n", `{"s":"é日本語テキスト"}`},
	{"c04:insertWordBreaks-entity", "{namespace h}\n/** @param s */\n{template .t}{$s|insertWordBreaks:3}{/template}\n", `{"s":"abcdef&amp;ghijkl <b>mnopqr</b>"}`},
	{"c04:insertWordBreaks-escaping", "{namespace h}\n{template .t}{'a&b'|insertWordBreaks:3}{/template}\n", `{}`},
	{"c04:directive-order", "{namespace h}\n/** @param s */\n{template .t}{$s|truncate:4,false|escapeHtml}{/template}\n", `{"s":"a<b>c"}`},
	{"c04:directive-order", "{namespace h}\n/** @param s */\n{template .t autoescape=\"false\"}{$s|escapeHtml|truncate:4,false}{/template}\n", `{"s":"a<b>c"}`},
	{"c04:directive-order", "{namespace h}\n/** @param s */\n{template .t}{$s|truncate:4,false}{/template}\n", `{"s":"a<b>c"}`},
	{"c04:genname-collision", "{namespace h}\n{template .t}{let $x1: 'a' /}{let $a: 1/}{let $b: 1/}{let $c: 1/}{let $d: 1/}{let $e: 1/}{let $f: 1/}{let $g: 1/}{let $h: 1/}{let $i: 1/}{let $x: 'b' /}{$x1}{$x}{$a}{$b}{$c}{$d}{$e}{$f}{$g}{$h}{$i}{/template}\n", `{}`},
	{"c04:genname-collision", "{namespace h}\n/** @param l */\n{template .t}{let $xIndex2: 'v' /}{foreach $x in $l}{$xIndex2}{index($x)}{/foreach}{let $param4: 'p' /}{call .u}{param a}{$param4}{/param}{/call}{/template}\n/** @param a */\n{template .u}{$a}{/template}\n", `{"l":[7,8]}`},
	{"c04:ok:loop-let-shadow", "{namespace h}\n/** @param y\n @param l */\n{template .t}{foreach $x in $l}[{$y}:{let $y: $x /}{$y}]{/foreach}{$y}{/template}\n", `{"y":"default","l":["a","b","c"]}`},
	{"c04:ok:loop-let-shadow", "{namespace h}\n/** @param y */\n{template .t}{for $i in range(3)}[{$y}:{let $y: $i * 10 /}{$y}]{/for}{$y}{/template}\n", `{"y":7}`},
	{"c04:ok:loop-let-shadow", "{namespace h}\n/** @param l */\n{template .t}{foreach $a in $l}{foreach $a in $l}{$a}{if isLast($a)}!{/if}{/foreach}{if isLast($a)}L{/if}{index($a)};{/foreach}{/template}\n", `{"l":[1,2,3]}`},
	{"c04:ok:loop-let-shadow", "{namespace h}\n/** @param l */\n{template .t}{foreach $a in $l}{if $a > 1}{let $b: $a /}{/if}{let $b: 0 /}{$b}{/foreach}{/template}\n", `{"l":[1,2,3]}`},
	{"c04:undefined-print", "{namespace h}\n/** @param? s */\n{template .t}{$s}{/template}\n", `{}`},
	{"c04:switch-mixed", "{namespace h}\n/** @param i */\n{template .t}{switch $i}{case '1'}S{case 1}I{default}D{/switch}{/template}\n", `{"i":1}`},
	{"c04:plural-float", "{namespace h}\n/** @param n */\n{template .t}{msg desc=\"\"}{plural $n}{case 1}one{default}{$n} many{/plural}{/msg}{/template}\n", `{"n":1}`},
	{"c04:ok:call-data", "{namespace h}\n/** @param m\n @param s */\n{template .t}{call .u data=\"$m\"}{param b}<{$s}>{/param}{/call}{call .u data=\"all\"}{param a: 9 /}{param b: $s /}{/call}{/template}\n/** @param a\n @param b */\n{template .u}{$a}:{$b};{/template}\n", `{"m":{"a":1,"b":2},"s":"x&y","a":5}`},
	{"c04:loopfunc-of-outer-loop", "{namespace h}\n/** @param l */\n{template .t}{foreach $a in $l}{foreach $b in $l}{if isLast($a)}L{/if}{index($a)}{/foreach}|{/foreach}{/template}\n", `{"l":[1,2,3]}`},
	{"c04:escapeHtml-nul", "{namespace h}\n/** @param s */\n{template .t}[{$s}]{/template}\n", `{"s":"a\u0000b"}`},
	{"c04:switch-default-first", "{namespace h}\n/** @param x */\n{template .t}{switch $x}{default}D{case 1}one{/switch}{/template}\n", `{"x":1}`},
	{"c04:loopfunc-of-for-range", "{namespace h}\n{template .t}{for $i in range(1, 4)}{index($i)}{if isFirst($i)}F{/if}{if isLast($i)}L{/if} {/for}{/template}\n", `{}`},
	{"c04:ifempty-of-range-loop", "{namespace h}\n/** @param n */\n{template .t}{foreach $i in range($n)}[{$i}]{ifempty}nothing{/foreach}|{for $i in range(2, $n)}{$i}{ifempty}E{let $i: 'x' /}{$i}{/for}|{foreach $i in range(0, 3, 2)}{$i}{ifempty}no{/foreach}{/template}\n", `{"n":0}`},
	{"c04:ifempty-of-range-loop", "{namespace h}\n/** @param n */\n{template .t}{foreach $i in range($n)}[{$i}]{ifempty}nothing{/foreach}{/template}\n", `{"n":2}`},
	{"c04:non-finite-float-global", "{namespace h}\n{template .t}{G_INF} {G_NINF} {G_NZERO} {G_INF > 1 ? 'big' : 'small'} {G_NINF + 1}{/template}\n", `{}`},
	{"c04:builtin-result-in-context", "{namespace h}\n/** @param x\n @param s */\n{template .t}{css isNonnull($x), n}|{css strContains($s, 'a'), m}|{isNonnull($x) ? 'y' : 'n'}|{isNonnull($x) == true}|{strContains($s, 'a') == false}|{not isNonnull($x)}|{not strContains($s, 'b')}|{isNonnull($x) and strContains($s, 'a')}{/template}\n", `{"x":1,"s":"abc"}`},
	{"c04:builtin-result-in-context", "{namespace h}\n/** @param? x\n @param s */\n{template .t}{css isNonnull($x), n}|{css strContains($s, 'a'), m}|{isNonnull($x) == true}|{strContains($s, 'a') == false}{/template}\n", `{"s":"xyz"}`},
	// integral floats beyond 2^53: both backends print the SHORTEST digits that round-trip (333333333333333300, 1e+21 as 1e21 …)
	{"c04:large-integral-float", "{namespace h}\n/** @param t\n @param p\n @param f */\n{template .t}{$t / $p}|{$f * 3}|{$f * 1000.0}|{$f * $f}|{$t / 1}|{-$f * 7}|{$f + 0.5}{/template}\n", `{"t":1000000000000000000,"p":3,"f":33333333333333331.0}`},
	{"c04:large-integral-float", "{namespace h}\n/** @param f */\n{template .t}{$f}|{$f * 2}|{$f / 2}|{$f * 1024}{/template}\n", `{"f":9007199254740993.0}`},
	{"c04:ok:loops", "{namespace h}\n/** @param l */\n{template .t}{foreach $a in $l}{foreach $b in $l}{$a}{$b}{if isFirst($b)}F{/if}{if isLast($b)}L{/if}{index($b)}{ifempty}E{/foreach}{if isLast($a)}L{/if}|{ifempty}none{/foreach}{for $i in range(1, 7, 2)}{$i}{/for}{/template}\n", `{"l":[1,2,3]}`},
}

func genC04exec(g *G) {
	// hand-written programs first
	for hi, h := range c04Hands {
		fs := []srcFile{{"hand.soy", h.src}}
		for _, kind := range []string{"-", "0", "2"} {
			if kind != "-" && !strings.Contains(h.src, "{msg") {
				continue
			}
			g.Add(Case{Req: req("c04exec", encSources(fs), sxGlobals(c04Globals), kind, hxs("h.t"), hxs(h.data), hxs(c04IJ)), NT: true, Class: "hand", NoModel: true,
				Note: fmt.Sprintf("hand#%d source=%q data=%s key=%s", hi, h.src, h.data, h.key)})
		}
	}
	n := g.N(300, 3000)
	bg := newC04BundleGen(g.R)
	progs := 0
	for i := 0; i < n; i++ {
		b := bg.bundle()
		fs := b.sources()
		if _, err := jsCompile(fs, c04Globals); err != nil {
			c04Stats["generator-bug: "+err.Error()]++
			continue
		}
		src := encSources(fs)
		hasMsg := false
		for _, f := range fs {
			if strings.Contains(f.content, "{msg ") {
				hasMsg = true
			}
		}
		kinds := []string{"-"}
		if hasMsg {
			kinds = append(kinds, "0", "1", "2")
		}
		for _, f := range b.files {
			for _, t := range f.tmpls {
				for k := 0; k < 2; k++ {
					dj := dataToJSON(bg.dataFor(t))
					for _, kind := range kinds {
						progs++
						tsrc := t.source()
						g.Add(Case{Req: req("c04exec", src, sxGlobals(c04Globals), kind, hxs(t.full()), hxs(dj), hxs(c04IJ)), NT: true, Class: "bundle" + map[string]string{"-": "", "0": "+identity-msgs", "1": "+reversed-msgs", "2": "+some-empty-translations"}[kind], NoModel: true,
							Note: fmt.Sprintf("bundle#%d seed=%d %s key=c04:%s|%s|%s", i, g.Seed, t.full(), strings.ReplaceAll(tsrc, " ", " "), dj, kind)})
					}
				}
			}
		}
	}
	for k, v := range bg.stats {
		c04Stats[k] += v
	}
	c04Stats["programs"] = progs
}
