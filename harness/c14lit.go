package main

import (
	"bufio"
	"fmt"
	"os"
	"path/filepath"
	"strings"
	"sync"
	"time"
	"unicode"

	"github.com/robertkrimen/otto"
	"github.com/robfig/soy/ast"
	"github.com/robfig/soy/data"
	"github.com/robfig/soy/soymsg"
	"github.com/robfig/soy/template"
)

// ---- otto with soyutils.js (one base VM per worker process, copied per case) ----

var (
	jsVMOnce sync.Once
	jsVMBase *otto.Otto
	jsVMErr  error
)

func soyutilsPath() string {
	for _, p := range []string{"/repo/soyjs/lib/soyutils.js"} {
		if _, err := os.Stat(p); err == nil {
			return p
		}
	}
	return filepath.Join("..", "repo", "soyjs", "lib", "soyutils.js")
}

// pluralIndexJS: soy.$$pluralIndex is not part of soyutils.js (the soyjs tests define it per
// locale); the harness uses the English rule on both sides.
const pluralIndexJS = "var soy = soy || {}; soy.$$pluralIndex = function(n) { return n == 1 ? 0 : 1; };\n"

func pluralEnglish(n int) int {
	if n == 1 {
		return 0
	}
	return 1
}

func jsBaseVM() (*otto.Otto, error) {
	jsVMOnce.Do(func() {
		f, err := os.Open(soyutilsPath())
		if err != nil {
			jsVMErr = err
			return
		}
		defer f.Close()
		var b strings.Builder
		sc := bufio.NewScanner(f)
		sc.Buffer(make([]byte, 1<<20), 1<<20)
		for sc.Scan() {
			line := sc.Text()
			// three filters use (?!…) look-ahead, which otto's regexp engine rejects (soyjs/exec_test.go skips them too)
			if strings.HasPrefix(line, "soy.esc.$$FILTER_FOR_FILTER_") && strings.Contains(line, "(?!") {
				continue
			}
			b.WriteString(line)
			b.WriteByte('\n')
		}
		vm := otto.New()
		if _, err := vm.Run(b.String()); err != nil {
			jsVMErr = fmt.Errorf("soyutils.js: %v", err)
			return
		}
		if _, err := vm.Run(pluralIndexJS); err != nil {
			jsVMErr = err
			return
		}
		jsVMBase = vm
	})
	return jsVMBase, jsVMErr
}

// es5ify makes an ES6-formatter file runnable as a script: import lines dropped, `export` removed.
func es5ify(src string) string {
	var b strings.Builder
	for _, line := range strings.SplitAfter(src, "\n") {
		if strings.HasPrefix(line, "import ") {
			continue
		}
		b.WriteString(strings.TrimPrefix(line, "export "))
	}
	return b.String()
}

func es6Name(name string) string { return strings.Replace(name, ".", "__", -1) }

// jsCallResult runs fn(data, undefined, ij) in vm; the data travel as JSON text.
func jsCall(vm *otto.Otto, fn string, dataJSON, ijJSON string) (out string, err error) {
	defer func() {
		if e := recover(); e != nil {
			err = fmt.Errorf("otto panic: %v", e)
		}
	}()
	vm.Set("__verif_d", dataJSON)
	vm.Set("__verif_ij", ijJSON)
	v, err := vm.Run(fn + "(JSON.parse(__verif_d), undefined, JSON.parse(__verif_ij));")
	if err != nil {
		return "", err
	}
	if !v.IsString() {
		return "", fmt.Errorf("result is not a string: %v", v)
	}
	s, err := v.ToString()
	return s, err
}

func runWithTimeout(vm *otto.Otto, d time.Duration, f func() error) (err error) {
	done := make(chan error, 1)
	vm.Interrupt = make(chan func(), 1)
	go func() {
		defer func() {
			if e := recover(); e != nil {
				done <- fmt.Errorf("interrupted: %v", e)
			}
		}()
		done <- f()
	}()
	select {
	case err = <-done:
		return err
	case <-time.After(d):
		vm.Interrupt <- func() { panic("timeout") }
		return <-done
	}
}

// templatesOf lists the qualified template names of a compiled file.
func templatesOf(f *ast.SoyFileNode) []string {
	var out []string
	for _, n := range f.Body {
		if t, ok := n.(*ast.TemplateNode); ok {
			out = append(out, t.Name)
		}
	}
	return out
}

// checkFileJS: the C14 oracle for one emitted file: it parses as a script, runs, and afterwards
// every template is a function under its qualified name.  Returns "" or the failure.
func checkFileJS(vm *otto.Otto, js string, es6 bool, names []string) string {
	src := js
	if es6 {
		src = es5ify(js)
	}
	if _, err := vm.Compile("", src); err != nil {
		return "parse: " + err.Error()
	}
	if err := runWithTimeout(vm, 5*time.Second, func() error { _, e := vm.Run(src); return e }); err != nil {
		return "run: " + err.Error()
	}
	for _, n := range names {
		fn := n
		if es6 {
			fn = es6Name(n)
		}
		v, err := vm.Run("typeof " + fn + " === 'function'")
		if err != nil {
			return "typeof " + fn + ": " + err.Error()
		}
		if b, _ := v.ToBoolean(); !b {
			return "not a function: " + fn
		}
	}
	return ""
}

// ---- literal cases: templates with a known expected output ----

type litCase struct {
	src      string
	globals  data.Map
	dataJSON string
	expect   string
}

func validIdentForJS(n string) bool { return n != "" }

// buildLit: kind + payload -> template source and the characters the JS function must return.
func buildLit(kind, v string) (c litCase, ok bool) {
	head := "{namespace lit.ns}\n"
	c.dataJSON = "{}"
	tmpl := func(doc, body string) string {
		return head + doc + "{template .t autoescape=\"false\"}\n" + body + "\n{/template}\n"
	}
	switch kind {
	case "literal":
		c.src, c.expect = tmpl("", literalBlock(v)), v
		if v == "" {
			c.expect = "'"
		}
	case "strlit":
		c.src, c.expect = tmpl("", "{"+soyQuote(v, nil)+"}"), v
	case "strlit-esc":
		c.src, c.expect = tmpl("", "{"+soyQuote(v, NewRNG(uint64(len(v))+1))+"}"), v
	case "mapkey":
		c.src, c.expect = tmpl("", "{foreach $k in keys(["+soyQuote(v, nil)+": 1])}{$k}{/foreach}"), v
	case "mapkeys4":
		// four keys: the one under test and three plain ones; the value selected through the key
		c.src = tmpl("", "{let $m: ['a': 'A', "+soyQuote(v+"#", nil)+": 'V', 'b\"': 'B', 'z\\\\': 'Z'] /}{$m["+soyQuote(v+"#", nil)+"]}{$m['b\"']}{$m['z\\\\']}{$m.a}")
		c.expect = "VBZA"
	case "css":
		c.src, c.expect = tmpl("", "{css "+v+"}"), v
	case "cssexpr":
		c.src, c.expect = tmpl("", "{css 'E"+"', "+v+"}"), "E-"+v
	case "msg":
		c.src, c.expect = tmpl("", "{msg desc=\"d\"}"+v+"{/msg}"), v
	case "msgplural":
		c.src, c.expect = tmpl("", "{msg desc=\"d\"}{plural 2}{case 1}one{default}"+v+"{/plural}{/msg}"), v
	case "global":
		c.src, c.expect = tmpl("", "{G_V}{g.v.LIST}"), v+"x"
		c.globals = data.Map{"G_V": data.String(v), "g.v.LIST": data.String("x")}
	case "globalmap":
		c.src, c.expect = tmpl("", "{foreach $k in keys(G_MAP)}{$k}{/foreach}{let $m: G_MAP /}{foreach $k in keys($m)}={$m[$k]}{/foreach}"), v+"="+v
		c.globals = data.Map{"G_MAP": data.Map{v: data.String(v)}}
	case "letcontent":
		c.src, c.expect = tmpl("", "{let $x}"+literalBlock(v)+"{/let}{$x}"), v
		if v == "" {
			c.expect = "'"
		}
	case "paramcontent":
		c.src = head + "{template .t autoescape=\"false\"}\n{call .u}{param p}" + literalBlock(v) + "{/param}{/call}\n{/template}\n/** @param p */\n{template .u autoescape=\"false\"}\n{$p}\n{/template}\n"
		c.expect = v
		if v == "" {
			c.expect = "'"
		}
	// identifiers: v is a NAME from the lexer's alphabet (letters, digits, underscore)
	case "ident-param":
		c.src, c.expect = tmpl("/** @param "+v+" */\n", "{$"+v+"}"), "V"
		c.dataJSON = dataToJSON(map[string]interface{}{v: "V"})
	case "ident-let":
		c.src, c.expect = tmpl("", "{let $"+v+": 'V' /}{$"+v+"}"), "V"
	case "ident-foreach":
		c.src, c.expect = tmpl("", "{foreach $"+v+" in ['V']}{$"+v+"}{/foreach}"), "V"
	case "ident-callparam":
		c.src = head + "{template .t autoescape=\"false\"}\n{call .u}{param " + v + ": 'V' /}{/call}\n{/template}\n/** @param " + v + " */\n{template .u autoescape=\"false\"}\n{$" + v + "}\n{/template}\n"
		c.expect = "V"
	case "ident-key":
		c.src, c.expect = tmpl("/** @param m */\n", "{$m."+v+"}{$m?."+v+"}"), "VV"
		c.dataJSON = dataToJSON(map[string]interface{}{"m": map[string]interface{}{v: "V"}})
	case "expr":
		// payload "SOURCE=>EXPECTED": a print of an expression with a known value
		i := strings.LastIndex(v, "=>")
		if i < 0 {
			return c, false
		}
		c.src, c.expect = tmpl("", "{"+v[:i]+"}"), v[i+2:]
		c.globals = data.Map{"G_NEG": data.Int(-7), "G_NEGF": data.Float(-2.5)}
	default:
		return c, false
	}
	return c, true
}

// litOracle compiles the case, emits JavaScript under both formatters and reads the literal back.
func litOracle(kind, v string) string {
	c, ok := buildLit(kind, v)
	if !ok {
		return "BADKIND"
	}
	fs := []srcFile{{"lit.soy", c.src}}
	reg, err := jsCompile(fs, c.globals)
	if err != nil {
		return "REJECTED " + hxs(err.Error())
	}
	base, err := jsBaseVM()
	if err != nil {
		return "NOVM " + hxs(err.Error())
	}
	var msgs *jsMemBundle
	if strings.HasPrefix(kind, "msg") {
		// also through a translation bundle (identity): the text then comes from the bundle
		msgs = translationsAll(reg)
	}
	for _, fm := range []string{"es5", "es6"} {
		for _, mb := range []*jsMemBundle{nil, msgs} {
			if mb == nil && fm == "es6" && msgs != nil {
				continue
			}
			js, ok := jsWrite(reg, "lit.soy", fm, mb)
			if !ok {
				return "FAIL " + hxs(fm+": Write: "+js)
			}
			vm := base.Copy()
			if why := checkFileJS(vm, js, fm == "es6", templatesOf(reg.SoyFiles[0])); why != "" {
				return "FAIL " + hxs(fm+": "+why)
			}
			// reading the literals by the rules of ECMA-262 (all code points, which otto cannot do above U+FFFF)
			if kind != "mapkeys4" && kind != "expr" && !strings.HasPrefix(kind, "ident-") {
				text, ok := jsLiteralText(js)
				if !ok {
					return "FAIL " + hxs(fm+": a string literal of the emitted file is malformed (ECMA-262 StringLiteral)")
				}
				needle := c.expect
				if kind == "cssexpr" || kind == "globalmap" || kind == "global" {
					needle = v
				}
				if !strings.Contains(text, needle) {
					return "FAIL " + hxs(fmt.Sprintf("%s: no string literal of the emitted file denotes %q", fm, needle))
				}
			}
			if hasAstral(c.expect) {
				continue // otto's strings are not UTF-16 above U+FFFF: execution cannot be compared
			}
			fn := "lit.ns.t"
			if fm == "es6" {
				fn = es6Name(fn)
			}
			var got string
			err := runWithTimeout(vm, 5*time.Second, func() error {
				var e error
				got, e = jsCall(vm, fn, c.dataJSON, "{}")
				return e
			})
			if err != nil {
				return "FAIL " + hxs(fm+": call: "+err.Error())
			}
			if got != c.expect {
				return "FAIL " + hxs(fmt.Sprintf("%s: reads back as %q, the template has %q", fm, got, c.expect))
			}
		}
	}
	return "OK"
}

func hasAstral(s string) bool {
	for _, r := range s {
		if r >= 0x10000 {
			return true
		}
	}
	return false
}

func translationsAll(reg *template.Registry) *jsMemBundle {
	b := &jsMemBundle{msgs: map[uint64]*soymsg.Message{}, plural: pluralEnglish}
	for _, m := range allMsgNodes(reg) {
		b.msgs[m.ID] = &soymsg.Message{ID: m.ID, Parts: identityParts(m.Body.Children())}
	}
	return b
}

func init() {
	// fields: kind, payload
	implOps["c14lit"] = func(f []string) string {
		v, _ := unhx(f[1])
		return litOracle(f[0], string(v))
	}
	// fields: sources, globals, messages, file, formatter
	implOps["c14parse"] = func(f []string) string {
		reg, err := jsCompileCached(f[0], f[1])
		if err != nil {
			return "COMPILE-ERR"
		}
		name, _ := unhx(f[3])
		js, ok := jsWrite(reg, string(name), f[4], msgsOfSx(f[2]))
		if !ok {
			return "ERR"
		}
		base, err := jsBaseVM()
		if err != nil {
			return "NOVM " + hxs(err.Error())
		}
		var names []string
		for _, sf := range reg.SoyFiles {
			if sf.Name == string(name) {
				names = templatesOf(sf)
			}
		}
		if why := checkFileJS(base.Copy(), js, f[4] == "es6", names); why != "" {
			return "FAIL " + hxs(why)
		}
		return "OK " + itoa(len(names))
	}
	register(&Prop{
		ID: "C14lit",
		Rule: "ORACLE independent of the model, executed in otto with soyutils.js: (a) templates built around ONE string with a known expected output — {literal}, string literal (raw and \\u spelling), map literal key (alone and among four keys), css name (with and without expression), message text (with and without a translation bundle, inside plural), global string, global map key, let/param content — " +
			"the payload drawn from all ASCII bytes, U+2028/9, quotes, backslashes, </script>, astral code points (printable and not), long strings: each emitted file (ES5, ES6) must parse, define lit.ns.t as a function, and return exactly the payload; " +
			"(b) names from the lexer's alphabet as param / let / loop / call-param / key names; (c) every file of generated all-feature bundles x formatter x bundle must parse and define one function per template; non-trivial = payload contains a byte outside [A-Za-z0-9 ]",
		Gen:     genC14lit,
		Oracle:  c14litOracle,
		Timeout: 30 * time.Second,
		Direct: func(g *G, rep *Report) {
			rep.Extra["rejected_by_compiler_per_kind"] = c14Rejected
			rep.Extra["rejected_example_per_kind"] = c14RejectedWhy
		},
	})
}

func c14litOracle(c *Case, impl string) *Viol {
	if strings.HasPrefix(impl, "OK") || impl == "ERR" {
		return nil
	}
	f := strings.Split(c.Req, "\t")
	why := impl
	if i := strings.IndexByte(impl, ' '); i > 0 {
		if b, ok := unhx(impl[i+1:]); ok {
			why = impl[:i] + " " + string(b)
		}
	}
	if f[0] == "c14lit" {
		v, _ := unhx(f[2])
		key := "js:" + f[1] + ":" + quote(v)
		if strings.HasPrefix(f[1], "ident-") {
			switch {
			case len(v) > 0 && unicode.IsDigit([]rune(string(v))[0]):
				key = "js:ident-leading-digit"
			case jsReserved[string(v)]:
				key = "js:ident-reserved-word:" + f[1]
			}
		}
		if f[1] == "expr" && strings.Contains(string(v), "-") && strings.Contains(why, "left-hand side") {
			key = "js:negate-negative-literal"
		}
		if strings.HasPrefix(impl, "REJECTED") {
			// the compiler refuses the template: nothing is emitted, nothing to read back
			c14Rejected[f[1]]++
			if _, ok := c14RejectedWhy[f[1]]; !ok {
				c14RejectedWhy[f[1]] = quote(v) + ": " + why
			}
			return nil
		}
		return &Viol{Key: key, What: "C14: template " + f[1] + " with " + quote(v) + ": " + why, Want: "OK"}
	}
	if strings.HasPrefix(impl, "COMPILE-ERR") {
		return nil
	}
	if strings.Contains(why, "left-hand side") {
		// (--7): a negated negative literal (the only `--` the generator can emit)
		return &Viol{Key: "js:negate-negative-literal", What: "C14: emitted file is not a well-formed script: " + why + " [" + c.Note + "]", Want: "OK"}
	}
	return &Viol{Key: "js:file:" + c.Note, What: "C14: emitted file is not a well-formed script defining its templates: " + why, Want: "OK"}
}

var c14Rejected = map[string]int{}
var c14RejectedWhy = map[string]string{}

var jsReserved = map[string]bool{"var": true, "function": true, "class": true, "new": true, "delete": true, "in": true, "if": true, "this": true, "null": true, "true": true, "typeof": true, "default": true, "case": true, "return": true, "with": true, "enum": true}

func payloadNT(v string) bool {
	for i := 0; i < len(v); i++ {
		c := v[i]
		if !(c >= 'a' && c <= 'z' || c >= 'A' && c <= 'Z' || c >= '0' && c <= '9' || c == ' ') {
			return true
		}
	}
	return false
}

func genC14lit(g *G) {
	r := g.R
	add := func(kind, v string) {
		g.Add(Case{Req: req("c14lit", kind, hxs(v)), NT: payloadNT(v), Class: kind, Note: kind + " " + quote([]byte(v)), NoModel: true})
	}
	anyKinds := []string{"literal", "strlit", "strlit-esc", "mapkey", "mapkeys4", "global", "globalmap", "letcontent", "paramcontent"}
	// (a1) every ASCII byte and every special rune alone and in context, for every kind that takes any text
	for _, k := range anyKinds {
		for b := 0; b < 128; b++ {
			if (k == "literal" || k == "letcontent" || k == "paramcontent") && (b == '{' || b == '}' || b == 0) {
				continue // not expressible inside {literal}
			}
			if g.Quick() && b%4 != int(g.Seed)%4 && b != '\'' && b != '"' && b != '\\' && b != '\n' && b != '\r' && b != '<' {
				continue
			}
			add(k, string(rune(b)))
			add(k, "a"+string(rune(b))+"b")
		}
		for _, rn := range []rune{0x2028, 0x2029, 0x80, 0xe9, 0xfeff, 0xfffd, 0xffff, 0xd7ff, 0xe000, 0x10000, 0x1F600, 0xF0000, 0x10FFFF, 0xE0001} {
			add(k, string(rn))
			add(k, "x"+string(rn)+"'\\"+string(rn))
		}
		for _, s := range []string{"</script>", "<!--", "]]>", "\\u0041", "\\'", "\\\\", "\\", "'", "''", "\"", "\\n", "a\r\nb", strings.Repeat("0123456789'\"\\<>&=\n", 300), "${x}", "`", "/*", "*/", "//", "\u2028\u2029"} {
			add(k, s)
		}
	}
	// (a1') long strings: a multi-byte character at every offset around the powers of two (a generator that
	// splits, buffers or wraps long text at byte offsets cuts such a character in two)
	longBases := []int{1023, 1024, 2048, 4096}
	longKinds := []string{"literal", "strlit", "global"}
	if !g.Quick() {
		longBases = []int{127, 128, 255, 256, 511, 512, 1023, 1024, 2047, 2048, 4095, 4096, 8191, 8192, 16384, 32768, 65535, 65536}
		longKinds = anyKinds
	}
	for _, k := range longKinds {
		for _, base := range longBases {
			for off := -4; off <= 1; off++ {
				if base+off < 0 {
					continue
				}
				add(k, strings.Repeat("a", base+off)+"é日😀"+strings.Repeat("b", 7))
			}
		}
		add(k, strings.Repeat("αβγδε ζηθ ", 400))  // 2-byte characters at every parity, 7.6 kB
		add(k, "x"+strings.Repeat("日本語テキスト", 500)) // 3-byte characters shifted by one, 10 kB
		add(k, "xy"+strings.Repeat("😀", 1500))     // 4-byte characters shifted by two
	}
	// (a2) css names and message text: restricted alphabets (the syntax of the command excludes the rest)
	cssOK := func(c rune) bool { return c >= 0x20 && c != '{' && c != '}' && c != ',' && c != 0x7f }
	msgOK := func(c rune) bool {
		return c > 0x20 && c != '{' && c != '}' && c != '<' && c != '>' && c != 0x7f && c != '/'
	}
	restricted := func(kinds []string, okf func(rune) bool) {
		for _, k := range kinds {
			for b := rune(0x21); b < 128; b++ {
				if okf(b) {
					add(k, "n"+string(b)+"m")
				}
			}
			for _, rn := range []rune{0x2028, 0x2029, 0xe9, 0x1F600, 0xF0000, 0x10FFFF} {
				add(k, "n"+string(rn)+"m")
			}
			add(k, "it's-\"q\"-\\-end")
			add(k, "a\\b")
		}
	}
	restricted([]string{"css", "cssexpr"}, cssOK)
	restricted([]string{"msg", "msgplural"}, msgOK)
	// (a3) random payloads
	n := g.N(300, 6000)
	for i := 0; i < n; i++ {
		v := strings.ToValidUTF8(weirdString(r), "?")
		k := anyKinds[r.Intn(len(anyKinds))]
		if k == "literal" || k == "letcontent" || k == "paramcontent" {
			v = strings.Map(func(c rune) rune {
				if c == '{' || c == '}' || c == 0 {
					return '~'
				}
				return c
			}, v)
		}
		add(k, v)
	}
	// (b) names
	for _, k := range []string{"ident-param", "ident-let", "ident-foreach", "ident-callparam", "ident-key"} {
		for _, name := range []string{"x", "_", "_1", "x1", "a_b", "X9", "var", "function", "class", "in", "this", "default", "é", "日本", "ǅ", "1z", "2", "0", "9a", "٣a", "output", "opt_data", "soy", "param"} {
			// ("a٣" is left out: otto's parser fails on a non-ASCII digit inside a property name, which ES5 allows;
			//  "__limit"/"__index" as loop variables are a scoping defect, reported by C04exec)
			add(k, name)
		}
	}
	for _, e := range []string{"-(-5)=>5", "- -5=>5", "-(-2.5)=>2.5", "-G_NEG=>7", "-G_NEGF=>2.5", "1 - -5=>6", "-(5)=>-5", "-(1 - 2)=>1", "not (not true)=>true", "-0=>0"} {
		add("expr", e)
	}
	// (c0) the hand-written files of C14gen, each under a customary and under a hostile file name (the header comment names the file)
	for hi, hsrc := range jsHandSources {
		for _, hname := range []string{"hand.soy", handNames[hi%len(handNames)], handNames[(hi+3)%len(handNames)]} {
			fs := []srcFile{{hname, hsrc}}
			globals := jsGlobalsFull()
			reg, err := jsCompile(fs, globals)
			if err != nil {
				continue
			}
			var mbs = []*jsMemBundle{nil}
			if len(allMsgNodes(reg)) > 0 {
				mbs = append(mbs, translationsAll(reg))
			}
			for _, fm := range []string{"es5", "es6"} {
				for _, mb := range mbs {
					g.Add(Case{Req: req("c14parse", encSources(fs), sxGlobals(globals), sxMsgs(mb), hxs(hname), fm), NT: true, Class: "hand-parse-" + fm, NoModel: true,
						Note: fmt.Sprintf("hand#%d file=%q %s", hi, hname, fm)})
				}
			}
		}
	}
	// (c1) namespaces whose FIRST segment is a JavaScript reserved word the Soy lexer takes for an identifier: the
	// generator's scheme (`var <ns> = {}`, `<ns>.t = function`) has no spelling for them (known finding)
	for _, ns := range []string{"var.x", "delete", "function.f", "class", "enum.e", "this", "in.n", "a.var", "a.delete.b"} {
		fs := []srcFile{{"ns.soy", "{namespace " + ns + "}\n/** */\n{template .t}x{call .u/}{/template}\n/** */\n{template .u}y{/template}\n"}}
		globals := jsGlobalsFull()
		if _, err := jsCompile(fs, globals); err != nil {
			continue
		}
		for _, fm := range []string{"es5", "es6"} {
			g.Add(Case{Req: req("c14parse", encSources(fs), sxGlobals(globals), sxMsgs(nil), hxs("ns.soy"), fm), NT: true, Class: "namespace-word-" + fm, NoModel: true,
				Note: "reserved-word-namespace " + ns + " " + fm})
		}
	}
	// (c) all-feature bundles: every file parses and defines its templates
	nb := g.N(120, 2500)
	bg := newJsBundleGen(r)
	for i := 0; i < nb; i++ {
		c, err := makeJsBundleCase(bg, r, i%3 == 0)
		if err != nil {
			continue
		}
		src := encSources(c.fs)
		for _, f := range c.reg.SoyFiles {
			for _, fm := range []string{"es5", "es6"} {
				for _, mb := range c.msgs {
					g.Add(Case{Req: req("c14parse", src, c.gwire, sxMsgs(mb), hxs(f.Name), fm), NT: c.nt, Class: "bundle-parse-" + fm, NoModel: true,
						Note: fmt.Sprintf("bundle#%d seed=%d file=%s %s", i, g.Seed, f.Name, fm)})
				}
			}
		}
	}
}
