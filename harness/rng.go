package main

// RNG is splitmix64: every random choice of a run derives from VERIF_SEED, so a
// disagreement replays exactly, independent of the Go version's math/rand.
type RNG struct{ s uint64 }

func NewRNG(seed uint64) *RNG {
	// scramble the seed first: without this, seeds k and k+1 give the same
	// stream shifted by one draw.
	z := seed + 0x9E3779B97F4A7C15
	z = (z ^ (z >> 30)) * 0xBF58476D1CE4E5B9
	z = (z ^ (z >> 27)) * 0x94D049BB133111EB
	return &RNG{z ^ (z >> 31)}
}

func (r *RNG) U64() uint64 {
	r.s += 0x9E3779B97F4A7C15
	z := r.s
	z = (z ^ (z >> 30)) * 0xBF58476D1CE4E5B9
	z = (z ^ (z >> 27)) * 0x94D049BB133111EB
	return z ^ (z >> 31)
}

func (r *RNG) Intn(n int) int {
	if n <= 0 {
		return 0
	}
	return int(r.U64() % uint64(n))
}

func (r *RNG) Bool() bool { return r.U64()&1 == 1 }

// Chance returns true with probability num/den.
func (r *RNG) Chance(num, den int) bool { return r.Intn(den) < num }

func (r *RNG) Pick(ss []string) string { return ss[r.Intn(len(ss))] }

// Fork derives an independent stream.
func (r *RNG) Fork() *RNG { return &RNG{r.U64()} }

// Perm returns a pseudo-random permutation of 0..n-1.
func (r *RNG) Perm(n int) []int {
	p := make([]int, n)
	for i := range p {
		p[i] = i
	}
	for i := n - 1; i > 0; i-- {
		j := r.Intn(i + 1)
		p[i], p[j] = p[j], p[i]
	}
	return p
}
