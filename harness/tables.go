package main

import (
	"fmt"
	"os"
)

func tablesMain(args []string) {
	if len(args) < 1 {
		fmt.Fprintln(os.Stderr, "usage: vh tables <dir>")
		os.Exit(2)
	}
	for _, t := range tableWriters {
		t(args[0])
	}
}

var tableWriters []func(dir string)
