package main

import (
	"fmt"
	"math"
	"sort"
	"strconv"
	"strings"

	"github.com/robfig/soy/ast"
)

// Wire form of the syntax tree: the S-expressions read and written by
// lean/SoyVerif/Model/AstWire.lean.  Reflection-free visitors.

func sx(parts ...string) string { return "(" + strings.Join(parts, " ") + ")" }

func itoaPos(p ast.Pos) string { return strconv.Itoa(int(p)) }

func aeTag(a ast.AutoescapeType) string {
	switch a {
	case ast.AutoescapeOn:
		return "on"
	case ast.AutoescapeOff:
		return "off"
	case ast.AutoescapeContextual:
		return "ctx"
	}
	return "u"
}

func sxExprs(ns []ast.Node) []string {
	var out []string
	for _, n := range ns {
		out = append(out, sxExpr(n))
	}
	return out
}

func sxOptExpr(n ast.Node) string {
	if n == nil {
		return "(none)"
	}
	return sxExpr(n)
}

func binTag(n ast.Node) (string, *ast.BinaryOpNode) {
	switch n := n.(type) {
	case *ast.MulNode:
		return "mul", &n.BinaryOpNode
	case *ast.DivNode:
		return "div", &n.BinaryOpNode
	case *ast.ModNode:
		return "mod", &n.BinaryOpNode
	case *ast.AddNode:
		return "add", &n.BinaryOpNode
	case *ast.SubNode:
		return "sub", &n.BinaryOpNode
	case *ast.EqNode:
		return "eq", &n.BinaryOpNode
	case *ast.NotEqNode:
		return "ne", &n.BinaryOpNode
	case *ast.GtNode:
		return "gt", &n.BinaryOpNode
	case *ast.GteNode:
		return "ge", &n.BinaryOpNode
	case *ast.LtNode:
		return "lt", &n.BinaryOpNode
	case *ast.LteNode:
		return "le", &n.BinaryOpNode
	case *ast.OrNode:
		return "or", &n.BinaryOpNode
	case *ast.AndNode:
		return "and", &n.BinaryOpNode
	case *ast.ElvisNode:
		return "elvis", &n.BinaryOpNode
	}
	return "", nil
}

func sxExpr(n ast.Node) string {
	switch n := n.(type) {
	case *ast.NullNode:
		return sx("null", itoaPos(n.Pos))
	case *ast.BoolNode:
		return sx("bool", itoaPos(n.Pos), bit(n.True))
	case *ast.IntNode:
		return sx("int", itoaPos(n.Pos), strconv.FormatInt(n.Value, 10))
	case *ast.FloatNode:
		return sx("float", itoaPos(n.Pos), strconv.FormatUint(math.Float64bits(n.Value), 10))
	case *ast.StringNode:
		return sx("str", itoaPos(n.Pos), hxs(n.Quoted), hxs(n.Value))
	case *ast.GlobalNode:
		return sx("global", itoaPos(n.Pos), hxs(n.Name))
	case *ast.FunctionNode:
		return sx(append([]string{"func", itoaPos(n.Pos), hxs(n.Name)}, sxExprs(n.Args)...)...)
	case *ast.ListLiteralNode:
		return sx(append([]string{"list", itoaPos(n.Pos)}, sxExprs(n.Items)...)...)
	case *ast.MapLiteralNode:
		keys := make([]string, 0, len(n.Items))
		for k := range n.Items {
			keys = append(keys, k)
		}
		sort.Strings(keys)
		parts := []string{"map", itoaPos(n.Pos)}
		for _, k := range keys {
			parts = append(parts, sx(hxs(k), sxExpr(n.Items[k])))
		}
		return sx(parts...)
	case *ast.DataRefNode:
		parts := []string{"ref", itoaPos(n.Pos), hxs(n.Key)}
		for _, a := range n.Access {
			switch a := a.(type) {
			case *ast.DataRefKeyNode:
				parts = append(parts, sx("k", itoaPos(a.Pos), bit(a.NullSafe), hxs(a.Key)))
			case *ast.DataRefIndexNode:
				parts = append(parts, sx("i", itoaPos(a.Pos), bit(a.NullSafe), strconv.Itoa(a.Index)))
			case *ast.DataRefExprNode:
				parts = append(parts, sx("x", itoaPos(a.Pos), bit(a.NullSafe), sxExpr(a.Arg)))
			default:
				parts = append(parts, fmt.Sprintf("(badaccess %T)", a))
			}
		}
		return sx(parts...)
	case *ast.NotNode:
		return sx("not", itoaPos(n.Pos), sxExpr(n.Arg))
	case *ast.NegateNode:
		return sx("neg", itoaPos(n.Pos), sxExpr(n.Arg))
	case *ast.TernNode:
		return sx("tern", itoaPos(n.Pos), sxExpr(n.Arg1), sxExpr(n.Arg2), sxExpr(n.Arg3))
	}
	if tag, b := binTag(n); b != nil {
		return sx(tag, itoaPos(b.Pos), sxExpr(b.Arg1), sxExpr(b.Arg2))
	}
	return fmt.Sprintf("(badexpr %T)", n)
}

func sxBlock(n ast.Node) string {
	l, ok := n.(*ast.ListNode)
	if !ok {
		return fmt.Sprintf("(badblock %T)", n)
	}
	parts := []string{"block", itoaPos(l.Pos)}
	for _, c := range l.Nodes {
		parts = append(parts, sxCmd(c))
	}
	return sx(parts...)
}

func sxParts(ns []ast.Node) []string {
	var parts []string
	for _, c := range ns {
		switch c := c.(type) {
		case *ast.RawTextNode:
			parts = append(parts, sx("raw", itoaPos(c.Pos), hx(c.Text)))
		case *ast.MsgPlaceholderNode:
			var body string
			if tag, ok := c.Body.(*ast.MsgHtmlTagNode); ok {
				body = sx("tag", itoaPos(tag.Pos), hx(tag.Text))
			} else {
				body = sxCmd(c.Body)
			}
			parts = append(parts, sx("ph", itoaPos(c.Pos), hxs(c.Name), body))
		case *ast.MsgPluralNode:
			p := []string{"plural", itoaPos(c.Pos), hxs(c.VarName), sxExpr(c.Value)}
			for _, pc := range c.Cases {
				cp := []string{"case", itoaPos(pc.Pos), strconv.Itoa(pc.Value), itoaPos(pc.Body.Position())}
				cp = append(cp, sxParts(pc.Body.Children())...)
				p = append(p, sx(cp...))
			}
			dp := []string{"default", itoaPos(c.Default.Position())}
			dp = append(dp, sxParts(c.Default.Children())...)
			p = append(p, sx(dp...))
			parts = append(parts, sx(p...))
		default:
			parts = append(parts, fmt.Sprintf("(badpart %T)", c))
		}
	}
	return parts
}

func sxCmd(n ast.Node) string {
	switch n := n.(type) {
	case *ast.RawTextNode:
		return sx("raw", itoaPos(n.Pos), hx(n.Text))
	case *ast.PrintNode:
		parts := []string{"print", itoaPos(n.Pos), sxExpr(n.Arg)}
		for _, d := range n.Directives {
			parts = append(parts, sx(append([]string{"dir", itoaPos(d.Pos), hxs(d.Name)}, sxExprs(d.Args)...)...))
		}
		return sx(parts...)
	case *ast.MsgNode:
		parts := []string{"msg", itoaPos(n.Pos), strconv.FormatUint(n.ID, 10), hxs(n.Meaning), hxs(n.Desc), itoaPos(n.Body.Position())}
		parts = append(parts, sxParts(n.Body.Children())...)
		return sx(parts...)
	case *ast.CssNode:
		return sx("css", itoaPos(n.Pos), sxOptExpr(n.Expr), hxs(n.Suffix))
	case *ast.DebuggerNode:
		return sx("debugger", itoaPos(n.Pos))
	case *ast.LogNode:
		return sx("log", itoaPos(n.Pos), sxBlock(n.Body))
	case *ast.IfNode:
		parts := []string{"if", itoaPos(n.Pos)}
		for _, c := range n.Conds {
			parts = append(parts, sx("cond", itoaPos(c.Pos), sxOptExpr(c.Cond), sxBlock(c.Body)))
		}
		return sx(parts...)
	case *ast.ForNode:
		ie := "(none)"
		if n.IfEmpty != nil {
			ie = sxBlock(n.IfEmpty)
		}
		return sx("for", itoaPos(n.Pos), hxs(n.Var), sxExpr(n.List), sxBlock(n.Body), ie)
	case *ast.SwitchNode:
		parts := []string{"switch", itoaPos(n.Pos), sxExpr(n.Value)}
		for _, c := range n.Cases {
			parts = append(parts, sx("case", itoaPos(c.Pos), sx(append([]string{"vals"}, sxExprs(c.Values)...)...), sxBlock(c.Body)))
		}
		return sx(parts...)
	case *ast.CallNode:
		parts := []string{"call", itoaPos(n.Pos), hxs(n.Name), bit(n.AllData), sxOptExpr(n.Data)}
		for _, p := range n.Params {
			switch p := p.(type) {
			case *ast.CallParamValueNode:
				parts = append(parts, sx("pv", itoaPos(p.Pos), hxs(p.Key), sxExpr(p.Value)))
			case *ast.CallParamContentNode:
				parts = append(parts, sx("pc", itoaPos(p.Pos), hxs(p.Key), sxBlock(p.Content)))
			default:
				parts = append(parts, fmt.Sprintf("(badparam %T)", p))
			}
		}
		return sx(parts...)
	case *ast.LetValueNode:
		return sx("let", itoaPos(n.Pos), hxs(n.Name), sxExpr(n.Expr))
	case *ast.LetContentNode:
		return sx("letc", itoaPos(n.Pos), hxs(n.Name), sxBlock(n.Body))
	case *ast.HeaderParamNode:
		return sx("hparam", itoaPos(n.Pos), bit(n.Optional), hxs(n.Name), itoaPos(n.Type.Pos), hxs(n.Type.Expr), sxOptExpr(n.Default))
	case *ast.NamespaceNode:
		return sx("namespace", itoaPos(n.Pos), hxs(n.Name), aeTag(n.Autoescape))
	case *ast.TemplateNode:
		return sx("template", itoaPos(n.Pos), hxs(n.Name), sxBlock(n.Body), aeTag(n.Autoescape), bit(n.Private))
	case *ast.SoyDocNode:
		parts := []string{"soydoc", itoaPos(n.Pos)}
		for _, p := range n.Params {
			parts = append(parts, sx("p", itoaPos(p.Pos), hxs(p.Name), bit(p.Optional)))
		}
		return sx(parts...)
	}
	return fmt.Sprintf("(badcmd %T)", n)
}

func sxFile(f *ast.SoyFileNode) string {
	parts := []string{"file", hxs(f.Name)}
	for _, c := range f.Body {
		parts = append(parts, sxCmd(c))
	}
	return sx(parts...)
}
