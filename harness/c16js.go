package main

import (
	"encoding/json"
	"strconv"
	"strings"

	"github.com/robfig/soy/data"
)

// C16js: the JavaScript counterparts.  For every chain of one to three directives among those whose encodings the
// two backends share (escapeHtml, noAutoescape, id, changeNewlineToBr, insertWordBreaks, truncate on ASCII; escapeUri
// on values both encoders treat alike), in a template with autoescaping on and off, the function soyjs generates —
// run in otto with soyutils.js — returns what the Go directive chain writes, for values full of the characters the
// encodings are about.  The ORDER in which the generated code applies the directives and where it inserts the
// implicit escapeHtml is part of what is compared (a chain is not the sum of its single directives).

func init() {
	register(&Prop{
		ID: "C16js",
		Rule: "all chains of 1 and 2 directives and a sample of chains of 3 over {escapeHtml, noAutoescape, id, changeNewlineToBr, insertWordBreaks:2|8, truncate:4,false|9|30, escapeUri (first position or after escapeUri-safe output)} x autoescape on/off x values with & < > \" ' newlines, long words, entity-like text; " +
			"oracle: generated JavaScript executed in otto with soyutils.js = Go render; non-trivial = the value contains an HTML-special character and the chain has at least two directives",
		Direct: directC16js,
	})
}

func directC16js(g *G, rep *Report) {
	r := g.R.Fork()
	dirs := []string{"|escapeHtml", "|noAutoescape", "|id", "|changeNewlineToBr", "|insertWordBreaks:2", "|insertWordBreaks:8", "|truncate:4,false", "|truncate:9", "|truncate:30", "|escapeUri"}
	var chains [][]string
	for _, a := range dirs {
		chains = append(chains, []string{a})
		for _, b := range dirs {
			chains = append(chains, []string{a, b})
		}
	}
	for i := 0; i < g.N(60, 1000); i++ {
		chains = append(chains, []string{dirs[r.Intn(len(dirs))], dirs[r.Intn(len(dirs))], dirs[r.Intn(len(dirs))]})
	}
	// escapeUri: Go's QueryEscape and soy.$$escapeUri (encodeURIComponent) differ on space and on !*'()~ (documented by
	// the repository's twin test tables): those characters stay out of the values of chains that contain it
	values := []string{"a&b", "a<b>c", "x\"y'z", "one\ntwo\r\nthree", "abcdefghijklmnop<qrstuvwxyz", "&amp;&lt;&#39;", "<b>bold</b>&", "1<2>3&4\"5'6", "", "plain", "aaaa&aaaa&aaaa&aaaa", "tab\there"}
	uriUnsafe := " !*'()~"
	for ci, ch := range chains {
		chain := strings.Join(ch, "")
		hasUri := strings.Contains(chain, "escapeUri")
		for _, ae := range []string{"", ` autoescape="false"`} {
			src := "{namespace cj}\n/** @param s */\n{template .t" + ae + "}\n[{$s" + chain + "}]\n{/template}\n"
			enc := encSources([]srcFile{{"cj.soy", src}})
			for vi, v := range values {
				if hasUri && strings.ContainsAny(v, uriUnsafe) {
					continue
				}
				if g.Quick() && len(ch) > 1 && (ci+vi)%3 != int(g.Seed%3) {
					continue
				}
				dj, _ := json.Marshal(map[string]string{"s": v})
				res := c04Run(enc, sxGlobals(data.Map{}), "-", "cj.t", string(dj), "{}")
				rep.Evaluations++
				tag := res
				if i := strings.IndexByte(res, ' '); i >= 0 {
					tag = res[:i]
				}
				rep.Distribution[tag]++
				switch tag {
				case "SAME", "BOTH-ERR":
					if len(ch) >= 2 && strings.ContainsAny(v, "&<>\"'") {
						rep.DistinctNT++
					}
				case "COMPILE-ERR", "NOVM":
					// not a statement about the directives
				default:
					_, a, b := c04Decode(res)
					if len(rep.Violations) < 20 {
						rep.Violations = append(rep.Violations, Viol{Key: "c16js:" + chain + ":" + ae, What: "the generated JavaScript for {$s" + chain + "} does not return what the Go directives write for s = " + strconv.Quote(v) + " (" + tag + ")",
							Req: req("c04exec", enc, sxGlobals(data.Map{}), "-", hxs("cj.t"), hxs(string(dj)), hxs("{}")), Note: "{$s" + chain + "}" + ae + " s=" + strconv.Quote(v), Impl: "JS " + strconv.Quote(b), Want: "Go " + strconv.Quote(a)})
					}
				}
			}
		}
	}
	rep.Samples = append(rep.Samples, "{$s|escapeUri|insertWordBreaks:8} s=\"a&b\"", "{$s|truncate:4,false|changeNewlineToBr} s=\"a<b>c\"")
}
