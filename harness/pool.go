package main

import (
	"bufio"
	"io"
	"os"
	"os/exec"
	"strings"
	"sync"
	"time"
)

// lineProc is a child process speaking the one-line-in / one-line-out protocol.
type lineProc struct {
	argv []string
	cmd  *exec.Cmd
	in   io.WriteCloser
	out  *bufio.Reader
	ans  chan string
}

func startProc(argv []string) (*lineProc, error) {
	p := &lineProc{argv: argv}
	return p, p.start()
}

func (p *lineProc) start() error {
	p.cmd = exec.Command(p.argv[0], p.argv[1:]...)
	p.cmd.Stderr = os.Stderr
	var err error
	if p.in, err = p.cmd.StdinPipe(); err != nil {
		return err
	}
	so, err := p.cmd.StdoutPipe()
	if err != nil {
		return err
	}
	p.out = bufio.NewReaderSize(so, 1<<20)
	if err = p.cmd.Start(); err != nil {
		return err
	}
	p.ans = make(chan string, 4)
	go func(r *bufio.Reader, ch chan string) {
		for {
			line, err := r.ReadString('\n')
			if line != "" {
				ch <- strings.TrimRight(line, "\n")
			}
			if err != nil {
				close(ch)
				return
			}
		}
	}(p.out, p.ans)
	return nil
}

func (p *lineProc) kill() {
	if p.cmd != nil && p.cmd.Process != nil {
		p.cmd.Process.Kill()
		p.cmd.Wait()
	}
}

// ask sends one request and waits for the answer.  HANG = no answer within the
// timeout (the process is killed and restarted); CRASH/OOM = the process died.
func (p *lineProc) ask(line string, timeout time.Duration) string {
	if _, err := io.WriteString(p.in, line+"\n"); err != nil {
		p.kill()
		p.start()
		return "CRASH"
	}
	select {
	case a, ok := <-p.ans:
		if !ok {
			p.kill()
			p.start()
			return "CRASH"
		}
		if a == "OOM" {
			p.kill()
			p.start()
			return "OOM"
		}
		return a
	case <-time.After(timeout):
		p.kill()
		p.start()
		return "HANG"
	}
}

// runAll answers all requests with nproc copies of the process, preserving order.
func runAll(argv []string, reqs []string, nproc int, timeout time.Duration) []string {
	out := make([]string, len(reqs))
	if nproc > len(reqs) {
		nproc = len(reqs)
	}
	if nproc < 1 {
		nproc = 1
	}
	var wg sync.WaitGroup
	next := make(chan int, len(reqs))
	for i := range reqs {
		next <- i
	}
	close(next)
	for w := 0; w < nproc; w++ {
		wg.Add(1)
		go func() {
			defer wg.Done()
			p, err := startProc(argv)
			if err != nil {
				for i := range next {
					out[i] = "NOPROC " + err.Error()
				}
				return
			}
			defer p.kill()
			for i := range next {
				a := p.ask(reqs[i], timeout)
				if a == "HANG" || a == "CRASH" {
					// re-run alone once to tell a real hang from collateral damage
					a = p.ask(reqs[i], timeout)
				}
				out[i] = a
			}
		}()
	}
	wg.Wait()
	return out
}

func selfWorkerArgv() []string {
	exe, err := os.Executable()
	if err != nil {
		exe = os.Args[0]
	}
	return []string{exe, "worker"}
}
