package main

// The HTML interpreter (soyhtml/exec.go, funcs.go, scope.go, renderer.go, eval.go) against
// lean/SoyVerif/Model/Eval.lean:
//
//	exec       sources, files (trees for the model), globals, template, data, ij, options
//	           -> OK <hex output> chunks=<n> | ERR <hex of the output written before the error>
//	evalexpr   source, tree, globals -> OK <canonical value> | ERR
//	setglobals sources, files, globals -> OK | ERR
//
// Sub-checks: C01eval (expressions), C02exec (commands, scoping, calls), C06total (ill-typed
// programs and hostile data: the outcome is a value or an error).

import (
	"fmt"
	"math"
	"regexp"
	"sort"
	"strconv"
	"strings"
	"sync"

	soy "github.com/robfig/soy"
	"github.com/robfig/soy/ast"
	"github.com/robfig/soy/data"
	"github.com/robfig/soy/errortypes"
	"github.com/robfig/soy/parse"
	"github.com/robfig/soy/parsepasses"
	"github.com/robfig/soy/soyhtml"
	"github.com/robfig/soy/soymsg"
	"github.com/robfig/soy/template"
)

// ---- values on the wire ----

// valTokens encodes a soy value in the token form of Ops/Value.lean (identities by pointer).
func valTokens(v data.Value) string { return strings.Join(rawEnc(v), ",") }

func mapTokens(m map[string]interface{}) string { return valTokens(data.New(m)) }

// ijTokens encodes injected data.  Lists and maps carry identities on the wire (equality of collections is identity);
// the data and the injected data of one request are encoded separately, so the injected data numbers its collections
// from a base of its own — otherwise a map of the data and a map of $ij could get the same identity and the model
// would call them equal.
func ijTokens(m map[string]interface{}) string {
	return strings.Join(canonValue(data.New(m), &renum{map[uintptr]int{}, map[uintptr]int{}, 1000002}, nil), ",")
}

func decMapField(f string) data.Map {
	if f == "-" {
		return data.Map{}
	}
	m, ok := decVField(f).build(newIDTable()).(data.Map)
	if !ok {
		bad("not a map")
	}
	return m
}

// ---- compiled bundles (sources + globals) ----

var (
	ecMu    sync.Mutex
	ecKeys  []string
	ecCache = map[string]*ccEntry{}
)

func compileWithGlobals(fs []srcFile, globals data.Map) (*template.Registry, error) {
	b := soy.NewBundle()
	for _, f := range fs {
		b.AddTemplateString(f.name, f.content)
	}
	if len(globals) > 0 {
		b.AddGlobalsMap(globals)
	}
	return b.Compile()
}

func evalCompileCached(enc, globals string) (*template.Registry, error) {
	key := enc + "\x00" + globals
	ecMu.Lock()
	defer ecMu.Unlock()
	if e, ok := ecCache[key]; ok {
		return e.reg, e.err
	}
	reg, err := compileWithGlobals(decSources(enc), decMapField(globals))
	if len(ecKeys) >= 64 {
		delete(ecCache, ecKeys[0])
		ecKeys = ecKeys[1:]
	}
	ecKeys = append(ecKeys, key)
	ecCache[key] = &ccEntry{reg, err}
	return reg, err
}

// ---- message bundles on the wire (see Ops/Eval.lean decBundle) ----

type wireBundle struct {
	pc1, pcN int
	msgs     map[uint64]*soymsg.Message
}

func (b *wireBundle) Locale() string { return "xx" }
func (b *wireBundle) Message(id uint64) *soymsg.Message {
	return b.msgs[id]
}
func (b *wireBundle) PluralCase(n int) int {
	if n == 1 {
		return b.pc1
	}
	return b.pcN
}

func encParts(ps []soymsg.Part) string {
	var out []string
	for _, p := range ps {
		switch p := p.(type) {
		case soymsg.RawTextPart:
			out = append(out, "r"+hxs(p.Text))
		case soymsg.PlaceholderPart:
			out = append(out, "p"+hxs(p.Name))
		case soymsg.PluralPart:
			var cs []string
			for _, c := range p.Cases {
				cs = append(cs, encParts(c.Parts))
			}
			out = append(out, "P"+hxs(p.VarName)+"("+strings.Join(cs, "|")+")")
		}
	}
	return strings.Join(out, "+")
}

func decPartsGo(s string, i *int) []soymsg.Part {
	var out []soymsg.Part
	for *i < len(s) {
		c := s[*i]
		switch c {
		case '|', ')':
			return out
		case '+':
			*i++
		case 'r', 'p', 'P':
			*i++
			j := *i
			for j < len(s) && !strings.ContainsRune("+|()", rune(s[j])) {
				j++
			}
			b, _ := unhx(s[*i:j])
			*i = j
			switch c {
			case 'r':
				out = append(out, soymsg.RawTextPart{Text: string(b)})
			case 'p':
				out = append(out, soymsg.PlaceholderPart{Name: string(b)})
			case 'P':
				*i++ // (
				var cases []soymsg.PluralCase
				for {
					ps := decPartsGo(s, i)
					cases = append(cases, soymsg.PluralCase{Parts: ps})
					if *i < len(s) && s[*i] == '|' {
						*i++
						continue
					}
					*i++ // )
					break
				}
				out = append(out, soymsg.PluralPart{VarName: string(b), Cases: cases})
			}
		default:
			bad("bundle part")
		}
	}
	return out
}

func decBundleGo(s string) *wireBundle {
	b := &wireBundle{msgs: map[uint64]*soymsg.Message{}}
	for _, it := range strings.Split(s, ";") {
		kv := strings.SplitN(it, "=", 2)
		if len(kv) != 2 {
			bad("bundle item")
		}
		if kv[0] == "pc" {
			ab := strings.Split(kv[1], ".")
			b.pc1, _ = strconv.Atoi(ab[0])
			b.pcN, _ = strconv.Atoi(ab[1])
			continue
		}
		id, _ := strconv.ParseUint(kv[0], 10, 64)
		i := 0
		if _, dup := b.msgs[id]; dup {
			continue // the first entry of an id wins (as the model's table lookup)
		}
		b.msgs[id] = &soymsg.Message{ID: id, Parts: decPartsGo(kv[1], &i)}
	}
	return b
}

type execOpts struct {
	sortBytes bool
	msgs      *wireBundle
}

func decExecOpts(s string) execOpts {
	var o execOpts
	if s == "-" {
		return o
	}
	for _, it := range strings.Split(s, ",") {
		switch {
		case it == "sortbytes":
			o.sortBytes = true
		case strings.HasPrefix(it, "msgs="):
			o.msgs = decBundleGo(it[5:])
		default:
			bad("option")
		}
	}
	return o
}

func showOut(o execOpts, b []byte) string {
	if o.sortBytes {
		b = append([]byte(nil), b...)
		sort.Slice(b, func(i, j int) bool { return b[i] < b[j] })
	}
	return hx(b)
}

func init() {
	implOps["exec"] = func(f []string) string {
		reg, err := evalCompileCached(f[0], f[2])
		if err != nil {
			return "COMPILE-ERR"
		}
		name, _ := unhx(f[3])
		d := decMapField(f[4])
		o := decExecOpts(f[6])
		r := soyhtml.NewTofu(reg).NewRenderer(string(name))
		if f[5] != "nil" {
			r = r.Inject(decMapField(f[5]))
		}
		if o.msgs != nil {
			r = r.WithMessages(o.msgs)
		}
		w := &recWriter{}
		err = r.Execute(w, d)
		var all []byte
		for _, c := range w.chunks {
			all = append(all, c...)
		}
		if err != nil {
			line, file := 0, ""
			if fp := errortypes.ToErrFilePos(err); fp != nil {
				line, file = fp.Line(), fp.File()
			}
			return "ERR " + showOut(o, all) + " line=" + strconv.Itoa(line) + " file=" + hxs(file)
		}
		return "OK " + showOut(o, all) + " chunks=" + strconv.Itoa(len(w.chunks))
	}
	implOps["evalexpr"] = func(f []string) string {
		src, _ := unhx(f[0])
		n, err, p := parseExprSafe(string(src))
		if p != nil || err != nil {
			return "PARSE-ERR"
		}
		if err := parsepasses.SetNodeGlobals(n, decMapField(f[2])); err != nil {
			return "ERR"
		}
		v, err := soyhtml.EvalExpr(n)
		if err != nil {
			return "ERR"
		}
		toks := rawEnc(v)
		if len(f) > 3 && f[3] == "sorttokens" {
			sort.Strings(toks)
		}
		return "OK " + strings.Join(toks, ",")
	}
	// a case whose source the real parser rejects (kept for the input distribution only)
	implOps["noparse"] = func(f []string) string { return "OK unparsable" }
	implOps["globals"] = func(f []string) string {
		text, _ := unhx(f[0])
		m, err := soy.ParseGlobals(strings.NewReader(string(text)))
		if err != nil {
			return "ERR"
		}
		keys := make([]string, 0, len(m))
		for k := range m {
			keys = append(keys, k)
		}
		sort.Strings(keys)
		var out []string
		for _, k := range keys {
			out = append(out, hxs(k)+"="+valTokens(m[k]))
		}
		return "OK " + strings.Join(out, ";")
	}
	implOps["setglobals"] = func(f []string) string {
		reg, err := compileCheck(decSources(f[0]))
		if err != nil {
			return "COMPILE-ERR"
		}
		if err := parsepasses.SetGlobals(*reg, decMapField(f[2])); err != nil {
			return "ERR"
		}
		return "OK"
	}
	outcomeOracle := func(c *Case, impl string) *Viol {
		if want, ok := implOnlyWant[c.Req]; ok && !strings.HasPrefix(impl, want) {
			return &Viol{Key: "nested-template-tag-mode:" + c.Note, What: "a {template} tag inside a template body: the nested body is not rendered in the tag's mode (else the enclosing one), or the enclosing mode is not restored after it", Want: want}
		}
		// COMPILE-ERR: Compile itself returned an error value (a normal return)
		if strings.HasPrefix(impl, "OK ") || strings.HasPrefix(impl, "ERR") || impl == "OK" || impl == "COMPILE-ERR" {
			return nil
		}
		return &Viol{Key: "c06-outcome:" + c.Note, What: "the entry point did not return a result or an error: " + firstWord(impl), Want: "OK|ERR"}
	}
	register(&Prop{
		ID: "C01eval",
		Rule: "one-template bundles {print E} rendered by the real interpreter and by Model.Eval.execute on the real parser's tree, standard data environment (ints incl. 2^53, floats incl. NaN and 1e300, strings, bools, null, absent, lists, nested map, $ij); " +
			"E ranges EXHAUSTIVELY over: every binary operator x every pair of 16 operand kinds, every unary / ternary / elvis on every kind, every data-reference access form on every kind, every builtin function with every arity 0..4 and every argument kind (pairs for the binary ones), loop functions in and out of loops; " +
			"plus type-directed random expressions (ill-typed share 0% and 25%); EvalExpr on closed expressions; observation: output bytes + number of Write calls, or error class + bytes written before; oracle: Spec.eval (Appendix A) where it is specified; " +
			"non-trivial = the expression has an operator, an access or a call",
		Gen:    genC01eval,
		Oracle: outcomeOracle,
		KeyOf:  func(c *Case, impl string) string { return "c01:" + c.Note },
	})
	register(&Prop{
		ID: "C02exec",
		Rule: "generated bundles (1-3 files/namespaces, soydoc or header params, optional params, if/switch/foreach/for-range/let/call with data=all|$m|params/css/log/msg/plural, print directives, autoescape attributes, recursion on a decreasing int, names reused so that shadowing is frequent), every template rendered with data supplying its params, with and without $ij, with and without a message bundle; " +
			"tie: Model.Eval.execute on the real parser's trees = Render (output bytes, number of Write calls, error class and partial output); oracle: Spec.render (lexical scoping, Appendix A); non-trivial = the template has a let, a loop or a call",
		Gen:    genC02exec,
		Oracle: outcomeOracle,
		KeyOf:  func(c *Case, impl string) string { return "c02:" + c.Note },
	})
	register(&Prop{
		ID: "C06total",
		Rule: "ill-typed generated bundles (operands of random types, wrong function and directive arities, unknown functions/directives, non-positive range steps, loop functions on non-loop variables) x hostile data (any value kind at any param, required params missing, $ij missing or of odd shape, undefined optionals, deep and aliased values), failures inside nested calls and inside let/param content blocks; EvalExpr and SetGlobals on erroring input; " +
			"oracle: the outcome is a result or an error, never PANIC / HANG / CRASH / OOM; tie: the model's class and partial output; non-trivial = the render fails",
		Gen:    genC06total,
		Oracle: outcomeOracle,
		KeyOf:  func(c *Case, impl string) string { return "c06:" + c.Note },
	})
}

func firstWord(s string) string {
	if k := strings.IndexByte(s, ' '); k >= 0 {
		return s[:k]
	}
	return s
}

// ---- the standard data environment (see envVars in gen_expr.go) ----

func stdData() map[string]interface{} {
	return map[string]interface{}{
		"i": int64(7), "j": int64(-3), "k": int64(1) << 53, "z": int64(0),
		"f": 2.5, "g": -0.125, "fz": 0.0, "q": math.NaN(), "big": 1e300,
		"s": "abc", "t": "<b>&\"'", "h": "b", "se": "", "sn": "12",
		"b": true, "c": false, "n": nil,
		"l": []interface{}{int64(1), int64(2), int64(3)}, "ll": []interface{}{[]interface{}{int64(1)}, []interface{}{int64(2), int64(3)}}, "e": []interface{}{},
		"m": map[string]interface{}{"a": int64(1), "b": "x<y", "c": map[string]interface{}{"d": int64(4)}, "f": 1.5},
		// lists inside maps and maps inside lists: access chains that mix keys and indexes
		"ml": map[string]interface{}{"a": []interface{}{int64(10), int64(20)}, "k": map[string]interface{}{"0": "zero", "x": int64(9)}},
		"me": map[string]interface{}{"": "empty-key", "a": int64(1)},
		"lm": []interface{}{map[string]interface{}{"foo": int64(1), "k": "v"}, map[string]interface{}{"foo": int64(2), "l": []interface{}{int64(7)}}},
	}
}

func stdIj() map[string]interface{} {
	return map[string]interface{}{"n": int64(5), "s": "inj"}
}

var boundRe = regexp.MustCompile(`\{(?:foreach|for|let) \$([a-zA-Z_][a-zA-Z0-9_]*)`)
var varRe = regexp.MustCompile(`\$([a-zA-Z_][a-zA-Z0-9_]*)`)

// exprBundle wraps body into a one-template bundle declaring (as optional) the variables it mentions.
func exprBundle(body string) []srcFile {
	seen := map[string]bool{}
	for _, m := range boundRe.FindAllStringSubmatch(body, -1) {
		seen[m[1]] = true // bound by a loop or a let of the body itself
	}
	var names []string
	for _, m := range varRe.FindAllStringSubmatch(body, -1) {
		if m[1] != "ij" && !seen[m[1]] {
			seen[m[1]] = true
			names = append(names, m[1])
		}
	}
	sort.Strings(names)
	var b strings.Builder
	b.WriteString("{namespace ns}\n/**\n")
	for _, n := range names {
		b.WriteString(" * @param? " + n + "\n")
	}
	b.WriteString(" */\n{template .t}\n" + body + "\n{/template}\n")
	return []srcFile{{"e.soy", b.String()}}
}

type execCase struct {
	fs      []srcFile
	globals string
	tmpl    string
	data    string
	ij      string
	opts    string
}

// parseFilesMsgs = parseFilesWire after the message pass of Compile (placeholder names and ids set).
func parseFilesMsgs(fs []srcFile) (string, error) {
	parts := []string{"files"}
	for _, f := range fs {
		n, err := parse.SoyFile(f.name, f.content)
		if err != nil {
			return "", err
		}
		var ms []*ast.MsgNode
		for _, c := range n.Body {
			findMsgs(c, &ms)
		}
		for _, m := range ms {
			soymsg.SetPlaceholdersAndID(m)
		}
		parts = append(parts, sxFile(n))
	}
	return sx(parts...), nil
}

// mkExec builds the request; ok=false if the sources do not parse (the tree cannot be sent).
func mkExec(op string, c execCase) (string, bool) {
	tree, err := parseFilesMsgs(c.fs)
	if err != nil {
		return "", false
	}
	if c.globals == "" {
		c.globals = "-"
	}
	if c.opts == "" {
		c.opts = "-"
	}
	return req(op, encSources(c.fs), tree, c.globals, hxs(c.tmpl), c.data, c.ij, c.opts), true
}

// operand kinds of the exhaustive matrix: source text (literal or variable of the standard environment)
var kindExprs = []string{"$u", "null", "true", "false", "0", "-3", "9007199254740992", "0.0", "-2.5", "(0.0 / 0.0)", "1e300", "''", "'abc'", "'12'", "$l", "$m"}

// the same kinds as variables (for access chains, which start at a variable)
var kindVars = []string{"$u", "$n", "$b", "$c", "$z", "$j", "$k", "$fz", "$g", "$q", "$big", "$se", "$s", "$sn", "$l", "$m", "$e", "$ij", "$ll"}

var binOps = []string{"*", "/", "%", "+", "-", "==", "!=", ">", ">=", "<", "<=", "or", "and", "?:"}

var accessForms = []string{".a", "?.a", ".0", "?.0", "[0]", "?[0]", "['a']", "?['a']", "[$u]", "[1.0]", "[-1]", "['']", "[$z]", "[$s]", "[9]", ".zz", ".a.b", "?.a?.b", "?.a.b", ".c.d", "[1][0]", "?[1]?[0]", "[$i - 6]", "[$n]", "?[$u]", "['c']['d']", "[true]", "[$l]"}

var builtinNames = []string{"isNonnull", "length", "keys", "augmentMap", "round", "floor", "ceiling", "min", "max", "strContains", "range", "hasData", "index", "isFirst", "isLast", "noSuchFunction"}

func genC01eval(g *G) {
	dataTok := mapTokens(stdData())
	ijTok := ijTokens(stdIj())
	add := func(body, class string, nt bool) {
		opts := ""
		if strings.Contains(body, "keys(") {
			opts = "sortbytes"
		}
		r, ok := mkExec("exec", execCase{fs: exprBundle(body), tmpl: "ns.t", data: dataTok, ij: ijTok, opts: opts})
		if !ok {
			g.Add(Case{Req: req("noparse", hxs(body)), Class: "unparsable", Note: body, NoModel: true})
			return
		}
		c := Case{Req: r, NT: nt, Class: class, Note: body}
		attachSpecExec(&c)
		g.Add(c)
	}
	pr := func(e string) string { return "{print " + e + "}" }
	// 1. binary operators x kinds x kinds
	for _, op := range binOps {
		for _, a := range kindExprs {
			for _, b := range kindExprs {
				add(pr(a+" "+op+" "+b), "matrix-binary", true)
			}
		}
	}
	// 2. unary, ternary, elvis, printing of every kind
	for _, a := range kindExprs {
		add(pr(a), "matrix-print", false)
		add(pr("-"+a), "matrix-unary", true)
		add(pr("- "+"("+a+")"), "matrix-unary", true)
		add(pr("not "+a), "matrix-unary", true)
		add(pr(a+" ? 'yes' : 'no'"), "matrix-ternary", true)
		add(pr("true ? "+a+" : $u.x"), "matrix-ternary", true)
		add(pr("false ? $u.x : "+a), "matrix-ternary", true)
		add(pr("["+a+", "+a+"]"), "matrix-collection", true)
		add(pr("['k': "+a+"]"), "matrix-collection", true)
		add(pr("['k': "+a+", 'j': $u.x]"), "matrix-collection", true)
		add("{if "+a+"}T{else}F{/if}", "matrix-truthy", true)
	}
	// 2b. every directive form on every kind (value-level behaviour of json / truncate / id)
	for _, a := range append(append([]string{}, kindExprs...), "$t", "$e", "$ll", "[$u]", "['k': $u]", "['a!': 1, 'a': 2, 'a\"': 3, '': 4]", "1e21", "1e20", "1e-6", "1e-7", "-1.5e-9", "123456.789e3", "$m.c", "$ij") {
		for _, d := range []string{"|json", "|id", "|noAutoescape", "|escapeHtml", "|escapeUri", "|escapeJsString", "|changeNewlineToBr", "|insertWordBreaks:2", "|truncate:3", "|truncate:2,false", "|truncate:100|json", "|truncate:1|json", "|id|json", "|json|json",
			"|truncate:" + a, "|truncate:2," + a, "|insertWordBreaks:" + a, "|truncate", "|json:1", "|bidiSpanWrap", "|nope", "|escapeHtml|truncate:4,true"} {
			add("{print "+a+d+"}", "matrix-directive", true)
		}
	}
	// 3. data reference access forms on every kind
	for _, v := range kindVars {
		add(pr(v), "matrix-ref", false)
		for _, acc := range accessForms {
			add(pr(v+acc), "matrix-access", true)
		}
	}
	add(pr("$ij"), "matrix-ref", false)
	// no $ij injected
	for _, e := range []string{"$ij", "$ij.s", "$ij?.s", "$u ?: $ij.n", "true or $ij.n"} {
		if r, ok := mkExec("exec", execCase{fs: exprBundle(pr(e)), tmpl: "ns.t", data: dataTok, ij: "nil"}); ok {
			g.Add(Case{Req: r, NT: true, Class: "no-ij", Note: pr(e) + " without $ij"})
		}
	}
	// 4. builtin functions: every arity 0..4, every kind (pairs for arity 2)
	for _, fn := range builtinNames {
		safe := func(a string) bool {
			// range() materialises its result: keep it small (range(2^53) allocates 2^53 values)
			return !(fn == "range" && (a == "9007199254740992" || a == "$k"))
		}
		add(pr(fn+"()"), "matrix-func", true)
		for _, a := range kindExprs {
			if !safe(a) {
				continue
			}
			add(pr(fn+"("+a+")"), "matrix-func", true)
			for _, b := range kindExprs {
				if !safe(b) {
					continue
				}
				add(pr(fn+"("+a+", "+b+")"), "matrix-func", true)
			}
			add(pr(fn+"("+a+", 1, 1)"), "matrix-func", true)
			add(pr(fn+"(0, 5, "+a+")"), "matrix-func", true)
			add(pr(fn+"("+a+", "+a+", "+a+", "+a+")"), "matrix-func", true)
		}
	}
	for _, e := range []string{"round(2.5)", "round(-2.5)", "round(3.14159, 2)", "round(1234.5, -2)", "round(0.5)", "round(-0.5)", "round(1.005, 2)", "round(2.675, 2)", "round($g, 3)", "round(12345678.9, -3)",
		"round(7, 15)", "round(0.1, 15)", "round(-1e15, 1)", "round(1e18)", "round(1e19)", "round(-1e19)", "round(0.0 / 0.0)", "round(1.0 / 0.0)", "round(5, -15)", "round(123456789012345.678, 2)",
		"floor(-0.5)", "ceiling(-0.5)", "floor(1e19)", "ceiling(-1e19)", "floor(2.0)", "ceiling(2.000001)", "min(0.0, -0.0)", "max(-0.0, 0.0)", "min(1, 2.0)", "max(1, 2.0)", "min(1.0/0.0, 1)", "max(-1.0/0.0, 1)",
		"range(3)", "range(1, 4)", "range(0, 10, 3)", "range(5, 1)", "range(0, 3, 0)", "range(0, 3, -1)", "range(-2, 2)", "length(range(100))", "range(0)", "range(0) == keys([:])", "[] == []", "[] == $e", "$e == $e", "$l == $l", "$l == [1, 2, 3]", "$m == $m", "$m.c == $m.c", "[:] == [:]", "keys($m.c)", "keys([:])", "length(keys($m))",
		"augmentMap($m, ['a': 2, 'z': 0])", "augmentMap([:], [:])", "augmentMap($m, $m) == $m", "strContains('abc', '')", "strContains('', '')", "strContains('abc', 'bc')", "strContains('abc', 'cb')", "strContains($t, '&')",
		"9223372036854775807 + 1", "-9223372036854775807 - 2", "9223372036854775807 * 2", "-(-9223372036854775807 - 1)", "(-9223372036854775807 - 1) % -1", "7 % -3", "-7 % 3", "7 % 0", "$k + 1", "$k + 1.0", "$k * $k", "$k == $k + 1.0", "$k + 1 == $k + 1.0", "1 / 0", "-1 / 0", "0 / 0", "1 / 3", "2 / 2",
		"'a' + 1", "1 + 'a'", "1.0 + 'a'", "'a' + 1.50", "'a' + null", "'a' + true", "'a' + [1, 'b']", "'a' + ['k': 1]", "'a' + $u", "'a' + [$u]", "'a' + ['k': $u]", "1e21", "1e20", "1e-5", "0.0001", "123456789.0", "1e6", "100000.0", "-0.0", "0.1 + 0.2", "1e300 * 1e300", "-1e300 * 1e300",
		"$l[-1] ?: 'none'", "isNonnull($l[-1])", "$l[0 - 1] ?: 'none'", "$l?[-1] ?: 'none'", "$l[$j + 2] ?: 'none'", "$l[-2] ?: 'none'", "$l[3] ?: 'none'", "$ll[0][-1] ?: 'none'", "round(0.49999999999999994)", "round(4503599627370497.0)", "round(-0.49999999999999994)",
		"round(49840695234859158)", "round(-49840695234859159)", "round($k + 1)", "round(9007199254740993, 0)", "floor(9007199254740993)", "ceiling(-9007199254740993)", "round(14 * -3560049659632797)",
		"['k': 1, 'k0': 2]", "['a': 1, 'a b': 2]", "['k': $u] ? 1 : 2",
		// chains that mix key and index accesses, well-typed and not: each access is judged on its own
		"$ml.a[0]", "$ml.a.1", "$ml['a'][1]", "$ml.k.x", "$ml.k['0']", "$lm[0].foo", "$lm.1.foo", "$lm[1].l[0]", "$lm[0]['k']",
		"$ml.k[0]", "$ml.k.0", "$ml.a.k", "$ml.a['k']", "$m.a[0]", "$m.c[0]", "$m.c.d[0]", "$l[1].foo", "$l.1['k']", "$lm[0][1]", "$lm.0.1", "$lm[1].l.foo", "$ll[1][0].x", "$ll[0].x", "$ml['k'].0",
		// no space between a comparison and a unary minus / not
		"$i<-1", "$i>-1", "$j<-$i", "$j>-$i", "1<-1 ? 'a' : 'b'", "$i>=-7", "$i<=-7", "$i==-7", "$i!=-7", "$f<-0.5", "-$i<-$j", "$i>-(1)", "$i<-0x10 + 20",
		// the empty string is a key like any other; -1 is an index like any other (out of range)
		"$me['']", "$me[$se]", "$me?['']", "$me['a']", "$m['']", "$m[$se] ?: 'none'", "$l[-1] ?: 'none'", "$l[0 - 1] ?: 'none'", "$me['' + '']",
		"$ml.k[0] ?: 'none'", "$l[1]?.foo ?: 'none'", "$ml?.k?[0]", "$lm?[0]?[1]", "$m.c?.d?[0]", "isNonnull($l[1].foo)", "$ml.a[$ml.k.x]", "$lm[$m.a].foo", "$ml[$h]", "$lm[$m.a][$m.a]", "$ml.a[$h]", "$ml.k[$m.a]",
		"$m['b']", "$m[$h]", "$l[$i - 6]", "$ll[1][0]", "$m.c.d", "$ij.s", "$ij['n'] + 1", "$ij?.zz?.y", "$t", "$t + $t", "[$t]", "['k': $t]"} {
		add(pr(e), "hand", true)
	}
	// loop functions inside loops (and on the wrong variable)
	for _, lf := range []string{"index($x)", "isFirst($x)", "isLast($x)", "index($y)", "isFirst($y)", "isLast($y)", "index($x.a)", "isFirst($x, 1)", "index('x')", "isLast($l)", "index($u)", "not isFirst($x) and isLast($x)"} {
		add("{foreach $x in $l}"+pr(lf)+",{/foreach}", "loopfuncs", true)
		add("{foreach $x in $l}{foreach $y in $ll}"+pr(lf)+",{/foreach};{/foreach}", "loopfuncs", true)
		add("{for $x in range(2)}{let $y: 1 /}"+pr(lf)+"{$y}{/for}", "loopfuncs", true)
		// two loops of the same variable, nested (lists of different lengths) and one after the other:
		// after the inner loop the functions speak of the outer one again; after a loop, of nothing
		add("{foreach $x in $l}{foreach $x in $ll}"+pr(lf)+",{/foreach}"+pr(lf)+";{/foreach}", "loopfuncs-shadow", true)
		add("{foreach $x in $ll}"+pr(lf)+"{foreach $x in $x}"+pr(lf)+",{/foreach}"+pr(lf)+";{/foreach}", "loopfuncs-shadow", true)
		add("{for $x in range(3)}{for $x in range(2)}"+pr(lf)+"{/for}:"+pr(lf)+";{/for}", "loopfuncs-shadow", true)
		add("{foreach $x in $l}{for $x in range(1, 6)}{/for}{foreach $y in $ll}{/foreach}"+pr(lf)+";{/foreach}", "loopfuncs-shadow", true)
		add("{foreach $y in $ll}{foreach $x in $l}{if isLast($x)}{foreach $x in $y}"+pr(lf)+"{/foreach}{/if}"+pr(lf)+",{/foreach}{/foreach}", "loopfuncs-shadow", true)
	}
	// 5. random typed expressions
	n := g.N(2500, 60000)
	for _, ill := range []int{0, 25} {
		eg := &exprGen{r: g.R, funcs: true, redundantParens: 10, illTyped: ill}
		for i := 0; i < n; i++ {
			e := eg.expr(1+g.R.Intn(4), tAny)
			add(pr(e), fmt.Sprintf("random-ill%d", ill), true)
		}
	}
	// 6. EvalExpr on closed expressions (no variables: there is no data) and on globals
	gl := map[string]interface{}{"G_INT": int64(3), "G.str": "g<s>", "G_NULL": nil, "G_F": 0.5, "G_B": true}
	glTok := mapTokens(gl)
	eg := &exprGen{r: g.R, funcs: true, redundantParens: 5, illTyped: 10}
	addEval := func(src, globals string) {
		n1, err, p := parseExprSafe(src)
		if p != nil || err != nil {
			return
		}
		so := "-"
		if strings.Contains(src, "keys(") {
			so = "sorttokens"
		}
		c := Case{Req: req("evalexpr", hxs(src), sxExpr(n1), globals, so), NT: true, Class: "evalexpr", Note: "EvalExpr " + src}
		attachSpecEvalExpr(&c)
		g.Add(c)
	}
	for _, a := range kindExprs {
		for _, op := range binOps {
			addEval(a+" "+op+" "+a, "-")
			addEval("G_INT "+op+" "+a, glTok)
		}
		addEval(a, "-")
	}
	for _, e := range []string{"G_INT", "G.str + 1", "G_NULL ?: G_F", "G_B ? G_INT : 0", "[G_INT, G.str]", "['a': G_F]", "UNDEFINED_GLOBAL", "1 + UNDEFINED_GLOBAL", "$x", "$x.y", "$ij.a", "$ij", "index($x)", "isFirst($x)", "keys(['a': 1])", "range(3)", "[] == []"} {
		addEval(e, glTok)
	}
	for i := 0; i < g.N(1500, 20000); i++ {
		addEval(eg.expr(1+g.R.Intn(3), tAny), "-")
	}
	// 7. globals files: NAME = <expression> lines through ParseGlobals (values with comment-like text inside string literals)
	genGlobalsFiles(g)
}

// ---- C02exec ----

// msgBundleFor builds a translation bundle for the messages of the compiled registry: each message
// is "translated" by reversing the order of its parts, upper-casing raw text, and (for plurals)
// keeping the plural structure; some messages are left out (fall back to the source text).
func msgBundleFor(reg *template.Registry, r *RNG) string {
	var items []string
	pc1, pcN := r.Intn(3), r.Intn(4)
	items = append(items, fmt.Sprintf("pc=%d.%d", pc1, pcN))
	seen := map[uint64]bool{}
	for _, t := range reg.Templates {
		for _, m := range msgNodesOf(t.Node) {
			if seen[m.ID] || r.Intn(4) == 0 {
				continue
			}
			seen[m.ID] = true
			parts := soymsg.Parts(soymsg.PlaceholderString(m))
			var out []soymsg.Part
			if pl := pluralOf(m); pl != nil {
				var cases []soymsg.PluralCase
				nc := 1 + r.Intn(3)
				for i := 0; i < nc; i++ {
					var ps []soymsg.Part
					ps = append(ps, soymsg.RawTextPart{Text: fmt.Sprintf("[case%d]", i)})
					for _, ph := range placeholderNamesOf(m) {
						if r.Bool() {
							ps = append(ps, soymsg.PlaceholderPart{Name: ph})
						}
					}
					cases = append(cases, soymsg.PluralCase{Parts: ps})
				}
				vn := pl.VarName
				if r.Intn(8) == 0 {
					vn = "NO_SUCH_VAR"
				}
				out = []soymsg.Part{soymsg.RawTextPart{Text: "<pl>"}, soymsg.PluralPart{VarName: vn, Cases: cases}}
			} else {
				for i := len(parts) - 1; i >= 0; i-- {
					switch p := parts[i].(type) {
					case soymsg.RawTextPart:
						out = append(out, soymsg.RawTextPart{Text: strings.ToUpper(p.Text)})
					default:
						out = append(out, p)
					}
				}
				if r.Intn(10) == 0 {
					out = append(out, soymsg.PlaceholderPart{Name: "NO_SUCH_PLACEHOLDER"})
				}
			}
			items = append(items, strconv.FormatUint(m.ID, 10)+"="+encParts(out))
		}
	}
	return strings.Join(items, ";")
}

func genC02exec(g *G) {
	n := g.N(1500, 22000)
	bg := newBundleGen(g.R, bundleOpts{msgs: true, directives: true, calls: true, ij: true, defaultAnywhere: true})
	genBundles(g, bg, n, false)
	// a stream without print directives: Spec.render leaves directives to C03/C16, so these bundles are fully specified
	bg2 := newBundleGen(g.R.Fork(), bundleOpts{msgs: true, directives: false, calls: true, ij: true, defaultAnywhere: true})
	genBundles(g, bg2, n/2, false)
	genHandBundles(g)
	g.Exhaustive = false
}

// implOnlyWant: for the cases that are not sent to the model (NoModel), the answer prefix the property demands
// of the implementation, by request.
var implOnlyWant = map[string]string{}

// genHandBundles: constructs the bundle generator does not produce.
func genHandBundles(g *G) {
	hand := []struct {
		name, src string
		data      map[string]interface{}
	}{
		// a /** */ comment inside a template body renders nothing (/repo 79017f3)
		{"n.t", "{namespace n}\n/** @param x */\n{template .t}\nA{$x}/** a comment */B{$x}\n{/template}\n", map[string]interface{}{"x": "<"}},
		{"n.t", "{namespace n}\n/** @param x */\n{template .t}\n{if $x}/** c */{$x}{/if}{foreach $i in [1,2]}/** d\n */{$i}{/foreach}\n{/template}\n", map[string]interface{}{"x": "&"}},
		{"n.t", "{namespace n autoescape=\"false\"}\n/** @param x */\n{template .t}\n{let $y}/** @param q */{$x}{/let}{$y}\n{/template}\n", map[string]interface{}{"x": "<"}},
	}
	// OUTSIDE THE MODEL (expected difference, implementation-only oracle): a {template} tag written inside a
	// template body.  Go walks the nested body in the current frame with the mode "the tag's autoescape
	// attribute, else the enclosing mode" and restores the enclosing mode afterwards (/repo a6ffafc);
	// Model/Eval answers `error` for such a node, so these cases are NOT sent to the model: the oracle
	// compares the implementation's output with what the property demands (`implOnlyWant`).
	nested := []struct{ ns, inner, want string }{
		{"", " autoescape=\"false\"", "A(&lt;)I(<)B(&lt;)"},
		{"", "", "A(&lt;)I(&lt;)B(&lt;)"},
		{" autoescape=\"false\"", " autoescape=\"true\"", "A(<)I(&lt;)B(<)"},
		{" autoescape=\"false\"", "", "A(<)I(<)B(<)"},
	}
	for i, nc := range nested {
		src := "{namespace n" + nc.ns + "}\n/** @param x */\n{template .t}\nA({$x}){template .inner" + nc.inner + "}I({$x}){/template}B({$x})\n{/template}\n"
		fs := []srcFile{{"n.soy", src}}
		tree, err := parseFilesMsgs(fs)
		if err != nil {
			g.Add(Case{Req: req("noparse", encSources(fs)), Class: "unparsable", Note: "nested#" + strconv.Itoa(i), NoModel: true})
			continue
		}
		c := Case{Req: req("exec", encSources(fs), tree, "-", hxs("n.t"), mapTokens(map[string]interface{}{"x": "<"}), "nil", "-"), NT: true,
			Class: "nested-template-tag(impl-only)", Note: "n.t nested#" + strconv.Itoa(i) + "\n" + src, NoModel: true}
		implOnlyWant[c.Req] = "OK " + hx([]byte(nc.want)) + " "
		g.Add(c)
	}
	for i, h := range hand {
		fs := []srcFile{{"n.soy", h.src}}
		tree, err := parseFilesMsgs(fs)
		if err != nil {
			g.Add(Case{Req: req("noparse", encSources(fs)), Class: "unparsable", Note: "hand#" + strconv.Itoa(i), NoModel: true})
			continue
		}
		c := Case{Req: req("exec", encSources(fs), tree, "-", hxs(h.name), mapTokens(h.data), "nil", "-"), NT: true, Class: "hand",
			Note: h.name + " hand#" + strconv.Itoa(i) + "\n" + h.src}
		attachSpecExec(&c)
		g.Add(c)
	}
}

// genBundles renders every template of n generated bundles; hostile = C06 data.
func genBundles(g *G, bg *bundleGen, n int, hostile bool) {
	for i := 0; i < n; i++ {
		b := bg.bundle()
		fs := b.sources()
		if i%2 == 1 {
			// spread the commands over lines, so that the line an error reports is informative
			for k := range fs {
				fs[k].content = strings.ReplaceAll(fs[k].content, "}{", "}\n{")
			}
		}
		tree, err := parseFilesMsgs(fs)
		if err != nil {
			g.Add(Case{Req: req("noparse", encSources(fs)), Class: "unparsable", Note: "bundle#" + strconv.Itoa(i), NoModel: true})
			continue
		}
		enc := encSources(fs)
		var reg *template.Registry
		for _, f := range b.files {
			for _, t := range f.tmpls {
				var dm map[string]interface{}
				if hostile {
					dm = hostileData(bg, t)
				} else {
					dm = bg.dataFor(t)
				}
				ij := "nil"
				switch g.R.Intn(3) {
				case 0:
					ij = ijTokens(stdIj())
				case 1:
					if hostile {
						ij = ijTokens(map[string]interface{}{"s": hostileValue(g.R, 2), "x": hostileValue(g.R, 1)})
					} else {
						ij = ijTokens(map[string]interface{}{"n": int64(-1), "s": "<ij>&"})
					}
				}
				opts := "-"
				if strings.Contains(t.body, "{msg") && g.R.Bool() {
					if reg == nil {
						reg, _ = compileBundle(fs)
					}
					if reg != nil {
						opts = "msgs=" + msgBundleFor(reg, g.R)
					}
				}
				src := t.source()
				nt := strings.Contains(src, "{let") || strings.Contains(src, "{for") || strings.Contains(src, "{call")
				class := "render"
				if hostile {
					class = "hostile"
				}
				c := Case{Req: req("exec", enc, tree, "-", hxs(t.full()), mapTokens(dm), ij, opts), NT: nt, Class: class,
					Note: t.full() + " data=" + dataToJSONSafe(dm) + " ij=" + ij + " bundle#" + strconv.Itoa(i) + "\n" + src}
				if !hostile {
					attachSpecExec(&c)
				}
				g.Add(c)
			}
		}
	}
}

func dataToJSONSafe(m map[string]interface{}) string {
	defer func() { recover() }()
	return fmt.Sprint(m)
}

// ---- C06total ----

func hostileValue(r *RNG, depth int) interface{} {
	k := r.Intn(14)
	if depth <= 0 && k >= 11 {
		k = r.Intn(11)
	}
	switch k {
	case 0:
		return nil
	case 1:
		return r.Bool()
	case 2:
		return int64([]int64{0, 1, -1, 2, 3, 7, -40, 1 << 31, 1 << 53, math.MaxInt64, math.MinInt64}[r.Intn(11)])
	case 3:
		return []float64{0, -0.0, 0.5, -2.5, 1e300, -1e300, math.NaN(), math.Inf(1), math.Inf(-1), 5e-324, 1 << 53, 3.0}[r.Intn(12)]
	case 4:
		return []string{"", "a", "abc", "<b>", "é", "\xff\xfe", "12", "-3", "a&b\"'", "\x00", "日本語のテキスト", strings.Repeat("x", 40)}[r.Intn(12)]
	case 5:
		return data.Undefined{}
	case 6:
		return []interface{}{}
	case 7:
		return []interface{}(nil)
	case 8:
		return map[string]interface{}{}
	case 9:
		return int64(r.Intn(5))
	case 10:
		return "s" + strconv.Itoa(r.Intn(3))
	case 11, 12:
		n := r.Intn(4)
		l := make([]interface{}, n)
		for i := range l {
			l[i] = hostileValue(r, depth-1)
		}
		return l
	default:
		m := map[string]interface{}{}
		for _, k := range []string{"a", "b", "i", "s", "", "0", "x.y"} {
			if r.Intn(3) == 0 {
				m[k] = hostileValue(r, depth-1)
			}
		}
		return m
	}
}

func hostileData(bg *bundleGen, t *gTemplate) map[string]interface{} {
	r := bg.r
	m := map[string]interface{}{}
	for _, p := range t.params {
		switch r.Intn(6) {
		case 0: // missing (also for required params)
		case 1, 2:
			m[p.name] = bg.valueOf(p.t)
		default:
			m[p.name] = hostileValue(r, 2)
		}
	}
	if t.recursive {
		// recursion stays bounded by the data: a small int, or a value on which `$i > 0` fails or is false
		switch r.Intn(4) {
		case 0:
			m["i"] = int64(r.Intn(5))
		case 1:
			m["i"] = hostileValueNoBigNumber(r)
		default:
			m["i"] = int64(r.Intn(3))
		}
	}
	if r.Intn(4) == 0 {
		m["extra"] = hostileValue(r, 1)
	}
	return m
}

// a hostile value for the recursion argument: anything but a number above 4 (the depth is the value)
func hostileValueNoBigNumber(r *RNG) interface{} {
	for {
		v := hostileValue(r, 1)
		switch x := v.(type) {
		case int64:
			if x > 4 {
				continue
			}
		case float64:
			if x > 4 || x != x {
				continue
			}
		}
		return v
	}
}

func genC06total(g *G) {
	n := g.N(1300, 18000)
	bg := newBundleGen(g.R, bundleOpts{msgs: true, directives: true, calls: true, ij: true, illTyped: 25, defaultAnywhere: true})
	genBundles(g, bg, n, true)
	// well-typed programs, hostile data
	bg2 := newBundleGen(g.R.Fork(), bundleOpts{msgs: true, directives: true, calls: true, ij: true})
	genBundles(g, bg2, n/3, true)
	// EvalExpr on erroring expressions, SetGlobals with missing globals
	eg := &exprGen{r: g.R, funcs: true, redundantParens: 5, illTyped: 40}
	for i := 0; i < g.N(1200, 15000); i++ {
		src := eg.expr(1+g.R.Intn(3), tAny)
		n1, err, p := parseExprSafe(src)
		if p != nil || err != nil {
			continue
		}
		so := "-"
		if strings.Contains(src, "keys(") {
			so = "sorttokens"
		}
		g.Add(Case{Req: req("evalexpr", hxs(src), sxExpr(n1), "-", so), NT: true, Class: "evalexpr", Note: "EvalExpr " + src})
	}
	for i := 0; i < g.N(60, 600); i++ {
		names := []string{"G_A", "G_B", "ns.C", "UNSET"}
		body := ""
		for k := 0; k < 1+g.R.Intn(3); k++ {
			body += "{" + names[g.R.Intn(len(names))] + " + 1}{if true}{let $x: " + names[g.R.Intn(len(names))] + " /}{$x}{/if}"
		}
		fs := exprBundle(body)
		gl := map[string]interface{}{}
		for _, nme := range names[:3] {
			if g.R.Intn(4) != 0 {
				gl[nme] = hostileValue(g.R, 0)
			}
		}
		tree, _, err := parseFilesWire(fs)
		if err != nil {
			continue
		}
		g.Add(Case{Req: req("setglobals", encSources(fs), tree, mapTokens(gl)), NT: true, Class: "setglobals", Note: "SetGlobals " + body + " " + fmt.Sprint(gl)})
		if r, ok := mkExec("exec", execCase{fs: fs, globals: mapTokens(gl), tmpl: "ns.t", data: "-", ij: "nil"}); ok {
			g.Add(Case{Req: r, NT: true, Class: "globals-render", Note: "render with globals " + body + " " + fmt.Sprint(gl)})
		}
	}
	genGlobalsFiles(g)
	genErrPositions(g)
	g.Exhaustive = false
}

// genErrPositions: failing nodes at chosen lines — multi-line tags and expressions, failures inside
// callees at depth (the entry template's call node is reported), after param / let content blocks,
// inside messages, loops, switch cases and directive arguments, and an unknown entry template.
func genErrPositions(g *G) {
	callee := "\n/** @param? x */\n{template .c}\n\n{$x}{$u2.y}\n{/template}\n/** @param? x */\n{template .d}\nd\n{call .c}{param x: 1 /}{/call}\n{/template}\n/** @param? x */\n{template .ok}\n[{$x}]\n{/template}\n"
	bodies := []string{
		"a\n{$u.x}\nb", "a\n\n{print $i +\n $u.x}", "{if $b\n and\n $u.x}T{/if}", "{if $c}x{elseif\n $u.x}y{/if}", "{$i}\n{min(1,\n 2,\n 3)}", "{max(1,\n $u.x)}",
		"{['a': 1,\n 'b': $u.x]}", "{[1,\n 2,\n $u.x]}", "{$b ? 1 :\n $u.x}", "{$c ? 1 :\n\n $u.x}", "{$b ?\n $u.x : 2}", "{$l[\n $u.x]}", "{$m.c\n.zz.y}", "{$s|truncate:\n$u.x}", "{$s\n|noSuch}", "{$s|truncate:2|\ninsertWordBreaks:'a'}",
		"x\n{$u}", "{$i}\n{$i + 'a' - 1}", "{$i -\n 'a'}", "{not\n $u.x}", "{-\n'a'}", "{$u.x\n == 1}", "{1 ==\n $u.x}", "{$n ?:\n $u.x}", "{7 %\n 0}", "{$i % ($u.x)}",
		"a\n{call .c /}\nb", "a\n\n{call .d /}", "{call .c}\n{param x}\nline\n{$i}\n{/param}\n{/call}", "{call .ok}{param x}\nline\n{$i}\n{/param}{/call}\n{call .c}\n{param x: 1 /}\n{/call}",
		"{call .c}\n{param x:\n $u.x /}{/call}", "{call .ok data=\"$u.x\" /}", "{call .ok\n data=\"$i\" /}", "{call .nosuch /}", "a\n{call .ok}{param x}{$i}\n{call .c /}\n{/param}{/call}",
		"{let $v}\na{$i}\n{/let}\n{$v}{$u.x}", "{let $v:\n $u.x /}{$v}", "{let $v}\n{$u.x}\n{/let}{$v}", "{log}\na\n{$u.x}{/log}", "{css\n $u.x, a}", "{css $l[0]\n.x, a}",
		"{foreach $q in $i}\nx{/foreach}", "{foreach $q in\n $u.x}\nx{/foreach}", "{foreach $q in $l}\n{$q}\n{if $q == 2}{$u.x}{/if}\n{/foreach}", "{foreach $q in $e}x{ifempty}\n{$u.x}{/foreach}", "{for $q in range(\n0, 3, 0)}{$q}{/for}",
		"{switch $i}\n{case 1,\n $u.x}a{case 7}\nb{$u.x}{/switch}", "{switch\n $u.x}{case 1}a{/switch}", "{switch $i}{case 1}a{default}\n\n{$u.x}{/switch}",
		// a {default} written before a {case}: the cases after it are still tried (their labels evaluated), it runs last
		"{switch $i}{default}\nd{case 7}seven{case 1}one{/switch}\n{$u.x}", "{switch $i}{default}d{case 99,\n $u.x}a{/switch}", "{switch $i}\n{default}\n{$u.x}{case 99}a{/switch}", "{switch $s}{default}A{case 'q'}\nq{default}\n{$u.x}{/switch}{$u.x}",
		"{msg desc=\"d\"}\nHello {$i}\n{$u.x}{/msg}", "{msg desc=\"d\"}{plural\n $s}{case 1}one{default}many{/plural}{/msg}", "{msg desc=\"d\"}a{call .c /}\nb{/msg}", "{msg desc=\"d\"}{plural $i}{case 7}\nseven {$u.x}{default}many{/plural}{/msg}",
		"{if $b}\n{if $b}\n{$u.x}{/if}{/if}", "{$i}{$i}\n{$i}{$u.x}{$i}", "{index($i)}", "{isFirst(\n$i)}", "{foreach $q in $l}{isLast(\n$i)}{/foreach}",
	}
	dataTok := mapTokens(stdData())
	for _, body := range bodies {
		fs := exprBundle(body)
		fs[0].content += callee
		for _, ij := range []string{"nil", ijTokens(stdIj())} {
			if r, ok := mkExec("exec", execCase{fs: fs, tmpl: "ns.t", data: dataTok, ij: ij}); ok {
				g.Add(Case{Req: r, NT: true, Class: "errpos", Note: "error position: " + body})
			} else {
				g.Add(Case{Req: req("noparse", hxs(body)), Class: "unparsable", Note: body, NoModel: true})
			}
		}
	}
	if r, ok := mkExec("exec", execCase{fs: exprBundle("x"), tmpl: "ns.nosuch", data: dataTok, ij: "nil"}); ok {
		g.Add(Case{Req: r, NT: true, Class: "errpos", Note: "unknown entry template"})
	}
}

// globalsTrees mirrors the line discipline of ParseGlobals only as far as needed to hand the model the
// parse results of the expression texts (in order), up to the first line that stops the scan.
func globalsTrees(text string) string {
	var trees []string
	lines := strings.Split(text, "\n")
	for _, line := range lines {
		line = strings.TrimSuffix(line, "\r")
		if len(line) == 0 || strings.HasPrefix(line, "//") {
			continue
		}
		eq := strings.Index(line, "=")
		if eq == -1 {
			break
		}
		n, err, p := parseExprSafe(strings.TrimSpace(line[eq+1:]))
		if p != nil || err != nil {
			trees = append(trees, "ERR")
			break
		}
		trees = append(trees, sxExpr(n))
	}
	if len(trees) == 0 {
		return "-"
	}
	return strings.Join(trees, ";")
}

func genGlobalsFiles(g *G) {
	eg := &exprGen{r: g.R, funcs: true, redundantParens: 5, illTyped: 15}
	names := []string{"A", "B", "ns.C", "long_name", "A", "x.y.z"}
	for i := 0; i < g.N(400, 5000); i++ {
		var b strings.Builder
		nl := 1 + g.R.Intn(5)
		for k := 0; k < nl; k++ {
			switch g.R.Intn(12) {
			case 0:
				b.WriteString("// comment = 1")
			case 1:
				// empty line
			case 2:
				b.WriteString("no equals here")
			case 3:
				b.WriteString(g.R.Pick(names) + " = 1 +")
			case 4:
				b.WriteString("  " + g.R.Pick(names) + "\t=\t" + eg.atom(tAny) + "  ")
			case 5:
				b.WriteString(g.R.Pick(names) + "=" + g.R.Pick([]string{"'a=b'", "' // '", "'write  // TODO'", "'http://host/a//b'", "'a /* b */ c'", "'# x'", "'a; b'", "'  sp  '", "'\\' // '", "'tab\t//'", "1 == 1", "'x' + 1", "1 % 0", "$x.y", "'a' < 1", "-'x'", "null", "[1, 2]", "['k': 1]", "range(3)"}))
			default:
				b.WriteString(g.R.Pick(names) + " = " + eg.expr(1+g.R.Intn(2), ty(1+g.R.Intn(6))))
			}
			switch g.R.Intn(6) {
			case 0:
				b.WriteString("\r\n")
			case 1:
				if k == nl-1 {
					break
				}
				b.WriteString("\n")
			default:
				b.WriteString("\n")
			}
		}
		text := b.String()
		// identifiers evaluate to an unset global (a nil value the model does not represent): keep them out
		if identRe.MatchString(stripStrings(text)) {
			continue
		}
		g.Add(Case{Req: req("globals", hxs(text), globalsTrees(text)), NT: true, Class: "parseglobals", Note: "ParseGlobals " + strconv.Quote(text)})
	}
}

var identRe = regexp.MustCompile(`=[^\n]*\b(?:[A-Z_]+[A-Za-z_.]*|[a-z]+\.[a-z])\b`)

func stripStrings(s string) string { return strLitRe.ReplaceAllString(s, "''") }

var strLitRe = regexp.MustCompile(`'(?:[^'\\\n]|\\.)*'`)

// spec requests are attached once the Spec ops exist (see evalspec.go)
var attachSpecExec = func(c *Case) {}
var attachSpecEvalExpr = func(c *Case) {}

// ---- message helpers ----

func msgNodesOf(n ast.Node) []*ast.MsgNode {
	var out []*ast.MsgNode
	findMsgs(n, &out)
	return out
}

func pluralOf(m *ast.MsgNode) *ast.MsgPluralNode {
	for _, c := range m.Body.Children() {
		if p, ok := c.(*ast.MsgPluralNode); ok {
			return p
		}
	}
	return nil
}

func placeholderNamesOf(m *ast.MsgNode) []string {
	var out []string
	seen := map[string]bool{}
	var walk func(n ast.Node)
	walk = func(n ast.Node) {
		if ph, ok := n.(*ast.MsgPlaceholderNode); ok {
			if !seen[ph.Name] {
				seen[ph.Name] = true
				out = append(out, ph.Name)
			}
			return
		}
		if p, ok := n.(ast.ParentNode); ok {
			for _, c := range p.Children() {
				walk(c)
			}
		}
	}
	for _, c := range m.Body.Children() {
		walk(c)
	}
	return out
}
