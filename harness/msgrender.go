package main

// C11msg — the render side of translations.
//
// Generated soy files with one {msg}; data binds every variable to a distinct marker.
// The real side renders through soyhtml with a bundle loaded by pomsg.Load from real PO
// text (written with gettext/po) through an in-memory FileOpener.  The model side
// (driver op msgrender) runs evalMsg / evalMsgParts / Placeholder / newMessage of
// Model/MsgRender.lean on the abstract body, with ρ = the render of each placeholder's
// source text as a stand-alone template (no msg machinery involved) and ν = the plural
// values of the data.  The ORACLE assembles the expected output in the harness directly
// from the translation's segment list and ρ — it uses neither the model nor soymsg.Parts.

import (
	"bytes"
	"fmt"
	"io"
	"io/ioutil"
	"net/textproto"
	"os"
	"regexp"
	"sort"
	"strconv"
	"strings"

	"github.com/robfig/gettext/po"
	"github.com/robfig/soy"
	"github.com/robfig/soy/ast"
	"github.com/robfig/soy/data"
	"github.com/robfig/soy/soyhtml"
	"github.com/robfig/soy/soymsg"
	"github.com/robfig/soy/soymsg/pomsg"
	"github.com/robfig/soy/template"
)

// ---------------------------------------------------------------------------
// data: every variable path is a distinct marker; plural variables are ints (set per case)

func renderData(n1, n2, n3 int) (data.Map, data.Map) {
	mk := func(s string) data.Value { return data.String("[" + s + "]") }
	d := data.Map{
		"x": mk("x"), "x_1": mk("x_1"), "x1": mk("x1"), "x_2": mk("x_2"), "x_1_1": mk("x_1_1"),
		"fooBar2": mk("fooBar2"), "name": mk("name"), "X": mk("X"), "url": mk("u&rl"),
		"a": data.Map{"x": mk("a.x"), "x_1": mk("a.x_1"), "fooBar2": mk("a.fooBar2"), "n": data.Int(n3),
			"b": data.Map{"a": mk("a.b.a"), "x": mk("a.b.x")}, "name": mk("a.name")},
		"b": data.Map{"x": mk("b.x"), "a": mk("b.a"), "x_2": mk("b.x_2"), "name": mk("b.<name>")},
		"n": data.Int(n1), "eggs": data.Int(n2), "num": data.Int(n1 + 40),
		"lst": data.List{data.Int(1), data.Int(2), data.Int(3)},
		"_": mk("_"), "\u00e9": mk("e-acute"),
	}
	ij := data.Map{"x": mk("ij.x"), "name": mk("ij.name")}
	return d, ij
}

var dataKeys = []string{"x", "x_1", "x1", "x_2", "x_1_1", "fooBar2", "name", "X", "url", "a", "b", "n", "eggs", "num", "lst"}

var dollarRe = regexp.MustCompile(`\$([\p{L}_][\p{L}\p{N}_]*)`)

// paramsOf lists the top-level data keys a piece of soy source refers to.
func paramsOf(src string) map[string]bool {
	out := map[string]bool{}
	for _, m := range dollarRe.FindAllStringSubmatch(src, -1) {
		if m[1] != "ij" {
			out[m[1]] = true
		}
	}
	return out
}

// ---------------------------------------------------------------------------
// generator of message bodies (every print evaluates without error on renderData)

type rGen struct {
	r         *RNG
	unguarded bool
}

func (m *rGen) print() string {
	r := m.r
	if m.unguarded && r.Chance(1, 6) {
		// documented limits: names outside [A-Z0-9_]+ (empty name, non-ASCII identifier)
		return "{" + r.Pick([]string{"$_", "$\u00e9"}) + "}"
	}
	e := r.Pick([]string{
		"$a.x", "$b.x", "$x", "$x_1", "$x1", "$a.x_1", "$x_2", "$b.x_2", "$x_1_1", "$fooBar2", "$a.fooBar2",
		"$name", "$a.name", "$b.name", "$b.a", "$a.b.a", "$a.b.x", "$ij.x", "$ij.name", "$X", "$url",
		"$a.x", "$b.x", "$x", "$x_1", "$name", "$a.name", // weight on the colliding ones
		"GLOBAL", "sub.global", "x", "length($lst)", "max(1, 3)", "$n + 1", "$n", "$eggs", "$num", "$a.n",
		"($n + 1) * 2", "$n + 1 * 2", "$n - ($eggs - 1)", "$n - $eggs - 1", "$a?.x", "$lst[0]", "$x ?: $name", "'lit'",
	})
	dir := ""
	if r.Chance(1, 7) {
		dir = r.Pick([]string{"|noAutoescape", "|escapeUri", "|id", "|truncate:4"})
	}
	if r.Chance(1, 8) {
		return "{print " + e + dir + "}"
	}
	return "{" + e + dir + "}"
}

func (m *rGen) text(unguarded bool) string {
	r := m.r
	var sb strings.Builder
	for j, n := 0, 1+r.Intn(3); j < n; j++ {
		switch r.Intn(14) {
		case 0:
			sb.WriteString("{lb}")
		case 1:
			sb.WriteString("{rb}")
		case 2:
			sb.WriteString("{sp}")
		case 3:
			// brace pairs that are NOT of the shape {[A-Z0-9_]+}
			sb.WriteString("{lb}" + r.Pick([]string{"a", "", " X", "x_1", "A-B", "é"}) + "{rb}")
		case 4:
			sb.WriteString(r.Pick([]string{"\xc3\xa9", "\xe2\x82\xac", "&amp;", "&", "\""}))
		case 5:
			sb.WriteString(r.Pick([]string{" \n  ", "  ", "{\\n}", "{nil}"}))
		case 6:
			sb.WriteString(r.Pick([]string{"X", "X_1", "A", ",plural,", "=1", "other", "< ", " >", "a < b"}))
		case 7:
			if unguarded {
				sb.WriteString("{lb}" + r.Pick([]string{"X", "X_1", "NAME", "FOO", "XXX", "START_LINK", "0"}) + "{rb}")
			} else {
				sb.WriteString("x")
			}
		default:
			sb.WriteString(r.Pick([]string{"Hello", "world", " ", "You have ", " eggs", "one egg", "Click ", "here", ".", ", "}))
		}
	}
	return sb.String()
}

var rTags = []string{`<a href="x">`, `</a>`, `<br/>`, `<br>`, `<b>`, `</b>`, `<a href="y">`, `<p>`, `</p>`, `<img src="s"/>`, `<A HREF="x">`, `<a href="{$url}">`,
	// custom elements, digits, capitals, underscores in tag names (the placeholder name must stay readable by Parts)
	`<my-button>`, `</my-button>`, `<x-foo bar="1"/>`, `<h1>`, `</h1>`, `<Img/>`, `<tBody>`, `<my_tag>`, `<a-b-c>`}

func (m *rGen) flat(maxItems int, unguarded bool) string {
	r := m.r
	var items []string
	for j, n := 0, r.Intn(maxItems+1); j < n; j++ {
		switch k := r.Intn(20); {
		case k < 6:
			items = append(items, m.text(unguarded))
		case k < 14:
			items = append(items, m.print())
		case k < 16 && len(items) > 0:
			items = append(items, items[r.Intn(len(items))])
		case k < 19:
			items = append(items, r.Pick(rTags))
		default:
			items = append(items, r.Pick([]string{"{call .o /}", "{call .o data=\"all\" /}", "{css foo}"}))
		}
	}
	return strings.Join(items, "")
}

// plural: poValid = exactly {case 1} + {default}
func (m *rGen) plural(poValid, unguarded bool, depth int) string {
	r := m.r
	v := r.Pick([]string{"$n", "$eggs", "$a.n", "$n", "length($lst)", "$n + 1"})
	var sb strings.Builder
	sb.WriteString("{plural " + v + "}")
	if poValid {
		sb.WriteString("{case 1}" + m.flat(4, unguarded))
	} else {
		for j, n := 0, r.Intn(4); j < n; j++ {
			sb.WriteString("{case " + r.Pick([]string{"0", "1", "2", "5", "1", "-1"}) + "}")
			if depth < 1 && r.Chance(1, 8) {
				sb.WriteString(m.plural(false, unguarded, depth+1))
			} else {
				sb.WriteString(m.flat(4, unguarded))
			}
		}
	}
	sb.WriteString("{default}" + m.flat(5, unguarded) + "{/plural}")
	return sb.String()
}

func docFor(src string) string { return soydoc(paramsOf(src)) }

const rOther = "/** @param? p */\n{template .o}\n(o{if $p}{$p}{/if})\n{/template}\n"

func msgFile(body, meaning string, aux []string) string {
	mattr := ""
	if meaning != "" {
		mattr = " meaning=" + attr(meaning)
	}
	m := "{msg" + mattr + " desc=\"d\"}" + body + "{/msg}"
	var sb strings.Builder
	sb.WriteString("{namespace ns}\n\n" + docFor(m) + "{template .t}\n" + m + "\n{/template}\n\n" + rOther)
	for i, a := range aux {
		sb.WriteString("\n" + docFor(a) + "{template .p" + itoa(i) + "}\n" + a + "\n{/template}\n")
	}
	return sb.String()
}

// ---------------------------------------------------------------------------
// compiled message + the things derived from the tree

type phInfo struct {
	name string // assigned name
	src  string // node.String()
	aux  string // soy source rendering the placeholder stand-alone ("" for html tags)
	tag  []byte // html tag text
}

type compiledMsg struct {
	reg  *template.Registry
	node *ast.MsgNode
}

func compileFile(src string) (*compiledMsg, error) {
	reg, err := soy.NewBundle().AddGlobalsMap(msgGlobals).AddTemplateString("t.soy", src).Compile()
	if err != nil {
		return nil, err
	}
	var msgs []*ast.MsgNode
	for _, t := range reg.Templates {
		if t.Node.Name == "ns.t" {
			findMsgs(t.Node, &msgs)
		}
	}
	if len(msgs) != 1 {
		return nil, fmt.Errorf("expected one msg")
	}
	return &compiledMsg{reg, msgs[0]}, nil
}

// placeholders in document order (plural nodes are not included)
func collectPh(children []ast.Node, out *[]*ast.MsgPlaceholderNode, plurals *[]*ast.MsgPluralNode) {
	for _, child := range children {
		switch c := child.(type) {
		case *ast.MsgPlaceholderNode:
			*out = append(*out, c)
		case *ast.MsgPluralNode:
			*plurals = append(*plurals, c)
			for _, pc := range c.Cases {
				collectPh(pc.Body.Children(), out, plurals)
			}
			collectPh(c.Default.Children(), out, plurals)
		}
	}
}

func renderTemplate(reg *template.Registry, name string, bundle soymsg.Bundle, d, ij data.Map) (out string, errc string) {
	defer func() {
		if e := recover(); e != nil {
			errc = "PANIC"
		}
	}()
	var buf bytes.Buffer
	r := soyhtml.NewTofu(reg).NewRenderer(name).Inject(ij)
	if bundle != nil {
		r = r.WithMessages(bundle)
	}
	if err := r.Execute(&buf, d); err != nil {
		return "", "ERR"
	}
	return buf.String(), ""
}

// ---------------------------------------------------------------------------
// the bundle: real PO text -> po.Parse -> pomsg.Load

type memOpener struct{ files map[string]string }

func (o memOpener) Open(locale string) (io.ReadCloser, error) {
	s, ok := o.files[locale]
	if !ok {
		return nil, nil
	}
	return ioutil.NopCloser(strings.NewReader(s)), nil
}

var pluralForms = []string{
	"nplurals=1; plural=0;",
	"nplurals=2; plural=(n != 1);",
	"nplurals=3; plural=(n==1) ? 0 : (n>=2 && n<=4) ? 1 : 2;",
}

func selGo(kind, n int) int {
	switch kind {
	case 0:
		return 0
	case 1:
		if n != 1 {
			return 1
		}
		return 0
	}
	if n == 1 {
		return 0
	}
	if n >= 2 && n <= 4 {
		return 1
	}
	return 2
}

func poBundle(id uint64, msgidS, msgidPl, varName string, msgstrs []string, selKind int) (soymsg.Bundle, error) {
	refs := []string{"id=" + strconv.FormatUint(id, 10)}
	if varName != "" {
		refs = append(refs, "var="+varName)
	}
	m := po.Message{Comment: po.Comment{References: refs}, Id: msgidS, Str: msgstrs}
	if m.Id == "" {
		m.Id = "(empty)"
	}
	if varName != "" || len(msgstrs) != 1 {
		m.IdPlural = msgidPl
		if m.IdPlural == "" {
			m.IdPlural = "(plural)"
		}
	}
	f := po.File{Header: textproto.MIMEHeader{"Plural-Forms": {pluralForms[selKind]}, "Content-Type": {"text/plain; charset=UTF-8"}},
		Messages: []po.Message{m}}
	var buf bytes.Buffer
	if _, err := f.WriteTo(&buf); err != nil {
		return nil, err
	}
	prov, err := pomsg.Load(memOpener{map[string]string{"xx": buf.String()}}, []string{"xx"})
	if err != nil {
		return nil, err
	}
	b := prov.Bundle("xx")
	if b == nil {
		return nil, fmt.Errorf("no bundle")
	}
	return b, nil
}

// ---------------------------------------------------------------------------
// implementation ops

func hexList(ss []string) string {
	if len(ss) == 0 {
		return "()"
	}
	var out []string
	for _, s := range ss {
		out = append(out, hxs(s))
	}
	return strings.Join(out, ",")
}

func unhexList(s string) ([]string, bool) {
	if s == "()" {
		return nil, true
	}
	var out []string
	for _, t := range strings.Split(s, ",") {
		b, ok := unhx(t)
		if !ok {
			return nil, false
		}
		out = append(out, string(b))
	}
	return out, true
}

func init() {
	// msgrender <soy file> <abstract body> <ρ> <ν> <mode> <varName> <msgstrs> <selector> [<n1,n2,n3>]
	implOps["msgrender"] = func(f []string) string {
		if len(f) != 9 {
			return "BADREQ"
		}
		src, ok1 := unhx(f[0])
		varName, ok2 := unhx(f[5])
		strs, ok3 := unhexList(f[6])
		selKind, err := strconv.Atoi(f[7])
		var n [3]int
		if _, e := fmt.Sscanf(f[8], "%d,%d,%d", &n[0], &n[1], &n[2]); e != nil || !ok1 || !ok2 || !ok3 || err != nil {
			return "BADREQ"
		}
		cm, cerr := compileFile(string(src))
		if cerr != nil {
			return "COMPILE-ERR"
		}
		if absBody(cm.node) != f[1] {
			return "ABSTRACT-MISMATCH " + absBody(cm.node)
		}
		d, ij := renderData(n[0], n[1], n[2])
		var bundle soymsg.Bundle
		switch f[4] {
		case "nobundle":
		case "missing":
			b, err := poBundle(cm.node.ID+1, "x", "", "", []string{"unrelated {X}"}, selKind)
			if err != nil {
				return "BUNDLE-ERR"
			}
			bundle = b
		default:
			var mid, mpl string
			func() {
				defer func() { recover() }()
				mid, mpl = pomsg.Msgid(cm.node), pomsg.MsgidPlural(cm.node)
			}()
			b, err := poBundle(cm.node.ID, mid, mpl, string(varName), strs, selKind)
			if err != nil {
				return "BUNDLE-ERR"
			}
			bundle = b
		}
		out, errc := renderTemplate(cm.reg, "ns.t", bundle, d, ij)
		if errc != "" {
			return errc
		}
		return "OK " + hxs(out)
	}
	// pomsgid <soy file> <abstract body>
	implOps["pomsgid"] = func(f []string) string {
		if len(f) != 2 {
			return "BADREQ"
		}
		src, ok := unhx(f[0])
		if !ok {
			return "BADREQ"
		}
		cm, cerr := compileFile(string(src))
		if cerr != nil {
			return "COMPILE-ERR"
		}
		if absBody(cm.node) != f[1] {
			return "ABSTRACT-MISMATCH " + absBody(cm.node)
		}
		v := "1"
		if pomsg.Validate(cm.node) != nil {
			v = "0"
		}
		get := func(fn func(*ast.MsgNode) string) (s string) {
			defer func() {
				if recover() != nil {
					s = "PANIC"
				}
			}()
			return hxs(fn(cm.node))
		}
		return "OK " + v + " " + get(pomsg.Msgid) + " " + get(pomsg.MsgidPlural)
	}

	register(&Prop{
		ID: "C11msg",
		Rule: "generated soy files with one {msg} (flat bodies and plurals, PO-valid and not; colliding base names, repeated prints, html tags, calls, " +
			"globals, expressions differing only in parentheses) rendered with data binding every variable to a distinct marker, under: no bundle, a bundle " +
			"without the id, and bundles loaded by pomsg.Load from real PO text with identity / reversed / shuffled-partial / text-only / unknown-placeholder " +
			"translations and 1-, 2- and 3-form Plural-Forms; plus pomsg.Validate/Msgid/MsgidPlural; oracle = output assembled in the harness from the " +
			"translation's segments and the stand-alone render of each placeholder; non-trivial = a translation with >= 2 placeholders or a plural; distinct by request",
		Gen:     genC11msg,
		KeyOf: func(c *Case, impl string) string {
			if strings.HasPrefix(c.Class, "unguarded:") {
				return "c11msg:" + c.Class // one key per defect class (known-findings can list it)
			}
			return "c11msg:" + c.Class + ":" + c.Note
		},
		Oracle:  c11Oracle,
		Timeout: 20 * 1e9,
	})
}

// ---------------------------------------------------------------------------
// generator + oracle

type seg struct {
	text string
	name string // placeholder name if text == ""
	isPh bool
}

func segsString(ss []seg) string {
	var sb strings.Builder
	for _, s := range ss {
		if s.isPh {
			sb.WriteString("{" + s.name + "}")
		} else {
			sb.WriteString(s.text)
		}
	}
	return sb.String()
}

// segsOf: the identity translation of a flat child list, derived from the tree by the harness.
func segsOf(children []ast.Node) []seg {
	var out []seg
	for _, c := range children {
		switch c := c.(type) {
		case *ast.RawTextNode:
			out = append(out, seg{text: string(c.Text)})
		case *ast.MsgPlaceholderNode:
			out = append(out, seg{name: c.Name, isPh: true})
		}
	}
	return out
}

var c11Expected = map[string]string{}
var c11Why = map[string]string{}
var c11Validate = map[string]bool{}

var phShape = regexp.MustCompile(`\{[A-Z0-9_]+\}`)
var nameShape = regexp.MustCompile(`^[A-Z0-9_]+$`)

func c11Oracle(c *Case, impl string) *Viol {
	if strings.HasPrefix(impl, "PANIC") || impl == "HANG" || impl == "OOM" {
		return &Viol{What: "rendering a message panics / hangs: " + impl}
	}
	if v, ok := c11Validate[c.Req]; ok {
		f := strings.Split(impl, " ")
		if len(f) != 4 || (f[1] == "1") != v {
			return &Viol{What: "pomsg.Validate disagrees with the PO-representability rule (text reading as a placeholder, plural shape)", Want: bit(v)}
		}
	}
	if want, ok := c11Expected[c.Req]; ok && want != impl {
		return &Viol{What: "translated render differs from the output assembled from the translation and the data (" + c11Why[c.Req] + ")", Want: want}
	}
	return nil
}

func genC11msg(g *G) {
	unguardedOK := os.Getenv("VERIF_C11_UNGUARDED") == "1"
	n := g.N(2500, 30000)
	skipped := 0
	for i := 0; i < n; i++ {
		unguarded := unguardedOK && g.R.Chance(1, 4)
		m := &rGen{r: g.R, unguarded: unguarded}
		var body, class string
		switch k := g.R.Intn(10); {
		case k < 5:
			body, class = m.flat(8, unguarded), "flat"
		case k < 8:
			body, class = m.plural(true, unguarded, 0), "plural-po"
		default:
			body, class = m.plural(false, unguarded, 0), "plural-other"
		}
		meaning := ""
		if g.R.Chance(1, 5) {
			meaning = "m"
		}
		if !c11Cases(g, body, meaning, class) {
			skipped++
		}
	}
	// fixed cases
	c11Cases(g, "Hello {$name}, {$a.name} and {$b.name}!", "", "fixed")
	c11Cases(g, "{$a.x}{$b.x}{$x_1}", "", "fixed")
	c11Cases(g, "{plural $eggs}{case 1}You have one egg{default}You have {$eggs} eggs{/plural}", "", "fixed")
	c11Cases(g, "Click <a href=\"{$url}\">here</a>{sp}<br/>", "", "fixed")
	if skipped*5 > n {
		g.Add(Case{Req: req("pomsgid", "-", "0"), Class: "generator-broken: " + itoa(skipped) + " of " + itoa(n) + " files rejected", Note: "generator"})
	}
}

// c11Cases adds all cases for one message; false if the generated file is unusable.
func c11Cases(g *G, body, meaning, class string) bool {
	r := g.R
	// phase 1: compile to learn the placeholders
	cm, err := compileFile(msgFile(body, meaning, nil))
	if err != nil {
		return false
	}
	var phs []*ast.MsgPlaceholderNode
	var plurals []*ast.MsgPluralNode
	collectPh(cm.node.Body.Children(), &phs, &plurals)
	// phase 2: stand-alone templates, one per distinct source text
	auxIdx := map[string]int{}
	var aux []string
	for _, p := range phs {
		if _, ok := p.Body.(*ast.MsgHtmlTagNode); ok {
			continue
		}
		s := p.String()
		if _, ok := auxIdx[s]; !ok {
			auxIdx[s] = len(aux)
			aux = append(aux, s)
		}
	}
	file := msgFile(body, meaning, aux)
	cm, err = compileFile(file)
	if err != nil {
		return false
	}
	phs, plurals = nil, nil
	collectPh(cm.node.Body.Children(), &phs, &plurals)
	abs := absBody(cm.node)

	nvals := []int{0, 1, 2, 3, 5, 11, -1}
	n1, n2, n3 := nvals[r.Intn(len(nvals))], nvals[r.Intn(len(nvals))], nvals[r.Intn(len(nvals))]
	d, ij := renderData(n1, n2, n3)

	// ρ: stand-alone render per source text; per name: must be unique
	rho := map[string]string{} // src -> out
	byName := map[string]string{}
	ambiguous := ""
	for _, p := range phs {
		s := p.String()
		var out string
		if t, ok := p.Body.(*ast.MsgHtmlTagNode); ok {
			out = string(t.Text)
		} else {
			o, errc := renderTemplate(cm.reg, "ns.p"+itoa(auxIdx[s]), nil, d, ij)
			if errc != "" {
				return false
			}
			out = o
		}
		if prev, ok := rho[s]; ok && prev != out {
			return false
		}
		rho[s] = out
		if prev, ok := byName[p.Name]; ok && prev != out {
			ambiguous = p.Name
		}
		byName[p.Name] = out
	}
	// ν: value of each plural, by evaluating its value expression stand-alone would need another
	// template; the generator only uses these expressions:
	nu := map[string]int{}
	pluralVal := func(p *ast.MsgPluralNode) (int, bool) {
		switch p.Value.String() {
		case "$n":
			return n1, true
		case "$eggs":
			return n2, true
		case "$a.n":
			return n3, true
		case "length($lst)":
			return 3, true
		case "$n + 1":
			return n1 + 1, true
		}
		return 0, false
	}
	for _, p := range plurals {
		v, ok := pluralVal(p)
		if !ok {
			return false
		}
		nu[p.String()] = v
	}

	var rhoF, nuF []string
	for s, o := range rho {
		rhoF = append(rhoF, hxs(s)+":"+hxs(o))
	}
	sort.Strings(rhoF)
	for s, v := range nu {
		nuF = append(nuF, hxs(s)+":"+itoa(v))
	}
	sort.Strings(nuF)
	join := func(ss []string) string {
		if len(ss) == 0 {
			return "()"
		}
		return strings.Join(ss, ",")
	}

	// the harness's own source render (walk of the tree)
	var srcRender func(children []ast.Node) string
	srcRender = func(children []ast.Node) string {
		var sb strings.Builder
		for _, c := range children {
			switch c := c.(type) {
			case *ast.RawTextNode:
				sb.Write(c.Text)
			case *ast.MsgPlaceholderNode:
				sb.WriteString(rho[c.String()])
			case *ast.MsgPluralNode:
				v := nu[c.String()]
				done := false
				for _, pc := range c.Cases {
					if pc.Value == v {
						sb.WriteString(srcRender(pc.Body.Children()))
						done = true
						break
					}
				}
				if !done {
					sb.WriteString(srcRender(c.Default.Children()))
				}
			}
		}
		return sb.String()
	}
	source := srcRender(cm.node.Body.Children())

	segRender := func(ss []seg) (string, bool) {
		var sb strings.Builder
		for _, s := range ss {
			if !s.isPh {
				sb.WriteString(s.text)
				continue
			}
			o, ok := byName[s.name]
			if !ok {
				return "", false
			}
			sb.WriteString(o)
		}
		return sb.String(), true
	}

	ok := func(s string) string { return "OK " + hxs(s) }
	add := func(mode, varName string, msgstrs []string, selKind int, want, why, cls string, nt bool) {
		c := Case{
			Req: req("msgrender", hxs(file), abs, join(rhoF), join(nuF), mode, hxs(varName), hexList(msgstrs), itoa(selKind),
				fmt.Sprintf("%d,%d,%d", n1, n2, n3)),
			NT: nt, Class: cls, Note: mode + " var=" + varName + " " + strings.Join(msgstrs, " | ") + " :: " + body,
		}
		if mode == "tr" {
			// newBundle leaves an entry whose msgstrs are all empty out of the bundle
			all := true
			for _, ms := range msgstrs {
				if ms != "" {
					all = false
				}
			}
			if all {
				want, why = ok(source), "untranslated entry (all msgstrs empty): source render"
			}
		}
		if strings.HasPrefix(cls, "unguarded:text-looks-like-placeholder") {
			// not PO-representable (Validate rejects the message): no claim, the model tie only
		} else if ambiguous == "" || mode == "nobundle" || mode == "missing" {
			c11Expected[c.Req] = want
			c11Why[c.Req] = why
		} else {
			c11Expected[c.Req] = "AMBIGUOUS-NAME"
			c11Why[c.Req] = "placeholders named " + ambiguous + " render differently: equal source text, different expressions"
		}
		g.Add(c)
	}
	// Validate, from the property's wording: a plural must be the first child with exactly
	// {case 1} + {default}; the literal text of the body / of those two bodies has no {NAME}
	litOK := func(children []ast.Node) bool {
		var txt strings.Builder
		for _, c := range children {
			if t, isText := c.(*ast.RawTextNode); isText {
				txt.Write(t.Text)
			} else {
				txt.WriteByte(0)
			}
		}
		return !phShape.MatchString(txt.String())
	}
	valid := litOK(cm.node.Body.Children())
	for i, c := range cm.node.Body.Children() {
		if p, isPl := c.(*ast.MsgPluralNode); isPl {
			if i != 0 || len(p.Cases) != 1 || p.Cases[0].Value != 1 {
				valid = false
			} else if !litOK(p.Cases[0].Body.Children()) || !litOK(p.Default.Children()) {
				valid = false
			}
		}
	}
	pc := Case{Req: req("pomsgid", hxs(file), abs), NT: len(phs) > 0, Class: "pomsgid", Note: body}
	c11Validate[pc.Req] = valid
	g.Add(pc)
	add("nobundle", "", nil, 1, ok(source), "no bundle: source render", class+"/nobundle", len(phs) > 1 || len(plurals) > 0)
	add("missing", "", nil, 1, ok(source), "message absent from the catalogue: source render", class+"/missing", len(phs) > 1 || len(plurals) > 0)

	// a name is usable in the oracle only if Parts can see it and texts do not imitate placeholders
	guardWhy := func(ss []seg) string {
		var txt strings.Builder
		for _, s := range ss {
			if s.isPh {
				if !nameShape.MatchString(s.name) {
					return "name-outside-A-Z0-9_"
				}
				if phShape.MatchString(txt.String()) {
					return "text-looks-like-placeholder"
				}
				txt.Reset()
			} else {
				txt.WriteString(s.text)
			}
		}
		if phShape.MatchString(txt.String()) {
			return "text-looks-like-placeholder"
		}
		return ""
	}
	guardOK := func(ss []seg) bool { return guardWhy(ss) == "" }
	unguardedOK := os.Getenv("VERIF_C11_UNGUARDED") == "1"

	variants := func(id []seg) [][]seg {
		out := [][]seg{id}
		rev := make([]seg, len(id))
		for i, s := range id {
			rev[len(id)-1-i] = s
		}
		out = append(out, rev)
		var sh []seg
		for j, k := 0, r.Intn(len(id)+2); j < k && len(id) > 0; j++ {
			sh = append(sh, id[r.Intn(len(id))])
			if r.Chance(1, 3) {
				sh = append(sh, seg{text: r.Pick([]string{" - ", "¡", "{", "}", "{ }", " "})})
			}
		}
		out = append(out, sh)
		var txt []seg
		for _, s := range id {
			if !s.isPh {
				txt = append(txt, s)
			}
		}
		out = append(out, append(txt, seg{text: "übersetzt"}))
		return out
	}

	if len(plurals) == 0 {
		id := segsOf(cm.node.Body.Children())
		for vi, v := range variants(id) {
			if !guardOK(v) && !unguardedOK {
				continue
			}
			want, found := segRender(v)
			w := "ERR"
			if found {
				w = ok(want)
			}
			if vi == 0 {
				w = ok(source) // the property's own formulation of the identity case
			}
			cls := class + "/" + []string{"identity", "reversed", "shuffled", "textonly"}[vi]
			if gw := guardWhy(v); gw != "" {
				cls = "unguarded:" + gw
			}
			add("tr", "", []string{segsString(v)}, r.Intn(3), w, []string{"identity", "reversed", "shuffled/partial", "text only"}[vi],
				cls, len(phs) > 1)
		}
		// a placeholder the message does not have
		u := append(append([]seg{}, id...), seg{name: "NO_SUCH_PH", isPh: true})
		if guardOK(u) {
			add("tr", "", []string{segsString(u)}, 1, "ERR", "unknown placeholder", class+"/unknown", true)
		}
		return true
	}

	// plural message: translations are per top-level plural (findPluralNode only looks there)
	top, isTop := cm.node.Body.Children()[0].(*ast.MsgPluralNode)
	if !isTop || len(cm.node.Body.Children()) != 1 {
		return true
	}
	v := nu[top.String()]
	var bodies [][]seg
	for _, pc := range top.Cases {
		bodies = append(bodies, segsOf(pc.Body.Children()))
	}
	bodies = append(bodies, segsOf(top.Default.Children()))
	hasNested := len(plurals) > 1
	pluralCase := func(msgstrs [][]seg, selKind int, why, cls string) {
		var strs []string
		for _, s := range msgstrs {
			if gw := guardWhy(s); gw != "" {
				if !unguardedOK {
					return
				}
				cls = "unguarded:" + gw
			}
			strs = append(strs, segsString(s))
		}
		idx := selGo(selKind, v)
		want := "ERR"
		if idx < len(msgstrs) {
			if o, found := segRender(msgstrs[idx]); found {
				want = ok(o)
			}
		}
		add("tr", top.VarName, strs, selKind, want, why, cls, true)
	}
	if pomsg.Validate(cm.node) == nil && !hasNested {
		one, other := bodies[0], bodies[1]
		// identity catalogue under 1, 2 and 3 plural forms
		pluralCase([][]seg{one, other}, 1, "identity, two forms", class+"/identity2")
		pluralCase([][]seg{one}, 0, "one form", class+"/identity1")
		pluralCase([][]seg{one, other, other}, 2, "three forms", class+"/identity3")
		pluralCase([][]seg{one, other}, 2, "two msgstrs under a three-form selector", class+"/short3")
		vs1, vs2 := variants(one), variants(other)
		pluralCase([][]seg{vs1[1], vs2[1]}, 1, "reversed", class+"/reversed")
		pluralCase([][]seg{vs1[2], vs2[2]}, 1, "shuffled/partial", class+"/shuffled")
		// the identity case in the property's formulation: equals the source render
		if guardOK(one) && guardOK(other) && ambiguous == "" {
			c := Case{Req: req("msgrender", hxs(file), abs, join(rhoF), join(nuF), "tr", hxs(top.VarName),
				hexList([]string{pomsg.Msgid(cm.node), pomsg.MsgidPlural(cm.node)}), "1", fmt.Sprintf("%d,%d,%d", n1, n2, n3)),
				NT: true, Class: class + "/identity=source", Note: "identity(msgid,msgid_plural) :: " + body}
			c11Expected[c.Req] = ok(source)
			c11Why[c.Req] = "identity catalogue must render what the source renders"
			g.Add(c)
		}
	} else {
		// arbitrary msgstrs for a plural that PO cannot represent: still a PluralPart
		k := 1 + r.Intn(3)
		var ms [][]seg
		for j := 0; j < k; j++ {
			ms = append(ms, variants(bodies[r.Intn(len(bodies))])[r.Intn(3)])
		}
		pluralCase(ms, r.Intn(3), "free plural translation", class+"/free")
	}
	// wrong variable name: findPluralNode fails
	add("tr", "NO_SUCH_VAR", []string{"a", "b"}, 1, "ERR", "unknown plural variable", class+"/unknownvar", true)
	return true
}
