package main

import (
	"runtime"
	"strconv"
	"strings"

	"github.com/robfig/soy/parse"
)

// C05scale: "in time proportional to the input".  Wall-clock time is at the mercy of the machine; the number of bytes
// the parser ALLOCATES for an input is not, and a parser that copies what it has read so far at every step
// (name += part) allocates quadratically.  For each family of inputs that grows in one dimension, the bytes
// allocated for size 2n must stay below 3 times those for size n (linear: about 2, quadratic: about 4).

func init() {
	register(&Prop{
		ID: "C05scale",
		Rule: "families growing in one dimension (dotted namespace / alias / call / global names, long data-reference chains, long list and argument lists, long text, many tags, many params, long strings, a failing {plural} case holding a long expression, long directive chains): " +
			"bytes allocated by parse.SoyFile / parse.Expr for size 2n < 3 x bytes for size n; non-trivial = every measured family",
		Direct: directC05scale,
	})
}

func allocOf(f func()) uint64 {
	var a, b runtime.MemStats
	runtime.GC()
	runtime.ReadMemStats(&a)
	f()
	runtime.ReadMemStats(&b)
	return b.TotalAlloc - a.TotalAlloc
}

func directC05scale(g *G, rep *Report) {
	file := func(body string) func() {
		src := "{namespace n}\n/** */\n{template .t}\n" + body + "\n{/template}\n"
		return func() { parse.SoyFile("f.soy", src) }
	}
	type fam struct {
		name string
		mk   func(n int) func()
	}
	fams := []fam{
		{"dotted-namespace", func(n int) func() {
			src := "{namespace a" + strings.Repeat(".b", n) + "}\n"
			return func() { parse.SoyFile("f.soy", src) }
		}},
		{"dotted-alias", func(n int) func() {
			src := "{namespace n}\n{alias a" + strings.Repeat(".b", n) + "}\n"
			return func() { parse.SoyFile("f.soy", src) }
		}},
		{"dotted-call-name", func(n int) func() { return file("{call a" + strings.Repeat(".b", n) + " /}") }},
		{"dotted-global", func(n int) func() { return file("{a" + strings.Repeat(".b", n) + "}") }},
		{"dotted-global-expr", func(n int) func() { s := "a" + strings.Repeat(".b", n); return func() { parse.Expr(s) } }},
		{"data-ref-chain", func(n int) func() { return file("{$a" + strings.Repeat(".b", n) + "}") }},
		{"list-literal", func(n int) func() { return file("{[" + strings.Repeat("1,", n) + "1]}") }},
		{"function-args", func(n int) func() { return file("{f(" + strings.Repeat("1,", n) + "1)}") }},
		{"add-chain", func(n int) func() { return file("{1" + strings.Repeat("+1", n) + "}") }},
		{"long-text", func(n int) func() { return file(strings.Repeat("ab ", n)) }},
		{"many-tags", func(n int) func() { return file(strings.Repeat("{$x}", n)) }},
		{"many-params", func(n int) func() { return file("{call .u}" + strings.Repeat("{param a: 1 /}", n) + "{/call}") }},
		{"long-string", func(n int) func() { return file("{'" + strings.Repeat("ab", n) + "'}") }},
		{"directive-chain", func(n int) func() { return file("{$x" + strings.Repeat("|id", n) + "}") }},
		{"plural-case-error-dataref", func(n int) func() {
			return file("{msg desc=\"d\"}{plural $n}{case $a" + strings.Repeat(".b", n) + "}x{default}y{/plural}{/msg}")
		}},
		{"plural-case-error-list", func(n int) func() {
			return file("{msg desc=\"d\"}{plural $n}{case [" + strings.Repeat("1,", n) + "1]}x{default}y{/plural}{/msg}")
		}},
		{"plural-case-error-func", func(n int) func() {
			return file("{msg desc=\"d\"}{plural $n}{case f(" + strings.Repeat("1,", n) + "1)}x{default}y{/plural}{/msg}")
		}},
		{"switch-cases", func(n int) func() { return file("{switch $x}" + strings.Repeat("{case 1}a", n) + "{/switch}") }},
		{"msg-html-tags", func(n int) func() { return file("{msg desc=\"d\"}" + strings.Repeat("<b>x</b> ", n) + "{/msg}") }},
	}
	n := g.N(4000, 12000)
	for _, f := range fams {
		var a1, a2 uint64
		c := guarded(120e9, func() {
			f.mk(n / 4)() // warm-up (lazy tables)
			a1 = allocOf(f.mk(n))
			a2 = allocOf(f.mk(2 * n))
		})
		rep.Evaluations++
		if c != "" {
			rep.Violations = append(rep.Violations, Viol{Key: "c05scale:" + f.name + ":" + c, What: "the parser does not return normally on the family " + f.name + " at size " + strconv.Itoa(2*n), Req: req("c05scale", hxs(f.name)), Impl: c, Want: "returns"})
			continue
		}
		ratio := float64(a2) / float64(a1+1)
		rep.Distribution[f.name+":ratio*10="+strconv.Itoa(int(ratio*10))]++
		if ratio >= 3 {
			rep.Violations = append(rep.Violations, Viol{Key: "c05scale:" + f.name, What: "doubling the size of a " + f.name + " input multiplies the bytes the parser allocates by " + strconv.FormatFloat(ratio, 'f', 2, 64) + " (" + strconv.FormatUint(a1, 10) + " -> " + strconv.FormatUint(a2, 10) + "): more than linear work",
				Req: req("c05scale", hxs(f.name), strconv.Itoa(n)), Note: f.name + " n=" + strconv.Itoa(n), Impl: "ratio " + strconv.FormatFloat(ratio, 'f', 2, 64), Want: "< 3"})
		} else {
			rep.DistinctNT++
		}
	}
}
