package main

import (
	"regexp"
	"strings"
)

// C02alias: call name resolution (same-namespace ".t", fully-qualified, aliased incl. multi-segment
// remainders) by a metamorphic oracle: the same bundle written with fully-qualified call names, with
// relative names for same-namespace calls, and with {alias} declarations must compile alike and render
// every template to the same bytes.

func init() {
	register(&Prop{
		ID: "C02alias",
		Rule: "generated multi-file bundles (namespaces ns.a, ns.a.sub, ns.b, other) whose calls are spelled three ways: fully qualified, relative for same-namespace callees, through {alias ns.a} / {alias ns} (so that 'a.t0', 'a.sub.t0', 'ns.b.t1' resolve through the alias table); " +
			"oracle: all spellings compile alike and every template renders the same bytes with the same data; non-trivial = a call was respelled",
		Direct: directC02alias,
	})
}

var callRe = regexp.MustCompile(`\{call ([a-z][a-z0-9.]*\.)(t\d+|rec\d+)`)

func directC02alias(g *G, rep *Report) {
	n := g.N(150, 3000)
	bg := newBundleGen(g.R.Fork(), bundleOpts{msgs: true, directives: true, calls: true})
	for i := 0; i < n; i++ {
		b := bg.bundle()
		base := b.sources()
		respelled := 0
		variant := func(mode string) []srcFile {
			out := make([]srcFile, len(base))
			for k, f := range base {
				ns := b.files[k].ns
				content := f.content
				aliasLine := ""
				content = callRe.ReplaceAllStringFunc(content, func(m string) string {
					sub := callRe.FindStringSubmatch(m)
					callee := strings.TrimSuffix(sub[1], ".")
					switch mode {
					case "relative":
						if callee == ns {
							respelled++
							return "{call ." + sub[2]
						}
					case "alias-a":
						if callee == "ns.a" || strings.HasPrefix(callee, "ns.a.") {
							respelled++
							aliasLine = "{alias ns.a}\n"
							return "{call a" + callee[len("ns.a"):] + "." + sub[2]
						}
					case "alias-ns":
						if strings.HasPrefix(callee, "ns.") {
							respelled++
							aliasLine = "{alias ns}\n"
							return "{call " + callee + "." + sub[2] // "ns.a.sub.t0": first segment "ns" is the alias of "ns" itself
						}
					}
					return m
				})
				if aliasLine != "" {
					content = strings.Replace(content, "}\n", "}\n"+aliasLine, 1) // right after the {namespace …} line
				}
				out[k] = srcFile{f.name, content}
			}
			return out
		}
		regBase, errBase := compileBundle(base)
		for _, mode := range []string{"relative", "alias-a", "alias-ns"} {
			before := respelled
			v := variant(mode)
			if respelled == before {
				continue
			}
			reg, err := compileBundle(v)
			rep.Evaluations++
			rep.Distribution[mode]++
			if (err == nil) != (errBase == nil) {
				e1, e2 := "ok", "ok"
				if err != nil {
					e1 = err.Error()
				}
				if errBase != nil {
					e2 = errBase.Error()
				}
				if len(rep.Violations) < 20 {
					rep.Violations = append(rep.Violations, Viol{Key: "call-name-resolution:compile:" + mode, What: "the same bundle with calls spelled through " + mode + " names compiles differently from the fully-qualified spelling",
						Req: req("c02alias", encSources(v)), Note: mode, Impl: e1, Want: e2})
				}
				continue
			}
			if err != nil {
				continue
			}
			for _, f := range b.files {
				for _, t := range f.tmpls {
					d := toData(bg.dataFor(t))
					o1, c1 := renderSafe(regBase, t.full(), d, nil)
					o2, c2 := renderSafe(reg, t.full(), d, nil)
					if o1 != o2 || c1 != c2 {
						if len(rep.Violations) < 20 {
							rep.Violations = append(rep.Violations, Viol{Key: "call-name-resolution:render:" + mode, What: "a template renders differently when its calls are spelled through " + mode + " names",
								Req: req("c02alias", encSources(v), hxs(t.full())), Note: mode + " " + t.full(), Impl: c2 + " " + o2, Want: c1 + " " + o1})
						}
					} else {
						rep.DistinctNT++
					}
				}
			}
		}
		if len(rep.Samples) < 2 && respelled > 0 {
			rep.Samples = append(rep.Samples, "bundle#"+itoa(i)+": "+itoa(respelled)+" calls respelled (relative / {alias ns.a} / {alias ns})")
		}
	}
}
