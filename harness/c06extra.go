package main

import (
	"bytes"
	"fmt"
	"strconv"
	"strings"
	"time"

	soy "github.com/robfig/soy"
	"github.com/robfig/soy/data"
	"github.com/robfig/soy/soyhtml"
)

// C06extra: corners of "rendering any compiled bundle with any data returns output or an error" that need
// specific shapes: duplicate template names across (equally or differently named) files with the failing
// node beyond the end of the other source; range() with every kind of start/limit/step incl. fractional
// and non-positive steps from data; ParseGlobals on malformed lines; EvalExpr on failing expressions.
// Oracle only (every call under timeout + recover): the outcome is a value or an error.

func init() {
	register(&Prop{
		ID: "C06extra",
		Rule: "different templates in files of the same name (a render failing at an offset beyond the other file's length); duplicate template names across files (same / different file names, the failing print of the first definition at an offset beyond the other source); range(start, limit, step) with every argument drawn from {ints, 0, negatives, 0.5, -0.5, 0.0, 1e300, strings, null, lists} as literals and as data; " +
			"ParseGlobals on well-formed and malformed lines (empty name, no value, no '=', unterminated string, trailing tokens, comments, blank lines, CRLF); oracle: OK or ERR, never PANIC / HANG; non-trivial = the case reaches the render (or the parse of a value)",
		Direct: directC06extra,
	})
}

func directC06extra(g *G, rep *Report) {
	r := g.R.Fork()
	viol := func(key, what, input, impl string) {
		if len(rep.Violations) < 30 {
			rep.Violations = append(rep.Violations, Viol{Key: key, What: what, Req: req("c06extra", hxs(input)), Note: input, Impl: impl, Want: "OK or ERR"})
		}
	}
	// 1. duplicate template names
	n := g.N(150, 3000)
	for i := 0; i < n; i++ {
		pad := strings.Repeat("filler line {sp}\n", 1+r.Intn(12))
		fail := c19FailingPrints[r.Intn(8)]
		long := "{namespace d}\n/**\n * @param? n\n * @param? l\n * @param? s\n * @param? u\n */\n{template .t}\n{if false}{$n}{$l}{$s}{$u}{/if}\n" + pad + fail + "\n{/template}\n"
		short := "{namespace d}\n/** */\n{template .t}\nshort\n{/template}\n"
		names := [][2]string{{"a.soy", "a.soy"}, {"", ""}, {"a.soy", "b.soy"}, {"x/a.soy", "y/a.soy"}}[r.Intn(4)]
		order := r.Bool()
		var class, out string
		c := guarded(10*time.Second, func() {
			b := soy.NewBundle()
			if order {
				b.AddTemplateString(names[0], long).AddTemplateString(names[1], short)
			} else {
				b.AddTemplateString(names[0], short).AddTemplateString(names[1], long)
			}
			tofu, err := b.CompileToTofu()
			if err != nil {
				class = "COMPILE-ERR"
				return
			}
			var sb strings.Builder
			err = tofu.Render(&sb, "d.t", data.Map{"n": data.Null{}, "l": data.List{data.Int(1)}, "s": data.String("s")})
			out = sb.String()
			if err != nil {
				class = "ERR"
			} else {
				class = "OK"
			}
		})
		if c != "" {
			class = c
		}
		rep.Evaluations++
		rep.Distribution["dup:"+class]++
		if class == "PANIC" || class == "HANG" {
			viol("dup-template-"+class+":"+names[0]+"/"+names[1], "rendering a bundle with a template defined twice did not return normally: "+class, names[0]+"|"+names[1]+"|"+long, class)
		} else if class != "COMPILE-ERR" {
			rep.DistinctNT++
		}
		_ = out
	}
	// 1b. DIFFERENT templates in files that carry the same name (AddTemplateString("", …) twice, or the same base
	// name from two directories): a render failing late in the long file must still return an error — the
	// position of the failing node must be looked up in the source of THAT file
	for i := 0; i < n; i++ {
		pad := strings.Repeat("filler line {sp}\n", 3+r.Intn(20))
		fail := c19FailingPrints[r.Intn(8)]
		long := "{namespace lng}\n/**\n * @param? n\n * @param? l\n * @param? s\n * @param? u\n */\n{template .t}\n{if false}{$n}{$l}{$s}{$u}{/if}\n" + pad + fail + "\n{/template}\n"
		short := "{namespace sht}\n/** */\n{template .t}\nshort{call lng.t /}\n{/template}\n"
		name := []string{"", "a.soy", "dir/a.soy"}[r.Intn(3)]
		order := r.Bool()
		entry := []string{"lng.t", "sht.t"}[r.Intn(2)]
		var class string
		c := guarded(10*time.Second, func() {
			b := soy.NewBundle()
			if order {
				b.AddTemplateString(name, long).AddTemplateString(name, short)
			} else {
				b.AddTemplateString(name, short).AddTemplateString(name, long)
			}
			tofu, err := b.CompileToTofu()
			if err != nil {
				class = "COMPILE-ERR"
				return
			}
			var sb strings.Builder
			if err = tofu.Render(&sb, entry, data.Map{"n": data.Null{}, "l": data.List{data.Int(1)}, "s": data.String("s")}); err != nil {
				class = "ERR"
			} else {
				class = "OK"
			}
		})
		if c != "" {
			class = c
		}
		rep.Evaluations++
		rep.Distribution["same-file-name:"+class]++
		if class == "PANIC" || class == "HANG" {
			viol("same-file-name-"+class+":"+name+":"+entry, "rendering a bundle whose files carry the same name did not return normally: "+class, name+"|"+entry+"|"+long, class)
		} else if class != "COMPILE-ERR" {
			rep.DistinctNT++
		}
	}
	// 1c. a failing expression inside a quoted attribute (data="…", value="…", {css e, x}): its nodes come from a nested
	// parser; when the attribute text is longer than the file (invalid UTF-8 unquotes to three-byte U+FFFD, or a
	// long literal in a short file) the error handler must still find a position inside the file
	for _, lit := range []string{"'a'", "'" + strings.Repeat("\xff", 100) + "'", "'" + strings.Repeat("\xff", 1000) + "'", "'" + strings.Repeat("long ", 300) + "'", "$s", "[1, 2]", "['k': 'v']"} {
		for _, wrap := range []string{"{call .u data=\"%s - 1\"/}", "{call .u}{param k value=\"%s - 1\"/}{/call}", "{css %s - 1, x}", "{call .u data=\"%s\"/}", "{call .u data=\"[%s][5].a\"/}"} {
			src := "{namespace q}\n/** @param? s */\n{template .t}\n{if false}{$s}{/if}" + strings.Replace(wrap, "%s", lit, 1) + "\n{/template}\n/** @param? k */\n{template .u}\n{$k}x\n{/template}\n"
			var class string
			c := guarded(5*time.Second, func() {
				tofu, err := soy.NewBundle().AddTemplateString("q.soy", src).CompileToTofu()
				if err != nil {
					class = "COMPILE-ERR"
					return
				}
				var sb strings.Builder
				if err := tofu.Render(&sb, "q.t", data.Map{"s": data.String("str")}); err != nil {
					class = "ERR"
				} else {
					class = "OK"
				}
			})
			if c != "" {
				class = c
			}
			rep.Evaluations++
			rep.Distribution["quoted-attr:"+class]++
			if class == "PANIC" || class == "HANG" {
				viol("quoted-attr-"+class+":"+wrap, "rendering a template with a failing quoted attribute expression did not return normally: "+class, src, class)
			} else if class != "COMPILE-ERR" {
				rep.DistinctNT++
			}
		}
	}
	// 1d. a writer that fails while a {msg} with HTML tags late in a long text is being written, in a SHORT file
	// (the pieces of a message's text are nodes of their own: their positions must lie inside the file)
	for _, body := range []string{strings.Repeat("a", 60) + "<b>", strings.Repeat("word ", 40) + "<br/>tail<i>x</i>", "<a href=\"x\">" + strings.Repeat("é", 50) + "</a>", strings.Repeat("x", 200) + "{$s}<b>y</b>"} {
		src := "{namespace m}\n/** @param? s */\n{template .t}\n{msg desc=\"d\"}" + body + "{/msg}{if false}{$s}{/if}{/template}\n"
		for failAt := 0; failAt < 12; failAt++ {
			var class string
			c := guarded(5*time.Second, func() {
				tofu, err := soy.NewBundle().AddTemplateString("m.soy", src).CompileToTofu()
				if err != nil {
					class = "COMPILE-ERR"
					return
				}
				if err := tofu.Render(&faultWriter{room: 1 << 30, failAt: failAt}, "m.t", data.Map{"s": data.String("S")}); err != nil {
					class = "ERR"
				} else {
					class = "OK"
				}
			})
			if c != "" {
				class = c
			}
			rep.Evaluations++
			rep.Distribution["msg-failing-writer:"+class]++
			if class == "PANIC" || class == "HANG" {
				viol("msg-failing-writer-"+class, "rendering a message into a writer that fails at call "+strconv.Itoa(failAt)+" did not return normally: "+class, src, class)
			} else if class != "COMPILE-ERR" {
				rep.DistinctNT++
			}
		}
	}
	// 2. range() with hostile arguments
	argv := []string{"0", "1", "3", "-1", "-3", "0.5", "-0.5", "0.0", "2.5", "1e300", "'2'", "null", "[1]", "true", "$i", "$f", "$h", "$z", "$s", "$n", "$l"}
	// the ends of the integer range: index += step must not wrap around (short ranges only: a range of 2^62
	// elements is a data-bounded loop of 2^62 steps, not a defect)
	edgeCalls := []string{"range(9223372036854775806, 9223372036854775807, 2)", "range(9223372036854775800, 9223372036854775807, 3)", "range(9223372036854775806, 9223372036854775807)",
		"range(9223372036854775805, 9223372036854775807, 9223372036854775807)", "range(-9223372036854775807, -9223372036854775800, 4611686018427387904)", "range(0, 9223372036854775807, 4611686018427387904)",
		"range(1, 9223372036854775807, 9223372036854775806)"}
	nr := g.N(600, 12000)
	for i := 0; i < nr; i++ {
		na := 1 + r.Intn(3)
		var args []string
		for k := 0; k < na; k++ {
			args = append(args, argv[r.Intn(len(argv))])
		}
		call := "range(" + strings.Join(args, ", ") + ")"
		if i < 3*len(edgeCalls) {
			call = edgeCalls[i%len(edgeCalls)]
		}
		body := []string{"{foreach $x in " + call + "}{$x},{/foreach}", "{length(" + call + ")}", "{for $x in " + call + "}[{$x}]{ifempty}none{/for}"}[r.Intn(3)]
		src := "{namespace r}\n/**\n * @param? i\n * @param? f\n * @param? h\n * @param? z\n * @param? s\n * @param? n\n * @param? l\n */\n{template .t}\n{if false}{$i}{$f}{$h}{$z}{$s}{$n}{$l}{/if}" + body + "\n{/template}\n"
		d := data.Map{"i": data.Int(2), "f": data.Float(1.5), "h": data.Float(0.5), "z": data.Float(0), "s": data.String("3"), "n": data.Null{}, "l": data.List{data.Int(1)}}
		var class string
		c := guarded(5*time.Second, func() {
			tofu, err := soy.NewBundle().AddTemplateString("r.soy", src).CompileToTofu()
			if err != nil {
				class = "COMPILE-ERR"
				return
			}
			var sb strings.Builder
			if err := tofu.Render(&sb, "r.t", d); err != nil {
				class = "ERR"
			} else if sb.Len() > 1<<20 {
				class = "HUGE"
			} else {
				class = "OK"
			}
		})
		if c != "" {
			class = c
		}
		rep.Evaluations++
		rep.Distribution["range:"+class]++
		if class == "PANIC" || class == "HANG" {
			viol("range-"+class+":"+call, "rendering "+call+" did not return normally: "+class, src, class)
			if class == "HANG" && len(rep.Violations) >= 3 {
				break // every hang leaves a spinning goroutine behind
			}
		} else if class != "COMPILE-ERR" {
			rep.DistinctNT++
		}
	}
	// 3. ParseGlobals / EvalExpr
	lines := []string{"a = 1", "b = 'x'", "c = 1.5", "d = true", "e = null", "= 42", "=", " = ", "f =", "g", "h = 1 2", "i = 'x", "j = $x", "k = -'x'", "l = 1 < 'x'", "m = [1, 2]", "n = ['a': 1]",
		"// comment", "", "o = 1 // c", "p=q=r", "q = 1 % 0", "r = length(1)", "s = f(", "t = 99999999999999999999", "u = 1e999", "\tv = 1", "w = 'a' + 1", "x = not", "y = (", "a = 2", "z = \xff", "ab = '\\u12'", "\xef\xbb\xbfac = 1"}
	ng := g.N(400, 8000)
	for i := 0; i < ng; i++ {
		k := 1 + r.Intn(5)
		var file []string
		for j := 0; j < k; j++ {
			file = append(file, lines[r.Intn(len(lines))])
		}
		sep := []string{"\n", "\r\n"}[r.Intn(2)]
		in := strings.Join(file, sep)
		if r.Bool() {
			in += sep
		}
		var class string
		c := guarded(5*time.Second, func() {
			if _, err := soy.ParseGlobals(strings.NewReader(in)); err != nil {
				class = "ERR"
			} else {
				class = "OK"
			}
		})
		if c != "" {
			class = c
		}
		rep.Evaluations++
		rep.Distribution["globals:"+class]++
		if class == "PANIC" || class == "HANG" {
			viol("globals-"+class+":"+strconv.Quote(in), "ParseGlobals did not return normally: "+class, in, class)
		} else {
			rep.DistinctNT++
		}
	}
	// 4. every print directive (valid and out-of-range arguments, chains of two) on hostile strings: bytes that are
	// not UTF-8 (lone lead and continuation bytes, truncated sequences, overlong forms, surrogates), NUL, entity-like
	// text, long runs.  A finite value must give a finite render: OK or ERR, never PANIC / HANG.
	{
		hostile := []string{"\xe4", "w\xf6rld", "caf\xc3", "\x80\x80", "\xf0\x9f\x98", "\xc0\xaf", "\xed\xa0\x80", "a\x00b", "\xff\xfe\xfd", "&amp;&#x;&#99999999;&", "<\xe9>",
			strings.Repeat("\xe9", 70), strings.Repeat("é", 33) + "\xc3", strings.Repeat("a", 200) + "\x80", "x\n\r\n\xa0y", ""}
		dirs := []string{"|escapeHtml", "|noAutoescape", "|id", "|escapeUri", "|escapeJsString", "|changeNewlineToBr", "|insertWordBreaks:1", "|insertWordBreaks:3", "|insertWordBreaks:1000",
			"|truncate:1", "|truncate:3", "|truncate:4,false", "|truncate:0", "|truncate:1000", "|json", "|insertWordBreaks:0", "|truncate:-2"}
		var chains []string
		for _, a := range dirs {
			chains = append(chains, a)
		}
		for i := 0; i < g.N(60, 289); i++ {
			chains = append(chains, dirs[r.Intn(len(dirs))]+dirs[r.Intn(len(dirs))])
		}
		for _, ch := range chains {
			src := "{namespace hd}\n/** @param s */\n{template .t}\n[{$s" + ch + "}]{let $c}{$s" + ch + "}{/let}{$c" + ch + "}\n{/template}\n"
			reg, err := compileBundle([]srcFile{{"hd.soy", src}})
			if err != nil {
				rep.Distribution["hostile-directive:COMPILE-ERR"]++
				continue
			}
			for _, s := range hostile {
				_, class := renderSafe(reg, "hd.t", data.Map{"s": data.String(s)}, nil)
				rep.Evaluations++
				rep.Distribution["hostile-directive:"+class]++
				if class == "PANIC" || class == "HANG" {
					viol("hostile-directive:"+ch, "a print with the directive chain "+ch+" on the value "+strconv.Quote(s)+" does not return normally: "+class, src, class)
					if class == "HANG" {
						break
					}
				} else {
					rep.DistinctNT++
				}
			}
			if len(rep.Violations) >= 3 {
				break
			}
		}
	}
	// 5. Tofu.Render with Go values the converter cannot take (arrays, maps with non-string keys, funcs, channels,
	// complex numbers), at the top level and nested in maps, slices and structs: an error, never a panic
	{
		reg, err := compileBundle([]srcFile{{"gv.soy", "{namespace gv}\n/** @param? v */\n{template .t}\n[{$v}]\n{/template}\n"}})
		if err == nil {
			tofu := soyhtml.NewTofu(reg)
			type withArr struct {
				ID  [4]byte
				Fn  func()
				Any interface{}
			}
			vals := []interface{}{[3]int{1, 2, 3}, map[int]string{1: "a"}, map[interface{}]interface{}{"name": "bob"}, func() {}, make(chan int), complex(1, 2), uintptr(7),
				withArr{}, &withArr{Any: [2]string{"a", "b"}}, []interface{}{[1]int{1}}, map[string]interface{}{"k": map[bool]int{true: 1}}, struct{ C chan int }{}, []func(){nil}}
			for _, v := range vals {
				for _, obj := range []interface{}{v, map[string]interface{}{"v": v}, map[string]interface{}{"v": []interface{}{v}}} {
					var rerr error
					c := guarded(5*time.Second, func() { rerr = tofu.Render(&bytes.Buffer{}, "gv.t", obj) })
					rep.Evaluations++
					cls := c
					if c == "" {
						cls = "OK"
						if rerr != nil {
							cls = "ERR"
						}
					}
					rep.Distribution["go-value:"+cls]++
					if c != "" {
						viol("go-value-"+c+":"+fmt.Sprintf("%T", v), "Tofu.Render handed a Go value of type "+fmt.Sprintf("%T", obj)+" does not return normally: "+c, fmt.Sprintf("%#v", obj), c)
					} else {
						rep.DistinctNT++
					}
				}
			}
		}
	}
	if len(rep.Samples) < 2 {
		rep.Samples = append(rep.Samples, "range(0, 3, 0.5) / duplicate d.t in a.soy+a.soy / globals '= 42' ...")
	}
}
