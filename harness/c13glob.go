package main

import (
	"bytes"
	"fmt"
	"os"
	"path/filepath"
	"sort"
	"strconv"
	"strings"
	"time"

	soy "github.com/robfig/soy"
	"github.com/robfig/soy/data"
	"github.com/robfig/soy/soyhtml"
	"github.com/robfig/soy/soyjs"
)

// C13glob: "the same source files and globals" includes globals handed over in several maps (one per globals file, say).
// When the maps overlap the bundle is rejected; WHICH global the error names must not depend on the repetition
// (Go randomises the iteration of each map).  Also: non-overlapping maps, in any order of the calls, compile alike.

func init() {
	register(&Prop{
		ID: "C13glob",
		Rule: "bundles given their globals in 2-3 AddGlobalsMap calls with 0, 1 or several overlapping names, compiled 60 times each; oracle: one outcome (accept, or one error text) per bundle; " +
			"non-trivial = at least two names overlap. Plus: generated bundles written to disk (nested directories, a non-.soy file, a globals file) compiled through AddTemplateDir / AddTemplateFile / AddGlobalsFile = the same contents given as strings under the same paths (decision, error text with the path, templates, renders). Plus: failures found while evaluating (a globals file whose expression divides by zero or misuses a function; a render that does) observed from the caller's goroutine, a fresh goroutine and a deeper call stack: one error text",
		Direct: directC13glob,
	})
}

func directC13glob(g *G, rep *Report) {
	directC13files(g, rep)
	directC13errtext(g, rep)
	r := g.R.Fork()
	names := []string{"A", "B", "C", "D", "E", "app.NAME", "app.MAX", "Z_9"}
	src := "{namespace n}\n/** */\n{template .t}\n{A}\n{/template}\n"
	for i := 0; i < g.N(40, 600); i++ {
		nm := 2 + r.Intn(2)
		maps := make([]data.Map, nm)
		overlap := 0
		seen := map[string]bool{}
		for k := range maps {
			maps[k] = data.Map{"A": data.Int(int64(k))}
			if k > 0 {
				delete(maps[k], "A")
			}
			for _, n := range names[1:] {
				if r.Intn(2) == 0 {
					maps[k][n] = data.Int(int64(k))
					if seen[n] {
						overlap++
					}
					seen[n] = true
				}
			}
		}
		outcomes := map[string]int{}
		for rep2 := 0; rep2 < 60; rep2++ {
			b := soy.NewBundle()
			for _, m := range maps {
				b.AddGlobalsMap(m)
			}
			_, err := b.AddTemplateString("a.soy", src).Compile()
			outcomes[errText(err)]++
		}
		rep.Evaluations++
		rep.Distribution["overlap-"+strconv.Itoa(minInt(overlap, 3))]++
		if len(outcomes) != 1 {
			if len(rep.Violations) < 10 {
				rep.Violations = append(rep.Violations, Viol{Key: "c13glob:outcomes", What: "one bundle (same files, same globals maps in the same order) is compiled with " + strconv.Itoa(len(outcomes)) + " different outcomes over 60 repetitions",
					Req: req("c13glob", hxs(fmt.Sprint(maps))), Note: fmt.Sprint(maps), Impl: fmt.Sprint(outcomes), Want: "one outcome"})
			}
		} else if overlap >= 2 {
			rep.DistinctNT++
		}
	}
}

func minInt(a, b int) int {
	if a < b {
		return a
	}
	return b
}

// Files on disk: AddTemplateDir / AddTemplateFile / AddGlobalsFile are the same compilation as AddTemplateString /
// AddGlobalsMap of the same contents — same decision, same error text once the file label is replaced, same
// templates, same renders — and an error names the path that was given.
func directC13files(g *G, rep *Report) {
	tmp, err := os.MkdirTemp(filepath.Dir(mustExe()), "c13files-")
	if err != nil {
		rep.Violations = append(rep.Violations, Viol{Key: "c13files-setup", What: "cannot create a scratch directory: " + err.Error()})
		return
	}
	defer os.RemoveAll(tmp)
	bg := newBundleGen(g.R.Fork(), bundleOpts{msgs: true, directives: true, calls: true})
	for i := 0; i < g.N(60, 800); i++ {
		b := bg.bundle()
		fs := b.sources()
		if i%4 == 3 && len(fs) > 0 {
			// a broken file: the error must name its path
			k := g.R.Intn(len(fs))
			fs[k].content = strings.Replace(fs[k].content, "{/template}", "{if}{/template}", 1)
		}
		dir := filepath.Join(tmp, "b"+strconv.Itoa(i))
		os.MkdirAll(filepath.Join(dir, "sub"), 0o755)
		var paths []string
		for k, f := range fs {
			p := filepath.Join(dir, f.name)
			if k%2 == 1 {
				p = filepath.Join(dir, "sub", f.name)
			}
			os.WriteFile(p, []byte(f.content), 0o644)
			paths = append(paths, p)
		}
		os.WriteFile(filepath.Join(dir, "notes.txt"), []byte("{namespace ignored}"), 0o644)
		gl := "// globals\nG_ONE = 1\n\napp.NAME = 'n // x'\n"
		os.WriteFile(filepath.Join(dir, "globals.txt"), []byte(gl), 0o644)
		observe := func(mk func() *soy.Bundle) string {
			var out []string
			c := guarded(20*time.Second, func() {
				reg, err := mk().Compile()
				if err != nil {
					out = append(out, "ERR "+err.Error())
					return
				}
				var names []string
				for _, t := range reg.Templates {
					names = append(names, t.Node.Name)
				}
				sort.Strings(names)
				for _, n := range names {
					o, cl := renderSafe(reg, n, data.Map{}, nil)
					out = append(out, n+" "+cl+" "+o)
				}
			})
			return c + strings.Join(out, "\n")
		}
		// the walk visits paths in lexical order
		order := make([]int, len(fs))
		for k := range order {
			order[k] = k
		}
		sort.Slice(order, func(a, b int) bool { return paths[order[a]] < paths[order[b]] })
		viaStrings := observe(func() *soy.Bundle {
			bb := soy.NewBundle().AddGlobalsMap(data.Map{"G_ONE": data.Int(1), "app.NAME": data.String("n // x")})
			for _, k := range order {
				bb.AddTemplateString(paths[k], fs[k].content)
			}
			return bb
		})
		viaDir := observe(func() *soy.Bundle {
			return soy.NewBundle().AddGlobalsFile(filepath.Join(dir, "globals.txt")).AddTemplateDir(dir)
		})
		viaFiles := observe(func() *soy.Bundle {
			bb := soy.NewBundle().AddGlobalsFile(filepath.Join(dir, "globals.txt"))
			for _, k := range order {
				bb.AddTemplateFile(paths[k])
			}
			return bb
		})
		// Generator.WriteFile(name) = Write(the file of that name, default options); an unknown name is ErrNotFound
		if reg, err := compileBundle(fs); err == nil {
			gen := soyjs.NewGenerator(reg)
			seenName := map[string]bool{}
			for _, sf := range reg.SoyFiles {
				if seenName[sf.Name] {
					continue
				}
				seenName[sf.Name] = true
				var a, b bytes.Buffer
				ea := gen.WriteFile(&a, sf.Name)
				eb := soyjs.Write(&b, sf, soyjs.Options{})
				if errText(ea) != errText(eb) || a.String() != b.String() {
					rep.Violations = append(rep.Violations, Viol{Key: "c13files:generator", What: "Generator.WriteFile(" + sf.Name + ") differs from soyjs.Write of that file",
						Req: req("c13files", encSources(fs)), Note: sf.Name, Impl: errText(ea) + " " + firstDiffLine(a.String(), b.String()), Want: "identical"})
				}
			}
			var c bytes.Buffer
			if e := gen.WriteFile(&c, "no-such-file.soy"); e != soyjs.ErrNotFound || c.Len() != 0 {
				rep.Violations = append(rep.Violations, Viol{Key: "c13files:generator-notfound", What: "Generator.WriteFile of an unknown file name does not answer ErrNotFound", Req: req("c13files", encSources(fs)), Impl: errText(e), Want: "ErrNotFound"})
			}
		}
		rep.Evaluations++
		if strings.HasPrefix(viaStrings, "ERR") {
			rep.Distribution["files:rejected"]++
		} else {
			rep.Distribution["files:accepted"]++
		}
		if viaDir != viaStrings || viaFiles != viaStrings {
			if len(rep.Violations) < 10 {
				rep.Violations = append(rep.Violations, Viol{Key: "c13files:differs", What: "compiling files from disk (AddTemplateDir / AddTemplateFile / AddGlobalsFile) differs from compiling the same contents given as strings under the same paths",
					Req: req("c13files", encSources(fs)), Note: dir, Impl: "dir: " + firstDiffLine(viaDir, viaStrings) + " | files: " + firstDiffLine(viaFiles, viaStrings), Want: "identical observations"})
			}
		} else {
			rep.DistinctNT++
		}
		os.RemoveAll(dir)
	}
}

// Failures found by evaluating: the same sources and globals give the same error text whoever calls and however often
// (the text must not carry goroutine ids, stack depths or addresses).
func directC13errtext(g *G, rep *Report) {
	tmp, err := os.MkdirTemp(filepath.Dir(mustExe()), "c13err-")
	if err != nil {
		rep.Violations = append(rep.Violations, Viol{Key: "c13files-setup", What: "cannot create a scratch directory: " + err.Error()})
		return
	}
	defer os.RemoveAll(tmp)
	var deep func(n int, f func())
	deep = func(n int, f func()) {
		if n == 0 {
			f()
			return
		}
		deep(n-1, f)
	}
	observeAll := func(f func() string) map[string]int {
		out := map[string]int{}
		var mu = make(chan string, 8)
		out[f()]++
		out[f()]++
		go func() { mu <- f() }()
		out[<-mu]++
		deep(7+g.R.Intn(9), func() { out[f()]++ })
		go func() { deep(3, func() { mu <- f() }) }()
		out[<-mu]++
		return out
	}
	globalsFiles := []string{"X = 1 % 0\n", "A = 1\nX = 7 % (3 - 3)\n", "X = round(1, 'a')\n", "X = length(5)\n", "X = keys(1)\n", "X = nope(1)\n", "X = $a\n", "X = [1][2.5]\n", "X = -'a'\n", "X = 1 / 0\n"}
	for i, gl := range globalsFiles {
		p := filepath.Join(tmp, "g"+strconv.Itoa(i)+".txt")
		os.WriteFile(p, []byte(gl), 0o644)
		outcomes := observeAll(func() string {
			s := "PANIC"
			func() {
				defer func() { recover() }()
				_, err := soy.NewBundle().AddGlobalsFile(p).AddTemplateString("a.soy", "{namespace n}\n/** */\n{template .t}{X}{/template}\n").Compile()
				s = errText(err)
			}()
			return s
		})
		rep.Evaluations++
		rep.Distribution["errtext:globals"]++
		if len(outcomes) != 1 {
			if len(rep.Violations) < 10 {
				rep.Violations = append(rep.Violations, Viol{Key: "c13err:globals:" + strings.TrimSpace(gl), What: "a bundle with the globals file " + strconv.Quote(gl) + " is compiled with " + strconv.Itoa(len(outcomes)) + " different error texts over 5 calls (same goroutine twice, a fresh goroutine, deeper call stacks)",
					Req: req("c13err", hxs(gl)), Note: gl, Impl: firstLines(outcomes), Want: "one outcome"})
			}
		} else {
			for k := range outcomes {
				if k != "" && k != "<nil>" {
					rep.DistinctNT++
				}
			}
		}
	}
	bodies := []string{"{$a % 0}", "{round($a, 'x')}", "{$a|truncate:'x'}", "{length($a)}", "{keys($a)[0]}", "{$a.b.c}", "{$a|insertWordBreaks:'q'}", "{if $a / 0 > 1}x{/if}", "{augmentMap($a, $a)}", "{strContains($a, 1)}", "{range($a, 'x')}"}
	for _, body := range bodies {
		src := "{namespace n}\n/** @param a */\n{template .t}\nab{sp}" + body + "\n{/template}\n"
		reg, err := compileBundle([]srcFile{{"a.soy", src}})
		if err != nil {
			rep.Distribution["errtext:render-rejected"]++
			continue
		}
		outcomes := observeAll(func() string {
			s := "PANIC"
			func() {
				defer func() { recover() }()
				var buf bytes.Buffer
				err := soyhtml.NewTofu(reg).NewRenderer("n.t").Execute(&buf, data.Map{"a": data.Int(1)})
				s = buf.String() + " | " + errText(err)
			}()
			return s
		})
		rep.Evaluations++
		rep.Distribution["errtext:render"]++
		if len(outcomes) != 1 {
			if len(rep.Violations) < 20 {
				rep.Violations = append(rep.Violations, Viol{Key: "c13err:render:" + body, What: "rendering " + body + " with a = 1 gives " + strconv.Itoa(len(outcomes)) + " different results over 5 calls (same goroutine twice, a fresh goroutine, deeper call stacks)",
					Req: req("c13err", hxs(src)), Note: body, Impl: firstLines(outcomes), Want: "one outcome"})
			}
		} else {
			rep.DistinctNT++
		}
	}
}

func firstLines(m map[string]int) string {
	var ks []string
	for k := range m {
		if len(k) > 300 {
			k = k[:300] + "…"
		}
		ks = append(ks, k)
	}
	sort.Strings(ks)
	return strings.Join(ks, " ||| ")
}
