package main

// Search oracle of C01 / C02: the answers of Spec/Eval.lean (Appendix A of DESIGN.md) through the
// driver ops spec-exec / spec-evalexpr, compared with the real interpreter's answers.

import (
	"regexp"
	"strings"
	"sync"
)

var (
	specMu     sync.Mutex
	specCounts = map[string]int{}
)

var idRe = regexp.MustCompile(`\b([LM])\d+\.`)

func stripIDs(s string) string { return idRe.ReplaceAllString(s, "${1}0.") }

// specDiffers: does the implementation's answer contradict the specification's?
func specDiffers(c *Case, want, impl string) bool {
	count := func(k string) {
		specMu.Lock()
		specCounts[k]++
		specMu.Unlock()
	}
	switch {
	case want == "UNSPEC":
		count("spec:unspecified")
		return false
	case !strings.HasPrefix(want, "OK") && want != "ERR":
		count("spec:" + firstWord(want))
		return true // the oracle itself failed: must be looked at
	}
	isEval := strings.HasPrefix(c.Req, "evalexpr\t")
	differs := false
	if want == "ERR" {
		count("spec:error")
		differs = !strings.HasPrefix(impl, "ERR")
	} else {
		count("spec:value")
		if isEval {
			differs = stripIDs(impl) != want
		} else {
			// exec: "OK <hex> chunks=<n>" against "OK <hex>"
			cmp := impl
			if k := strings.Index(cmp, " chunks="); k >= 0 {
				cmp = cmp[:k]
			}
			differs = cmp != want
		}
	}
	if differs {
		specMu.Lock()
		specKeys[c.Req] = classifyDeviation(c, want, impl)
		specMu.Unlock()
	}
	return differs
}

// stable keys of the deviation families (matched against known_findings.json)
var specKeys = map[string]string{}

func classifyDeviation(c *Case, want, impl string) string {
	return "spec-deviation:" + c.Note
}

func specReqOf(r string) string { return "spec-" + r }

func init() {
	attachSpecExec = func(c *Case) { c.SpecReq = specReqOf(c.Req) }
	attachSpecEvalExpr = func(c *Case) { c.SpecReq = specReqOf(c.Req) }
	for _, id := range []string{"C01eval", "C02exec"} {
		p := props[id]
		p.SpecDiffers = specDiffers
		old := p.KeyOf
		p.KeyOf = func(c *Case, impl string) string {
			specMu.Lock()
			k, ok := specKeys[c.Req]
			specMu.Unlock()
			if ok {
				return k
			}
			return old(c, impl)
		}
		p.Direct = func(g *G, rep *Report) {
			specMu.Lock()
			defer specMu.Unlock()
			for k, v := range specCounts {
				rep.Distribution[k] = v
			}
		}
	}
}
