package main

// Search oracle of C01 / C02: the answers of Spec/Eval.lean (Appendix A of DESIGN.md) through the
// driver ops spec-exec / spec-evalexpr, compared with the real interpreter's answers.

import (
	"regexp"
	"strings"
	"sync"
)

var (
	specMu     sync.Mutex
	specCounts = map[string]int{}
)

var idRe = regexp.MustCompile(`\b([LM])\d+\.`)

func stripIDs(s string) string { return idRe.ReplaceAllString(s, "${1}0.") }

// specDiffers: does the implementation's answer contradict the specification's?
func specDiffers(c *Case, want, impl string) bool {
	count := func(k string) {
		specMu.Lock()
		specCounts[k]++
		specMu.Unlock()
	}
	switch {
	case want == "UNSPEC":
		count("spec:unspecified")
		return false
	case !strings.HasPrefix(want, "OK") && want != "ERR":
		count("spec:" + firstWord(want))
		return true // the oracle itself failed: must be looked at
	}
	isEval := strings.HasPrefix(c.Req, "evalexpr\t")
	differs := false
	if want == "ERR" {
		count("spec:error")
		differs = !strings.HasPrefix(impl, "ERR")
	} else {
		count("spec:value")
		if isEval {
			differs = stripIDs(impl) != want
		} else {
			// exec: "OK <hex> chunks=<n>" against "OK <hex>"
			cmp := impl
			if k := strings.Index(cmp, " chunks="); k >= 0 {
				cmp = cmp[:k]
			}
			differs = cmp != want
		}
	}
	if differs {
		specMu.Lock()
		specKeys[c.Req] = classifyDeviation(c, want, impl)
		specMu.Unlock()
	}
	return differs
}

// an index expression that contains a minus sign or the standard environment's -3 (the only way the generators reach index -1)
var minusOneIndexRe = regexp.MustCompile(`\[[^\]]*(-|\$j)[^\]]*\]`)

// stable keys of the deviation families (matched against known_findings.json)
var specKeys = map[string]string{}

func classifyDeviation(c *Case, want, impl string) string {
	dec := func(s string) string {
		f := strings.Fields(s)
		if len(f) >= 2 {
			b, _ := unhx(f[1])
			return string(b)
		}
		return ""
	}
	w, i := dec(want), dec(impl)
	sorted := func(s string) string {
		b := []byte(s)
		sortBytesInPlace(b)
		return string(b)
	}
	switch {
	case want == "ERR" && strings.HasPrefix(impl, "OK") && strings.Contains(i, "undefined"):
		return "spec-deviation:map-with-undefined-member-prints-undefined"
	case strings.HasPrefix(want, "OK") && strings.HasPrefix(impl, "OK") && strings.Contains(w, "{") && sorted(w) == sorted(i):
		return "spec-deviation:map-printed-in-item-order-not-key-order"
	case strings.HasPrefix(want, "OK") && strings.HasPrefix(impl, "ERR") && minusOneIndexRe.MatchString(c.Note):
		return "spec-deviation:list-index-minus-one-is-an-error"
	case strings.HasPrefix(want, "OK") && strings.HasPrefix(impl, "OK") && strings.Contains(c.Note, "round("):
		return "spec-deviation:round-adds-one-half-in-floating-point"
	}
	return "spec-deviation:" + c.Note
}

func sortBytesInPlace(b []byte) {
	for i := 1; i < len(b); i++ {
		for j := i; j > 0 && b[j-1] > b[j]; j-- {
			b[j-1], b[j] = b[j], b[j-1]
		}
	}
}

func specReqOf(r string) string { return "spec-" + r }

func init() {
	attachSpecExec = func(c *Case) { c.SpecReq = specReqOf(c.Req) }
	attachSpecEvalExpr = func(c *Case) { c.SpecReq = specReqOf(c.Req) }
	for _, id := range []string{"C01eval", "C02exec"} {
		p := props[id]
		p.SpecDiffers = specDiffers
		old := p.KeyOf
		p.KeyOf = func(c *Case, impl string) string {
			specMu.Lock()
			k, ok := specKeys[c.Req]
			specMu.Unlock()
			if ok {
				return k
			}
			return old(c, impl)
		}
		p.Direct = func(g *G, rep *Report) {
			specMu.Lock()
			defer specMu.Unlock()
			for k, v := range specCounts {
				rep.Distribution[k] = v
			}
		}
	}
}
