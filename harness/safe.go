package main

import (
	"errors"
	"fmt"
	"sync/atomic"
	"time"

	"github.com/robfig/soy/ast"
	"github.com/robfig/soy/parse"
)

// In-process calls into the code under test (made by generators and direct sweeps) must not be able to
// hang or kill the harness: they run in a goroutine that is abandoned after a timeout (a spinning
// goroutine cannot be stopped, so it is left behind and counted) and under recover.

var errHang = errors.New("HANG: the call into the code under test did not return")

var abandoned int64

// guarded runs f with a timeout and recover.  class is "" (returned), "HANG" or "PANIC".
func guarded(d time.Duration, f func()) (class string) {
	done := make(chan string, 1)
	go func() {
		defer func() {
			if e := recover(); e != nil {
				done <- "PANIC"
			}
		}()
		f()
		done <- ""
	}()
	select {
	case c := <-done:
		return c
	case <-time.After(d):
		atomic.AddInt64(&abandoned, 1)
		return "HANG"
	}
}

// soyFileSafe is parse.SoyFile under guard.
func soyFileSafe(name, src string) (n *ast.SoyFileNode, err error) {
	switch guarded(5*time.Second, func() { n, err = parse.SoyFile(name, src) }) {
	case "HANG":
		return nil, errHang
	case "PANIC":
		return nil, fmt.Errorf("PANIC in parse.SoyFile")
	}
	return
}
