package main

import (
	"encoding/json"
	"flag"
	"fmt"
	"os"
	"runtime"
	"sort"
	"strings"
	"time"
)

// Case is one correspondence case.
type Case struct {
	Req     string // request answered by the implementation worker and by the model driver
	SpecReq string // optional: request answered by the driver's *specification*; must equal the implementation's answer
	NT      bool   // non-trivial by the property's rule
	Class   string // bucket for the input distribution
	Note    string // human-readable form for samples / replays
	NoModel bool   // the model cannot answer this request yet: only the oracle looks at it
}

// Viol is a concrete failing input found by an oracle.
type Viol struct {
	Key   string `json:"key"`  // canonical key matched against known_findings.json
	What  string `json:"what"` // one-line description
	Req   string `json:"req"`
	Note  string `json:"note,omitempty"`
	Impl  string `json:"impl"`
	Want  string `json:"want,omitempty"`
	Model string `json:"model,omitempty"`
}

type Diff struct {
	Req   string `json:"req"`
	Note  string `json:"note,omitempty"`
	Impl  string `json:"impl"`
	Model string `json:"model"`
}

// Prop describes the tie and search for one property.
type Prop struct {
	ID   string
	Rule string
	// Gen produces the cases; corpus lines (if any) are prepended by the caller.
	Gen func(g *G)
	// Oracle inspects the implementation's answer to a case against the property
	// statement itself (independent of the model); nil if SpecReq is the oracle.
	Oracle func(c *Case, impl string) *Viol
	// KeyOf canonicalises a failing request into a known-findings key.
	KeyOf func(c *Case, impl string) string
	// Timeout per case for the implementation.
	Timeout time.Duration
	// SpecDiffers decides whether the implementation's answer contradicts the specification's
	// answer to SpecReq (nil: plain string inequality).
	SpecDiffers func(c *Case, want, impl string) bool
	// Direct is an optional in-process sweep (needs no model); it appends to the report.
	Direct func(g *G, r *Report)
	// Canon optionally canonicalises the implementation's answer before any comparison
	// (e.g. CRASH -> PANIC where the real code panics in a goroutine that cannot be recovered).
	Canon func(impl string) string
	// NTOf optionally decides non-triviality from the implementation's answer (overrides Case.NT).
	NTOf func(c *Case, impl string) bool
	// CanonBoth (optional) canonicalises an answer line of the implementation AND of the model (and of
	// the specification) before anything is compared, e.g. JavaScript text -> token stream.
	CanonBoth func(ans string) string
}

var props = map[string]*Prop{}

func register(p *Prop) { props[p.ID] = p }

type Report struct {
	Property     string         `json:"property"`
	Seed         int64          `json:"seed"`
	Tier         string         `json:"tier"`
	Evaluations  int            `json:"evaluations"`
	DistinctNT   int            `json:"distinct_nontrivial"`
	Rule         string         `json:"rule"`
	Samples      []string       `json:"samples"`
	Distribution map[string]int `json:"distribution"`
	Diffs        []Diff         `json:"diffs"`
	Violations   []Viol         `json:"violations"`
	Validated    int            `json:"traces_validated_against_impl"`
	Exhaustive   bool           `json:"exhaustive"`
	ImplHangs    int            `json:"impl_hangs"`
	ImplPanics   int            `json:"impl_panics"`
	WallS        float64        `json:"wall_s"`
	Extra        map[string]interface{} `json:"extra,omitempty"`
}

// G is the generation context handed to a property's generator.
type G struct {
	R     *RNG
	Tier  string
	Seed  int64
	Cases []Case
	Exhaustive bool
}

func (g *G) Quick() bool { return g.Tier != "thorough" }
func (g *G) Add(c Case)   { g.Cases = append(g.Cases, c) }

// N picks the case budget by tier.
func (g *G) N(quick, thorough int) int {
	if g.Quick() {
		return quick
	}
	return thorough
}

func corrMain(args []string) {
	fs := flag.NewFlagSet("corr", flag.ExitOnError)
	seed := fs.Int64("seed", 1, "PRNG seed")
	tier := fs.String("tier", "quick", "quick|thorough")
	driver := fs.String("driver", "", "path of the Lean model driver executable")
	report := fs.String("report", "", "where to write the JSON report")
	corpus := fs.String("corpus", "", "corpus file of request lines to run first")
	one := fs.String("one", "", "run exactly this request (replay)")
	fs.Parse(args[1:])
	p, ok := props[args[0]]
	if !ok {
		fmt.Fprintln(os.Stderr, "no such property:", args[0])
		os.Exit(2)
	}
	t0 := time.Now()
	// global watchdog: whatever the code under test does, this process ends and says why
	budget := 10 * time.Minute
	if *tier == "thorough" {
		budget = 90 * time.Minute
	}
	time.AfterFunc(budget, func() {
		rep := &Report{Property: p.ID, Seed: *seed, Tier: *tier, Rule: p.Rule, Distribution: map[string]int{}, Diffs: []Diff{}, Samples: []string{},
			Violations: []Viol{{Key: "harness-timeout", What: "the run did not finish within its time budget (a call into the code under test hangs or is extremely slow)", Req: "(whole run)", Impl: "TIMEOUT", Want: "termination"}}}
		b, _ := json.MarshalIndent(rep, "", " ")
		if *report != "" {
			os.WriteFile(*report, b, 0o644)
		}
		os.Exit(4)
	})
	g := &G{R: NewRNG(uint64(*seed)), Tier: *tier, Seed: *seed}
	if *one != "" {
		g.Add(Case{Req: *one, NT: true, Class: "replay"})
	} else {
		for _, l := range readLines(*corpus) {
			g.Add(Case{Req: l, NT: true, Class: "corpus"})
		}
		if p.Gen != nil {
			p.Gen(g)
		}
	}
	rep := &Report{Property: p.ID, Seed: *seed, Tier: *tier, Rule: p.Rule,
		Distribution: map[string]int{}, Exhaustive: g.Exhaustive, Extra: map[string]interface{}{},
		Diffs: []Diff{}, Violations: []Viol{}, Samples: []string{}}
	timeout := p.Timeout
	if timeout == 0 {
		timeout = 5 * time.Second
	}
	ncpu := runtime.NumCPU()
	if len(g.Cases) > 0 {
		reqs := make([]string, len(g.Cases))
		var specIdx []int
		var specReqs []string
		for i, c := range g.Cases {
			reqs[i] = c.Req
			if c.SpecReq != "" {
				specIdx = append(specIdx, i)
				specReqs = append(specReqs, c.SpecReq)
			}
		}
		impl := runAll(selfWorkerArgv(), reqs, ncpu, timeout)
		if p.Canon != nil {
			for i := range impl {
				impl[i] = p.Canon(impl[i])
			}
		}
		model := runAll([]string{*driver}, reqs, ncpu, 20*time.Second)
		spec := map[int]string{}
		if len(specReqs) > 0 {
			sa := runAll([]string{*driver}, specReqs, ncpu, 20*time.Second)
			for k, i := range specIdx {
				spec[i] = sa[k]
			}
		}
		if p.CanonBoth != nil {
			for i := range impl {
				impl[i], model[i] = p.CanonBoth(impl[i]), p.CanonBoth(model[i])
				if w, ok := spec[i]; ok {
					spec[i] = p.CanonBoth(w)
				}
			}
		}
		seen := map[string]bool{}
		for i := range g.Cases {
			c := &g.Cases[i]
			rep.Evaluations++
			rep.Distribution[c.Class]++
			outcome := impl[i]
			if k := strings.IndexByte(outcome, ' '); k >= 0 {
				outcome = outcome[:k]
			}
			rep.Distribution["outcome:"+outcome]++
			if p.NTOf != nil {
				c.NT = p.NTOf(c, impl[i])
			}
			if c.NT && !seen[c.Req] {
				seen[c.Req] = true
				rep.DistinctNT++
			}
			if impl[i] == "HANG" || impl[i] == "OOM" {
				rep.ImplHangs++
			}
			if len(impl[i]) >= 5 && impl[i][:5] == "PANIC" {
				rep.ImplPanics++
			}
			note := c.Note
			// (1) the property oracle: a concrete failing input
			var v *Viol
			if want, ok := spec[i]; ok && (p.SpecDiffers == nil && want != impl[i] || p.SpecDiffers != nil && p.SpecDiffers(c, want, impl[i])) {
				v = &Viol{What: "implementation differs from the specification", Want: want}
			} else if p.Oracle != nil {
				v = p.Oracle(c, impl[i])
			}
			if v != nil {
				v.Req, v.Impl, v.Model, v.Note = c.Req, impl[i], model[i], note
				if v.Key == "" {
					if p.KeyOf != nil {
						v.Key = p.KeyOf(c, impl[i])
					} else {
						v.Key = c.Req
					}
				}
				rep.Violations = append(rep.Violations, *v)
			}
			// (2) the tie: model and implementation must agree
			if c.NoModel {
				// oracle-only case
			} else if impl[i] != model[i] {
				rep.Diffs = append(rep.Diffs, Diff{Req: c.Req, Note: note, Impl: impl[i], Model: model[i]})
			} else {
				rep.Validated++
			}
		}
		// samples: a few cases spread over the run
		step := len(g.Cases)/5 + 1
		for i := 0; i < len(g.Cases); i += step {
			s := g.Cases[i].Note
			if s == "" {
				s = g.Cases[i].Req
			}
			rep.Samples = append(rep.Samples, s+" => "+impl[i])
		}
	}
	if p.Direct != nil && *one == "" {
		p.Direct(g, rep)
	}
	sort.Slice(rep.Violations, func(i, j int) bool { return len(rep.Violations[i].Req) < len(rep.Violations[j].Req) })
	sort.Slice(rep.Diffs, func(i, j int) bool { return len(rep.Diffs[i].Req) < len(rep.Diffs[j].Req) })
	if len(rep.Violations) > 50 {
		rep.Extra["violations_total"] = len(rep.Violations)
		rep.Violations = dedupViol(rep.Violations, 50)
	}
	if len(rep.Diffs) > 50 {
		rep.Extra["diffs_total"] = len(rep.Diffs)
		rep.Diffs = rep.Diffs[:50]
	}
	rep.WallS = time.Since(t0).Seconds()
	b, _ := json.MarshalIndent(rep, "", " ")
	if *report == "" {
		os.Stdout.Write(append(b, '\n'))
	} else {
		os.WriteFile(*report, b, 0o644)
	}
}

// dedupViol keeps the shortest violation per key first, then fills up.
func dedupViol(vs []Viol, max int) []Viol {
	seen := map[string]bool{}
	var out []Viol
	for _, v := range vs {
		if !seen[v.Key] {
			seen[v.Key] = true
			out = append(out, v)
		}
	}
	if len(out) > max {
		out = out[:max]
	}
	return out
}

func readLines(path string) []string {
	if path == "" {
		return nil
	}
	b, err := os.ReadFile(path)
	if err != nil {
		return nil
	}
	var out []string
	start := 0
	for i := 0; i <= len(b); i++ {
		if i == len(b) || b[i] == '\n' {
			if i > start {
				out = append(out, string(b[start:i]))
			}
			start = i + 1
		}
	}
	return out
}

func replayMain(args []string) {
	fmt.Fprintln(os.Stderr, "use ./check replay <file>")
	os.Exit(2)
}
