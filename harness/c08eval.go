package main

// C08: rendering is pure.  Oracle over HISTORIES of renders on one compiled bundle: a deep structural
// digest (reflection walk incl. unexported fields, slice len AND cap, map contents, pointer sharing) of
// the registry, of the data map and of the injected data is equal before and after every operation —
// succeeding or failing — and every render gives the output it gives as the FIRST render on a freshly
// compiled bundle, with and without obligatory print directives / a custom function and directive.
// The theorems are in lean/SoyVerif/Props/C08.lean (exec_frame, history_independent).

import (
	"fmt"
	"reflect"
	"sort"
	"strconv"
	"strings"
	"unsafe"

	"github.com/robfig/soy/data"
	"github.com/robfig/soy/soyhtml"
	"github.com/robfig/soy/template"
)

// deepDigest prints a value structurally; pointers are numbered by first occurrence (so sharing is
// visible but addresses are not), slices print len and cap.
func deepDigestE(x interface{}) string {
	var b strings.Builder
	seen := map[uintptr]int{}
	var walk func(v reflect.Value, depth int)
	walk = func(v reflect.Value, depth int) {
		if depth > 200 {
			b.WriteString("<deep>")
			return
		}
		switch v.Kind() {
		case reflect.Invalid:
			b.WriteString("nil")
		case reflect.Ptr:
			if v.IsNil() {
				b.WriteString("nilptr")
				return
			}
			p := v.Pointer()
			if id, ok := seen[p]; ok {
				fmt.Fprintf(&b, "&%d", id)
				return
			}
			seen[p] = len(seen) + 1
			fmt.Fprintf(&b, "&%d=", seen[p])
			walk(v.Elem(), depth+1)
		case reflect.Interface:
			if v.IsNil() {
				b.WriteString("nilif")
				return
			}
			b.WriteString(v.Elem().Type().String() + ":")
			walk(v.Elem(), depth+1)
		case reflect.Struct:
			b.WriteString("{")
			for i := 0; i < v.NumField(); i++ {
				f := v.Field(i)
				if !f.CanInterface() && f.CanAddr() {
					f = reflect.NewAt(f.Type(), unsafe.Pointer(f.UnsafeAddr())).Elem()
				}
				b.WriteString(v.Type().Field(i).Name + "=")
				walk(f, depth+1)
				b.WriteString(";")
			}
			b.WriteString("}")
		case reflect.Slice:
			if v.IsNil() {
				b.WriteString("nilslice")
				return
			}
			fmt.Fprintf(&b, "[len=%d cap=%d:", v.Len(), v.Cap())
			for i := 0; i < v.Len(); i++ {
				walk(v.Index(i), depth+1)
				b.WriteString(",")
			}
			b.WriteString("]")
		case reflect.Array:
			b.WriteString("[")
			for i := 0; i < v.Len(); i++ {
				walk(v.Index(i), depth+1)
				b.WriteString(",")
			}
			b.WriteString("]")
		case reflect.Map:
			if v.IsNil() {
				b.WriteString("nilmap")
				return
			}
			keys := v.MapKeys()
			sort.Slice(keys, func(i, j int) bool { return fmt.Sprint(keys[i]) < fmt.Sprint(keys[j]) })
			fmt.Fprintf(&b, "map[%d:", v.Len())
			for _, k := range keys {
				fmt.Fprintf(&b, "%q=>", fmt.Sprint(k))
				walk(v.MapIndex(k), depth+1)
				b.WriteString(",")
			}
			b.WriteString("]")
		case reflect.String:
			b.WriteString(strconv.Quote(v.String()))
		case reflect.Float32, reflect.Float64:
			fmt.Fprintf(&b, "f%x", mathBits(v.Float()))
		case reflect.Func, reflect.Chan, reflect.UnsafePointer:
			b.WriteString(v.Kind().String())
		default:
			if v.CanInterface() {
				fmt.Fprint(&b, v.Interface())
			} else {
				switch v.Kind() {
				case reflect.Bool:
					fmt.Fprint(&b, v.Bool())
				case reflect.Int, reflect.Int8, reflect.Int16, reflect.Int32, reflect.Int64:
					fmt.Fprint(&b, v.Int())
				case reflect.Uint, reflect.Uint8, reflect.Uint16, reflect.Uint32, reflect.Uint64, reflect.Uintptr:
					fmt.Fprint(&b, v.Uint())
				default:
					b.WriteString(v.Kind().String())
				}
			}
		}
	}
	v := reflect.ValueOf(x)
	// make the top level addressable so that unexported fields can be read
	if v.Kind() != reflect.Ptr {
		p := reflect.New(v.Type())
		p.Elem().Set(v)
		v = p.Elem()
	}
	walk(v, 0)
	return b.String()
}

func mathBits(f float64) uint64 { return *(*uint64)(unsafe.Pointer(&f)) }

type c08op struct {
	tmpl string
	d    data.Map
	ij   data.Map
	dtok string // the data as generated (to rebuild an equal, independent copy)
	itok string
}

func renderOp(reg *template.Registry, op c08op) (string, string) {
	return renderSafe(reg, op.tmpl, op.d, op.ij)
}

func init() {
	register(&Prop{
		ID: "C08eval",
		Rule: "histories of 2-12 renders (random templates of a generated bundle, data supplying the params or hostile data, with/without $ij, failing renders included) on ONE compiled bundle, under three configurations of the extension registries (none; an obligatory print directive; a custom function + custom directive + obligatory directive); " +
			"oracle: a deep reflective digest (unexported fields, slice len and cap, pointer sharing) of the registry, the data map and the injected data is identical before and after every operation, and every operation gives the output and error class it gives as the first render on a freshly compiled bundle with an equal copy of the data; " +
			"theorems: exec_frame / history_independent on the model, whose exec is tied by C02exec/C06total; non-trivial = the history has a failing render or a template with a let/loop/call",
		Direct: directC08eval,
	})
}

func directC08eval(g *G, rep *Report) {
	n := g.N(120, 2500)
	r := g.R.Fork()
	savedOblig := soyhtml.ObligatoryPrintDirectiveNames
	defer func() {
		soyhtml.ObligatoryPrintDirectiveNames = savedOblig
		delete(soyhtml.Funcs, "verifTwice")
		delete(soyhtml.PrintDirectives, "verifBang")
	}()
	for i := 0; i < n; i++ {
		config := i % 3
		soyhtml.ObligatoryPrintDirectiveNames = nil
		delete(soyhtml.Funcs, "verifTwice")
		delete(soyhtml.PrintDirectives, "verifBang")
		if config >= 1 {
			soyhtml.PrintDirectives["verifBang"] = soyhtml.PrintDirective{
				Apply:           func(v data.Value, _ []data.Value) data.Value { return data.String(v.String() + "!") },
				ValidArgLengths: []int{0}}
			soyhtml.ObligatoryPrintDirectiveNames = []string{"verifBang"}
		}
		if config == 2 {
			soyhtml.Funcs["verifTwice"] = soyhtml.Func{Apply: func(a []data.Value) data.Value { return data.List{a[0], a[0]} }, ValidArgLengths: []int{1}}
		}
		bg := newBundleGen(r, bundleOpts{msgs: true, directives: true, calls: true, ij: true, illTyped: []int{0, 0, 20}[r.Intn(3)]})
		b := bg.bundle()
		fs := b.sources()
		reg, err := compileBundle(fs)
		if err != nil {
			rep.Distribution["c08:compile-error"]++
			continue
		}
		var tmpls []*gTemplate
		for _, f := range b.files {
			tmpls = append(tmpls, f.tmpls...)
		}
		regDigest := deepDigestE(reg)
		nops := 2 + r.Intn(11)
		nt := false
		var ops []c08op
		var outs, classes []string
		bad := func(key, what, impl, want string) {
			rep.Violations = append(rep.Violations, Viol{Key: key, What: what, Req: req("c08", encSources(fs)), Note: fmt.Sprintf("config=%d bundle#%d", config, i), Impl: impl, Want: want})
		}
		for k := 0; k < nops; k++ {
			t := tmpls[r.Intn(len(tmpls))]
			var dm map[string]interface{}
			if r.Intn(3) == 0 {
				dm = hostileData(bg, t)
			} else {
				dm = bg.dataFor(t)
			}
			op := c08op{tmpl: t.full(), dtok: mapTokens(dm)}
			op.d = decMapField(op.dtok)
			if r.Bool() {
				op.itok = mapTokens(map[string]interface{}{"n": int64(k), "s": "<ij>", "m": map[string]interface{}{"a": int64(1)}})
				op.ij = decMapField(op.itok)
			}
			src := t.source()
			if strings.Contains(src, "{let") || strings.Contains(src, "{for") || strings.Contains(src, "{call") {
				nt = true
			}
			dBefore, iBefore := deepDigestE(op.d), deepDigestE(op.ij)
			out, class := renderOp(reg, op)
			rep.Evaluations++
			rep.Distribution["c08:"+class]++
			if class == "ERR" {
				nt = true
			}
			if class == "PANIC" || class == "HANG" {
				bad("c08-outcome:"+class, "a render in a history did not return: "+class, class, "OK|ERR")
			}
			if deepDigestE(op.d) != dBefore {
				bad("c08-mutated:data", "rendering "+op.tmpl+" modified the caller's data map", deepDigestE(op.d), dBefore)
			}
			if deepDigestE(op.ij) != iBefore {
				bad("c08-mutated:ij", "rendering "+op.tmpl+" modified the injected data", deepDigestE(op.ij), iBefore)
			}
			if d2 := deepDigestE(reg); d2 != regDigest {
				bad("c08-mutated:registry", "rendering "+op.tmpl+" modified the compiled bundle (operation "+strconv.Itoa(k)+" of the history)", firstDiff(d2, regDigest), "unchanged registry")
				regDigest = d2
			}
			ops = append(ops, op)
			outs = append(outs, out)
			classes = append(classes, class)
		}
		// every operation again, each as the FIRST render on a freshly compiled bundle
		for k, op := range ops {
			fresh, err := compileBundle(fs)
			if err != nil {
				break
			}
			cp := c08op{tmpl: op.tmpl, d: decMapField(op.dtok)}
			if op.itok != "" {
				cp.ij = decMapField(op.itok)
			}
			out, class := renderOp(fresh, cp)
			if out != outs[k] || class != classes[k] {
				bad("c08-history-dependent", fmt.Sprintf("operation %d of the history (%s) gave a different result than as the first render of a fresh bundle", k, op.tmpl),
					classes[k]+" "+hxs(outs[k]), class+" "+hxs(out))
			}
		}
		if nt {
			rep.DistinctNT++
		}
	}
}

func firstDiff(a, b string) string {
	k := 0
	for k < len(a) && k < len(b) && a[k] == b[k] {
		k++
	}
	lo := k - 60
	if lo < 0 {
		lo = 0
	}
	hi := k + 60
	if hi > len(a) {
		hi = len(a)
	}
	return "…" + a[lo:hi] + "…"
}
