package main

import (
	"bytes"
	"strconv"
	"strings"

	"github.com/robfig/soy/ast"
	"github.com/robfig/soy/data"
	"github.com/robfig/soy/errortypes"
	"github.com/robfig/soy/soyhtml"
)

// C19render: a failing print placed on a known line at call depth 0..3; the render error must
// carry the file that defines the ENTRY template and the line, in that file, of the outermost
// command whose execution failed (the print itself at depth 0, the {call} otherwise).

func init() {
	register(&Prop{
		ID: "C19render",
		Rule: "bundles of 1-4 files f0..f3, template t<i> in file f<i> calling t<i+1>; a print that fails at render time ({$n.zz} with n = null, {$l[0].a.b}, {1 % 0}, undefined print) on a chosen line of t<d>, padded with a random number of lines; " +
			"oracle: error file = the entry template's file, line = line of the failing print (d=0) or of the {call} in the entry template (d>0), and the same numbers in the message; non-trivial = d>0 or the line is not the first body line",
		Direct: directC19render,
	})
}

var c19FailingPrints = []string{"{$n.zz}", "{$l[5].a}", "{1 % 0}", "{$u}", "{$n + 1}", "{length($n)}", "{$s|truncate:'x'}", "{$s|nosuchdirective}",
	// tags wrapped over several lines: the failing command BEGINS on the expected line
	"{$n\n  .zz}", "{$u\n}", "{print\n  $n.zz\n}", "{$s\n  |nosuchdirective}", "{1\n % 0}",
	// expressions inside quoted attributes (parsed by a nested scanner: their nodes must still be positioned in
	// THIS file), short and longer than the rest of the file
	"{call .t data=\"$s - 1\"/}", "{call .t}{param n value=\"$s - 1\"/}{/call}", "{css $s - 1, x}", "{call .t data=\"'a' - 1\"/}",
	"{call .t data=\"'" + strings.Repeat("\xff", 300) + "' - 1\"/}", "{call .t data=\"'" + strings.Repeat("pad ", 200) + "' - 1\"/}", "{css '" + strings.Repeat("\xff", 200) + "' - 1, x}"}

// posNode is a bare position handed to Registry.LineNumber / ColNumber.
type posNode struct{ ast.Pos }

func (posNode) String() string { return "" }

// directC19pos: the line/column arithmetic itself, exhaustively over every byte position of generated sources.
func directC19pos(g *G, rep *Report) {
	bg := newBundleGen(g.R.Fork(), bundleOpts{msgs: true, directives: true, calls: true})
	nb := g.N(6, 60)
	for i := 0; i < nb; i++ {
		b := bg.bundle()
		fs := b.sources()
		// line breaks directly after tokens, CRLF and a missing final newline are the interesting shapes
		fs[0].content = strings.Replace(fs[0].content, "{/template}\n", "{/template}", 1) + []string{"", "\n", "\r\n", "x"}[i%4]
		reg, err := compileBundle(fs)
		if err != nil || len(reg.Templates) == 0 {
			continue
		}
		name := reg.Templates[0].Node.Name
		src := ""
		for _, f := range fs {
			if ns := "{namespace " + reg.Templates[0].Namespace.Name; strings.Contains(f.content, ns+"}") || strings.Contains(f.content, ns+" ") {
				src = f.content
			}
		}
		for pos := 0; pos <= len(src); pos++ {
			wantLine := 1 + strings.Count(src[:pos], "\n")
			wantCol := 1 + pos - strings.LastIndex(src[:pos], "\n")
			var line, col int
			if c := guarded(2e9, func() { line = reg.LineNumber(name, posNode{ast.Pos(pos)}); col = reg.ColNumber(name, posNode{ast.Pos(pos)}) }); c != "" {
				line, col = -1, -1
			}
			rep.Evaluations++
			if line != wantLine || col != wantCol {
				if len(rep.Violations) < 10 {
					rep.Violations = append(rep.Violations, Viol{Key: "c19-linecol:" + strconv.Itoa(pos), What: "Registry.LineNumber/ColNumber of byte position " + strconv.Itoa(pos) + " is not the line/column that position is on",
						Req: req("c19pos", encSources(fs[:1])), Note: "position " + strconv.Itoa(pos) + " of " + strconv.Itoa(len(src)), Impl: strconv.Itoa(line) + ":" + strconv.Itoa(col), Want: strconv.Itoa(wantLine) + ":" + strconv.Itoa(wantCol)})
				}
			} else if pos > 0 && src[pos-1] == '\n' {
				rep.DistinctNT++
			}
		}
	}
}

func directC19render(g *G, rep *Report) {
	directC19pos(g, rep)
	n := g.N(300, 8000)
	r := g.R.Fork()
	for i := 0; i < n; i++ {
		depth := r.Intn(4)
		fail := c19FailingPrints[r.Intn(len(c19FailingPrints))]
		var fs []srcFile
		wantLine := 0
		// every seventh bundle: ONE namespace spread over all the files (templates .t0 .. .t3); the file and the
		// line of an error are those of the file that DEFINES the entry template, not of another file of the namespace
		sharedNs := i%7 == 3
		nsOf := func(d int) string {
			if sharedNs {
				return "nss"
			}
			return "ns" + strconv.Itoa(d)
		}
		tOf := func(d int) string {
			if sharedNs {
				return ".t" + strconv.Itoa(d)
			}
			return ".t"
		}
		if sharedNs {
			rep.Distribution["one-namespace-over-all-files"]++
		}
		for d := 0; d <= depth; d++ {
			var b strings.Builder
			b.WriteString("{namespace " + nsOf(d) + "}\n")
			pad := r.Intn(4)
			for k := 0; k < pad; k++ {
				b.WriteString("// pad\n")
			}
			b.WriteString("/**\n * @param? n\n * @param? l\n * @param? s\n * @param? u\n * @param? c\n * @param? c2\n */\n{template " + tOf(d) + "}\n{if false}{$n}{$l}{$s}{$u}{$c}{$c2}{/if}\n")
			body := r.Intn(4)
			for k := 0; k < body; k++ {
				b.WriteString("line {$s} " + strconv.Itoa(k) + "\n")
			}
			line := 1 + strings.Count(b.String(), "\n")
			if d == depth {
				if r.Bool() {
					b.WriteString("x {if true}" + fail + "{/if} y\n")
				} else {
					b.WriteString(fail + "\n")
				}
			} else {
				callee := nsOf(d+1) + tOf(d+1)
				switch r.Intn(4) {
				case 0:
					b.WriteString("a {call " + callee + " data=\"all\"/} b\n")
				case 1:
					// a content param spanning several lines: the failing command is still the {call}
					b.WriteString("a {call " + callee + " data=\"all\"}\n{param c}\n  content {$s}\n  {if true}more{/if}\n  last\n{/param}\n{/call} b\n")
					rep.Distribution["call-with-content-param"]++
				case 2:
					// value params on lines of their own
					b.WriteString("{call " + callee + "}\n{param n: $n /}\n{param l: $l /}\n{param s: $s /}\n{/call}\n")
					rep.Distribution["call-with-value-params"]++
				default:
					b.WriteString("{call " + callee + " data=\"all\"}\n{param c}{let $w}\nw{/let}{$w}\n{/param}\n{param c2}\n{$s}{/param}\n{/call}\n")
					rep.Distribution["call-with-content-param"]++
				}
			}
			if d == 0 {
				wantLine = line
			}
			b.WriteString("tail\n{/template}\n")
			fs = append(fs, srcFile{"dir/f" + strconv.Itoa(d) + ".soy", b.String()})
		}
		// every fifth bundle: all files carry ONE name (the name is a label: AddTemplateString("", …) twice is
		// legal) — the line must still be computed in the entry template's own text
		entryFile := "dir/f0.soy"
		if i%5 == 4 && depth > 0 {
			entryFile = []string{"", "same.soy"}[(i/5)%2]
			for k := range fs {
				fs[k].name = entryFile
			}
			rep.Distribution["all-files-same-name"]++
		}
		// file insertion order must not matter for the position
		if r.Bool() {
			for a, z := 0, len(fs)-1; a < z; a, z = a+1, z-1 {
				fs[a], fs[z] = fs[z], fs[a]
			}
		}
		reg, err := compileBundle(fs)
		rep.Evaluations++
		if err != nil {
			rep.Distribution["compile-error"]++
			continue
		}
		var buf bytes.Buffer
		d := data.Map{"n": data.Null{}, "l": data.List{data.Int(1)}, "s": data.String("str")}
		var rerr error
		cls := safely(func() error {
			rerr = soyhtml.NewTofu(reg).NewRenderer(nsOf(0) + tOf(0)).Execute(&buf, d)
			return rerr
		})
		rep.Distribution["depth"+strconv.Itoa(depth)+":"+cls]++
		note := "depth " + strconv.Itoa(depth) + " fail " + fail + " expected " + entryFile + ":" + strconv.Itoa(wantLine)
		viol := func(key, what, impl string) {
			if len(rep.Violations) < 30 {
				rep.Violations = append(rep.Violations, Viol{Key: key + ":" + fail + ":depth" + strconv.Itoa(depth), What: what, Req: req("c19render", encSources(fs)), Note: note, Impl: impl, Want: entryFile + ":" + strconv.Itoa(wantLine)})
			}
		}
		if cls != "ERR" {
			viol("c19r-no-error", "a render with a failing print did not return an error: "+cls, cls)
			continue
		}
		fp, ok := rerr.(errortypes.ErrFilePos)
		if !ok {
			viol("c19r-no-pos", "the render error carries no file position", rerr.Error())
			continue
		}
		got := fp.File() + ":" + strconv.Itoa(fp.Line())
		// a command that spans several lines: any of its lines is "the line of the command"
		extent := 0
		if depth == 0 {
			extent = strings.Count(fail, "\n")
		}
		if fp.File() != entryFile || fp.Line() < wantLine || fp.Line() > wantLine+extent {
			viol("c19r-position", "the render error points at "+got, got)
			continue
		}
		if !strings.Contains(rerr.Error(), nsOf(0)+tOf(0)+":"+strconv.Itoa(fp.Line())) {
			viol("c19r-text", "the line number in the message text differs from the error's fields", rerr.Error())
			continue
		}
		if depth > 0 || wantLine > 9 {
			rep.DistinctNT++
		}
		if len(rep.Samples) < 3 {
			rep.Samples = append(rep.Samples, note+" => "+got)
		}
	}
}
