package main

import (
	"bytes"
	"strconv"
	"strings"

	"github.com/robfig/soy/data"
	"github.com/robfig/soy/errortypes"
	"github.com/robfig/soy/soyhtml"
)

// C19render: a failing print placed on a known line at call depth 0..3; the render error must
// carry the file that defines the ENTRY template and the line, in that file, of the outermost
// command whose execution failed (the print itself at depth 0, the {call} otherwise).

func init() {
	register(&Prop{
		ID: "C19render",
		Rule: "bundles of 1-4 files f0..f3, template t<i> in file f<i> calling t<i+1>; a print that fails at render time ({$n.zz} with n = null, {$l[0].a.b}, {1 % 0}, undefined print) on a chosen line of t<d>, padded with a random number of lines; " +
			"oracle: error file = the entry template's file, line = line of the failing print (d=0) or of the {call} in the entry template (d>0), and the same numbers in the message; non-trivial = d>0 or the line is not the first body line",
		Direct: directC19render,
	})
}

var c19FailingPrints = []string{"{$n.zz}", "{$l[5].a}", "{1 % 0}", "{$u}", "{$n + 1}", "{length($n)}", "{$s|truncate:'x'}", "{$s|nosuchdirective}"}

func directC19render(g *G, rep *Report) {
	n := g.N(300, 8000)
	r := g.R.Fork()
	for i := 0; i < n; i++ {
		depth := r.Intn(4)
		fail := c19FailingPrints[r.Intn(len(c19FailingPrints))]
		var fs []srcFile
		wantLine := 0
		for d := 0; d <= depth; d++ {
			var b strings.Builder
			b.WriteString("{namespace ns" + strconv.Itoa(d) + "}\n")
			pad := r.Intn(4)
			for k := 0; k < pad; k++ {
				b.WriteString("// pad\n")
			}
			b.WriteString("/**\n * @param? n\n * @param? l\n * @param? s\n * @param? u\n */\n{template .t}\n{if false}{$n}{$l}{$s}{$u}{/if}\n")
			body := r.Intn(4)
			for k := 0; k < body; k++ {
				b.WriteString("line {$s} " + strconv.Itoa(k) + "\n")
			}
			line := 1 + strings.Count(b.String(), "\n")
			if d == depth {
				if r.Bool() {
					b.WriteString("x {if true}" + fail + "{/if} y\n")
				} else {
					b.WriteString(fail + "\n")
				}
			} else {
				b.WriteString("a {call ns" + strconv.Itoa(d+1) + ".t data=\"all\"/} b\n")
			}
			if d == 0 {
				wantLine = line
			}
			b.WriteString("tail\n{/template}\n")
			fs = append(fs, srcFile{"dir/f" + strconv.Itoa(d) + ".soy", b.String()})
		}
		// file insertion order must not matter for the position
		if r.Bool() {
			for a, z := 0, len(fs)-1; a < z; a, z = a+1, z-1 {
				fs[a], fs[z] = fs[z], fs[a]
			}
		}
		reg, err := compileBundle(fs)
		rep.Evaluations++
		if err != nil {
			rep.Distribution["compile-error"]++
			continue
		}
		var buf bytes.Buffer
		d := data.Map{"n": data.Null{}, "l": data.List{data.Int(1)}, "s": data.String("str")}
		var rerr error
		cls := safely(func() error {
			rerr = soyhtml.NewTofu(reg).NewRenderer("ns0.t").Execute(&buf, d)
			return rerr
		})
		rep.Distribution["depth"+strconv.Itoa(depth)+":"+cls]++
		note := "depth " + strconv.Itoa(depth) + " fail " + fail + " expected dir/f0.soy:" + strconv.Itoa(wantLine)
		viol := func(key, what, impl string) {
			if len(rep.Violations) < 30 {
				rep.Violations = append(rep.Violations, Viol{Key: key + ":" + fail + ":depth" + strconv.Itoa(depth), What: what, Req: req("c19render", encSources(fs)), Note: note, Impl: impl, Want: "dir/f0.soy:" + strconv.Itoa(wantLine)})
			}
		}
		if cls != "ERR" {
			viol("c19r-no-error", "a render with a failing print did not return an error: "+cls, cls)
			continue
		}
		fp, ok := rerr.(errortypes.ErrFilePos)
		if !ok {
			viol("c19r-no-pos", "the render error carries no file position", rerr.Error())
			continue
		}
		got := fp.File() + ":" + strconv.Itoa(fp.Line())
		if fp.File() != "dir/f0.soy" || fp.Line() != wantLine {
			viol("c19r-position", "the render error points at "+got, got)
			continue
		}
		if !strings.Contains(rerr.Error(), "ns0.t:"+strconv.Itoa(wantLine)) {
			viol("c19r-text", "the line number in the message text differs from the error's fields", rerr.Error())
			continue
		}
		if depth > 0 || wantLine > 9 {
			rep.DistinctNT++
		}
		if len(rep.Samples) < 3 {
			rep.Samples = append(rep.Samples, note+" => "+got)
		}
	}
}
