package main

// C20f64: bit-for-bit validation of the model's soft-float (lean/SoyVerif/Base/F64.lean)
// against the Go float64 operations the modelled code uses.

import (
	"fmt"
	"math"
	"math/big"
	"regexp"
	"strconv"
)

func f64hex(x float64) string {
	if x != x {
		return "7ff8000000000001" // every NaN is printed canonically (payload/sign are hardware-specific)
	}
	return fmt.Sprintf("%016x", math.Float64bits(x))
}

func f64un(s string) (float64, bool) {
	if len(s) != 16 {
		return 0, false
	}
	u, err := strconv.ParseUint(s, 16, 64)
	return math.Float64frombits(u), err == nil
}

var decimalLiteral = regexp.MustCompile(`^[0-9]+(\.[0-9]+)?([eE][+-]?[0-9]+)?$`)

//go:noinline
func fadd(a, b float64) float64 { return a + b }

//go:noinline
func fsub(a, b float64) float64 { return a - b }

//go:noinline
func fmul(a, b float64) float64 { return a * b }

//go:noinline
func fdiv(a, b float64) float64 { return a / b }

func init() {
	bin := func(f func(a, b float64) float64) func([]string) string {
		return func(fl []string) string {
			if len(fl) != 2 {
				return "BADREQ"
			}
			a, ok1 := f64un(fl[0])
			b, ok2 := f64un(fl[1])
			if !ok1 || !ok2 {
				return "BADREQ"
			}
			return "OK " + f64hex(f(a, b))
		}
	}
	rel := func(f func(a, b float64) bool) func([]string) string {
		return func(fl []string) string {
			if len(fl) != 2 {
				return "BADREQ"
			}
			a, ok1 := f64un(fl[0])
			b, ok2 := f64un(fl[1])
			if !ok1 || !ok2 {
				return "BADREQ"
			}
			return "OK " + bit(f(a, b))
		}
	}
	un := func(f func(a float64) float64) func([]string) string {
		return func(fl []string) string {
			if len(fl) != 1 {
				return "BADREQ"
			}
			a, ok := f64un(fl[0])
			if !ok {
				return "BADREQ"
			}
			return "OK " + f64hex(f(a))
		}
	}
	implOps["f64add"] = bin(fadd)
	implOps["f64sub"] = bin(fsub)
	implOps["f64mul"] = bin(fmul)
	implOps["f64div"] = bin(fdiv)
	implOps["f64lt"] = rel(func(a, b float64) bool { return a < b })
	implOps["f64le"] = rel(func(a, b float64) bool { return a <= b })
	implOps["f64eq"] = rel(func(a, b float64) bool { return a == b })
	implOps["f64floor"] = un(math.Floor)
	implOps["f64ceil"] = un(math.Ceil)
	implOps["f64neg"] = un(func(a float64) float64 { return -a })
	implOps["f64ofint"] = func(fl []string) string {
		if len(fl) != 1 || len(fl[0]) != 16 {
			return "BADREQ"
		}
		u, err := strconv.ParseUint(fl[0], 16, 64)
		if err != nil {
			return "BADREQ"
		}
		return "OK " + f64hex(float64(int64(u)))
	}
	implOps["f64toint"] = func(fl []string) string {
		if len(fl) != 1 {
			return "BADREQ"
		}
		a, ok := f64un(fl[0])
		if !ok {
			return "BADREQ"
		}
		return fmt.Sprintf("OK %016x", uint64(int64(a)))
	}
	implOps["f64class"] = func(fl []string) string {
		if len(fl) != 1 {
			return "BADREQ"
		}
		a, ok := f64un(fl[0])
		if !ok {
			return "BADREQ"
		}
		c := "normal"
		switch {
		case a != a:
			c = "nan"
		case math.IsInf(a, 0):
			c = "inf"
		case a == 0:
			c = "zero"
		case math.Abs(a) < 0x1p-1022:
			c = "subnormal"
		}
		s := " +"
		if math.Signbit(a) {
			s = " -"
		}
		return "OK " + c + s
	}
	implOps["f64parse"] = func(fl []string) string {
		if len(fl) != 1 {
			return "BADREQ"
		}
		s, ok := unhx(fl[0])
		if !ok {
			return "BADREQ"
		}
		if !decimalLiteral.Match(s) {
			return "ERR"
		}
		x, _ := strconv.ParseFloat(string(s), 64) // a range error still returns ±Inf, which is what is compared
		return "OK " + f64hex(x)
	}
	implOps["f64fmt"] = func(fl []string) string {
		if len(fl) != 1 {
			return "BADREQ"
		}
		a, ok := f64un(fl[0])
		if !ok {
			return "BADREQ"
		}
		return "OK " + hxs(strconv.FormatFloat(a, 'g', -1, 64))
	}
	register(&Prop{
		ID: "C20f64",
		Rule: "soft-float vs Go float64, bit for bit: add/sub/mul/div/lt/le/eq/floor/ceil/neg/int64->float/float->int64/" +
			"ParseFloat/FormatFloat('g',-1) on random bit patterns, specials (zeros, subnormals, Inf, NaN, 2^53±1, halfway cases, " +
			"powers of two and ten, integers near 2^63) and random decimal literals; non-trivial = result neither NaN nor an operand",
		Gen: genF64,
	})
}

var f64Specials = []uint64{
	0, 0x8000000000000000, 1, 2, 0x8000000000000001, 0x000fffffffffffff, 0x0010000000000000, 0x0010000000000001,
	0x001fffffffffffff, 0x0020000000000000,
	0x7ff0000000000000, 0xfff0000000000000, 0x7ff8000000000001, 0x7ff0000000000001, 0xfff8000000000000,
	0x7fefffffffffffff, 0xffefffffffffffff, 0x7fe0000000000000,
	0x3ff0000000000000, 0xbff0000000000000, 0x3fe0000000000000, 0x3ff8000000000000, 0x4000000000000000, 0x4004000000000000,
	0x3fb999999999999a, 0x3fc999999999999a, 0x3fd3333333333333, 0x3fd3333333333334,
	0x4340000000000000, 0x4340000000000001, 0x433fffffffffffff, 0x4330000000000000, 0x4330000000000001,
	0x43e0000000000000, 0xc3e0000000000000, 0x43dfffffffffffff, 0xc3e0000000000001, 0x43f0000000000000,
	0x3ca0000000000000, 0x3cb0000000000000, 0x3c90000000000000,
}

var f64SpecialVals = []float64{
	1e21, 1e20, 1e-5, 1e-4, 1e-7, 123456, 1234567, 100000, 1000000, 999999, 9999999, 0.0001, 0.00001234, 5e-324, 1.7976931348623157e308,
	2.2250738585072014e-308, 2.225073858507201e-308, 0.1, 0.2, 0.3, 1.0 / 3, 2.0 / 3, 1e22, 1e23, 9007199254740993, 0.5, 1.5, 2.5, -0.5, -1.5, -2.5,
	4.35, 0.000001, 1e15, 1e16, 1e17, 123456789012345680, 5e-5, 8.41e21, 2e-323, 4.9406564584124654e-324, 1.2e-322, 9.5e22, 5e22, 1e-320,
}

func (g *G) f64bits() uint64 {
	r := g.R
	switch r.Intn(12) {
	case 0:
		return f64Specials[r.Intn(len(f64Specials))]
	case 1:
		v := f64SpecialVals[r.Intn(len(f64SpecialVals))]
		if r.Bool() {
			v = -v
		}
		return math.Float64bits(v)
	case 2: // power of two, possibly ±1 ulp
		e := uint64(r.Intn(2047))
		return (e<<52 | uint64(r.Intn(2))<<63) + uint64(r.Intn(3)) - 1
	case 3: // small integers and halves
		return math.Float64bits(float64(r.Intn(2000)-1000) / 2)
	case 4: // integers around 2^53, 2^63
		base := []float64{1 << 53, 1 << 52, 1 << 62, 1 << 63, 1 << 31, 1 << 32}[r.Intn(6)]
		b := math.Float64bits(base) + uint64(r.Intn(5)) - 2
		return b | uint64(r.Intn(2))<<63
	case 5: // subnormal
		return r.U64()&0x000fffffffffffff | uint64(r.Intn(2))<<63
	case 6: // few significant bits
		return r.U64() & 0xfffff00000000000
	case 7: // power of ten
		return math.Float64bits(math.Pow(10, float64(r.Intn(640)-325)))
	case 8: // moderate exponent range (sums that do not cancel to the bigger operand)
		e := uint64(1023 - 60 + r.Intn(120))
		return e<<52 | r.U64()&0x000fffffffffffff | uint64(r.Intn(2))<<63
	case 9: // short decimals
		v, _ := strconv.ParseFloat(fmt.Sprintf("%d.%de%d", r.Intn(100), r.Intn(1000), r.Intn(40)-20), 64)
		return math.Float64bits(v)
	default:
		return r.U64()
	}
}

func (g *G) int64bits() uint64 {
	r := g.R
	switch r.Intn(8) {
	case 0:
		return uint64(int64(r.Intn(2001) - 1000))
	case 1: // near 2^53
		return uint64(int64(1)<<53 + int64(r.Intn(9)) - 4)
	case 2:
		return uint64(-(int64(1)<<53 + int64(r.Intn(9)) - 4))
	case 3: // near the ends
		return uint64(math.MaxInt64 - int64(r.Intn(2000)))
	case 4:
		return uint64(math.MinInt64 + int64(r.Intn(2000)))
	case 5: // halfway cases between representable values: 2^k + 2^(k-53) style
		k := 54 + r.Intn(9)
		v := int64(1)<<uint(k) + (int64(r.Intn(8)))<<uint(k-54) + int64(r.Intn(3)) - 1
		if r.Bool() {
			v = -v
		}
		return uint64(v)
	case 6:
		return r.U64() >> uint(r.Intn(64))
	default:
		return r.U64()
	}
}

func (g *G) decimalLit() string {
	r := g.R
	digits := func(n int) string {
		b := make([]byte, n)
		for i := range b {
			b[i] = byte('0' + r.Intn(10))
		}
		return string(b)
	}
	switch r.Intn(10) {
	case 0:
		lits := []string{"0", "0.0", "1", "0.1", "0.2", "0.3", "1e21", "1e-5", "5e-324", "1.7976931348623157e308", "1.7976931348623159e308", "1e309", "1e-400",
			"2.4703282292062327e-324", "2.4703282292062328e-324", "2.2250738585072011e-308", "9007199254740993", "9007199254740992.5", "1e23", "8.5e22",
			"0.000001", "123456789012345678901234567890", "0e999", "00012.5", "1E5", "1e+5", "4.35", "0.500000000000000166533453693773481063544750213623046875",
			"1.00000000000000011102230246251565404236316680908203125", "1.00000000000000011102230246251565404236316680908203124", "1.00000000000000011102230246251565404236316680908203126",
			"179769313486231580793728971405303415079934132710037826936173778980444968292764750946649017977587207096330286416692887910946555547851940402630657488671505820681908902000708383676273854845817711531764475730270069855571366959622842914819860834936475292719074168444365510704342711559699508093042880177904174497791.9999999999999999999999999999999999999999999999999999999999999999999999"}
		return lits[r.Intn(len(lits))]
	case 1: // integers
		return digits(1 + r.Intn(25))
	case 2:
		return digits(1+r.Intn(5)) + "." + digits(1+r.Intn(20))
	case 3:
		return digits(1+r.Intn(3)) + "." + digits(1+r.Intn(18)) + "e" + []string{"", "+", "-"}[r.Intn(3)] + itoa(r.Intn(330))
	case 4: // the exact decimal expansion of a double, or a halfway point, perturbed in the last digit
		b := r.U64() & 0x7fffffffffffffff
		if b>>52 == 0x7ff {
			b &^= 1 << 62
		}
		x := math.Float64frombits(b)
		s := strconv.FormatFloat(x, 'e', 30+r.Intn(20), 64)
		return s
	case 5: // 17 significant digits: just enough to distinguish neighbours
		b := r.U64() & 0x7fffffffffffffff
		if b>>52 == 0x7ff {
			b &^= 1 << 62
		}
		return strconv.FormatFloat(math.Float64frombits(b), 'e', 14+r.Intn(4), 64)
	case 6: // exact halfway between two neighbouring doubles in a range where it is short to write
		m := uint64(1)<<52 + r.U64()&(1<<52-1)
		e := r.Intn(40) - 20 // value (2m+1) * 2^(e-53)
		n := new(big.Int).SetUint64(2*m + 1)
		return halfwayDecimal(n, e-53, r.Intn(3)-1)
	case 7: // near the subnormal boundary and the smallest values
		return digits(1+r.Intn(3)) + "." + digits(r.Intn(17)+1) + "e-" + itoa(300+r.Intn(30))
	case 8: // near overflow
		return "1." + digits(1+r.Intn(17)) + "e" + itoa(305+r.Intn(5))
	default:
		return digits(1+r.Intn(2)) + "e" + itoa(r.Intn(40)-20)
	}
}

func f64Case(op string, fields ...string) Case {
	return Case{Req: req(op, fields...), NT: true, Class: op, Note: op + " " + fmt.Sprint(fields)}
}

func genF64(g *G) {
	g.R = g.R.Fork() // NewRNG(seed+1) is NewRNG(seed) shifted by one draw: decorrelate the seeds
	hexb := func(u uint64) string { return fmt.Sprintf("%016x", u) }
	// specials: every pair for the binary operations
	all := append([]uint64(nil), f64Specials...)
	for _, v := range f64SpecialVals {
		all = append(all, math.Float64bits(v), math.Float64bits(-v))
	}
	for _, a := range all {
		for _, op := range []string{"f64floor", "f64ceil", "f64neg", "f64fmt", "f64class", "f64toint"} {
			g.Add(f64Case(op, hexb(a)))
		}
	}
	for _, a := range f64Specials {
		for _, b := range f64Specials {
			for _, op := range []string{"f64add", "f64sub", "f64mul", "f64div", "f64lt", "f64le", "f64eq"} {
				g.Add(f64Case(op, hexb(a), hexb(b)))
			}
		}
	}
	n := g.N(2000, 30000)
	for i := 0; i < n; i++ {
		a, b := g.f64bits(), g.f64bits()
		for _, op := range []string{"f64add", "f64sub", "f64mul", "f64div"} {
			g.Add(f64Case(op, hexb(a), hexb(b)))
		}
		g.Add(f64Case([]string{"f64lt", "f64le", "f64eq"}[i%3], hexb(a), hexb(b)))
		g.Add(f64Case("f64fmt", hexb(a)))
		g.Add(f64Case("f64fmt", hexb(g.R.U64())))
		g.Add(f64Case([]string{"f64floor", "f64ceil"}[i%2], hexb(a)))
		g.Add(f64Case("f64ofint", hexb(g.int64bits())))
		g.Add(f64Case("f64parse", hxs(g.decimalLit())))
		g.Add(f64Case("f64parse", hxs(g.decimalLit())))
		if i%4 == 0 {
			g.Add(f64Case("f64toint", hexb(a)))
			g.Add(f64Case("f64class", hexb(b)))
			// parse what format printed: must give the bits back (checked by both sides agreeing with Go)
			x := math.Float64frombits(a)
			if x == x && !math.IsInf(x, 0) {
				g.Add(f64Case("f64parse", hxs(strconv.FormatFloat(math.Abs(x), 'g', -1, 64))))
			}
		}
	}
}

// halfwayDecimal writes n * 2^e2 exactly in decimal, with the last digit perturbed by d (-1, 0, +1).
func halfwayDecimal(n *big.Int, e2 int, d int) string {
	if e2 >= 0 {
		v := new(big.Int).Lsh(n, uint(e2))
		v.Add(v, big.NewInt(int64(d)))
		return v.String()
	}
	k := -e2
	v := new(big.Int).Mul(n, new(big.Int).Exp(big.NewInt(5), big.NewInt(int64(k)), nil))
	v.Add(v, big.NewInt(int64(d)))
	s := v.String()
	for len(s) <= k {
		s = "0" + s
	}
	return s[:len(s)-k] + "." + s[len(s)-k:]
}
