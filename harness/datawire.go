package main

import (
	"bytes"
	"encoding/json"
	"strings"

	"github.com/robfig/soy/data"
)

// Data on the wire: JSON text (hex-encoded in the request).  Numbers without '.', 'e'
// or 'E' are ints, others floats — so that int-vs-float survives the trip.

func dataToJSON(m map[string]interface{}) string {
	b, _ := json.Marshal(m)
	return string(b)
}

func jsonToValue(v interface{}) data.Value {
	switch v := v.(type) {
	case nil:
		return data.Null{}
	case bool:
		return data.Bool(v)
	case string:
		return data.String(v)
	case json.Number:
		s := v.String()
		if strings.ContainsAny(s, ".eE") {
			f, _ := v.Float64()
			return data.Float(f)
		}
		i, err := v.Int64()
		if err != nil {
			f, _ := v.Float64()
			return data.Float(f)
		}
		return data.Int(i)
	case []interface{}:
		l := make(data.List, len(v))
		for i, x := range v {
			l[i] = jsonToValue(x)
		}
		return l
	case map[string]interface{}:
		m := make(data.Map, len(v))
		for k, x := range v {
			m[k] = jsonToValue(x)
		}
		return m
	}
	return data.Null{}
}

func dataFromJSON(s string) data.Map {
	dec := json.NewDecoder(bytes.NewReader([]byte(s)))
	dec.UseNumber()
	var v interface{}
	if err := dec.Decode(&v); err != nil {
		return data.Map{}
	}
	if m, ok := jsonToValue(v).(data.Map); ok {
		return m
	}
	return data.Map{}
}
