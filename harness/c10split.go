package main

import (
	"strconv"
	"strings"

	"github.com/robfig/soy/ast"
)

// C10split: the text of a message is cut into translatable text and HTML-tag placeholders; ids and placeholder
// names are computed from the pieces, so a wrong cut silently changes what an id covers (two messages that differ
// only in swallowed text collide).  The cut is checked here against the rule itself, written as a scanner:
// a tag is the leftmost '<', optional '/', one or more ASCII letters or digits, then everything up to the first
// '>' — a '<' that is not followed by such a name is text.  Messages are one line of raw text (no commands, no
// line breaks: the text reaches the cutter as written).
//
// Besides the cut: two messages of this family whose text pieces differ must have different ids (sampled: ids are a hash;
// tags enter an id by their placeholder NAME only).

type splitPiece struct {
	tag  bool
	text string
}

func isAlnumASCII(b byte) bool {
	return b >= '0' && b <= '9' || b >= 'a' && b <= 'z' || b >= 'A' && b <= 'Z'
}

func splitTagsSpec(s string) []splitPiece {
	var out []splitPiece
	textStart := 0
	for i := 0; i < len(s); {
		if s[i] != '<' {
			i++
			continue
		}
		j := i + 1
		if j < len(s) && s[j] == '/' {
			j++
		}
		k := j
		for k < len(s) && isAlnumASCII(s[k]) {
			k++
		}
		if k == j {
			i++
			continue
		}
		gt := strings.IndexByte(s[k:], '>')
		if gt < 0 {
			break // no '>' follows: neither this '<' nor a later one opens a tag
		}
		end := k + gt + 1
		if i > textStart {
			out = append(out, splitPiece{false, s[textStart:i]})
		}
		out = append(out, splitPiece{true, s[i:end]})
		i, textStart = end, end
	}
	if textStart < len(s) {
		out = append(out, splitPiece{false, s[textStart:]})
	}
	return out
}

var splitAtoms = []string{"a", "b", " ", " ", "<", ">", "/", "1", "2", "=", "-", "<b>", "</b>", "<a href=\"x\">", "</a>", "<br/>", "< b>", "<>", "</>", "<1>", "é", "if 1 < 2 then ", " x<y ", "<<", ">>", "<i", "more", "<em class='k'>", "&lt;"}

func init() {
	register(&Prop{
		ID: "C10split",
		Rule: "one-line messages built from text atoms, stray '<' and '>' (followed by space, digit, '<', '=', end), and real tags (open, close, self-closing, with attributes, numeric names); oracle: the children of the compiled message = the cut defined by the tag rule (own scanner); " +
			"messages whose text pieces differ have different ids; non-trivial = the message has a '<' that opens no tag before a real tag",
		Direct: directC10split,
	})
}

func directC10split(g *G, rep *Report) {
	r := g.R.Fork()
	n := g.N(3000, 60000)
	seen := map[string]bool{}
	ids := map[uint64][2]string{}
	for i := 0; i < n; i++ {
		var b strings.Builder
		for k, m := 0, 1+r.Intn(7); k < m; k++ {
			b.WriteString(splitAtoms[r.Intn(len(splitAtoms))])
		}
		txt := strings.TrimSpace(b.String()) // leading / trailing blanks would be subject to other rules
		if txt == "" || seen[txt] || strings.Contains(txt, "//") || strings.Contains(txt, "/*") {
			continue
		}
		seen[txt] = true
		src := "{namespace s}\n/** */\n{template .t}\n{msg desc=\"d\"}" + txt + "{/msg}\n{/template}\n"
		var m *ast.MsgNode
		var err error
		if c := guarded(5e9, func() { m, err = compileMsg(src) }); c != "" {
			rep.Violations = append(rep.Violations, Viol{Key: "c10split:" + c, What: "compiling a one-line message does not return: " + c, Req: req("c10split", hxs(txt)), Note: txt, Impl: c, Want: "compiles"})
			continue
		}
		rep.Evaluations++
		if err != nil {
			rep.Distribution["compile-error"]++
			continue
		}
		want := splitTagsSpec(txt)
		var got []splitPiece
		for _, c := range m.Body.Children() {
			switch c := c.(type) {
			case *ast.RawTextNode:
				got = append(got, splitPiece{false, string(c.Text)})
			case *ast.MsgPlaceholderNode:
				if h, ok := c.Body.(*ast.MsgHtmlTagNode); ok {
					got = append(got, splitPiece{true, string(h.Text)})
				} else {
					got = append(got, splitPiece{true, "?" + c.Body.String()})
				}
			default:
				got = append(got, splitPiece{false, "?" + c.String()})
			}
		}
		show := func(ps []splitPiece) string {
			var parts []string
			for _, p := range ps {
				if p.tag {
					parts = append(parts, "TAG"+strconv.Quote(p.text))
				} else {
					parts = append(parts, "TEXT"+strconv.Quote(p.text))
				}
			}
			return strings.Join(parts, " ")
		}
		stray := false
		for _, p := range want {
			if p.tag {
				break
			}
			if strings.Contains(p.text, "<") {
				stray = true
			}
		}
		if stray && len(want) > 1 {
			rep.DistinctNT++
			rep.Distribution["stray-<-before-a-tag"]++
		} else {
			rep.Distribution["other"]++
		}
		if show(got) != show(want) {
			if len(rep.Violations) < 20 {
				rep.Violations = append(rep.Violations, Viol{Key: "c10split:cut", What: "the message text " + strconv.Quote(txt) + " is not cut into text and tag placeholders as the tag rule says",
					Req: req("c10split", hxs(txt)), Note: txt, Impl: show(got), Want: show(want)})
			}
			continue
		}
		// different TEXT => different ids (the id covers the text pieces and the placeholder NAMES — two tags of the same
		// name are the same placeholder by design, so only the text pieces are compared; sampled over this family, a
		// collision of the 63-bit hash itself is not expected here)
		var texts []string
		for _, p := range want {
			if p.tag {
				texts = append(texts, "\x00")
			} else {
				texts = append(texts, p.text)
			}
		}
		tk := strings.Join(texts, "\x01")
		// what the official algorithm hashes: text and placeholder names WITHOUT braces (known finding
		// c10:unbraced-placeholder-input: "<" + START_22 and "<" + START_2 + "2" are the same string)
		var unbraced strings.Builder
		for _, c := range m.Body.Children() {
			switch c := c.(type) {
			case *ast.RawTextNode:
				unbraced.Write(c.Text)
			case *ast.MsgPlaceholderNode:
				unbraced.WriteString(c.Name)
			}
		}
		if prev, ok := ids[m.ID]; ok && prev[0] != tk {
			key := "c10split:collision"
			if prev[1] == unbraced.String() {
				key = "c10:unbraced-placeholder-input"
			}
			if len(rep.Violations) < 20 {
				rep.Violations = append(rep.Violations, Viol{Key: key, What: "two messages whose text pieces differ have the same id " + strconv.FormatUint(m.ID, 10),
					Req: req("c10split", hxs(txt)), Note: txt, Impl: strconv.Quote(prev[0]), Want: "an id that tells " + strconv.Quote(tk) + " apart"})
			}
		}
		ids[m.ID] = [2]string{tk, unbraced.String()}
	}
	rep.Samples = append(rep.Samples, "if 1 < 2 then <b>more</b> => TEXT\"if 1 < 2 then \" TAG\"<b>\" TEXT\"more\" TAG\"</b>\"")
}
