package main

import (
	"strconv"
	"strings"

	"github.com/robfig/soy/ast"
)

// C10ctx: "the id assigned to a msg … is unaffected by the description, by surrounding code or by
// other messages".  The same message is placed in every syntactic context that can hold a command
// and must get the id and placeholder names it gets at the top level of a template.

func init() {
	register(&Prop{
		ID: "C10ctx",
		Rule: "generated messages (text, html tags, repeated/colliding placeholders, PO-style plurals, meanings) embedded in every block context (if/elseif/else, switch case/default, foreach/ifempty, for, let content, call param content, log, template called from another file, two levels of nesting) " +
			"with other messages around them and varying descriptions; oracle: id (non-zero) and placeholder names equal those of the same message alone at template top level; non-trivial = nested context",
		Direct: directC10ctx,
	})
}

var c10Contexts = []string{
	"%s",
	"{if $b}%s{/if}",
	"{if not $b}x{else}%s{/if}",
	"{if not $b}x{elseif $b}%s{/if}",
	"{switch $n}{case 0}zero{case 1, 2, 3, 5, 11}%s{default}%s{/switch}",
	"{foreach $x in $l}%s{/foreach}",
	"{foreach $x in []}x{ifempty}%s{/foreach}",
	"{for $i in range(1)}%s{/for}",
	"{let $c}%s{/let}{$c|noAutoescape}",
	"{call .other}{param q}%s{/param}{/call}",
	"{log}%s{/log}",
	"{if $b}{foreach $x in $l}{let $c}%s{/let}{$c|noAutoescape}{/foreach}{/if}",
	"{call .other}{param q}{if $b}%s{/if}{/param}{/call}",
	"{msg desc=\"neighbour\"}Other {$p0}{/msg}%s{msg desc=\"neighbour2\"}{$p1} more{/msg}",
}

type msgInfo struct {
	id    uint64
	names string
}

func collectMsgs(n ast.Node, out *[]msgInfo) {
	if m, ok := n.(*ast.MsgNode); ok {
		var names []string
		var q []ast.Node = m.Body.Children()
		for len(q) > 0 {
			c := q[0]
			q = q[1:]
			switch c := c.(type) {
			case *ast.MsgPlaceholderNode:
				names = append(names, c.Name)
			case *ast.MsgPluralNode:
				names = append(names, "plural:"+c.VarName)
				for _, pc := range c.Cases {
					q = append(q, pc.Body.Children()...)
				}
				q = append(q, c.Default.Children()...)
			}
		}
		*out = append(*out, msgInfo{m.ID, strings.Join(names, ",")})
		return
	}
	if p, ok := n.(ast.ParentNode); ok {
		for _, c := range p.Children() {
			if c != nil {
				collectMsgs(c, out)
			}
		}
	}
}

func directC10ctx(g *G, rep *Report) {
	n := g.N(150, 3000)
	r := g.R.Fork()
	for i := 0; i < n; i++ {
		t := c11Gen(r)
		m := t.msgs[0]
		m.inLoop, m.inCall = false, false
		src := m.src()
		// reference: alone at top level, other description
		ref := m
		ref.desc = "reference description"
		wrap := func(body string) string {
			return "{namespace m}\n/**\n * @param p0\n * @param p1\n * @param p2\n * @param n\n * @param l\n * @param b\n */\n{template .t}\n{$p0}{$p1}{$p2}{$n}{$l}{$b}" + body + "\n{/template}\n/** @param q */\n{template .other}\n{$q|noAutoescape}\n{/template}\n"
		}
		regRef, err := compileBundle([]srcFile{{"m.soy", wrap(ref.src())}})
		if err != nil {
			rep.Distribution["generator-compile-error"]++
			continue
		}
		var refMsgs []msgInfo
		for _, tm := range regRef.Templates {
			collectMsgs(tm.Node, &refMsgs)
		}
		if len(refMsgs) != 1 {
			continue
		}
		want := refMsgs[0]
		for ci, ctx := range c10Contexts {
			body := strings.ReplaceAll(ctx, "%s", src)
			reg, err := compileBundle([]srcFile{{"m.soy", wrap(body)}})
			rep.Evaluations++
			if err != nil {
				rep.Distribution["context-compile-error"]++
				continue
			}
			var got []msgInfo
			for _, tm := range reg.Templates {
				collectMsgs(tm.Node, &got)
			}
			found := false
			for _, gm := range got {
				if gm == want {
					found = true
				}
			}
			rep.Distribution["context-"+strconv.Itoa(ci)]++
			if !found || want.id == 0 {
				desc := ""
				for _, gm := range got {
					desc += strconv.FormatUint(gm.id, 10) + "[" + gm.names + "] "
				}
				if len(rep.Violations) < 30 {
					rep.Violations = append(rep.Violations, Viol{Key: "msg-id-depends-on-context:" + strconv.Itoa(ci), What: "a message gets a different id / placeholder names (or none) in context " + ctx + " than alone at template level",
						Req: req("c10ctx", hxs(wrap(body))), Note: src + " in " + ctx, Impl: desc, Want: strconv.FormatUint(want.id, 10) + "[" + want.names + "]"})
				}
			} else if ci > 0 {
				rep.DistinctNT++
			}
		}
		if len(rep.Samples) < 3 {
			rep.Samples = append(rep.Samples, src+" => id "+strconv.FormatUint(want.id, 10)+" names "+want.names+" in all "+strconv.Itoa(len(c10Contexts))+" contexts")
		}
	}
}
