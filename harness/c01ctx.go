package main

import (
	"sort"
	"strings"
	"time"

	"github.com/robfig/soy/data"
	"github.com/robfig/soy/template"
)

// compile-time globals of the C01ctx bundles (plain and dotted names, every scalar type)
var c01Globals = data.Map{"G_ONE": data.Int(1), "G_NEG": data.Int(-2), "app.KEY": data.String("a"), "app.cfg.RATE": data.Float(2.5), "G_T": data.Bool(true), "G_NULL": data.Null{}, "G_S": data.String("<g>")}

// expressions over globals: a global must be substituted wherever an expression may stand
var c01GlobalExprs = []struct {
	e string
	t ty
}{{"G_ONE", tInt}, {"G_NEG", tInt}, {"G_ONE + 1", tInt}, {"-G_NEG", tInt}, {"app.KEY", tStr}, {"app.KEY + G_S", tStr}, {"app.cfg.RATE", tFloat}, {"app.cfg.RATE * G_ONE", tFloat},
	{"G_T", tBool}, {"not G_T", tBool}, {"G_NULL", tNull}, {"G_NULL ?: G_ONE", tInt}, {"G_T ? G_ONE : G_NEG", tInt}, {"$l[G_ONE]", tInt}, {"$m[app.KEY]", tInt}, {"$ll[G_ONE][G_ONE - 1]", tInt},
	{"$l?[G_ONE]", tInt}, {"max(G_ONE, G_NEG)", tInt}, {"[G_ONE, G_NEG]", tList}, {"['k': G_S]", tMap}, {"length([G_ONE, G_ONE])", tInt}, {"$m[app.KEY] + $l[G_ONE + G_ONE]", tInt}}

// C01ctx: "every expression that is valid Soy is accepted by the compiler wherever an expression may
// appear" and means the same there.  A generated valid expression E is placed in every syntactic
// position that takes an expression; each placement must compile, and must render what the reference
// placement {print (E)…} renders (same bytes, same outcome class).

func init() {
	register(&Prop{
		ID: "C01ctx",
		Rule: "type-directed VALID expressions E (literals incl. negative numbers / hex / floats / escaped strings / lists / maps, data references, all operators, builtin functions; minimal and redundant parentheses; leading unary minus and 'not' frequent) placed in every syntactic position that takes an expression: " +
			"implicit print, print, print with directive, directive argument, if, elseif, let value, let content, param value, param content, switch subject, case value, foreach list element, foreach over [E], for range bound, list element, map value, map key, bracket index, function argument, ternary branches, elvis operands, call data=\"…\", msg plural subject, css prefix, second and later of several expressions; " +
			"oracle: every placement compiles and renders exactly what the reference {print (E)…} placement renders (bytes and OK/ERR); non-trivial = E has an operator, an access or a call",
		Direct: directC01ctx,
	})
}

type ctxShape struct {
	name string
	// body and reference body; %E is replaced by E (bare), %P by (E)
	body, ref string
	only      ty // tAny: every type
	noDquote  bool
}

var c01Contexts = []ctxShape{
	{"implicit-print", "{%E}", "{print (%E)}", tAny, false},
	{"print", "{print %E}", "{print (%E)}", tAny, false},
	{"print-directive", "{%E |id}", "{print (%E)}", tAny, false},
	{"print-directive-nospace", "{print %E|id}", "{print (%E)}", tAny, false},
	{"directive-arg", "{'abcdefghijklmnopqrstuvwxyz' |truncate:%E}", "{'abcdefghijklmnopqrstuvwxyz' |truncate:(%E)}", tInt, false},
	{"directive-arg2", "{'abcdefghijklmnopqrstuvwxyz' |truncate:5,%E}", "{'abcdefghijklmnopqrstuvwxyz' |truncate:5,(%E)}", tBool, false},
	{"if", "{if %E}T{else}F{/if}", "{print (%E) ? 'T' : 'F'}", tAny, false},
	{"elseif", "{if false}X{elseif %E}T{else}F{/if}", "{print (%E) ? 'T' : 'F'}", tAny, false},
	{"let-value", "{let $x9: %E /}{$x9}", "{print (%E)}", tAny, false},
	{"let-content", "{let $x9}{%E}{/let}{$x9}", "{print (%E)}", tAny, false},
	{"param-value", "{call .id}{param p: %E /}{/call}", "{print (%E)}", tAny, false},
	{"param-content", "{call .id}{param p}{%E}{/param}{/call}", "{print (%E)}", tAny, false},
	{"switch-subject", "{switch %E}{case 7}A{case 'abc'}B{case true}C{default}D{/switch}", "{switch (%E)}{case 7}A{case 'abc'}B{case true}C{default}D{/switch}", tAny, false},
	{"case-value", "{switch 7}{case %E}A{default}D{/switch}", "{switch 7}{case (%E)}A{default}D{/switch}", tAny, false},
	{"case-second", "{switch 7}{case 'q', %E}A{default}D{/switch}", "{switch 7}{case 'q', (%E)}A{default}D{/switch}", tAny, false},
	{"foreach-element", "{foreach $x9 in [%E]}{$x9}{/foreach}", "{print (%E)}", tAny, false},
	{"foreach-list", "{foreach $x9 in %E}<{$x9}>{ifempty}E{/foreach}", "{foreach $x9 in (%E)}<{$x9}>{ifempty}E{/foreach}", tList, false},
	// a huge step / a small limit keep the loop short whatever E is
	{"for-range-start", "{for $x9 in range(%E, 3, 4000000000000000000)}{$x9}.{/for}", "{for $x9 in range((%E), 3, 4000000000000000000)}{$x9}.{/for}", tInt, false},
	{"for-range-step", "{for $x9 in range(0, 3, %E)}{$x9}.{/for}", "{for $x9 in range(0, 3, (%E))}{$x9}.{/for}", tInt, false},
	// (an access applies to a data reference only, so the literal is bound first)
	{"list-element", "{let $y9: [1, %E] /}{$y9[1]}", "{print (%E)}", tAny, false},
	{"list-first", "{let $y9: [%E, 1] /}{$y9[0]}", "{print (%E)}", tAny, false},
	{"list-trailing-comma", "{let $y9: [%E,] /}{$y9[0]}", "{print (%E)}", tAny, false},
	{"map-value", "{let $y9: ['k': %E] /}{$y9['k']}", "{print (%E)}", tAny, false},
	{"map-value-second", "{let $y9: ['j': 0, 'k': %E] /}{$y9.k}", "{print (%E)}", tAny, false},
	{"map-key", "{let $y9: [%E: 'v'] /}{$y9[%E]}", "{let $y9: [(%E): 'v'] /}{$y9[(%E)]}", tStr, false},
	{"index", "{$l[%E]}", "{let $x9: %E /}{$l[$x9]}", tInt, false},
	{"index-nullsafe", "{$l?[%E]}", "{let $x9: %E /}{$l?[$x9]}", tInt, false},
	{"index-nested", "{$ll[1][%E]}", "{let $x9: %E /}{$ll[1][$x9]}", tInt, false},
	{"index-of-map", "{$m[%E]}", "{let $x9: %E /}{$m[$x9]}", tStr, false},
	{"func-arg", "{max(%E, 0)}", "{max((%E), 0)}", tNum, false},
	{"func-arg2", "{min(0, %E)}", "{min(0, (%E))}", tNum, false},
	{"ternary-then", "{true ? %E : 0}", "{print (%E)}", tAny, false},
	{"ternary-else", "{false ? 0 : %E}", "{print (%E)}", tAny, false},
	{"ternary-cond", "{%E ? 'T' : 'F'}", "{print (%E) ? 'T' : 'F'}", tAny, false},
	{"elvis-right", "{null ?: %E}", "{null ?: (%E)}", tAny, false},
	{"paren", "{(%E)}", "{print (%E)}", tAny, false},
	{"call-data", "{call .id data=\"['p': %E]\" /}", "{print (%E)}", tAny, true},
	{"plural-subject", "{msg desc=\"d\"}{plural %E}{case 1}one{default}other{/plural}{/msg}", "{msg desc=\"d\"}{plural (%E)}{case 1}one{default}other{/plural}{/msg}", tInt, false},
	{"css-prefix", "{css %E, suffix}", "{css (%E), suffix}", tStr, false},
	{"log-print", "{log}{%E}{/log}done", "{log}{print (%E)}{/log}done", tAny, false},
}

func c01ctxBundle(body string) []srcFile {
	seen := map[string]bool{"x9": true, "y9": true}
	var names []string
	for _, m := range varRe.FindAllStringSubmatch(body, -1) {
		if m[1] != "ij" && !seen[m[1]] {
			seen[m[1]] = true
			names = append(names, m[1])
		}
	}
	sort.Strings(names)
	var b strings.Builder
	b.WriteString("{namespace ns}\n/**\n")
	for _, n := range names {
		b.WriteString(" * @param? " + n + "\n")
	}
	b.WriteString(" */\n{template .t autoescape=\"false\"}\n" + body + "\n{/template}\n/** @param? p */\n{template .id autoescape=\"false\"}\n{$p}\n{/template}\n")
	return []srcFile{{"e.soy", b.String()}}
}

var c01Tight = []struct {
	e string
	t ty
}{
	{"$i<-1", tBool}, {"$i>-1", tBool}, {"$j<-$i", tBool}, {"$j>-$i", tBool}, {"$i>=-7", tBool}, {"$i<=-7", tBool}, {"$i==-7", tBool}, {"$i!=-7", tBool}, {"$f<-0.5", tBool}, {"-$i<-$j", tBool},
	{"$i>-(1)", tBool}, {"$i*-1", tInt}, {"$i+-1", tInt}, {"$i--1", tInt}, {"$i%-4", tInt}, {"1<-1 ? 2 : 3", tInt}, {"$i>-1 and $j<-1", tBool}, {"not($i<-1)", tBool}, {"($i)<(-1)", tBool},
}

func directC01ctx(g *G, rep *Report) {
	n := g.N(700, 20000)
	r := g.R.Fork()
	d := toData(stdData())
	ij := toData(stdIj())
	types := []ty{tInt, tInt, tFloat, tStr, tStr, tBool, tNull, tList, tMap, tNum}
	run := func(body string) (string, string, string) {
		var reg *template.Registry
		var err error
		if c := guarded(10*time.Second, func() { reg, err = compileWithGlobals(c01ctxBundle(body), c01Globals) }); c != "" {
			return "", "COMPILE-" + c, c
		}
		if err != nil {
			return "", "COMPILE-ERR", err.Error()
		}
		out, class := renderSafe(reg, "ns.t", d, ij)
		return out, class, ""
	}
	refCache := map[string][3]string{}
	knownSeen := map[string]bool{}
	for i := 0; i < n; i++ {
		eg := &exprGen{r: r, funcs: true, redundantParens: []int{0, 10, 40}[i%3], illTyped: 0, noUndefined: i%2 == 0}
		t := types[r.Intn(len(types))]
		var e string
		if i%9 == 8 {
			ge := c01GlobalExprs[(i/9)%len(c01GlobalExprs)]
			e, t = ge.e, ge.t
		} else {
			switch r.Intn(8) {
			case 0: // leading unary minus / not: the token after the opening delimiter is the delicate one
				if t == tInt || t == tFloat || t == tNum {
					e = "-" + eg.operand(1+r.Intn(2), t, 0)
				} else if t == tBool {
					e = "not " + eg.operand(1+r.Intn(2), t, 0)
				} else {
					e = eg.expr(1+r.Intn(3), t)
				}
			case 1:
				e = eg.atom(t)
			case 2:
				// binary operators written without spaces next to a unary minus / a parenthesis
				te := c01Tight[r.Intn(len(c01Tight))]
				e, t = te.e, te.t
			default:
				e = eg.expr(1+r.Intn(3), t)
			}
		}
		nt := strings.ContainsAny(e, "+-*/%<>=?([.") || strings.Contains(e, " and ") || strings.Contains(e, " or ") || strings.Contains(e, "not ")
		for _, cx := range c01Contexts {
			if cx.only != tAny && cx.only != t && !(cx.only == tNum && (t == tInt || t == tFloat)) {
				continue
			}
			if cx.noDquote && strings.ContainsAny(e, "\"\\") {
				continue
			}
			if cx.name == "css-prefix" && strings.ContainsAny(e, "{}") {
				continue // the css command text ends at the first closing brace
			}
			if cx.name == "ternary-cond" && strings.Contains(e, "?") {
				continue // a ? b : c ? T : F groups to the right
			}
			if strings.Contains(e, "keys(") {
				continue // the order of keys() is unspecified
			}
			body := strings.ReplaceAll(cx.body, "%E", e)
			refBody := strings.ReplaceAll(cx.ref, "%E", e)
			ref, ok := refCache[refBody]
			if !ok {
				o, c, m := run(refBody)
				ref = [3]string{o, c, m}
				if len(refCache) > 4000 {
					refCache = map[string][3]string{}
				}
				refCache[refBody] = ref
			}
			out, class, msg := run(body)
			rep.Evaluations++
			rep.Distribution[cx.name+":"+class]++
			bad := ""
			switch {
			case class == "COMPILE-ERR":
				bad = "a valid expression is not accepted in position '" + cx.name + "': " + msg
			case ref[1] == "COMPILE-ERR":
				bad = "a valid expression is not accepted in parentheses in position '" + cx.name + "': " + ref[2]
			case class == "PANIC" || class == "HANG":
				bad = "render " + class
			case class != ref[1] || out != ref[0]:
				bad = "the expression means something else in position '" + cx.name + "' than in parentheses"
			}
			if bad != "" {
				if len(rep.Violations) < 25 && rep.Distribution["viol:"+cx.name] < 3 {
					rep.Distribution["viol:"+cx.name]++
					key := "c01ctx:" + cx.name + ":" + e
					if cx.name == "map-key" && strings.Contains(msg+ref[2], "expected a string as map key") {
						key = "c01ctx:map-key:not-a-string-literal"
					}
					if strings.Contains(e, "-0x") && strings.Contains(msg+ref[2], `bad number syntax: "-"`) {
						key = "c01ctx:negative-hex-literal"
					}
					if knownSeen[key] {
						continue
					}
					if strings.HasPrefix(key, "c01ctx:map-key:") || key == "c01ctx:negative-hex-literal" {
						knownSeen[key] = true
						rep.Distribution["viol:"+cx.name]--
					}
					rep.Violations = append(rep.Violations, Viol{Key: key, What: bad,
						Req: req("c01ctx", encSources(c01ctxBundle(body))), Note: body, Impl: class + " " + quote([]byte(out)), Want: ref[1] + " " + quote([]byte(ref[0]))})
				}
				continue
			}
			if nt {
				rep.DistinctNT++
			}
		}
		if len(rep.Samples) < 5 && nt {
			rep.Samples = append(rep.Samples, e)
		}
	}
}
