package main

import (
	"fmt"
	"strconv"
	"strings"
)

// Generator of Soy bundles (several files / namespaces / templates) that satisfy the
// compiler's data-reference rules by construction, together with data that supplies
// the declared params.  Variable names encode their type: i* int, f* float, s* string,
// b* bool, l* list of ints, m* map, n* null.  A small pool of names is reused on
// purpose so that shadowing is frequent.

type gVar struct {
	name string
	t    ty
}

type gParam struct {
	name     string
	t        ty
	optional bool
}

type gTemplate struct {
	ns, short string
	params    []gParam
	header    bool // header params instead of soydoc
	autoesc   string
	body      string
	recursive bool
}

func (t *gTemplate) full() string { return t.ns + "." + t.short }

type gFile struct {
	name    string
	ns      string
	autoesc string
	aliases []string
	tmpls   []*gTemplate
}

type gBundle struct {
	files []*gFile
}

type bundleGen struct {
	r        *RNG
	maxDepth int
	opts     bundleOpts
	all      []*gTemplate // templates generated so far (callable)
	uniq     int
	stats    map[string]int
}

type bundleOpts struct {
	msgs       bool
	directives bool
	calls      bool
	illTyped   int
	noFloatFmt bool // avoid float results whose print form differs between backends
	jsSafe     bool // restrict to the subset both backends define (C04)
	// hooks of other generators (nil = no change of behaviour or of the random stream):
	extraCmd        func(g *bundleGen, s *gScope, depth int) (string, bool) // consulted first by cmd()
	extraLit        func(g *bundleGen, t ty) (string, bool)                 // consulted first by lit()
	extraDirectives []string                                                // more print directive suffixes
	noLog           bool                                                    // no {log} commands
	extraExpr       func(e *scopedExprGen, depth int, t ty) (string, bool)  // consulted first by expr()
	extraValue      func(g *bundleGen, t ty) (interface{}, bool)            // consulted first by valueOf()
	allParams       bool                                                    // dataFor supplies optional params too
	ij         bool // expressions may read $ij.n / $ij.s (interpreter checks)
	defaultAnywhere bool // a {switch}'s {default} may stand before (between) its {case}s
	sharedNs        bool // a file may declare the namespace of the file before it (with an autoescape attribute of its own)
}

func typeOfName(n string) ty {
	switch n[0] {
	case 'i':
		return tInt
	case 'f':
		return tFloat
	case 's':
		return tStr
	case 'b':
		return tBool
	case 'l':
		return tList
	case 'm':
		return tMap
	case 'n':
		return tNull
	}
	return tAny
}

var scalarTypes = []ty{tInt, tFloat, tStr, tBool, tInt, tStr}
var paramTypes = []ty{tInt, tFloat, tStr, tBool, tNull, tList, tMap, tInt, tStr}

var namePool = map[ty][]string{
	tInt:   {"i", "ix", "i2"},
	tFloat: {"f", "fx"},
	tStr:   {"s", "sx", "s2"},
	tBool:  {"b", "bx"},
	tList:  {"l", "lx"},
	tMap:   {"m", "mx"},
	tNull:  {"n"},
}

func (g *bundleGen) pickName(t ty) string {
	p := namePool[t]
	return p[g.r.Intn(len(p))]
}

// scope tracks the variables visible at a point and which were used.
type gScope struct {
	vars []gVar
	used map[int]bool // by index into vars (shared between a scope and the scopes cloned from it)
}

func (s *gScope) declare(v gVar) int {
	s.vars = append(s.vars, v)
	s.used[len(s.vars)-1] = false
	return len(s.vars) - 1
}

func (s *gScope) clone() *gScope {
	return &gScope{vars: append([]gVar(nil), s.vars...), used: s.used}
}

// ofType returns the indices of the visible (not shadowed) variables of type t.
func (s *gScope) ofType(t ty) []int {
	var out []int
	seen := map[string]bool{}
	for i := len(s.vars) - 1; i >= 0; i-- {
		v := s.vars[i]
		if seen[v.name] {
			continue
		}
		seen[v.name] = true
		if v.t == t || t == tAny {
			out = append(out, i)
		}
	}
	return out
}

// expr generates an expression of type t over the variables in scope.
func (g *bundleGen) expr(s *gScope, depth int, t ty) string {
	eg := &scopedExprGen{g: g, s: s}
	return eg.expr(depth, t)
}

type scopedExprGen struct {
	g *bundleGen
	s *gScope
}

func (e *scopedExprGen) v(t ty) (string, bool) {
	vs := e.s.ofType(t)
	if len(vs) == 0 {
		return "", false
	}
	i := vs[e.g.r.Intn(len(vs))]
	e.s.used[i] = true
	return "$" + e.s.vars[i].name, true
}

func (e *scopedExprGen) lit(t ty) string {
	r := e.g.r
	if e.g.opts.extraLit != nil {
		if s, ok := e.g.opts.extraLit(e.g, t); ok {
			return s
		}
	}
	switch t {
	case tInt:
		return strconv.Itoa(r.Intn(12))
	case tFloat:
		return strconv.Itoa(r.Intn(9)) + "." + []string{"5", "25", "75", "125"}[r.Intn(4)]
	case tStr:
		return "'" + []string{"", "a", "b<c", "x&y", "\"q\"", "it\\'s", "é", "<b>", "a b", "1"}[r.Intn(10)] + "'"
	case tBool:
		return []string{"true", "false"}[r.Intn(2)]
	case tNull:
		return "null"
	case tList:
		return []string{"[]", "[1, 2, 3]", "[7]", "[4, 5]"}[r.Intn(4)]
	case tMap:
		return []string{"['a': 1]", "['a': 2, 'b': 'x']", "[:]"}[r.Intn(3)]
	}
	return "0"
}

func (e *scopedExprGen) atom(t ty) string {
	if e.g.opts.illTyped > 0 && e.g.r.Intn(100) < e.g.opts.illTyped {
		// ill-typed on purpose (interpreter totality checks): an operand of a random type, or a malformed call
		if e.g.r.Intn(4) == 0 {
			return illCalls[e.g.r.Intn(len(illCalls))]
		}
		t = paramTypes[e.g.r.Intn(len(paramTypes))]
	}
	if e.g.opts.ij && e.g.r.Intn(12) == 0 {
		switch t {
		case tInt:
			return "$ij.n"
		case tStr:
			return "$ij.s"
		case tMap:
			return "$ij"
		}
	}
	if t == tAny {
		t = scalarTypes[e.g.r.Intn(len(scalarTypes))]
	}
	if t == tNum {
		t = tInt
	}
	if e.g.r.Intn(3) > 0 {
		if s, ok := e.v(t); ok {
			return s
		}
	}
	return e.lit(t)
}

func (e *scopedExprGen) expr(depth int, t ty) string {
	r := e.g.r
	if e.g.opts.extraExpr != nil {
		if s, ok := e.g.opts.extraExpr(e, depth, t); ok {
			return s
		}
	}
	if depth <= 0 || r.Intn(3) == 0 {
		return e.atom(t)
	}
	d := depth - 1
	p := func(s string) string { return "(" + s + ")" }
	switch t {
	case tAny:
		return e.expr(depth, scalarTypes[r.Intn(len(scalarTypes))])
	case tNum:
		return e.expr(depth, tInt)
	case tInt:
		switch r.Intn(8) {
		case 0, 1:
			return p(e.expr(d, tInt)) + " " + []string{"+", "-", "*"}[r.Intn(3)] + " " + p(e.expr(d, tInt))
		case 2:
			return p(e.expr(d, tInt)) + " % " + strconv.Itoa(1+r.Intn(7))
		case 3:
			return e.expr(d, tBool) + " ? " + p(e.expr(d, tInt)) + " : " + e.expr(d, tInt)
		case 4:
			return "length(" + e.expr(d, tList) + ")"
		case 5:
			return []string{"min(", "max("}[r.Intn(2)] + e.expr(d, tInt) + ", " + e.expr(d, tInt) + ")"
		case 6:
			return "-" + p(e.expr(d, tInt))
		}
	case tFloat:
		if r.Intn(2) == 0 {
			return p(e.expr(d, tFloat)) + " " + []string{"+", "-", "*"}[r.Intn(3)] + " " + p(e.expr(d, tInt))
		}
	case tStr:
		switch r.Intn(4) {
		case 0, 1:
			return p(e.expr(d, tStr)) + " + " + p(e.expr(d, ty([]ty{tStr, tInt, tBool}[r.Intn(3)])))
		case 2:
			return e.expr(d, tBool) + " ? " + p(e.expr(d, tStr)) + " : " + e.expr(d, tStr)
		}
	case tBool:
		switch r.Intn(8) {
		case 0:
			return p(e.expr(d, tInt)) + " " + []string{"<", ">", "<=", ">=", "==", "!="}[r.Intn(6)] + " " + p(e.expr(d, tInt))
		case 1:
			return p(e.expr(d, tStr)) + " " + []string{"==", "!="}[r.Intn(2)] + " " + p(e.expr(d, tStr))
		case 2:
			return p(e.expr(d, tBool)) + " " + []string{"and", "or"}[r.Intn(2)] + " " + p(e.expr(d, tBool))
		case 3:
			return "not " + p(e.expr(d, tBool))
		case 4:
			return "isNonnull(" + e.atom(ty([]ty{tNull, tInt, tStr}[r.Intn(3)])) + ")"
		case 5:
			return "strContains(" + e.expr(d, tStr) + ", " + e.expr(d, tStr) + ")"
		}
	}
	return e.atom(t)
}

// malformed calls used when bundleOpts.illTyped > 0
var illCalls = []string{"length()", "length(1, 2)", "min(1)", "max(1, 2, 3)", "range(0, 3, 0)", "range(1, 2, -1)", "range()", "noSuchFunc(1)", "index(1)", "isFirst()", "isLast('x')",
	"round('x')", "round(1.5, 'x')", "keys([1])", "augmentMap([:], 1)", "strContains(1, 2)", "floor(null)", "ceiling([])", "hasData(1)", "isNonnull()", "7 % 0", "(1 / 0) % 2", "-'x'", "$ij.zz.y", "$ij.s.x", "$ij[0]", "$ij.n[1]"}

var illDirectives = []string{"|truncate", "|truncate:'x'", "|truncate:3,4", "|truncate:-1", "|insertWordBreaks", "|insertWordBreaks:'a'", "|escapeHtml:1", "|noSuchDirective", "|bidiSpanWrap", "|json", "|truncate:1,true,3", "|insertWordBreaks:0", "|insertWordBreaks:-5"}

// ---- commands ----

func (g *bundleGen) stat(k string) { g.stats[k]++ }

var rawChunks = []string{"hello", " ", "a b", "<b>", "</b>", "&amp;", "x\n  y", "\n", "<i>\n  t\n</i>", "1 < 2", "é", "{sp}", "{nil}", "{lb}", "{rb}", "{\\n}", "{\\t}", "{literal}{x} </{/literal}", "// c\n", " /* c */ ", "url: http://x.y/z "}

func (g *bundleGen) rawText() string {
	g.stat("rawtext")
	n := 1 + g.r.Intn(2)
	var b strings.Builder
	for i := 0; i < n; i++ {
		b.WriteString(rawChunks[g.r.Intn(len(rawChunks))])
	}
	return b.String()
}

var simpleDirectives = []string{"|escapeHtml", "|noAutoescape", "|id", "|escapeUri", "|escapeJsString", "|changeNewlineToBr", "|insertWordBreaks:3", "|truncate:4", "|truncate:5,false", "|truncate:2,true"}

func (g *bundleGen) print(s *gScope, depth int) string {
	g.stat("print")
	t := scalarTypes[g.r.Intn(len(scalarTypes))]
	if g.opts.noFloatFmt && t == tFloat {
		t = tInt
	}
	e := g.expr(s, depth, t)
	dir := ""
	if g.opts.directives && g.r.Intn(4) == 0 {
		dirs := simpleDirectives
		if len(g.opts.extraDirectives) > 0 {
			dirs = append(append([]string(nil), simpleDirectives...), g.opts.extraDirectives...)
		}
		dir = dirs[g.r.Intn(len(dirs))]
		if g.r.Intn(4) == 0 {
			dir += dirs[g.r.Intn(len(dirs))]
		}
		// long chains: the parser's directive slice then has spare capacity (len 3 cap 4, len 5-7 cap 8)
		if g.r.Intn(5) == 0 {
			for k := 1 + g.r.Intn(6); k > 0; k-- {
				dir += []string{"|id", "|noAutoescape", "|escapeHtml", "|truncate:40", "|escapeUri"}[g.r.Intn(5)]
			}
			g.stat("directive-chain>=3")
		}
		g.stat("directive")
	}
	if g.opts.illTyped > 0 && g.r.Intn(100) < g.opts.illTyped/2 {
		dir += illDirectives[g.r.Intn(len(illDirectives))]
		g.stat("ill-directive")
	}
	switch g.r.Intn(6) {
	case 0:
		return "{print " + e + dir + "}"
	case 1:
		return "{{" + e + dir + "}}"
	}
	return "{" + e + dir + "}"
}

// block generates a command sequence in a NEW scope; lets declared inside are used inside.
func (g *bundleGen) block(outer *gScope, depth int) string {
	s := outer.clone()
	base := len(s.vars)
	n := 1 + g.r.Intn(3)
	var b strings.Builder
	for i := 0; i < n; i++ {
		b.WriteString(g.cmd(s, depth))
	}
	// every let declared in this block must be used before the block ends
	// (in reverse, so that a later let of the same name is referenced first, while it shadows the earlier one…
	//  an earlier let shadowed by a later one of the same name can only be used before the later one: the
	//  generator uses such a let immediately, see the let case.)
	for i := len(s.vars) - 1; i >= base; i-- {
		if !s.used[i] {
			b.WriteString("{$" + s.vars[i].name + "}")
			s.used[i] = true
		}
	}
	return b.String()
}

func (g *bundleGen) cmd(s *gScope, depth int) string {
	r := g.r
	if g.opts.extraCmd != nil {
		if out, ok := g.opts.extraCmd(g, s, depth); ok {
			return out
		}
	}
	choice := r.Intn(20)
	if depth <= 0 && choice >= 8 {
		choice = r.Intn(8)
	}
	switch {
	case choice < 4:
		return g.rawText()
	case choice < 8:
		return g.print(s, 2)
	case choice == 8 || choice == 9:
		g.stat("if")
		out := "{if " + g.expr(s, 2, tBool) + "}" + g.block(s, depth-1)
		for r.Intn(3) == 0 {
			out += "{elseif " + g.expr(s, 1, tBool) + "}" + g.block(s, depth-1)
		}
		if r.Bool() {
			out += "{else}" + g.block(s, depth-1)
		}
		return out + "{/if}"
	case choice == 10:
		g.stat("switch")
		t := []ty{tInt, tStr}[r.Intn(2)]
		out := "{switch " + g.expr(s, 1, t) + "}"
		nc := 1 + r.Intn(3)
		var cases []string
		for i := 0; i < nc; i++ {
			vals := (&scopedExprGen{g, s}).lit(t)
			if r.Intn(3) == 0 {
				vals += ", " + (&scopedExprGen{g, s}).lit(t)
			}
			if r.Intn(3) == 0 {
				// a case value may be any expression, e.g. a variable (possibly the only use of a param)
				vals += ", " + g.expr(s, 1, t)
				g.stat("case-value-expr")
			}
			cases = append(cases, "\n{case "+vals+"}"+g.block(s, depth-1))
		}
		if r.Bool() {
			d := "{default}" + g.block(s, depth-1)
			at := len(cases)
			if g.opts.defaultAnywhere {
				at = r.Intn(len(cases) + 1)
				if at < len(cases) {
					g.stat("switch-default-not-last")
				}
			}
			cases = append(cases[:at], append([]string{d}, cases[at:]...)...)
		}
		return out + strings.Join(cases, "") + "{/switch}"
	case choice == 11 || choice == 12:
		g.stat("foreach")
		list := g.expr(s, 1, tList)
		name := g.pickName(tInt)
		inner := s.clone()
		inner.used[inner.declare(gVar{name, tInt})] = true
		body := g.block(inner, depth-1)
		if r.Intn(3) == 0 {
			body += "{if isFirst($" + name + ")}F{/if}{if isLast($" + name + ")}L{/if}{index($" + name + ")}"
			g.stat("loopfuncs")
		}
		kw := []string{"foreach", "for"}[r.Intn(2)]
		out := "{" + kw + " $" + name + " in " + list + "}" + body
		if r.Intn(3) == 0 {
			out += "{ifempty}" + g.block(s, depth-1)
		}
		return out + "{/" + kw + "}"
	case choice == 13:
		g.stat("for-range")
		name := g.pickName(tInt)
		inner := s.clone()
		inner.used[inner.declare(gVar{name, tInt})] = true
		args := strconv.Itoa(r.Intn(4))
		if r.Bool() {
			args = strconv.Itoa(r.Intn(3)) + ", " + strconv.Itoa(2+r.Intn(4))
			if r.Bool() {
				args += ", " + strconv.Itoa(1+r.Intn(2))
			}
		}
		kw := []string{"for", "for", "foreach"}[r.Intn(3)]
		out := "{" + kw + " $" + name + " in range(" + args + ")}" + g.block(inner, depth-1)
		if r.Intn(3) == 0 {
			// the {ifempty} of a loop over range(…) (soyjs 2e1528d)
			g.stat("range-ifempty")
			out += "{ifempty}" + g.block(s, depth-1)
		}
		return out + "{/" + kw + "}"
	case choice == 14 || choice == 15:
		// let: value or content.  The variable is visible for the rest of the enclosing block.
		t := scalarTypes[r.Intn(len(scalarTypes))]
		if t == tFloat && g.opts.noFloatFmt {
			t = tInt
		}
		name := g.pickName(t)
		shadow, sameBlock := false, false
		for i, v := range s.vars {
			if v.name == name {
				shadow = true
				if !s.used[i] {
					sameBlock = true // an unused let of that name would become unusable
				}
			}
		}
		if sameBlock {
			return g.rawText()
		}
		if shadow {
			g.stat("let-shadows-live-binding")
		}
		var out string
		if t == tStr && r.Bool() {
			g.stat("let-content")
			out = "{let $" + name + "}" + g.block(s, depth-1) + "{/let}"
		} else {
			g.stat("let-value")
			out = "{let $" + name + ": " + g.expr(s, 2, t) + " /}"
		}
		idx := s.declare(gVar{name, t})
		// use it right away half of the time, later otherwise (block() appends a use if none)
		if r.Bool() {
			out += "{$" + name + "}"
			s.used[idx] = true
		}
		return out
	case choice == 16 && g.opts.calls && len(g.all) > 0:
		return g.call(s, depth)
	case choice == 17:
		g.stat("css")
		if r.Intn(3) == 0 {
			return "{css " + g.expr(s, 0, tStr) + ", suf-fix}"
		}
		return "{css my-class}"
	case choice == 18 && !g.opts.noLog:
		g.stat("log")
		return "{log}" + g.block(s, 0) + "{/log}"
	case choice == 19 && g.opts.msgs:
		return g.msg(s)
	}
	return g.rawText()
}

func (g *bundleGen) call(s *gScope, depth int) string {
	g.stat("call")
	callee := g.all[g.r.Intn(len(g.all))]
	if callee.recursive {
		// recursion only on a decreasing argument: call with a small literal
		return "{call " + callee.full() + "}{param i: " + strconv.Itoa(g.r.Intn(3)) + " /}{/call}"
	}
	var params []string
	for _, p := range callee.params {
		if p.optional && !g.opts.allParams && g.r.Intn(3) == 0 {
			continue
		}
		if p.t == tStr && g.r.Intn(3) == 0 {
			params = append(params, "{param "+p.name+"}"+g.block(s, 0)+"{/param}")
			g.stat("param-content")
		} else {
			params = append(params, "{param "+p.name+": "+g.expr(s, 1, p.t)+" /}")
		}
	}
	name := callee.full()
	data := ""
	switch g.r.Intn(6) {
	case 0:
		data = ` data="all"`
		g.stat("call-data-all")
	case 1:
		if ms := s.ofType(tMap); len(ms) > 0 {
			m := ms[g.r.Intn(len(ms))]
			s.used[m] = true
			data = ` data="$` + s.vars[m].name + `"`
			g.stat("call-data-expr")
		}
	}
	if len(params) == 0 {
		return "{call " + name + data + " /}"
	}
	return "{call " + name + data + "}" + strings.Join(params, "") + "{/call}"
}

func (g *bundleGen) msg(s *gScope) string {
	g.stat("msg")
	var b strings.Builder
	b.WriteString(`{msg desc="d` + strconv.Itoa(g.r.Intn(3)) + `"`)
	if g.r.Intn(4) == 0 {
		b.WriteString(` meaning="m"`)
	}
	b.WriteString("}")
	if g.r.Intn(4) == 0 {
		g.stat("plural")
		b.WriteString("{plural " + g.expr(s, 1, tInt) + "}{case 0}none{case 1}one " + g.print(s, 1) + "{default}" + g.print(s, 1) + " many{/plural}")
	} else {
		n := 1 + g.r.Intn(4)
		for i := 0; i < n; i++ {
			switch g.r.Intn(4) {
			case 0:
				tags := []string{"Hello ", "<b>", "</b>", "<br/>", "a&b ", "<a href=\"x\">"}
				if g.opts.jsSafe {
					tags[5] = "<a href='x'>" // a double quote is escaped differently by the two backends (c04:escapeHtml-double-quote)
				}
				b.WriteString(tags[g.r.Intn(6)])
			default:
				b.WriteString(g.print(s, 1) + " ")
			}
		}
	}
	b.WriteString("{/msg}")
	return b.String()
}

// template generates one template and registers it as callable.
func (g *bundleGen) template(f *gFile, short string) *gTemplate {
	t := &gTemplate{ns: f.ns, short: short, header: g.r.Intn(3) == 0}
	np := g.r.Intn(4)
	seen := map[string]bool{}
	for i := 0; i < np; i++ {
		pt := paramTypes[g.r.Intn(len(paramTypes))]
		if g.opts.noFloatFmt && pt == tFloat {
			pt = tInt
		}
		name := g.pickName(pt)
		if seen[name] {
			continue
		}
		seen[name] = true
		t.params = append(t.params, gParam{name, pt, g.r.Intn(4) == 0})
	}
	switch g.r.Intn(5) {
	case 0:
		t.autoesc = "false"
	case 1:
		t.autoesc = "true"
	}
	s := &gScope{used: map[int]bool{}}
	for _, p := range t.params {
		s.declare(gVar{p.name, p.t})
	}
	body := g.block(s, g.maxDepth)
	// every param must be used (a param shadowed by a top-level let cannot be referenced after it: put the use first)
	for i, p := range t.params {
		if !s.used[i] {
			use := "{$" + p.name + "}"
			if g.opts.jsSafe {
				// printing a list, a map or null is outside the subset both backends define
				switch p.t {
				case tList:
					use = "{length($" + p.name + ")}"
				case tMap:
					use = "{$" + p.name + ".a}"
				case tNull:
					use = "{$" + p.name + " ?: 'n'}"
				}
			}
			body = use + body
		}
	}
	t.body = body
	g.all = append(g.all, t)
	return t
}

func (g *bundleGen) recursiveTemplate(f *gFile) *gTemplate {
	t := &gTemplate{ns: f.ns, short: "rec" + strconv.Itoa(len(g.all)), recursive: true}
	t.params = []gParam{{"i", tInt, false}}
	t.body = "({$i}{if $i > 0}{call ." + t.short + "}{param i: $i - 1 /}{/call}{/if})"
	g.all = append(g.all, t)
	return t
}

func newBundleGen(r *RNG, opts bundleOpts) *bundleGen {
	return &bundleGen{r: r, maxDepth: 3, opts: opts, stats: map[string]int{}}
}

func (g *bundleGen) bundle() *gBundle {
	g.all = nil
	b := &gBundle{}
	nf := 1 + g.r.Intn(4)
	for i := 0; i < nf; i++ {
		f := &gFile{name: fmt.Sprintf("f%d.soy", i), ns: []string{"ns.a", "ns.a.sub", "ns.b", "other"}[i]}
		switch g.r.Intn(5) {
		case 0:
			f.autoesc = "false"
		case 1:
			f.autoesc = "contextual"
		}
		tsuffix := ""
		if g.opts.sharedNs && i > 0 && g.r.Intn(2) == 0 {
			// one namespace spread over two files, each {namespace} tag with its own attribute
			prev := b.files[i-1]
			f.ns = prev.ns
			tsuffix = fmt.Sprintf("f%d", i)
			if prev.autoesc == "false" {
				f.autoesc = ""
			} else {
				f.autoesc = "false"
			}
		}
		nt := 1 + g.r.Intn(3)
		for j := 0; j < nt; j++ {
			f.tmpls = append(f.tmpls, g.template(f, fmt.Sprintf("t%d%s", j, tsuffix)))
		}
		if g.opts.calls && g.r.Intn(3) == 0 {
			f.tmpls = append(f.tmpls, g.recursiveTemplate(f))
		}
		b.files = append(b.files, f)
	}
	return b
}

func (t *gTemplate) source() string {
	var b strings.Builder
	if !t.header {
		b.WriteString("/**\n")
		for _, p := range t.params {
			if p.optional {
				b.WriteString(" * @param? " + p.name + " doc\n")
			} else {
				b.WriteString(" * @param " + p.name + "\n")
			}
		}
		b.WriteString(" */\n")
	} else if len(t.body)%3 == 0 {
		// a doc comment that declares no param is not "soydoc params": header params may follow it
		b.WriteString([]string{"/** Describes the template. */\n", "/**\n * Describes the template:\n * no params here.\n */\n"}[len(t.body)/3%2])
	}
	b.WriteString("{template ." + t.short)
	if t.autoesc != "" {
		b.WriteString(` autoescape="` + t.autoesc + `"`)
	}
	b.WriteString("}\n")
	if t.header {
		// header params usually stand on lines of their own; now and then two share a line
		for pi, p := range t.params {
			if p.optional {
				b.WriteString("{@param? " + p.name + ": ?}\n")
			} else if (len(t.body)+pi)%4 == 1 {
				// a default value does not make a header param optional: callers must still pass it
				b.WriteString("{@param " + p.name + []string{": ? = 10}\n", ": string = 'd'}\n", ":= null}\n"}[(len(t.body)/4+pi)%3])
			} else {
				b.WriteString("{@param " + p.name + ": ?}\n")
			}
		}
	}
	if t.header && len(t.body)%5 == 2 && len(t.params) > 1 {
		// join the first two header params on one line: "{@param a: ?} {@param b: ?}"
		s := b.String()
		i := strings.Index(s, "}\n{@param")
		if i >= 0 {
			s = s[:i] + "} " + s[i+2:]
			b.Reset()
			b.WriteString(s)
		}
	}
	b.WriteString(t.body)
	b.WriteString("\n{/template}\n")
	return b.String()
}

func (f *gFile) source() string {
	var b strings.Builder
	b.WriteString("{namespace " + f.ns)
	if f.autoesc != "" {
		b.WriteString(` autoescape="` + f.autoesc + `"`)
	}
	b.WriteString("}\n\n")
	for _, t := range f.tmpls {
		b.WriteString(t.source())
		b.WriteString("\n")
	}
	return b.String()
}

// dataFor builds a data map (as Soy literal-ish Go values) supplying the params of t.
func (g *bundleGen) dataFor(t *gTemplate) map[string]interface{} {
	m := map[string]interface{}{}
	for _, p := range t.params {
		if p.optional && !g.opts.allParams && g.r.Intn(3) == 0 {
			continue
		}
		m[p.name] = g.valueOf(p.t)
	}
	if t.recursive {
		m["i"] = int64(g.r.Intn(4)) // recursion bounded by the data
	}
	return m
}

func (g *bundleGen) valueOf(t ty) interface{} {
	r := g.r
	if g.opts.extraValue != nil {
		if v, ok := g.opts.extraValue(g, t); ok {
			return v
		}
	}
	switch t {
	case tInt:
		return int64([]int{0, 1, 2, 3, 7, -1, 12, 1 << 40}[r.Intn(8)])
	case tFloat:
		return []float64{0.5, 1.25, -2.5, 3.0, 0.125}[r.Intn(5)]
	case tStr:
		return []string{"", "abc", "<i>x</i>", "a&b", "\"q\"'s", "é日本", "line1\nline2", "a b c d e f"}[r.Intn(8)]
	case tBool:
		return r.Bool()
	case tNull:
		return nil
	case tList:
		return [][]interface{}{{}, {int64(1)}, {int64(1), int64(2), int64(3)}, {int64(5), int64(6)}}[r.Intn(4)]
	case tMap:
		return []map[string]interface{}{{}, {"a": int64(1)}, {"a": int64(2), "b": "x"}, {"i": int64(3), "s": "<m>"}}[r.Intn(4)]
	}
	return nil
}
