package main

import (
	"bytes"
	"net/textproto"
	"sync"
	"sync/atomic"

	"github.com/robfig/gettext/po"
	"github.com/robfig/soy/soymsg/pomsg"
)

// providerFallbackConcurrently: the localized render flow resolves its message bundle per request — one shared
// pomsg provider is asked, from many goroutines at once, for locales that have a catalogue of their own and for
// locales that resolve by FALLBACK (en-GB -> en).  Lookups are reads: under the race detector any write to the
// provider is reported; every goroutine must get the bundle the sequential lookup returns (seeded C09-20).
func providerFallbackConcurrently(rep *Report) {
	f := po.File{Header: textproto.MIMEHeader{"Plural-Forms": {pluralForms[1]}, "Content-Type": {"text/plain; charset=UTF-8"}},
		Messages: []po.Message{{Comment: po.Comment{References: []string{"id=12345"}}, Id: "Hello", Str: []string{"Hallo"}}}}
	var buf bytes.Buffer
	if _, err := f.WriteTo(&buf); err != nil {
		rep.Distribution["provider-load-failed"]++
		return
	}
	poText := buf.String()
	prov, err := pomsg.Load(memOpener{map[string]string{"en": poText, "de": poText}}, []string{"en", "de"})
	if err != nil || prov == nil {
		rep.Distribution["provider-load-failed"]++
		return
	}
	locs := []string{"en-GB", "en_AU", "en", "de-AT", "en-US", "de", "de_CH", "en-NZ", "fr", "not a locale"}
	for round := 0; round < 3; round++ {
		// a fresh provider per round: the first lookups of every fallback locale happen under contention
		prov, _ = pomsg.Load(memOpener{map[string]string{"en": poText, "de": poText}}, []string{"en", "de"})
		wantEn, wantDe := prov.Bundle("en"), prov.Bundle("de")
		var bad int64
		var wg sync.WaitGroup
		start := make(chan struct{})
		for w := 0; w < 8; w++ {
			wg.Add(1)
			go func(w int) {
				defer wg.Done()
				<-start
				for k := 0; k < 40; k++ {
					l := locs[(k+w)%len(locs)]
					b := prov.Bundle(l)
					switch l[0] {
					case 'e':
						if b != wantEn {
							atomic.AddInt64(&bad, 1)
						}
					case 'd':
						if b != wantDe {
							atomic.AddInt64(&bad, 1)
						}
					default:
						if b != nil {
							atomic.AddInt64(&bad, 1)
						}
					}
				}
			}(w)
		}
		close(start)
		wg.Wait()
		rep.Evaluations += 8 * 40
		if bad > 0 && len(rep.Violations) < 20 {
			rep.Violations = append(rep.Violations, Viol{Key: "concurrent-provider-lookup", What: "a concurrent lookup on a shared pomsg provider returned another bundle than the sequential lookup", Req: "pomsg provider {en, de}, 8 goroutines x 40 lookups of fallback locales", Want: "the bundle of the fallback locale"})
		}
	}
	rep.Distribution["concurrent-provider-fallback-lookups"] += 3
}
