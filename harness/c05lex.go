package main

import (
	"os"
	"regexp"
	"sort"
	"strings"
	"time"

	"github.com/robfig/soy/parse"
)

// C05lex — sub-check of C05: the Lean lexer model (Model/Lexer.lean) against the real
// lexer, token stream by token stream (type, position, bytes), in both entry points
// (lex = file mode, lexExpr = expression mode).

func init() {
	register(&Prop{
		ID: "C05lex",
		Rule: "lex(mode,input): item stream (type,pos,bytes; error texts dropped) of the real lexer goroutine vs the Lean model, " +
			"mode in {file,expr}; inputs from a tag dictionary (all builtin commands/close commands/special chars, delimiters, soydoc, " +
			"header params, css, literal, comments, strings, numbers, data refs, operators, unary/binary minus contexts), every prefix of " +
			"sample templates/expressions, token deletions/duplications/swaps, byte injections and random bytes incl. invalid UTF-8 and " +
			"non-ASCII letters/digits/spaces; non-trivial = the real lexer produced at least 3 items; distinct by (mode,input)",
		Gen:     genC05lex,
		Timeout: 5 * time.Second,
		Canon: func(impl string) string {
			// the lexer runs in its own goroutine: a runtime panic there kills the worker process
			if impl == "CRASH" {
				return "PANIC"
			}
			return impl
		},
		NTOf: func(c *Case, impl string) bool {
			return strings.HasPrefix(impl, "OK ") && strings.Count(impl, ";") >= 2
		},
		Oracle: func(c *Case, impl string) *Viol {
			switch {
			case strings.HasPrefix(impl, "PANIC"):
				return &Viol{What: "the lexer goroutine panics (kills the process; recover in the caller cannot catch it)"}
			case impl == "HANG" || impl == "OOM":
				return &Viol{What: "the lexer does not terminate"}
			}
			return nil
		},
		KeyOf: lexKeyOf,
	})
}

// lexKeyOf canonicalises a failing lexer input into a known-findings key.
func lexKeyOf(c *Case, impl string) string {
	f := strings.Split(c.Req, "\t")
	class := "lex-panic"
	if impl == "HANG" || impl == "OOM" {
		class = "lex-hang"
	}
	if len(f) == 3 {
		in, _ := unhx(f[2])
		return class + ":" + f[1] + ":" + quote(in)
	}
	return class + ":" + c.Req
}

func lexCase(mode string, in []byte, class string) Case {
	return Case{
		Req:   req("lex", mode, hx(in)),
		Class: mode + "/" + class,
		Note:  "lex(" + mode + "," + quote(in) + ")",
	}
}

// ---- dictionary -----------------------------------------------------------------

var lexSamples = []string{
	"{namespace a.b}\n\n/**\n * Says hello.\n * @param name The name.\n * @param? greeting Optional.\n */\n{template .hello}\n  Hello {$name}!\n{/template}\n",
	"{namespace ns autoescape=\"contextual\"}\n{alias a.b.c}\n{delpackage foo}\n",
	"/** @param x */\n{template .t private=\"true\"}\n{@param x: int = 1}\n{@param? y: list<string>}\n{$x + $y[0]}\n{/template}",
	"{if $a > 1 and not $b}x{elseif $c == 'q'}y{else}z{/if}",
	"{switch $x}{case 1, 2}a{case 'b'}b{default}c{/switch}",
	"{foreach $i in $list}{$i.name|escapeHtml}{ifempty}none{/foreach}",
	"{for $i in range(0, 10, 2)}{$i}{/for}",
	"{call .other data=\"all\"}{param a: 1 /}{param b}x{/param}{/call}",
	"{delcall a.b variant=\"'x'\"}{/delcall}{deltemplate a.b variant=\"'x'\"}{/deltemplate}",
	"{let $x: $a ?: 'd' /}{let $y}text{/let}",
	"{msg desc=\"d\" meaning=\"m\"}Hello {$n}{plural $c}{case 1}one{default}many{/plural}{/msg}",
	"{literal} {a} }{ {/literal}{{literal}} }} { {{/literal}}",
	"{css foo-bar}{css $x, a-b}{{css c}}",
	"a // comment\nb /* block */ c http://x.y/z //eof",
	"// first\n/* a * b **/ text /***/ {sp}{nil}{\\n}{\\r}{\\t}{lb}{rb}",
	"{print $a.b?.c[1]?[2].3 ?: -1}{$m['k']}{[1, 2]}{['a': 1]}{[:]}",
	"{log}x{/log}{debugger}{{$a}}{{if $b}}c{{/if}}{$x /}{{$x /}}",
	"{$a ? $b : $c}{$a?.b ?: $c}{not $a or $b and $c}{-$a - -1}{$a-1}{1-1}{(1)-1}",
	"{1 + 2 * 3 / 4 % 5 - 6 == 7 != 8 < 9 <= 10 > 11 >= 12}",
	"{0x1F + 1.5 + 1e10 + 1.5e-3 + 08 }",
	"{'a\\'b' + \"c\\\"d\" + '\\u00e9\\n'}",
	"{$é + Ωx + x٣}\u00a0\u2028 {\u00a0$a}",
	"/**\n * @param a\n @param? b\n*@param c d\n * @param\n * @paramx\n * @param?x\n */",
	"/** a **/ /** * / */ /***/ /**/",
	"{template .a}{@param x: map<string, list<int>> = ['a': [1]]}{@param? y: [a: int, b: string]}{/template}",
}

var lexExprSamples = []string{
	"$a.b?.c[1]?[2].3 ?: -1",
	"$a ? $b : $c",
	"not $a or $b and $c",
	"-$a - -1 + (-2) * [-3][0]",
	"$a-1 + 1-1 + $a.b-1 + f(1)-1 + $a[0]-1",
	"1 + 2 * 3 / 4 % 5 - 6 == 7 != 8 < 9 <= 10 > 11 >= 12",
	"0x1F + 1.5 + 1e10 + 1.5e-3 + 1e+5 + -0.5",
	"'a\\'b' + \"c\\\"d\" + '\\u00e9\\n'",
	"round($x, 2) + length($l) + keys($m)[0] + isFirst($i)",
	"['a': 1, 'b': [1, 2, 3]] [:] []",
	"$x == null ? true : false",
	"$a?:$b ?: $c ? : $d",
	"a.b.c $ij.foo $é Ωx x٣ _y",
	"1 | 2 |escape:3, 'a'",
	"x=\"y\" data=\"all\" /",
}

func lexDictionary() (file []string, expr []string) {
	t := parse.VerifTables()
	var cmds []string
	for k := range t.BuiltinIdents {
		cmds = append(cmds, k)
	}
	sort.Strings(cmds)
	for _, k := range cmds {
		file = append(file, "{"+k+"}", "{{"+k+"}}", "{"+k+" ", "{"+k+" $x}", "{"+k+"/}", "{ "+k+"}")
		expr = append(expr, k, k+" ")
	}
	var syms []string
	for k := range t.Symbols {
		syms = append(syms, k)
	}
	sort.Strings(syms)
	expr = append(expr, syms...)
	expr = append(expr,
		// delimiters, punctuation
		"{", "{{", "}", "}}", "/}", "/}}", "/", "\\", "=", "==", "!", "!=", "&", "|", ",", "=>", "<>", "!==", "?", "?:", "? :", "?.", "?[", "[", "]", "(", ")", ":", "@", "#", "~", ";", "`", "^",
		// header params
		"@param x: int = 1", "@param? y: list<string>", "@param", "@param ", "@param x", "@param x:", "@param x: ", "@param x: int", "@param x: int ", "@param x: map<a, b> }", "@param?", "@param?x:y=", "@paramx: int", "@para", "@ param x: int", "@param é: ٣ = 1", "@param : }", "@param x : = }",
		// strings
		"'a'", "\"b\"", "''", "\"\"", "'\\''", "'\\", "'a", "\"a", "'é'", "'\\u00e9'", "'a\"b'", "\"a'b\"", "'a\nb'", "'\\\\'", "'\xff'",
		// numbers
		"0", "1", "42", "08", "00", "0x1F", "0x", "0xg", "0x1f", "0xG", "0x1G", "0x1.2", "0x0x1", "0xx1", "00x1", "1.0", "1.", "1.e", "1.e5", ".5", "1e5", "1e+5", "1e-5", "1e", "1e+", "1E5", "1.5e-3", "1.5.2", "-1", "-0", "-08", "-01", "-0x1", "-1.5", "- 1", "+1", "1a", "1_", "1é", "1٣", "1.0a", "1e5x", "1..2", "9999999999999999999999",
		// data refs and idents
		"$a", "$a.b", "?.c", "[1]", "?[2]", ".3", "?.4", "$", ".", "$1", "$a.b?.c[1]?[2].3", "$ij.foo", ".a.b", "$a .b", "$a. b", "$a?. b", "?.?", "??", "?$a", ".é", ".٣", "?.٣", "$é",
		"a", "foo", "foo.bar", "é", "_x", "x1", "in", "Ωx", "x٣", "a\u0301", "isFirst(", "f(1,2)", "x=\"y\"",
		// minus contexts
		"-", "- ", "-$a", "(-1)", "1-1", "$a-1", "$a - 1", "[-1]", ":-1", ",-1", "=-1", "not -1", "--1", "- -1", "-(1)", "1 - -1", "'a'-1", "]-1", ")-1", "true-1", "null-1", "x-1", ".b-1", "?:-1", "?-1", "|-1", "-é", "-.5", "-a",
		// spaces
		" ", "\t", "\n", "\r\n", "\r", "\u00a0", "\u2028", "\u3000", "\v", "\f", "\u0085",
		// bytes: NUL, invalid UTF-8, surrogate, overlong, astral, too large
		"\x00", "\xff", "\xc3", "\xe2\x82", "\xed\xa0\x80", "\xc0\x80", "\xf0\x9f\x98\x80", "\xf4\x90\x80\x80", "\xf0\x9f", "\xe0\x80\x80", "\U00010400", "\U0001d7ce",
	)
	file = append(file,
		"{", "{{", "}", "}}", "/}", "{}", "{{}}", "{ }", "{/}", "{\\}", "{/x}", "{\\x}", "{/ if}", "{{/if}", "{{if}", "{if}}", "{{if $a}}}",
		// soydoc
		"/**", "/** ", " * ", "*/", "/** */", "/***/", "/** * /", "@param x", "@param? y", "@param", "@param ", "@param  ", "@param\t", "@param? ", "@param?  z", "@param?x", "@paramx", "@param x\n", "@param x ", "@param x*/", "/** @param", "/** @param ", "/** @param x", "/** @param x\n", "/** @param? ", "/**\n * @param é ٣\n */", "/** a\r\n * b */", "/** \xff@param x */", "/** é@param x */",
		// header params
		"{@param x: int = 1}", "{@param? y: list<string>}", "{@param", "{@param x", "{@param x:", "{@param x: ", "{@param x: int", "{@param x: int = ", "{{@param x: int}}", "{@param x: [a: int]}", "{@x}", "{ @param x: int}", "{@param x: int\n= 1\n}",
		// css
		"{css foo-bar}", "{{css a}}", "{css $x, b}", "{css", "{css ", "{css}", "{css a", "{{css a}", "{css a}}", "{css é}", "{css\n}", "{cssx}", "{css{}",
		// literal
		"{literal}a{b}{/literal}", "{{literal}} } {{/literal}}", "{literal }", "{literal", "{literal}x", "{literal}{/literal}", "{literal\t }x{/literal}", "{literal\n}", "{literal x}", "{{literal}x{/literal}", "{{literal}}x{/literal}", "{literal}x{{/literal}}", "{literal}}x{/literal}", "{literal}é\xff{/literal}",
		// comments
		"//c\n", " // c\n", "/* c */", "/*", "/* *", "/**/", "/* * /", "http://x", "a//b", "\t//", "\n//x", "//", "// ", "/", "/ /", "a /", "a /*", "//\r", "x // y", "x\u00a0// y", "x\u2028// y", "{sp}//c", "{sp} //c", "} //c", "\x00//c", "a\x00//c", "é//c", " //é\n", "/*é*/",
		// text
		"hello", "a b", "<b>", "a\n  b", "  \n  ", "\n", " ", "é", "\u00a0\n", "\u2028", "\xff\n", "}{",
	)
	return
}

var reLexTok = regexp.MustCompile(`[A-Za-z0-9_]+|\s+|[^A-Za-z0-9_\s]`)

var lexInject = []string{"é", "Ω", "٣", "\u00a0", "\u2028", "\U0001d7ce", "\U00010400", "\xff", "\xc3", "\xed\xa0\x80", "\xc0\x80", "\x00", "{", "}", "/", "*", "-", "?", ".", "'", "\"", "\\", "@", " ", "\n", "0", "x"}

func genC05lex(g *G) {
	// a panic in the lexer goroutine kills the worker; keep its stderr dump to one line
	os.Setenv("GOTRACEBACK", "none")
	fileDict, exprDict := lexDictionary()
	allDict := append(append([]string{}, fileDict...), exprDict...)
	add := func(mode string, s string, class string) { g.Add(lexCase(mode, []byte(s), class)) }
	pickMode := func() string {
		if g.R.Chance(1, 2) {
			return "file"
		}
		return "expr"
	}

	// 1. every dictionary entry alone, in both modes, and every expr entry inside a tag
	for _, s := range fileDict {
		add("file", s, "dict")
		add("expr", s, "dict")
	}
	for _, s := range exprDict {
		add("expr", s, "dict")
		add("file", s, "dict")
		add("file", "{"+s+"}", "dict-in-tag")
		add("file", "{{"+s+"}}", "dict-in-tag")
		add("file", "{print "+s+"}", "dict-in-tag")
	}
	// 2. every prefix of every sample
	for _, s := range lexSamples {
		for i := 0; i <= len(s); i++ {
			add("file", s[:i], "prefix")
		}
		add("expr", s, "sample")
	}
	for _, s := range lexExprSamples {
		for i := 0; i <= len(s); i++ {
			add("expr", s[:i], "prefix")
			add("file", "{"+s[:i], "prefix")
		}
		add("file", "{"+s+"}", "sample")
		add("file", s, "sample")
	}
	// 3. all pairs of a small core (contexts of '-', '/', '?', '.', comments after a token)
	core := []string{"{", "{{", "}", "}}", "/}", "-", "1", "0x1", "$a", ".b", "?.c", "?", ":", "?:", "[", "]", "(", ")", "/", "//", "/*", "*/", "/**", "*", " ", "\n", "'", "\"", "\\", "if", "/if", "css", "literal", "{/literal}", "@param", "@param x", "=", "!", ",", "|", "é", "٣", "\xff", "\u00a0"}
	for _, a := range core {
		for _, b := range core {
			add("file", a+b, "pair")
			add("expr", a+b, "pair")
		}
	}
	// 4. random sequences of dictionary entries
	n := g.N(5000, 110000)
	for i := 0; i < n; i++ {
		mode := pickMode()
		k := 1 + g.R.Intn(6)
		var sb strings.Builder
		if mode == "file" && g.R.Chance(1, 3) {
			sb.WriteString("{")
		}
		for j := 0; j < k; j++ {
			var d []string
			switch r := g.R.Intn(10); {
			case r < 5 && mode == "file":
				d = fileDict
			case r < 8:
				d = exprDict
			default:
				d = allDict
			}
			sb.WriteString(g.R.Pick(d))
			if g.R.Chance(1, 3) {
				sb.WriteString(" ")
			}
		}
		add(mode, sb.String(), "seq")
	}
	// 5. token deletions / duplications / swaps and byte injections on the samples
	n = g.N(4000, 90000)
	for i := 0; i < n; i++ {
		var s, mode string
		if g.R.Chance(2, 3) {
			s, mode = g.R.Pick(lexSamples), "file"
		} else {
			s, mode = g.R.Pick(lexExprSamples), "expr"
			if g.R.Chance(1, 2) {
				s, mode = "{"+s+"}", "file"
			}
		}
		toks := reLexTok.FindAllString(s, -1)
		class := "mutate"
		for m := 1 + g.R.Intn(3); m > 0 && len(toks) > 1; m-- {
			j := g.R.Intn(len(toks))
			switch g.R.Intn(5) {
			case 0: // delete
				toks = append(toks[:j:j], toks[j+1:]...)
			case 1: // duplicate
				toks = append(toks[:j+1:j+1], toks[j:]...)
			case 2: // swap with neighbour
				if j+1 < len(toks) {
					toks[j], toks[j+1] = toks[j+1], toks[j]
				}
			case 3: // replace by an injected fragment
				toks[j] = g.R.Pick(lexInject)
			default: // insert a dictionary entry or an injected fragment
				ins := g.R.Pick(lexInject)
				if g.R.Bool() {
					ins = g.R.Pick(allDict)
				}
				toks = append(toks[:j:j], append([]string{ins}, toks[j:]...)...)
			}
		}
		s = strings.Join(toks, "")
		if g.R.Chance(1, 4) { // truncate
			s = s[:g.R.Intn(len(s)+1)]
			class = "mutate-trunc"
		}
		add(mode, s, class)
	}
	// 6. random bytes over a structural alphabet, incl. arbitrary bytes
	n = g.N(3000, 70000)
	alpha := []string{"{", "}", "/", "*", "-", "?", ".", ":", "$", "'", "\"", "\\", "@", " ", "\n", "\t", "0", "1", "x", "e", "a", "p", "=", "!", "<", "[", "]", "(", ")", ",", "|", "é", "٣", "\u00a0", "\u2028", "\xff", "\xe2", "\x80", "\x00"}
	for i := 0; i < n; i++ {
		l := 1 + g.R.Intn(24)
		var sb strings.Builder
		for j := 0; j < l; j++ {
			switch r := g.R.Intn(20); {
			case r < 16:
				sb.WriteString(g.R.Pick(alpha))
			case r < 18:
				sb.WriteByte(byte(g.R.Intn(256)))
			default:
				sb.WriteString(g.R.Pick(allDict))
			}
		}
		add(pickMode(), sb.String(), "random")
	}
}
