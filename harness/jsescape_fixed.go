package main

// The JavaScript string escaper proposed for soy (see lean/SoyVerif/Model/JsEscape2.lean and the
// theorem Props.C16.jsEscapeFixed_roundtrip_safe).  This file is the exact Go text handed to the
// maintainers; the correspondence C16dir ties it to the Lean model `jsEscapeFixed` (op jsesc2)
// and checks it against the independent evaluator of the oracle.

import (
	"io"
	"strings"
	"unicode"
	"unicode/utf8"
)

var (
	jsfBackslash = []byte(`\\`)
	jsfApos      = []byte(`\'`)
	jsfQuot      = []byte(`\"`)
)

const jsfHex = "0123456789ABCDEF"

// jsWriteU4 writes \uXXXX for a UTF-16 code unit.
func jsWriteU4(w io.Writer, u rune) {
	w.Write([]byte{'\\', 'u', jsfHex[u>>12&0xF], jsfHex[u>>8&0xF], jsfHex[u>>4&0xF], jsfHex[u&0xF]})
}

func jsIsSpecial(r rune) bool {
	switch r {
	case '\\', '\'', '"', '<', '>', '&', '=':
		return true
	}
	return r < ' ' || utf8.RuneSelf <= r
}

// jsEscape writes to w the escaped JavaScript equivalent of the plain text data b:
// text/template.JSEscape, except that runes above 0xFFFF are escaped as UTF-16 surrogate
// pairs, U+2028/U+2029 are always escaped, and invalid UTF-8 is written as \uFFFD.
func jsEscape(w io.Writer, b []byte) {
	last := 0
	for i := 0; i < len(b); i++ {
		c := b[i]
		if !jsIsSpecial(rune(c)) {
			// fast path: nothing to do
			continue
		}
		w.Write(b[last:i])

		if c < utf8.RuneSelf {
			// Quotes and backslashes get quoted;
			// angle brackets, & = and control characters get written as \u00XX.
			switch c {
			case '\\':
				w.Write(jsfBackslash)
			case '\'':
				w.Write(jsfApos)
			case '"':
				w.Write(jsfQuot)
			default:
				jsWriteU4(w, rune(c))
			}
		} else {
			// Unicode rune.
			r, size := utf8.DecodeRune(b[i:])
			switch {
			case r == utf8.RuneError && size == 1:
				jsWriteU4(w, utf8.RuneError)
			case r != '\u2028' && r != '\u2029' && unicode.IsPrint(r):
				w.Write(b[i : i+size])
			case r > 0xFFFF:
				// JavaScript strings are UTF-16: \uXXXX takes exactly four digits.
				r -= 0x10000
				jsWriteU4(w, 0xD800+r>>10)
				jsWriteU4(w, 0xDC00+r&0x3FF)
			default:
				jsWriteU4(w, r)
			}
			i += size - 1
		}
		last = i + 1
	}
	w.Write(b[last:])
}

// jsEscapeString returns the escaped JavaScript equivalent of the plain text data s.
func jsEscapeString(s string) string {
	// Avoid allocation if we can.
	if strings.IndexFunc(s, jsIsSpecial) < 0 {
		return s
	}
	var b strings.Builder
	jsEscape(&b, []byte(s))
	return b.String()
}
