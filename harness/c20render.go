package main

import (
	"bytes"
	"fmt"
	"reflect"
	"strconv"
	"time"

	"github.com/robfig/soy/data"
	"github.com/robfig/soy/soyhtml"
)

// C20render: the conversion as a render sees it.  Tofu.Render(obj) converts obj with data.New and renders with the
// resulting map: for every Go value — structs by value and by pointer, ALL-ZERO structs, nil pointers, nil and empty
// maps, maps of structs — the output is the output of Execute(data.New(obj)) (a value that does not convert to a map
// is an error, never silently "no data"), and the struct fields are found under their lowerCamel names.

type c20Inner struct {
	Label  string
	Weight int
}

type c20Outer struct {
	Count    int
	Name     string
	Ratio    float64
	Ok       bool
	Inner    c20Inner
	InnerPtr *c20Inner
	Items    []c20Inner
	ByName   map[string]int
}

func init() {
	register(&Prop{
		ID: "C20render",
		Rule: "Tofu.Render with Go values (struct by value / by pointer / all-zero / nil pointer, nil and empty maps, maps holding structs, non-map values) versus Renderer.Execute on data.New of the same value, on a template that prints every field under its lowerCamel name and tests every field for definedness; " +
			"oracle: identical outcome (bytes, or an error for a value that is not a map); non-trivial = the value is a struct or holds one",
		Direct: directC20render,
	})
}

type c20Money struct{ Cents int }

func (m c20Money) MarshalValue() data.Value { return data.String("$" + strconv.Itoa(m.Cents)) }

// corners of the conversion itself that the generated values do not reach: the zero StructOptions (the "other
// setting": TimeFormat empty = ISO-8601 by its documentation), nil pointers to types with a value-receiver marshaler
func directC20corners(rep *Report) {
	tm := time.Date(2021, 3, 4, 5, 6, 7, 0, time.UTC)
	check := func(key, what string, f func() data.Value, want data.Value) {
		var got data.Value
		c := guarded(5e9, func() { got = f() })
		rep.Evaluations++
		if c != "" || got == nil || !((got.Equals(want) || reflect.DeepEqual(got, want)) && fmt.Sprintf("%T", got) == fmt.Sprintf("%T", want)) {
			rep.Violations = append(rep.Violations, Viol{Key: "c20corner:" + key, What: what, Req: req("c20corner", hxs(key)), Impl: c + " " + fmt.Sprintf("%#v", got), Want: fmt.Sprintf("%#v", want)})
		} else {
			rep.DistinctNT++
		}
	}
	for _, lc := range []bool{false, true} {
		opts := data.StructOptions{LowerCamel: lc} // TimeFormat left empty
		check("time-empty-format", "a time value converted under StructOptions with an empty TimeFormat is not its ISO-8601 text", func() data.Value { return data.NewWith(opts, tm) }, data.String(tm.Format(time.RFC3339)))
		check("time-empty-format-nested", "a time value inside a slice, converted with an empty TimeFormat, is not its ISO-8601 text", func() data.Value { return data.NewWith(opts, []time.Time{tm}).(data.List)[0] }, data.String(tm.Format(time.RFC3339)))
	}
	var nilMoney *c20Money
	check("nil-marshaler-pointer", "a nil pointer to a type with a value-receiver MarshalValue does not convert to null", func() data.Value { return data.New(nilMoney) }, data.Null{})
	check("nil-marshaler-pointer-in-struct", "a nil pointer field of a marshaler type does not convert to null", func() data.Value {
		return data.New(struct{ Price *c20Money }{nil}).(data.Map)["price"]
	}, data.Null{})
	check("nil-marshaler-pointer-in-slice", "a nil pointer to a marshaler in a slice does not convert to null", func() data.Value {
		return data.New([]*c20Money{{Cents: 5}, nil}).(data.List)[1]
	}, data.Null{})
	check("marshaler-pointer", "a non-nil pointer to a marshaler converts through MarshalValue", func() data.Value { return data.New(&c20Money{Cents: 7}) }, data.String("$7"))
	// named types: the KIND decides (a map keyed by a named string type is a map with string keys; named ints, floats,
	// bools, strings, slices convert as their underlying kinds), at the top and nested
	type locale string
	type count int32
	type ratio float32
	type flag bool
	type names []locale
	check("named-string-keys", "a map whose key type is a named string type does not convert like a map[string]", func() data.Value { return data.New(map[locale]int{"en": 1, "fr": 2}) }, data.Map{"en": data.Int(1), "fr": data.Int(2)})
	check("named-string-keys-nested", "a nested map whose key type is a named string type does not convert like a map[string]", func() data.Value {
		return data.New(struct{ ByLocale map[locale][]count }{map[locale][]count{"en": {1, 2}}})
	}, data.Map{"byLocale": data.Map{"en": data.List{data.Int(1), data.Int(2)}}})
	check("named-scalars", "named scalar and slice types do not convert as their underlying kinds", func() data.Value {
		return data.New([]interface{}{locale("de"), count(7), ratio(0.5), flag(true), names{"a", "b"}, map[locale]flag{"x": false}})
	}, data.List{data.String("de"), data.Int(7), data.Float(0.5), data.Bool(true), data.List{data.String("a"), data.String("b")}, data.Map{"x": data.Bool(false)}})
}

func directC20render(g *G, rep *Report) {
	directC20corners(rep)
	src := "{namespace cr}\n/**\n * @param? count\n * @param? name\n * @param? ratio\n * @param? ok\n * @param? inner\n * @param? innerPtr\n * @param? items\n * @param? byName\n * @param? v\n */\n{template .t}\n" +
		"count={$count}/{isNonnull($count)} name={$name}/{isNonnull($name)} ratio={$ratio}/{isNonnull($ratio)} ok={$ok}/{isNonnull($ok)} " +
		"inner={$inner?.label}:{$inner?.weight}/{isNonnull($inner)} ptr={$innerPtr?.label}/{isNonnull($innerPtr)} items={if $items}{foreach $i in $items}[{$i.label}{$i.weight}]{/foreach}{/if}/{isNonnull($items)} " +
		"byName={$byName?.a}/{isNonnull($byName)} v={$v?.count}/{$v?.inner?.label}/{isNonnull($v)}\n{/template}\n"
	reg, err := compileBundle([]srcFile{{"cr.soy", src}})
	if err != nil {
		rep.Violations = append(rep.Violations, Viol{Key: "c20render:setup", What: "probe template does not compile: " + err.Error(), Req: "(setup)", Impl: "ERR", Want: "compiles"})
		return
	}
	tofu := soyhtml.NewTofu(reg)
	r := g.R.Fork()
	mkInner := func() c20Inner {
		if r.Intn(3) == 0 {
			return c20Inner{}
		}
		return c20Inner{Label: []string{"a", "<b>", ""}[r.Intn(3)], Weight: r.Intn(3)}
	}
	mkOuter := func() c20Outer {
		var o c20Outer
		if r.Intn(4) == 0 {
			return o // all zero
		}
		o.Count, o.Name, o.Ratio, o.Ok = r.Intn(3), []string{"", "n"}[r.Intn(2)], float64(r.Intn(3))/2, r.Bool()
		o.Inner = mkInner()
		if r.Bool() {
			in := mkInner()
			o.InnerPtr = &in
		}
		for k := r.Intn(3); k > 0; k-- {
			o.Items = append(o.Items, mkInner())
		}
		if r.Bool() {
			o.ByName = map[string]int{"a": r.Intn(3)}
		}
		return o
	}
	var objs []interface{}
	var nilOuter *c20Outer
	var nilMap map[string]interface{}
	zero := c20Outer{}
	objs = append(objs, nil, zero, &zero, nilOuter, nilMap, map[string]interface{}{}, data.Map{}, data.Map(nil), c20Inner{}, &c20Inner{},
		map[string]interface{}{"v": zero}, map[string]interface{}{"v": &zero}, map[string]interface{}{"v": nilOuter}, map[string]c20Outer{"v": {}},
		42, "str", []int{1}, []c20Outer{{}}, true, 1.5, data.Int(3), data.List{}, &nilOuter)
	for i := 0; i < g.N(300, 5000); i++ {
		o := mkOuter()
		switch r.Intn(4) {
		case 0:
			objs = append(objs, o)
		case 1:
			objs = append(objs, &o)
		case 2:
			objs = append(objs, map[string]interface{}{"v": o, "count": r.Intn(2)})
		default:
			objs = append(objs, map[string]*c20Outer{"v": &o})
		}
	}
	for _, obj := range objs {
		// reference: the conversion, then the render of the map
		var want string
		func() {
			defer func() {
				if e := recover(); e != nil {
					want = "PANIC-IN-CONVERSION"
				}
			}()
			if obj == nil {
				var buf bytes.Buffer
				err := tofu.NewRenderer("cr.t").Execute(&buf, nil)
				want = errText(err) + " " + buf.String()
				return
			}
			m, ok := data.New(obj).(data.Map)
			if !ok {
				want = "ERR (not a map)"
				return
			}
			var buf bytes.Buffer
			err := tofu.NewRenderer("cr.t").Execute(&buf, m)
			want = errText(err) + " " + buf.String()
		}()
		var got string
		if c := guarded(5e9, func() {
			var buf bytes.Buffer
			err := tofu.Render(&buf, "cr.t", obj)
			if err != nil && buf.Len() == 0 {
				got = "ERR (not a map)"
				if want != "ERR (not a map)" {
					got = "ERR " + err.Error() + " "
				}
				return
			}
			got = errText(err) + " " + buf.String()
		}); c != "" {
			got = c
		}
		if want == "PANIC-IN-CONVERSION" {
			rep.Distribution["conversion-panics"]++
			continue
		}
		rep.Evaluations++
		kind := fmt.Sprintf("%T", obj)
		rep.Distribution[kind]++
		if got != want {
			if len(rep.Violations) < 20 {
				rep.Violations = append(rep.Violations, Viol{Key: "c20render:" + kind, What: "Tofu.Render of a " + kind + " differs from rendering data.New of it",
					Req: req("c20render", hxs(fmt.Sprintf("%#v", obj))), Note: fmt.Sprintf("%#v", obj), Impl: strconv.Quote(got), Want: strconv.Quote(want)})
			}
		} else if kind != "<nil>" {
			rep.DistinctNT++
		}
	}
}
