package main

import (
	"strconv"
	"strings"
)

// C01prec: operator precedence and associativity as THE LANGUAGE defines them (the table of the language
// reference, written down here — not the parser's table):
//
//	8  - (unary)  not          6  + -            4  == !=        2  or
//	7  * / %                   5  < > <= >=      3  and          1  ?: and the ternary ? :  (right-associative)
//
// binary operators of levels 2..7 associate to the left.  A random expression tree is written twice: fully
// parenthesised, and with exactly the parentheses that table requires; both spellings must compile and render the
// same text (or fail alike).  The parser's own table never enters: a disagreement is a precedence defect.

type precNode struct {
	op      string // "" = atom; "neg", "not", "tern", or a binary operator
	atom    string
	a, b, c *precNode
}

var precLevel = map[string]int{"?:": 1, "tern": 1, "or": 2, "and": 3, "==": 4, "!=": 4, "<": 5, ">": 5, "<=": 5, ">=": 5, "+": 6, "-": 6, "*": 7, "/": 7, "%": 7, "neg": 8, "not": 8}

func (n *precNode) level() int {
	if n.op == "" {
		return 9
	}
	return precLevel[n.op]
}

func (n *precNode) full() string {
	switch n.op {
	case "":
		return n.atom
	case "neg":
		return "(-" + n.a.full() + ")"
	case "not":
		return "(not " + n.a.full() + ")"
	case "tern":
		return "(" + n.a.full() + " ? " + n.b.full() + " : " + n.c.full() + ")"
	}
	return "(" + n.a.full() + " " + n.op + " " + n.b.full() + ")"
}

// minimal parentheses by the language's table
func (n *precNode) minimal() string {
	wrap := func(c *precNode, need int) string {
		s := c.minimal()
		if c.level() < need {
			return "(" + s + ")"
		}
		return s
	}
	switch n.op {
	case "":
		return n.atom
	case "neg":
		s := wrap(n.a, 8)
		if strings.HasPrefix(s, "-") {
			return "- " + s
		}
		return "-" + s
	case "not":
		return "not " + wrap(n.a, 8)
	case "tern":
		// right-associative, lowest level: the condition needs parentheses when it is itself at level 1
		return wrap(n.a, 2) + " ? " + wrap(n.b, 1) + " : " + wrap(n.c, 1)
	case "?:":
		return wrap(n.a, 2) + " ?: " + wrap(n.b, 1)
	}
	l := n.level()
	return wrap(n.a, l) + " " + n.op + " " + wrap(n.b, l+1)
}

func init() {
	register(&Prop{
		ID: "C01prec",
		Rule: "random expression trees (depth 1-3) over integers, booleans, null and the operators - not * / % + - < > <= >= == != and or ?: ?:(ternary), typed so that most of them have a value; each written fully parenthesised and with the minimal parentheses of the LANGUAGE's precedence table (relational above equality; ?: and the ternary lowest and right-associative; the others left-associative); " +
			"oracle: both spellings compile and render alike; non-trivial = the minimal spelling has fewer parentheses than the full one",
		Direct: directC01prec,
	})
}

func directC01prec(g *G, rep *Report) {
	r := g.R.Fork()
	ints := []string{"$i", "$j", "1", "2", "7", "0"}
	bools := []string{"$b", "$c", "true", "false"}
	var gen func(d int, t byte) *precNode // t: 'i' int, 'b' bool, 'n' nullable int
	gen = func(d int, t byte) *precNode {
		if d == 0 {
			switch t {
			case 'b':
				return &precNode{atom: bools[r.Intn(len(bools))]}
			case 'n':
				return &precNode{atom: []string{"$n", "null", "$i", "3"}[r.Intn(4)]}
			}
			return &precNode{atom: ints[r.Intn(len(ints))]}
		}
		switch t {
		case 'b':
			switch r.Intn(7) {
			case 0:
				return &precNode{op: "not", a: gen(d-1, 'b')}
			case 1:
				return &precNode{op: []string{"and", "or"}[r.Intn(2)], a: gen(d-1, 'b'), b: gen(d-1, 'b')}
			case 2:
				return &precNode{op: []string{"<", ">", "<=", ">="}[r.Intn(4)], a: gen(d-1, 'i'), b: gen(d-1, 'i')}
			case 3:
				return &precNode{op: []string{"==", "!="}[r.Intn(2)], a: gen(d-1, 'i'), b: gen(d-1, 'i')}
			case 4:
				return &precNode{op: []string{"==", "!="}[r.Intn(2)], a: gen(d-1, 'b'), b: gen(d-1, 'b')}
			case 5:
				return &precNode{op: "tern", a: gen(d-1, 'b'), b: gen(d-1, 'b'), c: gen(d-1, 'b')}
			}
			return gen(0, 'b')
		default:
			switch r.Intn(7) {
			case 0:
				return &precNode{op: "neg", a: gen(d-1, 'i')}
			case 1:
				return &precNode{op: []string{"+", "-"}[r.Intn(2)], a: gen(d-1, 'i'), b: gen(d-1, 'i')}
			case 2:
				return &precNode{op: "*", a: gen(d-1, 'i'), b: gen(d-1, 'i')}
			case 3:
				return &precNode{op: "tern", a: gen(d-1, 'b'), b: gen(d-1, 'i'), c: gen(d-1, 'i')}
			case 4:
				return &precNode{op: "?:", a: gen(d-1, 'n'), b: gen(d-1, 'i')}
			case 5:
				return &precNode{op: "%", a: gen(d-1, 'i'), b: &precNode{atom: []string{"3", "5", "7"}[r.Intn(3)]}}
			}
			return gen(0, t)
		}
	}
	d := toData(map[string]interface{}{"i": int64(5), "j": int64(-3), "b": true, "c": false, "n": nil})
	run := func(e string) (string, string) {
		src := "{namespace p}\n/**\n * @param? i\n * @param? j\n * @param? b\n * @param? c\n * @param? n\n */\n{template .t}\n{if false}{$i}{$j}{$b}{$c}{$n}{/if}{" + e + "}\n{/template}\n"
		reg, err := compileBundle([]srcFile{{"p.soy", src}})
		if err != nil {
			return "", "COMPILE-ERR " + err.Error()
		}
		return renderSafe(reg, "p.t", d, nil)
	}
	seen := map[string]bool{}
	n := g.N(3000, 60000)
	for i := 0; i < n; i++ {
		t := gen(1+r.Intn(3), []byte{'i', 'b'}[r.Intn(2)])
		full, min := t.full(), t.minimal()
		if seen[min] {
			continue
		}
		seen[min] = true
		o1, c1 := run(full)
		o2, c2 := run(min)
		rep.Evaluations++
		cls := c1
		if strings.HasPrefix(cls, "COMPILE-ERR") {
			cls = "COMPILE-ERR"
		}
		rep.Distribution[cls]++
		if strings.HasPrefix(c1, "COMPILE-ERR") {
			continue // the fully parenthesised spelling is not accepted: not a statement about precedence
		}
		c2k := c2
		if strings.HasPrefix(c2k, "COMPILE-ERR") {
			c2k = "COMPILE-ERR"
		}
		if c1 != c2k || o1 != o2 {
			if len(rep.Violations) < 20 {
				key := "c01prec:"
				switch {
				case strings.Contains(min, "?:") && strings.Contains(min, " ? "):
					key += "elvis-with-ternary"
				case strings.Contains(min, "?:"):
					key += "elvis"
				case strings.Contains(min, " ? "):
					key += "ternary"
				default:
					key += "binary"
				}
				rep.Violations = append(rep.Violations, Viol{Key: key, What: "the expression " + strconv.Quote(min) + " does not mean " + strconv.Quote(full) + " as the language's precedence and associativity say",
					Req: req("c01prec", hxs(min), hxs(full)), Note: min + "  vs  " + full, Impl: c2 + " " + strconv.Quote(o2), Want: c1 + " " + strconv.Quote(o1)})
			}
			continue
		}
		if strings.Count(min, "(") < strings.Count(full, "(") {
			rep.DistinctNT++
		}
	}
}
