package main

// C16json — the `json` print directive on arbitrary Soy values (strings, ints, floats, bools,
// null/undefined, lists, maps): correspondence of the model `jsonMarshal` (Model/JsonMarshal.lean)
// with soyhtml's directiveJson = encoding/json.Marshal on the data.Value types, and an oracle written
// from the property statement ("json output parses to a value structurally equal to the input"):
// the output is decoded by Go's own JSON decoder (numbers kept as literals) and compared with the
// input value — ints exactly, floats by ParseFloat of the literal, strings up to the replacement of
// invalid bytes by U+FFFD, lists elementwise, maps as maps; nil lists and nil maps and undefined read
// back as null.  A second request per case sends the implementation's output through the
// SPECIFICATION decoder of Spec/Json.lean (`jsondec`): the text must be JSON by RFC 8259.

import (
	"bytes"
	"encoding/json"
	"fmt"
	"math"
	"strconv"
	"strings"

	"github.com/robfig/soy/data"
	"github.com/robfig/soy/soyhtml"
)

// strings that exercise every branch of the string encoder (also used as map keys)
var c16jsonStrings = []string{
	"", "a", "a<b>&c", "</script>", "\"", "\\", "a\"b\\c", "'", "/", "\b\f\n\r\t", "\x00", "\x01\x1f", "\x7f",
	"\u00e9", "\u20ac", "\U0001F600", "\U0010FFFF", "\uFFFD", "\u2028", "\u2029", "a\u2028b\u2029c", "\ud7ff", "\ue000",
	"\xff", "\x80", "a\x80b", "\xc2", "\xe2\x82", "\xe2\x80", "\xed\xa0\x80", "\xf0\x9f\x98", "\xf4\x90\x80\x80", "\xc0\x80", "\xe2\x80\xe2\x80\xa8",
	"<\x80>", "&\xc2", "\xf0\x9f\x98<", "\\u0041", "\\\"", "]]>", "<!--", "-->", "{}", "[1,2]", "null", "true", "1e5", "\u00e9\xff\u00e9",
}

func c16Value(vg *vgen, depth int) *VNode {
	r := vg.g.R
	if depth <= 0 || r.Chance(1, 2) {
		switch r.Intn(4) {
		case 0:
			return &VNode{Kind: 'S', S: []byte(c16jsonStrings[r.Intn(len(c16jsonStrings))])}
		case 1:
			return &VNode{Kind: 'S', S: escRandString(r)}
		}
		return vg.scalar()
	}
	if r.Bool() {
		n := r.Intn(4)
		if n == 0 {
			return &VNode{Kind: 'L', ID: r.Intn(2)}
		}
		l := &VNode{Kind: 'L', ID: vg.nextID}
		vg.nextID++
		for i := 0; i < n; i++ {
			l.Xs = append(l.Xs, c16Value(vg, depth-1))
		}
		return l
	}
	n := r.Intn(5)
	if n == 0 && r.Bool() {
		return &VNode{Kind: 'M', ID: 0}
	}
	m := &VNode{Kind: 'M', ID: vg.nextID}
	vg.nextID++
	used := map[string]bool{}
	for i := 0; i < n; i++ {
		var k string
		if r.Bool() {
			k = c20Keys[r.Intn(len(c20Keys))]
		} else {
			k = c16jsonStrings[r.Intn(len(c16jsonStrings))]
		}
		if used[k] {
			continue
		}
		used[k] = true
		m.Keys = append(m.Keys, []byte(k))
		m.Xs = append(m.Xs, c16Value(vg, depth-1))
	}
	return m
}

func c16jsonCase(v *VNode) Case {
	nt := v.Kind == 'S' || v.Kind == 'L' || v.Kind == 'M' || v.Kind == 'D'
	return Case{Req: req("jsonval", v.String()), NT: nt, Class: "jsonval:" + string(v.Kind), Note: "json " + v.String()}
}

func genC16json(g *G) {
	g.R = g.R.Fork()
	// every special scalar
	for _, k := range "UNTF" {
		g.Add(c16jsonCase(&VNode{Kind: byte(k)}))
	}
	for _, i := range c20Ints {
		g.Add(c16jsonCase(&VNode{Kind: 'I', I: uint64(i)}))
	}
	for _, f := range c20Floats {
		g.Add(c16jsonCase(&VNode{Kind: 'D', I: math.Float64bits(f)}))
		g.Add(c16jsonCase(&VNode{Kind: 'D', I: math.Float64bits(-f)}))
	}
	for _, f := range []float64{1e-6, 9.999999e-7, 1e-7, 1e20, 1e21, 9.999999999999999e20, 1.5e300, 5e-324, math.MaxFloat64, 123456789012345680000, 0.000001234, 100, 1e-9, 1.2e-9, 1e22} {
		g.Add(c16jsonCase(&VNode{Kind: 'D', I: math.Float64bits(f)}))
		g.Add(c16jsonCase(&VNode{Kind: 'D', I: math.Float64bits(-f)}))
	}
	g.Add(c16jsonCase(&VNode{Kind: 'D', I: nanBits}))
	g.Add(c16jsonCase(&VNode{Kind: 'D', I: math.Float64bits(math.Inf(1))}))
	g.Add(c16jsonCase(&VNode{Kind: 'D', I: math.Float64bits(math.Inf(-1))}))
	for _, s := range c16jsonStrings {
		g.Add(c16jsonCase(&VNode{Kind: 'S', S: []byte(s)}))
		// as the only key and the only value of a map, and inside a list
		g.Add(c16jsonCase(&VNode{Kind: 'M', ID: 2, Keys: [][]byte{[]byte(s)}, Xs: []*VNode{{Kind: 'S', S: []byte(s)}}}))
		g.Add(c16jsonCase(&VNode{Kind: 'L', ID: 2, Xs: []*VNode{{Kind: 'S', S: []byte(s)}, {Kind: 'I', I: 1}}}))
	}
	for b := 0; b < 256; b++ {
		g.Add(c16jsonCase(&VNode{Kind: 'S', S: []byte{byte(b)}}))
	}
	// collections: nil / empty, key order, nesting, a NaN deep inside
	g.Add(c16jsonCase(&VNode{Kind: 'L', ID: 0}))
	g.Add(c16jsonCase(&VNode{Kind: 'L', ID: 1}))
	g.Add(c16jsonCase(&VNode{Kind: 'M', ID: 0}))
	g.Add(c16jsonCase(&VNode{Kind: 'M', ID: 2}))
	g.Add(c16jsonCase(&VNode{Kind: 'M', ID: 5, Keys: [][]byte{[]byte("b"), []byte("a"), []byte("B"), []byte(""), []byte("ab"), []byte("\xc3\xa9"), []byte("\xff")},
		Xs: []*VNode{{Kind: 'U'}, {Kind: 'I', I: 1}, {Kind: 'N'}, {Kind: 'T'}, {Kind: 'L', ID: 0}, {Kind: 'M', ID: 0}, {Kind: 'D', I: math.Float64bits(1.5)}}}))
	g.Add(c16jsonCase(&VNode{Kind: 'L', ID: 3, Xs: []*VNode{{Kind: 'L', ID: 4, Xs: []*VNode{{Kind: 'M', ID: 6, Keys: [][]byte{[]byte("k")}, Xs: []*VNode{{Kind: 'D', I: nanBits}}}}}}}))
	n := g.N(6000, 120000)
	for i := 0; i < n; i++ {
		g.Add(c16jsonCase(c16Value(newVgen(g), 3)))
	}
}

// --- oracle: Go's decoder on the implementation's output, compared with the input value ---

func c16Sanitize(s []byte) string { return string([]rune(string(s))) } // each invalid byte -> U+FFFD

func c16Equal(n *VNode, x interface{}, path string) string {
	switch n.Kind {
	case 'U', 'N':
		if x != nil {
			return path + ": null expected"
		}
	case 'T', 'F':
		b, ok := x.(bool)
		if !ok || b != (n.Kind == 'T') {
			return path + ": boolean differs"
		}
	case 'I':
		num, ok := x.(json.Number)
		if !ok {
			return path + ": a number expected"
		}
		i, err := strconv.ParseInt(string(num), 10, 64)
		if err != nil || i != int64(n.I) {
			return fmt.Sprintf("%s: integer %d reads back as %s", path, int64(n.I), num)
		}
	case 'D':
		num, ok := x.(json.Number)
		if !ok {
			return path + ": a number expected"
		}
		f, err := strconv.ParseFloat(string(num), 64)
		want := math.Float64frombits(n.I)
		if err != nil || math.Float64bits(f) != math.Float64bits(want) {
			return fmt.Sprintf("%s: float %v reads back as %s", path, want, num)
		}
	case 'S':
		s, ok := x.(string)
		if !ok || s != c16Sanitize(n.S) {
			return path + ": string differs"
		}
	case 'L':
		if n.ID == 0 {
			if x != nil {
				return path + ": nil list must read back as null"
			}
			return ""
		}
		l, ok := x.([]interface{})
		if !ok || len(l) != len(n.Xs) {
			return path + ": list of another length"
		}
		for i, e := range n.Xs {
			if why := c16Equal(e, l[i], fmt.Sprintf("%s[%d]", path, i)); why != "" {
				return why
			}
		}
	case 'M':
		if n.ID == 0 {
			if x != nil {
				return path + ": nil map must read back as null"
			}
			return ""
		}
		m, ok := x.(map[string]interface{})
		if !ok {
			return path + ": an object expected"
		}
		// distinct keys may coincide after the replacement of invalid bytes: then only membership is judged
		want := map[string]*VNode{}
		collide := false
		for i, k := range n.Keys {
			sk := c16Sanitize(k)
			if _, dup := want[sk]; dup {
				collide = true
			}
			want[sk] = n.Xs[i]
		}
		if !collide && len(m) != len(want) {
			return path + ": object with another number of members"
		}
		if collide {
			return ""
		}
		for k, e := range want {
			y, ok := m[k]
			if !ok {
				return path + ": member missing"
			}
			if why := c16Equal(e, y, path+"."+k); why != "" {
				return why
			}
		}
	}
	return ""
}

func c16HasNonFinite(n *VNode) bool {
	if n.Kind == 'D' {
		f := math.Float64frombits(n.I)
		return f != f || math.IsInf(f, 0)
	}
	if n.Kind == 'L' && n.ID == 0 || n.Kind == 'M' && n.ID == 0 {
		return false
	}
	for _, x := range n.Xs {
		if c16HasNonFinite(x) {
			return true
		}
	}
	return false
}

func oracleC16json(c *Case, impl string) *Viol {
	f := strings.Split(c.Req, "\t")
	if f[0] != "jsonval" {
		return nil
	}
	n := decVField(f[1])
	viol := func(key, what string) *Viol { return &Viol{Key: "c16json:" + key, What: what} }
	if c16HasNonFinite(n) {
		// NaN / Inf have no JSON form: the directive must fail cleanly (a render error), never write text
		if strings.HasPrefix(impl, "OK") {
			return viol("nonfinite", "a value containing NaN or an infinity was written as JSON")
		}
		return nil
	}
	if !strings.HasPrefix(impl, "OK ") {
		return viol("fail", "json failed on a value with a JSON form: "+impl)
	}
	out, ok := unhx(strings.TrimPrefix(impl, "OK "))
	if !ok {
		return viol("answer", "malformed answer")
	}
	dec := json.NewDecoder(bytes.NewReader(out))
	dec.UseNumber()
	var x interface{}
	if err := dec.Decode(&x); err != nil {
		return viol("notjson", "the output is not JSON: "+err.Error())
	}
	if dec.More() {
		return viol("trailing", "text after the JSON value")
	}
	if why := c16Equal(n, x, "$"); why != "" {
		return viol("differs", "the output parses to another value: "+why)
	}
	// embedding safety of the whole text (strings are the only place where these bytes could occur)
	for _, b := range out {
		if b < 0x20 || b == '<' || b == '>' || b == '&' {
			return viol("unsafe", "raw control character or < > & in the output")
		}
	}
	if bytes.Contains(out, []byte("\u2028")) || bytes.Contains(out, []byte("\u2029")) {
		return viol("unsafe", "raw U+2028 / U+2029 in the output")
	}
	return nil
}

func init() {
	implOps["jsonval"] = func(f []string) string {
		return protect(func() string {
			v := decVField(f[0]).build(newIDTable())
			fn := soyhtml.PrintDirectives["json"].Apply
			var res data.Value
			failed := func() (p bool) {
				defer func() {
					if recover() != nil {
						p = true
					}
				}()
				res = fn(v, nil)
				return false
			}()
			if failed {
				return "ERR"
			}
			s, ok := res.(data.String)
			if !ok {
				return "ERR"
			}
			return "OK " + hx([]byte(s))
		})
	}
	register(&Prop{
		ID: "C16json",
		Rule: "jsonval(v): the json directive on Soy values — every special scalar (ints at the int64 / 2^53 edges, floats at the 1e-6 / 1e21 layout " +
			"thresholds, both zeros, NaN, ±Inf), every single byte and ~50 special strings (quotes, backslashes, control characters, </script>, astral, " +
			"U+2028/9, invalid UTF-8) as value, as map key and inside a list, nil / empty collections, random nested values; the output is decoded by " +
			"Go's JSON decoder and compared structurally with the input; non-trivial = string, float, list or map at the root",
		Gen:    genC16json,
		Oracle: oracleC16json,
	})
}
