package main

import (
	"errors"
	"sync"
	"time"

	soy "github.com/robfig/soy"
	"github.com/robfig/soy/template"
)

// The worker compiles each distinct bundle once (requests for the same bundle differ
// only in template / data / fault plan).

var (
	ccMu    sync.Mutex
	ccKey   []string
	ccCache = map[string]*ccEntry{}
)

type ccEntry struct {
	reg *template.Registry
	err error
}

func compileBundle(fs []srcFile) (reg *template.Registry, err error) {
	switch guarded(10*time.Second, func() {
		b := soy.NewBundle()
		for _, f := range fs {
			b.AddTemplateString(f.name, f.content)
		}
		reg, err = b.Compile()
	}) {
	case "HANG":
		return nil, errHang
	case "PANIC":
		return nil, errors.New("PANIC in Bundle.Compile")
	}
	return
}

func compileCached(enc string) (*template.Registry, error) {
	ccMu.Lock()
	defer ccMu.Unlock()
	if e, ok := ccCache[enc]; ok {
		return e.reg, e.err
	}
	reg, err := compileBundle(decSources(enc))
	if len(ccKey) >= 64 {
		delete(ccCache, ccKey[0])
		ccKey = ccKey[1:]
	}
	ccKey = append(ccKey, enc)
	ccCache[enc] = &ccEntry{reg, err}
	return reg, err
}
