//go:build race

package main

const raceEnabled = true
