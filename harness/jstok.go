package main

import (
	"strings"
	"unicode"
	"unicode/utf8"
)

// A small JavaScript tokenizer for the text soyjs emits: string literals (kept verbatim,
// quotes included), numbers, identifiers, punctuators; white space and comments are dropped.
// Generated code contains no regular-expression literals and no template strings.
// Both the implementation's and the model's JavaScript go through it, so a change of
// indentation or line breaks in the emitter is not a difference, while every literal is.

var jsPuncts = []string{
	">>>=", "===", "!==", ">>>", "<<=", ">>=", "**=",
	"==", "!=", "<=", ">=", "&&", "||", "++", "--", "+=", "-=", "*=", "/=", "%=", "&=", "|=", "^=", "<<", ">>", "=>",
	"{", "}", "(", ")", "[", "]", ";", ",", "<", ">", "+", "-", "*", "/", "%", "&", "|", "^", "!", "~", "?", ":", "=", ".",
}

func jsIdentStart(r rune) bool {
	return r == '$' || r == '_' || unicode.IsLetter(r)
}

func jsIdentPart(r rune) bool {
	return jsIdentStart(r) || unicode.IsDigit(r) || unicode.Is(unicode.Mn, r) || unicode.Is(unicode.Mc, r) || unicode.Is(unicode.Pc, r)
}

// jsTokens returns the token stream; ok=false on text the tokenizer cannot split
// (unterminated string or comment, a byte that starts no token).
func jsTokens(src string) (toks []string, ok bool) {
	i := 0
	for i < len(src) {
		c := src[i]
		switch {
		case c == ' ' || c == '\t' || c == '\n' || c == '\r':
			i++
		case c == '/' && i+1 < len(src) && src[i+1] == '/':
			for i < len(src) && src[i] != '\n' {
				i++
			}
		case c == '/' && i+1 < len(src) && src[i+1] == '*':
			j := strings.Index(src[i+2:], "*/")
			if j < 0 {
				return toks, false
			}
			i += j + 4
		case c == '\'' || c == '"':
			j := i + 1
			for j < len(src) && src[j] != c {
				if src[j] == '\\' {
					j++
				}
				if j < len(src) && src[j] == '\n' {
					return toks, false
				}
				j++
			}
			if j >= len(src) {
				return toks, false
			}
			toks = append(toks, src[i:j+1])
			i = j + 1
		case c >= '0' && c <= '9' || (c == '.' && i+1 < len(src) && src[i+1] >= '0' && src[i+1] <= '9'):
			j := i
			for j < len(src) {
				d := src[j]
				if d >= '0' && d <= '9' || d == '.' || d >= 'a' && d <= 'z' || d >= 'A' && d <= 'Z' || d == '_' {
					if (d == 'e' || d == 'E') && j+1 < len(src) && (src[j+1] == '+' || src[j+1] == '-') {
						j += 2
						continue
					}
					j++
					continue
				}
				break
			}
			toks = append(toks, src[i:j])
			i = j
		default:
			r, size := utf8.DecodeRuneInString(src[i:])
			if jsIdentStart(r) {
				j := i + size
				for j < len(src) {
					r2, s2 := utf8.DecodeRuneInString(src[j:])
					if !jsIdentPart(r2) {
						break
					}
					j += s2
				}
				toks = append(toks, src[i:j])
				i = j
				continue
			}
			matched := false
			for _, p := range jsPuncts {
				if strings.HasPrefix(src[i:], p) {
					toks = append(toks, p)
					i += len(p)
					matched = true
					break
				}
			}
			if !matched {
				return toks, false
			}
		}
	}
	return toks, true
}

// jsCanon is Prop.Canon for the ops that answer `OK <hex JavaScript>`: the answer becomes
// `OK <hex of the token stream, one token per line>` (or `OK! <hex source>` if the text does
// not tokenize — then the sources themselves are compared).
func jsCanon(ans string) string {
	if !strings.HasPrefix(ans, "OK ") {
		return ans
	}
	src, ok := unhx(ans[3:])
	if !ok {
		return ans
	}
	toks, ok := jsTokens(string(src))
	if !ok {
		return "OK! " + ans[3:]
	}
	return "OK " + hxs(strings.Join(toks, "\n"))
}
