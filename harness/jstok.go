package main

import (
	"strings"
	"unicode"
	"unicode/utf8"
)

// A small JavaScript tokenizer for the text soyjs emits: string literals (kept verbatim,
// quotes included), numbers, identifiers, punctuators; white space and comments are dropped.
// Generated code contains no regular-expression literals and no template strings.
// Both the implementation's and the model's JavaScript go through it, so a change of
// indentation or line breaks in the emitter is not a difference, while every literal is.

var jsPuncts = []string{
	">>>=", "===", "!==", ">>>", "<<=", ">>=", "**=",
	"==", "!=", "<=", ">=", "&&", "||", "++", "--", "+=", "-=", "*=", "/=", "%=", "&=", "|=", "^=", "<<", ">>", "=>",
	"{", "}", "(", ")", "[", "]", ";", ",", "<", ">", "+", "-", "*", "/", "%", "&", "|", "^", "!", "~", "?", ":", "=", ".",
}

func jsIdentStart(r rune) bool {
	return r == '$' || r == '_' || unicode.IsLetter(r)
}

func jsIdentPart(r rune) bool {
	return jsIdentStart(r) || unicode.IsDigit(r) || unicode.Is(unicode.Mn, r) || unicode.Is(unicode.Mc, r) || unicode.Is(unicode.Pc, r)
}

// jsTokens returns the token stream; ok=false on text the tokenizer cannot split
// (unterminated string or comment, a byte that starts no token).
func jsTokens(src string) (toks []string, ok bool) {
	i := 0
	for i < len(src) {
		c := src[i]
		switch {
		case c == ' ' || c == '\t' || c == '\n' || c == '\r':
			i++
		case c == '/' && i+1 < len(src) && src[i+1] == '/':
			for i < len(src) && src[i] != '\n' {
				i++
			}
		case c == '/' && i+1 < len(src) && src[i+1] == '*':
			j := strings.Index(src[i+2:], "*/")
			if j < 0 {
				return toks, false
			}
			i += j + 4
		case c == '\'' || c == '"':
			j := i + 1
			for j < len(src) && src[j] != c {
				if src[j] == '\\' {
					j++
				}
				if j < len(src) && src[j] == '\n' {
					return toks, false
				}
				j++
			}
			if j >= len(src) {
				return toks, false
			}
			toks = append(toks, src[i:j+1])
			i = j + 1
		case c >= '0' && c <= '9' || (c == '.' && i+1 < len(src) && src[i+1] >= '0' && src[i+1] <= '9'):
			j := i
			for j < len(src) {
				d := src[j]
				if d >= '0' && d <= '9' || d == '.' || d >= 'a' && d <= 'z' || d >= 'A' && d <= 'Z' || d == '_' {
					if (d == 'e' || d == 'E') && j+1 < len(src) && (src[j+1] == '+' || src[j+1] == '-') {
						j += 2
						continue
					}
					j++
					continue
				}
				break
			}
			toks = append(toks, src[i:j])
			i = j
		default:
			r, size := utf8.DecodeRuneInString(src[i:])
			if jsIdentStart(r) {
				j := i + size
				for j < len(src) {
					r2, s2 := utf8.DecodeRuneInString(src[j:])
					if !jsIdentPart(r2) {
						break
					}
					j += s2
				}
				toks = append(toks, src[i:j])
				i = j
				continue
			}
			matched := false
			for _, p := range jsPuncts {
				if strings.HasPrefix(src[i:], p) {
					toks = append(toks, p)
					i += len(p)
					matched = true
					break
				}
			}
			if !matched {
				return toks, false
			}
		}
	}
	return toks, true
}

// jsCanon is Prop.Canon for the ops that answer `OK <hex JavaScript>`: the answer becomes
// `OK <hex of the token stream, one token per line>` (or `OK! <hex source>` if the text does
// not tokenize — then the sources themselves are compared).
func jsCanon(ans string) string {
	if !strings.HasPrefix(ans, "OK ") {
		return ans
	}
	src, ok := unhx(ans[3:])
	if !ok {
		return ans
	}
	toks, ok := jsTokens(string(src))
	if !ok {
		return "OK! " + ans[3:]
	}
	// the first header line of a generated file names the source file — an arbitrary string (soyjs 086971f
	// replaces its line terminators): compared byte for byte, as one token
	if strings.HasPrefix(string(src), jsHeaderPrefix) {
		line := string(src)
		if i := strings.IndexByte(line, '\n'); i >= 0 {
			line = line[:i]
		}
		toks = append([]string{line}, toks...)
	}
	return "OK " + hxs(strings.Join(toks, "\n"))
}

const jsHeaderPrefix = "// This file was automatically generated from "

// jsStringValue evaluates a JavaScript string literal token (quotes included) by the rules of
// ECMA-262 (StringLiteral: SingleEscapeCharacter, \xHH, \uHHHH, \0, line continuation,
// NonEscapeCharacter) to its UTF-16 code units, and returns the UTF-8 form of that sequence
// (a surrogate pair is one code point; ok=false for a lone surrogate or a malformed literal).
// Written from the language specification: the oracle for code points otto cannot represent.
func jsStringValue(tok string) (string, bool) {
	if len(tok) < 2 || tok[0] != tok[len(tok)-1] || (tok[0] != '\'' && tok[0] != '"') {
		return "", false
	}
	body := tok[1 : len(tok)-1]
	var units []uint16
	put := func(r rune) {
		if r >= 0x10000 {
			r -= 0x10000
			units = append(units, uint16(0xD800+(r>>10)), uint16(0xDC00+(r&0x3FF)))
		} else {
			units = append(units, uint16(r))
		}
	}
	hexv := func(s string) (rune, bool) {
		var v rune
		for i := 0; i < len(s); i++ {
			c := s[i]
			switch {
			case c >= '0' && c <= '9':
				v = v*16 + rune(c-'0')
			case c >= 'a' && c <= 'f':
				v = v*16 + rune(c-'a'+10)
			case c >= 'A' && c <= 'F':
				v = v*16 + rune(c-'A'+10)
			default:
				return 0, false
			}
		}
		return v, true
	}
	for i := 0; i < len(body); {
		c := body[i]
		if c != '\\' {
			r, size := utf8.DecodeRuneInString(body[i:])
			if r == utf8.RuneError && size == 1 {
				return "", false
			}
			if r == '\n' || r == '\r' || r == 0x2028 || r == 0x2029 {
				return "", false // a raw line terminator ends the literal
			}
			put(r)
			i += size
			continue
		}
		if i+1 >= len(body) {
			return "", false
		}
		e := body[i+1]
		i += 2
		switch e {
		case 'b':
			put('\b')
		case 'f':
			put('\f')
		case 'n':
			put('\n')
		case 'r':
			put('\r')
		case 't':
			put('\t')
		case 'v':
			put('\v')
		case '0':
			put(0)
		case 'x':
			if i+2 > len(body) {
				return "", false
			}
			v, ok := hexv(body[i : i+2])
			if !ok {
				return "", false
			}
			put(v)
			i += 2
		case 'u':
			if i+4 > len(body) {
				return "", false
			}
			v, ok := hexv(body[i : i+4])
			if !ok {
				return "", false
			}
			units = append(units, uint16(v))
			i += 4
		case '\n':
			// line continuation
		case '\r':
			if i < len(body) && body[i] == '\n' {
				i++
			}
		default:
			r, size := utf8.DecodeRuneInString(body[i-1:])
			put(r)
			i += size - 1
		}
	}
	var b strings.Builder
	for i := 0; i < len(units); i++ {
		u := rune(units[i])
		switch {
		case u >= 0xD800 && u < 0xDC00:
			if i+1 < len(units) && units[i+1] >= 0xDC00 && units[i+1] < 0xE000 {
				b.WriteRune(0x10000 + (u-0xD800)<<10 + rune(units[i+1]-0xDC00))
				i++
			} else {
				return "", false
			}
		case u >= 0xDC00 && u < 0xE000:
			return "", false
		default:
			b.WriteRune(u)
		}
	}
	return b.String(), true
}

// jsLiteralText: the concatenation of the values of all string literals of a script, in order;
// ok=false if the script does not tokenize or a literal is malformed.
func jsLiteralText(src string) (string, bool) {
	toks, ok := jsTokens(src)
	if !ok {
		return "", false
	}
	var b strings.Builder
	for _, t := range toks {
		if t[0] == '\'' || t[0] == '"' {
			v, ok := jsStringValue(t)
			if !ok {
				return "", false
			}
			b.WriteString(v)
		}
	}
	return b.String(), true
}
