package main

import (
	"strings"

	"github.com/robfig/soy/parse"
)

// lex <mode:file|expr> <hex input>  ->  OK Typ:pos:hexval;...   (Error items: Error:pos:-)
//
// The real lexer runs in its own goroutine (`go l.run()`), so a runtime panic inside a
// state function cannot be recovered here: it kills the worker process and the pool
// reports CRASH (canonicalised to PANIC by the C05lex property, see c05lex.go).
func lexAnswer(f []string) string {
	if len(f) != 2 || (f[0] != "file" && f[0] != "expr") {
		return "BADREQ"
	}
	in, ok := unhx(f[1])
	if !ok {
		return "BADREQ"
	}
	items := parse.VerifLex("verif.soy", string(in), f[0] == "expr", 100000)
	var sb strings.Builder
	sb.WriteString("OK ")
	for i, it := range items {
		if i > 0 {
			sb.WriteByte(';')
		}
		sb.WriteString(it.Typ)
		sb.WriteByte(':')
		sb.WriteString(itoa(it.Pos))
		sb.WriteByte(':')
		if it.Typ == "Error" {
			sb.WriteByte('-')
		} else {
			sb.WriteString(hxs(it.Val))
		}
	}
	return sb.String()
}

func init() {
	implOps["lex"] = lexAnswer
}
