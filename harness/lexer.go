package main

import (
	"strings"

	"github.com/robfig/soy/parse"
)

// lex <mode:file|expr> <hex input>  ->  OK Typ:pos:hexval;...   (Error items: Error:pos:<class>, see lexErrClass)
//
// The real lexer runs in its own goroutine (`go l.run()`), so a runtime panic inside a
// state function cannot be recovered here: it kills the worker process and the pool
// reports CRASH (canonicalised to PANIC by the C05lex property, see c05lex.go).
func lexAnswer(f []string) string {
	if len(f) != 2 || (f[0] != "file" && f[0] != "expr") {
		return "BADREQ"
	}
	in, ok := unhx(f[1])
	if !ok {
		return "BADREQ"
	}
	items := parse.VerifLex("verif.soy", string(in), f[0] == "expr", 100000)
	var sb strings.Builder
	sb.WriteString("OK ")
	for i, it := range items {
		if i > 0 {
			sb.WriteByte(';')
		}
		sb.WriteString(it.Typ)
		sb.WriteByte(':')
		sb.WriteString(itoa(it.Pos))
		sb.WriteByte(':')
		if it.Typ == "Error" {
			sb.WriteString(lexErrClass(it.Val))
		} else {
			sb.WriteString(hxs(it.Val))
		}
	}
	return sb.String()
}

// lexErrClass maps the message of an Error item to the class byte that the model keeps in
// the item's value (Model/Lexer.lean clsTag …): the five errorfAt messages, which name an
// unclosed construct and are positioned at its opening delimiter, get 01..05; the
// errorfAt(l.start, ...) of a double-brace tag closed by a single brace gets 06; every
// other (errorf) message is "-".
func lexErrClass(msg string) string {
	switch {
	case strings.Contains(msg, "unclosed tag"),
		strings.Contains(msg, "expected {@param name: ...}"),
		strings.Contains(msg, "expected closing tag after {literal.."):
		// errors of a tag that are reported at its `{` (the last two since /repo ac1c871)
		return "01"
	case strings.Contains(msg, "unexpected eof while scanning string"):
		return "02"
	case strings.Contains(msg, "unclosed block comment"):
		return "03"
	case strings.Contains(msg, "unexpected eof when scanning soydoc"):
		return "04"
	case strings.Contains(msg, "unclosed literal"):
		return "05"
	case strings.Contains(msg, "expected double closing braces in tag"):
		return "06"
	case strings.Contains(msg, "unexpected beginning to name after"):
		return "07"
	}
	return "-"
}

func init() {
	implOps["lex"] = lexAnswer
}
