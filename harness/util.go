package main

import (
	"strconv"
)

func itoa(n int) string { return strconv.Itoa(n) }

func quote(b []byte) string { return strconv.QuoteToASCII(string(b)) }
