package main

import (
	"errors"
	"strconv"
	"strings"

	"github.com/robfig/soy/data"
	"github.com/robfig/soy/soyhtml"
	"github.com/robfig/soy/template"
)

// recWriter records every Write call.
type recWriter struct{ chunks [][]byte }

func (w *recWriter) Write(p []byte) (int, error) {
	w.chunks = append(w.chunks, append([]byte(nil), p...))
	return len(p), nil
}

var errInjected = errors.New("injected write failure")

// faultWriter accepts `room` bytes in total, then fails with a short write; the
// failAt-th call (0-based) fails outright.  (Mirrors Model/Writer.lean faultWriter.)
type faultWriter struct {
	room, calls, failAt int
	accepted            []byte
}

func (w *faultWriter) Write(p []byte) (int, error) {
	call := w.calls
	w.calls++
	if call == w.failAt {
		return 0, errInjected
	}
	if len(p) <= w.room {
		w.room -= len(p)
		w.accepted = append(w.accepted, p...)
		return len(p), nil
	}
	n := w.room
	w.accepted = append(w.accepted, p[:n]...)
	w.room = 0
	return n, errInjected
}

// faultStringWriter is the same writer with a WriteString method as well (*os.File, *bufio.Writer, HTTP response
// writers have one): a renderer that takes a short cut for such writers must report their failures all the same.
type faultStringWriter struct{ faultWriter }

func (w *faultStringWriter) WriteString(s string) (int, error) { return w.faultWriter.Write([]byte(s)) }

func renderTo(reg *template.Registry, name string, d data.Map, w interface{ Write([]byte) (int, error) }) error {
	return soyhtml.NewTofu(reg).NewRenderer(name).Inject(data.Map{}).Execute(w, d)
}

// renderToMsgs renders with the identity translation of every message of the bundle (the translated-message
// path of the interpreter: evalMsgParts, plural selection through the bundle).
func renderToMsgs(reg *template.Registry, name string, d data.Map, w interface{ Write([]byte) (int, error) }) error {
	return soyhtml.NewTofu(reg).NewRenderer(name).Inject(data.Map{}).WithMessages(translationsAll(reg)).Execute(w, d)
}

// c12Probe: long autoescaped values (an escaper that buffers or chunks its output has more than one write per
// value), a translated plural message with literal text in every case, content blocks.
const c12Probe = `{namespace cprobe}

/**
 * @param long
 * @param n
 */
{template .long}
{$long}|{msg desc="m"}{plural $n}{case 0}no items at all{case 1}one item only{default}{$n} items of text{/plural}{/msg}|{$long|escapeHtml}|{let $c}in {$long|truncate:150} out{/let}{$c}|tail {$n}
{/template}
`

var c12LongValues = []string{
	strings.Repeat("abcdefghij", 13)[:123], strings.Repeat("x", 127), strings.Repeat("y", 128), strings.Repeat("z", 129), strings.Repeat("<&>\"'", 30),
	strings.Repeat("plain text with a <tag> & an \"attr\" ", 9), strings.Repeat("é日😀", 40), strings.Repeat("w", 122) + "<", strings.Repeat("w", 255) + "&" + strings.Repeat("v", 130),
}

func init() {
	implOps["execw"] = func(f []string) string {
		reg, err := compileCached(f[0])
		if err != nil {
			return "COMPILE-ERR"
		}
		name, _ := unhx(f[1])
		dj, _ := unhx(f[2])
		room, _ := strconv.Atoi(f[4])
		failAt, _ := strconv.Atoi(f[5])
		w := &faultWriter{room: room, failAt: failAt}
		if len(f) > 6 && f[6] == "msgs" {
			err = renderToMsgs(reg, string(name), dataFromJSON(string(dj)), w)
		} else {
			err = renderTo(reg, string(name), dataFromJSON(string(dj)), w)
		}
		// the same fault through a writer that also has WriteString: same outcome, same accepted bytes
		sw := &faultStringWriter{faultWriter{room: room, failAt: failAt}}
		var err2 error
		if len(f) > 6 && f[6] == "msgs" {
			err2 = renderToMsgs(reg, string(name), dataFromJSON(string(dj)), sw)
		} else {
			err2 = renderTo(reg, string(name), dataFromJSON(string(dj)), sw)
		}
		if (err == nil) != (err2 == nil) || string(sw.accepted) != string(w.accepted) {
			return "stringwriter-differs " + hx(sw.accepted)
		}
		if err != nil {
			return "err " + hx(w.accepted)
		}
		return "ok " + hx(w.accepted)
	}
	register(&Prop{
		ID: "C12",
		Rule: "generated templates x data; the fault-free run is recorded as its list of Write calls; then a failure is injected at EVERY write-call index and at EVERY byte offset (short-capacity writer) of that run; " +
			"oracle: error reported for every injected fault that is reached, accepted bytes are a prefix of the fault-free output, nil only if all accepted; tie: outcome = Model.Writer.render on the chunk list; " +
			"non-trivial = the run has at least 3 write calls and the fault lands strictly inside it",
		Gen: genC12,
		Oracle: func(c *Case, impl string) *Viol {
			f := strings.Split(c.Req, "\t")
			var full []byte
			if f[4] != "." {
				for _, ch := range strings.Split(f[4], ",") {
					b, _ := unhx(ch)
					full = append(full, b...)
				}
			}
			parts := strings.SplitN(impl, " ", 2)
			if len(parts) != 2 {
				return &Viol{Key: "c12-outcome:" + impl, What: "render under a failing writer did not return normally: " + impl, Want: "ok|err"}
			}
			if parts[0] == "stringwriter-differs" {
				return &Viol{Key: "c12-stringwriter:" + c.Note, What: "the same fault through a writer that also implements io.StringWriter gives a different outcome (error dropped or different bytes accepted)", Want: "as through the plain writer"}
			}
			acc, _ := unhx(parts[1])
			if !strings.HasPrefix(string(full), string(acc)) {
				return &Viol{Key: "c12-prefix:" + c.Note, What: "accepted bytes are not a prefix of the fault-free output", Want: "prefix of " + hx(full)}
			}
			if parts[0] == "ok" && string(acc) != string(full) {
				return &Viol{Key: "c12-dropped-error:" + c.Note, What: "render returned nil although the writer failed (output truncated)", Want: "err"}
			}
			return nil
		},
		KeyOf: func(c *Case, impl string) string { return "c12:" + c.Note },
	})
}

func genC12(g *G) {
	n := g.N(60, 1200)
	bg := newBundleGen(g.R, bundleOpts{msgs: true, directives: true, calls: true})
	for i := 0; i < n; i++ {
		b := bg.bundle()
		fs := append(b.sources(), srcFile{"cprobe.soy", c12Probe})
		reg, err := compileBundle(fs)
		if err != nil {
			continue
		}
		enc := encSources(fs)
		type tcase struct {
			name, dj string
			msgs     bool
		}
		var tcs []tcase
		for _, f := range b.files {
			for _, t := range f.tmpls {
				dj := dataToJSON(bg.dataFor(t))
				tcs = append(tcs, tcase{t.full(), dj, false})
				if strings.Contains(f.source(), "{msg") {
					tcs = append(tcs, tcase{t.full(), dj, true})
				}
			}
		}
		if i%4 == 0 {
			lv := c12LongValues[(i/4)%len(c12LongValues)]
			for _, n := range []int64{0, 1, 5} {
				dj := dataToJSON(map[string]interface{}{"long": lv, "n": n})
				tcs = append(tcs, tcase{"cprobe.long", dj, false}, tcase{"cprobe.long", dj, true})
			}
		}
		for _, tc := range tcs {
			{
				t := tc
				dj := tc.dj
				render := renderTo
				msgsField := "-"
				if tc.msgs {
					render, msgsField = renderToMsgs, "msgs"
				}
				rec := &recWriter{}
				if class := safely(func() error { return render(reg, t.name, dataFromJSON(dj), rec) }); class != "OK" {
					continue // the fault-free run itself fails: not a C12 case
				}
				var chunks []string
				total := 0
				for _, c := range rec.chunks {
					chunks = append(chunks, hx(c))
					total += len(c)
				}
				cw := "." // no Write call at all ("-" is one Write call with no bytes)
				if len(chunks) > 0 {
					cw = strings.Join(chunks, ",")
				}
				mk := func(room, failAt int, class string) {
					g.Add(Case{
						Req:   req("execw", enc, hxs(t.name), hxs(dj), cw, strconv.Itoa(room), strconv.Itoa(failAt), msgsField),
						NT:    len(chunks) >= 3 && (failAt > 0 && failAt < len(chunks)-1 || failAt < 0 && room > 0 && room < total),
						Class: class,
						Note:  t.name + " room=" + strconv.Itoa(room) + " failAt=" + strconv.Itoa(failAt) + " msgs=" + msgsField + " bundle#" + strconv.Itoa(i),
					})
				}
				// every write-call index
				for k := 0; k <= len(chunks); k++ {
					mk(1<<30, k, "fail-at-call")
				}
				// every byte offset (thorough), a spread of them (quick)
				step := 1
				if g.Quick() && total > 24 {
					step = total/24 + 1
				}
				for off := 0; off <= total; off += step {
					mk(off, -1, "short-capacity")
				}
				if step > 1 {
					// buffer-size boundaries: an escaper or writer that flushes every 2^k bytes
					for _, base := range []int{64, 128, 256, 384, 512, 1024} {
						for off := base - 6; off <= base+2; off++ {
							if off >= 0 && off <= total && off%step != 0 {
								mk(off, -1, "short-capacity-boundary")
							}
						}
					}
				}
			}
		}
	}
	g.Exhaustive = false
}

// safely runs f under recover and classifies the outcome.
func safely(f func() error) (class string) {
	defer func() {
		if e := recover(); e != nil {
			class = "PANIC"
		}
	}()
	if err := f(); err != nil {
		return "ERR"
	}
	return "OK"
}
