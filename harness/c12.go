package main

import (
	"errors"
	"strconv"
	"strings"

	"github.com/robfig/soy/data"
	"github.com/robfig/soy/soyhtml"
	"github.com/robfig/soy/template"
)

// recWriter records every Write call.
type recWriter struct{ chunks [][]byte }

func (w *recWriter) Write(p []byte) (int, error) {
	w.chunks = append(w.chunks, append([]byte(nil), p...))
	return len(p), nil
}

var errInjected = errors.New("injected write failure")

// faultWriter accepts `room` bytes in total, then fails with a short write; the
// failAt-th call (0-based) fails outright.  (Mirrors Model/Writer.lean faultWriter.)
type faultWriter struct {
	room, calls, failAt int
	accepted            []byte
}

func (w *faultWriter) Write(p []byte) (int, error) {
	call := w.calls
	w.calls++
	if call == w.failAt {
		return 0, errInjected
	}
	if len(p) <= w.room {
		w.room -= len(p)
		w.accepted = append(w.accepted, p...)
		return len(p), nil
	}
	n := w.room
	w.accepted = append(w.accepted, p[:n]...)
	w.room = 0
	return n, errInjected
}

func renderTo(reg *template.Registry, name string, d data.Map, w interface{ Write([]byte) (int, error) }) error {
	return soyhtml.NewTofu(reg).NewRenderer(name).Inject(data.Map{}).Execute(w, d)
}

func init() {
	implOps["execw"] = func(f []string) string {
		reg, err := compileCached(f[0])
		if err != nil {
			return "COMPILE-ERR"
		}
		name, _ := unhx(f[1])
		dj, _ := unhx(f[2])
		room, _ := strconv.Atoi(f[4])
		failAt, _ := strconv.Atoi(f[5])
		w := &faultWriter{room: room, failAt: failAt}
		err = renderTo(reg, string(name), dataFromJSON(string(dj)), w)
		if err != nil {
			return "err " + hx(w.accepted)
		}
		return "ok " + hx(w.accepted)
	}
	register(&Prop{
		ID: "C12",
		Rule: "generated templates x data; the fault-free run is recorded as its list of Write calls; then a failure is injected at EVERY write-call index and at EVERY byte offset (short-capacity writer) of that run; " +
			"oracle: error reported for every injected fault that is reached, accepted bytes are a prefix of the fault-free output, nil only if all accepted; tie: outcome = Model.Writer.render on the chunk list; " +
			"non-trivial = the run has at least 3 write calls and the fault lands strictly inside it",
		Gen: genC12,
		Oracle: func(c *Case, impl string) *Viol {
			f := strings.Split(c.Req, "\t")
			var full []byte
			if f[4] != "." {
				for _, ch := range strings.Split(f[4], ",") {
					b, _ := unhx(ch)
					full = append(full, b...)
				}
			}
			parts := strings.SplitN(impl, " ", 2)
			if len(parts) != 2 {
				return &Viol{Key: "c12-outcome:" + impl, What: "render under a failing writer did not return normally: " + impl, Want: "ok|err"}
			}
			acc, _ := unhx(parts[1])
			if !strings.HasPrefix(string(full), string(acc)) {
				return &Viol{Key: "c12-prefix:" + c.Note, What: "accepted bytes are not a prefix of the fault-free output", Want: "prefix of " + hx(full)}
			}
			if parts[0] == "ok" && string(acc) != string(full) {
				return &Viol{Key: "c12-dropped-error:" + c.Note, What: "render returned nil although the writer failed (output truncated)", Want: "err"}
			}
			return nil
		},
		KeyOf: func(c *Case, impl string) string { return "c12:" + c.Note },
	})
}

func genC12(g *G) {
	n := g.N(60, 1200)
	bg := newBundleGen(g.R, bundleOpts{msgs: true, directives: true, calls: true})
	for i := 0; i < n; i++ {
		b := bg.bundle()
		fs := b.sources()
		reg, err := compileBundle(fs)
		if err != nil {
			continue
		}
		enc := encSources(fs)
		for _, f := range b.files {
			for _, t := range f.tmpls {
				dm := bg.dataFor(t)
				dj := dataToJSON(dm)
				rec := &recWriter{}
				if class := safely(func() error { return renderTo(reg, t.full(), dataFromJSON(dj), rec) }); class != "OK" {
					continue // the fault-free run itself fails: not a C12 case
				}
				var chunks []string
				total := 0
				for _, c := range rec.chunks {
					chunks = append(chunks, hx(c))
					total += len(c)
				}
				cw := "." // no Write call at all ("-" is one Write call with no bytes)
				if len(chunks) > 0 {
					cw = strings.Join(chunks, ",")
				}
				mk := func(room, failAt int, class string) {
					g.Add(Case{
						Req:   req("execw", enc, hxs(t.full()), hxs(dj), cw, strconv.Itoa(room), strconv.Itoa(failAt)),
						NT:    len(chunks) >= 3 && (failAt > 0 && failAt < len(chunks)-1 || failAt < 0 && room > 0 && room < total),
						Class: class,
						Note:  t.full() + " room=" + strconv.Itoa(room) + " failAt=" + strconv.Itoa(failAt) + " bundle#" + strconv.Itoa(i),
					})
				}
				// every write-call index
				for k := 0; k <= len(chunks); k++ {
					mk(1<<30, k, "fail-at-call")
				}
				// every byte offset (thorough), a spread of them (quick)
				step := 1
				if g.Quick() && total > 24 {
					step = total/24 + 1
				}
				for off := 0; off <= total; off += step {
					mk(off, -1, "short-capacity")
				}
			}
		}
	}
	g.Exhaustive = false
}

// safely runs f under recover and classifies the outcome.
func safely(f func() error) (class string) {
	defer func() {
		if e := recover(); e != nil {
			class = "PANIC"
		}
	}()
	if err := f(); err != nil {
		return "ERR"
	}
	return "OK"
}
