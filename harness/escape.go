package main

// Escaping functions and print directives of soyhtml (properties C03 and C16):
// implementation ops, case generators and independent oracles.
//
// Sub-checks:  C03esc  (autoescaper, HTML-producing directives, the escape decision of evalPrint)
//              C16dir  (every directive as an encoding: uri, js, json, br, wbr, truncate)

import (
	"bytes"
	"encoding/json"
	"net/url"
	"strconv"
	"strings"
	"text/template"
	"unicode/utf8"

	"github.com/robfig/soy"
	"github.com/robfig/soy/data"
	"github.com/robfig/soy/soyhtml"
)

// ---------------------------------------------------------------------------
// implementation ops (the REAL code)

func escOp1(fn func(string) []byte) func([]string) string {
	return func(f []string) string {
		if len(f) != 1 {
			return "BADREQ"
		}
		s, ok := unhx(f[0])
		if !ok {
			return "BADREQ"
		}
		return "OK " + hx(fn(string(s)))
	}
}

func escParseArgs(fs []string) ([]data.Value, bool) {
	args := make([]data.Value, 0, len(fs))
	for _, a := range fs {
		switch a {
		case "true":
			args = append(args, data.Bool(true))
		case "false":
			args = append(args, data.Bool(false))
		default:
			n, err := strconv.ParseInt(a, 10, 64)
			if err != nil {
				return nil, false
			}
			args = append(args, data.Int(n))
		}
	}
	return args, true
}

// escApply is PrintDirectives[name].Apply(value, args) preceded by the lookup and the
// argument-count check evalPrint performs (checkNumArgs is unexported: same loop here).
func escApply(name string, v []byte, args []data.Value) (out string) {
	d, ok := soyhtml.PrintDirectives[name]
	if !ok {
		return "ERR"
	}
	okn := false
	for _, n := range d.ValidArgLengths {
		if n == len(args) {
			okn = true
		}
	}
	if !okn {
		return "ERR"
	}
	defer func() {
		if e := recover(); e != nil {
			out = "PANIC"
		}
	}()
	res := d.Apply(data.String(v), args)
	return "OK " + hxs(res.String())
}

var escTofuCache = map[string]*soyhtml.Tofu{}

func escModeAttr(m string) (string, bool) {
	switch m {
	case "-":
		return "", true
	case "true", "false", "contextual":
		return ` autoescape="` + m + `"`, true
	}
	return "", false
}

// escPrint renders {$x|chain} through the real parser, checker and evalPrint.
func escPrint(f []string) string {
	if len(f) < 3 {
		return "BADREQ"
	}
	ns, ok1 := escModeAttr(f[0])
	tm, ok2 := escModeAttr(f[1])
	v, ok3 := unhx(f[2])
	if !ok1 || !ok2 || !ok3 {
		return "BADREQ"
	}
	var chain strings.Builder
	for _, c := range f[3:] {
		parts := strings.Split(c, ",")
		chain.WriteString("|" + parts[0])
		if len(parts) > 1 {
			chain.WriteString(":" + strings.Join(parts[1:], ","))
		}
	}
	src := "{namespace ns" + ns + "}\n/** @param x */\n{template .t" + tm + "}\n{$x" + chain.String() + "}\n{/template}\n"
	tofu, ok := escTofuCache[src]
	if !ok {
		var err error
		tofu, err = soy.NewBundle().AddTemplateString("t.soy", src).CompileToTofu()
		if err != nil {
			tofu = nil
		}
		if len(escTofuCache) > 4096 {
			escTofuCache = map[string]*soyhtml.Tofu{}
		}
		escTofuCache[src] = tofu
	}
	if tofu == nil {
		return "ERR"
	}
	var buf bytes.Buffer
	if err := tofu.NewRenderer("ns.t").Execute(&buf, data.Map{"x": data.String(v)}); err != nil {
		return "ERR"
	}
	return "OK " + hx(buf.Bytes())
}

func init() {
	implOps["htmlesc"] = escOp1(func(s string) []byte { return soyhtml.VerifHTMLEscape(s) })
	implOps["jsesc"] = escOp1(func(s string) []byte { return []byte(template.JSEscapeString(s)) })
	implOps["jsesc2"] = escOp1(func(s string) []byte { return []byte(soyhtml.VerifJSEscape(s)) })
	// jsrt2: the proposed escaper followed by the oracle's independent evaluator
	implOps["jsrt2"] = func(f []string) string {
		s, ok := unhx(f[0])
		if !ok || len(f) != 1 {
			return "BADREQ"
		}
		dec, why := escJSDecode([]byte(soyhtml.VerifJSEscape(string(s))))
		if why != "" {
			return "ERR"
		}
		return "OK " + hx(dec)
	}
	implOps["queryesc"] = escOp1(func(s string) []byte { return []byte(url.QueryEscape(s)) })
	implOps["jsonstr"] = escOp1(func(s string) []byte {
		j, err := json.Marshal(data.String(s))
		if err != nil {
			panic(err)
		}
		return j
	})
	implOps["dir"] = func(f []string) string {
		if len(f) < 2 {
			return "BADREQ"
		}
		v, ok := unhx(f[1])
		args, ok2 := escParseArgs(f[2:])
		if !ok || !ok2 {
			return "BADREQ"
		}
		return escApply(f[0], v, args)
	}
	implOps["print"] = escPrint

	register(&Prop{
		ID: "C03esc",
		Rule: "htmlesc(s), dir(escapeHtml|changeNewlineToBr|insertWordBreaks n=1..6, s), print(ns attr, template attr, chain of <=2 directives, s) " +
			"over: all single bytes, all pairs/triples of & < > \" ', multi-byte and astral runes, invalid UTF-8, NUL, U+2028/9, entity-like and tag-like text, " +
			"line breaks, long runs, seeded random strings; non-trivial = s contains one of the five specials (or a line break / NUL); distinct by request",
		Gen:    genC03esc,
		Oracle: escOracle,
		KeyOf:  escKeyOf,
	})
	register(&Prop{
		ID: "C16dir",
		Rule: "jsesc/queryesc/jsonstr(s), dir(name, s, args) for every entry of PrintDirectives (truncate: every n in 0..len+2 x {no flag,true,false}; insertWordBreaks n in 1..6 and edge values; " +
			"wrong arity / wrong argument type / unknown name), chains through print; strings as for C03esc; non-trivial = the directive has to change or cut s; distinct by request",
		Gen:    genC16dir,
		Oracle: escOracle,
		KeyOf:  escKeyOf,
	})
}

// ---------------------------------------------------------------------------
// strings

var escSpecials = []byte{'&', '<', '>', '"', '\''}

var escRunes = []string{
	"\u00e9", "\u20ac", "\U0001F600", "\U0010FFFF", "\uFFFD", "\u2028", "\u2029", "\u00a0", "\u00ad", "\u200b",
	"\ue000", "\u0378", "\ufeff", "\U00010000", "\U000E0001", "\U000F0000", "\U00100000", "\uffff", "\u07ff", "\u0800",
	"\u007f", "\u0080", "\u0085", "\u3000", "\ud7ff", "\U0001FFFF",
}

var escInvalid = []string{
	"\x80", "\xbf", "\x80\x80", "\x80\x80\x80a", "\xc0\x80", "\xc1\xbf", "\xc2", "\xc2a", "\xe0\x80\x80", "\xe0\xa0", "\xe2\x82",
	"\xe2\x82a", "\xed\xa0\x80", "\xed\xbf\xbf", "\xf0\x80\x80\x80", "\xf0\x9f\x98", "\xf0\x9f", "\xf0", "\xf4\x90\x80\x80",
	"\xf5\x80\x80\x80", "\xff", "\xfe\xff", "a\x80b", "\xe2\x80", "\xe2\x80\xe2\x80\xa8", "<\x80>", "&\xc2", "\xf0\x9f\x98<",
}

var escTexts = []string{
	"", "&amp;", "&#39;x", "&lt;b&gt;", "&amp;amp;", "&;", "&#", "&#34", "&quot;", "& ;", "a&b;c", "&&&", "&#x27;",
	"<br>", "<wbr>", "<br/>", "<BR>", "a<br>b", "<script>alert('x')</script>", "</script>", "<a href=\"x\">y</a>", "<!-- -->", "<wbr", "wbr>",
	"\r\n", "\n\r", "\r\r\n", "a\nb", "a\rb", "a\r\nb", "\n\n", "\r", "\n", "\r\n\r\n", "a\u2028b", "<\n>",
	"\x00", "a\x00b", "\x00\x00", "<\x00>",
	"hello world", "a b c", " ", "  ", "ab cd", "abcdefghij", "abc def ghijkl", "+", "%", "%41", "a+b c", "~-_.", "/?#=&", "\\", "\\n", "'\"", "=", "a=b",
	"\t", "\x1f", "\x7f", "\b\f",
}

func escRandString(r *RNG) []byte {
	l := r.Intn(24)
	var s []byte
	for j := 0; j < l; j++ {
		switch k := r.Intn(16); {
		case k < 4:
			s = append(s, escSpecials[r.Intn(5)])
		case k < 6:
			s = append(s, byte('a'+r.Intn(26)))
		case k == 6:
			s = append(s, ' ')
		case k == 7:
			s = append(s, "\r\n"[r.Intn(2)])
		case k == 8:
			s = append(s, escRunes[r.Intn(len(escRunes))]...)
		case k == 9:
			s = append(s, escInvalid[r.Intn(len(escInvalid))]...)
		case k == 10:
			s = append(s, byte(r.Intn(256)))
		case k == 11:
			s = append(s, escTexts[r.Intn(len(escTexts))]...)
		case k == 12:
			s = append(s, 0)
		case k == 13:
			s = append(s, ";#&"[r.Intn(3)])
		default:
			s = append(s, byte(32+r.Intn(95)))
		}
	}
	return s
}

// escBaseStrings is the deterministic part of the string pool.
func escBaseStrings(tripleCtx bool) [][]byte {
	var out [][]byte
	for b := 0; b < 256; b++ {
		out = append(out, []byte{byte(b)})
	}
	for _, a := range escSpecials {
		for _, b := range escSpecials {
			out = append(out, []byte{a, b})
			for _, c := range escSpecials {
				out = append(out, []byte{a, b, c})
				if tripleCtx {
					out = append(out, []byte{'x', a, 'y', b, c, 'z'})
				}
			}
		}
	}
	for _, s := range escRunes {
		out = append(out, []byte(s), []byte("a"+s+"<"), []byte(s+s))
	}
	for _, s := range escInvalid {
		out = append(out, []byte(s))
	}
	for _, s := range escTexts {
		out = append(out, []byte(s))
	}
	out = append(out,
		bytes.Repeat([]byte("a"), 100), bytes.Repeat([]byte("<"), 50), bytes.Repeat([]byte("ab "), 30),
		bytes.Repeat([]byte("&'"), 40), bytes.Repeat([]byte("\u00e9"), 40), bytes.Repeat([]byte("\U0001F600"), 20),
		bytes.Repeat([]byte("\x80"), 20), bytes.Repeat([]byte("\r\n"), 20), bytes.Repeat([]byte("x<y "), 25),
		bytes.Repeat([]byte("abcdefghij"), 30), bytes.Repeat([]byte{0}, 10))
	return out
}

func escHasSpecial(s []byte) bool {
	return bytes.ContainsAny(s, "&<>\"'\r\n\x00")
}

func escClassOf(s []byte) string {
	switch {
	case len(s) == 0:
		return "empty"
	case !utf8.Valid(s):
		return "invalid-utf8"
	case len(s) > 40:
		return "long"
	case bytes.ContainsAny(s, "&<>\"'"):
		return "html-special"
	case bytes.IndexFunc(s, func(r rune) bool { return r >= 0x80 }) >= 0:
		return "non-ascii"
	}
	return "plain"
}

func escCase(op string, s []byte, nt bool, fields ...string) Case {
	var fs []string
	var note string
	switch op {
	case "dir":
		fs = append([]string{fields[0], hx(s)}, fields[1:]...)
		note = "dir " + fields[0] + "(" + quote(s) + strings.Join(append([]string{""}, fields[1:]...), ",") + ")"
	case "print":
		fs = append([]string{fields[0], fields[1], hx(s)}, fields[2:]...)
		note = "print ns=" + fields[0] + " tmpl=" + fields[1] + " {$x|" + strings.Join(fields[2:], "|") + "} x=" + quote(s)
	default:
		fs = []string{hx(s)}
		note = op + "(" + quote(s) + ")"
	}
	return Case{Req: req(op, fs...), NT: nt, Class: op + ":" + escClassOf(s), Note: note}
}

// ---------------------------------------------------------------------------
// generators

var escModes = []string{"-", "true", "false", "contextual"}

// chains of length <= 2 over the built-ins with in-range arguments
func escChains(s []byte, r *RNG) [][]string {
	n := itoa(r.Intn(len(s) + 3))
	w := itoa(1 + r.Intn(6))
	single := []string{"escapeHtml", "changeNewlineToBr", "insertWordBreaks," + w, "truncate," + n, "truncate," + n + ",false", "truncate," + n + ",true",
		"id", "noAutoescape", "escapeUri", "escapeJsString", "json"}
	out := [][]string{{}}
	for _, a := range single {
		out = append(out, []string{a})
	}
	for _, a := range single {
		for _, b := range single {
			out = append(out, []string{a, b})
		}
	}
	return out
}

func genC03esc(g *G) {
	base := escBaseStrings(true)
	for _, s := range base {
		nt := escHasSpecial(s)
		g.Add(escCase("htmlesc", s, nt))
		g.Add(escCase("dir", s, nt, "escapeHtml"))
		g.Add(escCase("dir", s, nt, "changeNewlineToBr"))
		for n := 1; n <= 6; n++ {
			g.Add(escCase("dir", s, nt, "insertWordBreaks", itoa(n)))
		}
		// the escape decision: every mode pair with the plain print, a sample of chains
		for _, ns := range escModes {
			for _, tm := range escModes {
				g.Add(escCase("print", s, nt, ns, tm))
			}
		}
	}
	// chains x modes on a rotating subset of strings
	nch := g.N(2500, 150000)
	for i := 0; i < nch; i++ {
		var s []byte
		if g.R.Chance(1, 2) {
			s = base[g.R.Intn(len(base))]
		} else {
			s = escRandString(g.R)
		}
		chains := escChains(s, g.R)
		ch := chains[g.R.Intn(len(chains))]
		if g.R.Chance(1, 40) {
			ch = append(append([]string(nil), ch...), g.R.Pick([]string{"bidiSpanWrap", "nosuch", "truncate", "escapeHtml,1", "insertWordBreaks", "truncate,true", "truncate,1,2", "insertWordBreaks,true"}))
		}
		g.Add(escCase("print", s, escHasSpecial(s), append([]string{g.R.Pick(escModes), g.R.Pick(escModes)}, ch...)...))
	}
	nr := g.N(1500, 100000)
	for i := 0; i < nr; i++ {
		s := escRandString(g.R)
		nt := escHasSpecial(s)
		switch g.R.Intn(5) {
		case 0:
			g.Add(escCase("htmlesc", s, nt))
		case 1:
			g.Add(escCase("dir", s, nt, "escapeHtml"))
		case 2:
			g.Add(escCase("dir", s, nt, "changeNewlineToBr"))
		case 3:
			g.Add(escCase("dir", s, nt, "insertWordBreaks", itoa(1+g.R.Intn(6))))
		default:
			g.Add(escCase("print", s, nt, g.R.Pick(escModes), g.R.Pick(escModes)))
		}
	}
}

func escTruncateCases(g *G, s []byte, every bool) {
	for n := 0; n <= len(s)+2; n++ {
		if !every && n > 8 && n < len(s)-4 && !g.R.Chance(1, 6) {
			continue
		}
		nt := n < len(s)
		g.Add(escCase("dir", s, nt, "truncate", itoa(n)))
		g.Add(escCase("dir", s, nt, "truncate", itoa(n), "true"))
		g.Add(escCase("dir", s, nt, "truncate", itoa(n), "false"))
	}
}

func genC16dir(g *G) {
	base := escBaseStrings(false)
	zero := []string{"changeNewlineToBr", "escapeHtml", "escapeUri", "escapeJsString", "id", "noAutoescape", "json"}
	for _, s := range base {
		nt := len(s) > 0
		g.Add(escCase("jsesc", s, nt))
		g.Add(escCase("jsesc2", s, nt))
		g.Add(escCase("jsrt2", s, nt))
		g.Add(escCase("queryesc", s, nt))
		g.Add(escCase("jsonstr", s, nt))
		for _, d := range zero {
			g.Add(escCase("dir", s, nt, d))
		}
		for n := 1; n <= 6; n++ {
			g.Add(escCase("dir", s, nt, "insertWordBreaks", itoa(n)))
		}
		escTruncateCases(g, s, len(s) <= 12 || !g.Quick())
	}
	// edge arguments, wrong arity, wrong types, unknown and unimplemented directives
	edge := [][]byte{[]byte(""), []byte("a"), []byte("abcdef"), []byte("<a b>"), []byte("\x80\x80"), []byte("\u00e9\u00e9\u00e9")}
	for _, s := range edge {
		for _, a := range [][]string{
			{"truncate"}, {"truncate", "-1"}, {"truncate", "-5", "true"}, {"truncate", "true"}, {"truncate", "1", "2"}, {"truncate", "100", "2"}, {"truncate", "1", "true", "false"},
			{"truncate", "9223372036854775807"}, {"truncate", "-9223372036854775808"},
			{"insertWordBreaks"}, {"insertWordBreaks", "0"}, {"insertWordBreaks", "-3"}, {"insertWordBreaks", "true"}, {"insertWordBreaks", "1", "2"}, {"insertWordBreaks", "1000"},
			{"escapeHtml", "1"}, {"id", "true"}, {"json", "0"}, {"bidiSpanWrap"}, {"bidiUnicodeWrap"}, {"bidiSpanWrap", "1"}, {"nosuch"}, {"Truncate", "1"}, {""},
		} {
			g.Add(escCase("dir", s, true, a...))
		}
	}
	// random strings
	nr := g.N(2500, 20000)
	for i := 0; i < nr; i++ {
		s := escRandString(g.R)
		nt := len(s) > 0
		switch g.R.Intn(9) {
		case 0:
			g.Add(escCase("jsesc", s, nt))
			g.Add(escCase("jsesc2", s, nt))
			g.Add(escCase("jsrt2", s, nt))
		case 1:
			g.Add(escCase("queryesc", s, nt))
		case 2:
			g.Add(escCase("jsonstr", s, nt))
		case 3:
			g.Add(escCase("dir", s, nt, zero[g.R.Intn(len(zero))]))
		case 4:
			g.Add(escCase("dir", s, nt, "insertWordBreaks", itoa(1+g.R.Intn(6))))
		case 5, 6:
			escTruncateCases(g, s, true)
		default:
			// chained, through the real print command (autoescape off: the chain's own output)
			chains := escChains(s, g.R)
			ch := chains[g.R.Intn(len(chains))]
			g.Add(escCase("print", s, nt, append([]string{"false", "-"}, ch...)...))
		}
	}
}

// ---------------------------------------------------------------------------
// oracles: written from the property statements, independent of the model

var escOracleRefs = []struct {
	ref string
	b   byte
}{
	{"&amp;", '&'}, {"&lt;", '<'}, {"&gt;", '>'}, {"&quot;", '"'}, {"&apos;", '\''},
	{"&#34;", '"'}, {"&#39;", '\''}, {"&#38;", '&'}, {"&#60;", '<'}, {"&#62;", '>'},
}

// escHTMLDecode scans escaped HTML text: the only markup allowed is the tag `tag` (may be
// empty); every & must begin a complete character reference *in the text as written* (so a
// reference cut by an inserted tag is caught); no raw < > " ' elsewhere.  It returns the decoded
// data with the tags dropped.
func escHTMLDecode(out []byte, tag string) ([]byte, string) {
	var dec []byte
	for i := 0; i < len(out); {
		if tag != "" && bytes.HasPrefix(out[i:], []byte(tag)) {
			i += len(tag)
			continue
		}
		switch c := out[i]; c {
		case '<', '>', '"', '\'':
			return nil, "raw " + strconv.QuoteToASCII(string(c)) + " at offset " + itoa(i)
		case '&':
			found := false
			for _, r := range escOracleRefs {
				if bytes.HasPrefix(out[i:], []byte(r.ref)) {
					dec = append(dec, r.b)
					i += len(r.ref)
					found = true
					break
				}
			}
			if !found {
				return nil, "& at offset " + itoa(i) + " does not begin a complete character reference"
			}
		default:
			dec = append(dec, c)
			i++
		}
	}
	return dec, ""
}

// NUL is replaced by U+FFFD by text/template's escaper (a NUL cannot be written in HTML):
// the escaping directives are compared modulo that substitution.
func escNulToFFFD(s []byte) []byte { return bytes.ReplaceAll(s, []byte{0}, []byte("\uFFFD")) }

func escStripNewlines(s []byte) []byte {
	var o []byte
	for _, b := range s {
		if b != '\r' && b != '\n' {
			o = append(o, b)
		}
	}
	return o
}

// escPercentDecode: only [A-Za-z0-9-_.~+%] may occur; + is a space, %XY a byte.
func escPercentDecode(out []byte) ([]byte, string) {
	var dec []byte
	hexv := func(c byte) int {
		switch {
		case '0' <= c && c <= '9':
			return int(c - '0')
		case 'a' <= c && c <= 'f':
			return int(c-'a') + 10
		case 'A' <= c && c <= 'F':
			return int(c-'A') + 10
		}
		return -1
	}
	for i := 0; i < len(out); i++ {
		c := out[i]
		switch {
		case c == '+':
			dec = append(dec, ' ')
		case c == '%':
			if i+2 >= len(out) || hexv(out[i+1]) < 0 || hexv(out[i+2]) < 0 {
				return nil, "malformed % escape at offset " + itoa(i)
			}
			dec = append(dec, byte(hexv(out[i+1])<<4|hexv(out[i+2])))
			i += 2
		case 'a' <= c && c <= 'z' || 'A' <= c && c <= 'Z' || '0' <= c && c <= '9' || c == '-' || c == '_' || c == '.' || c == '~':
			dec = append(dec, c)
		default:
			return nil, "byte " + strconv.QuoteToASCII(string(c)) + " at offset " + itoa(i) + " is not URL-safe"
		}
	}
	return dec, ""
}

// escJSDecode evaluates the text as the body of a quoted JavaScript string literal
// (ECMAScript StringLiteral: no raw quote, backslash, line terminator; \uXXXX takes exactly
// four hex digits; UTF-16 surrogate pairs combine), additionally refusing a raw '<' (the
// text must be safe inside <script>).  Returns the denoted string as UTF-8.
func escJSDecode(out []byte) ([]byte, string) {
	if !utf8.Valid(out) {
		return nil, "output is not valid UTF-8"
	}
	var units []uint16
	s := string(out)
	for i := 0; i < len(s); {
		r, size := utf8.DecodeRuneInString(s[i:])
		switch {
		case r == '"' || r == '\'' || r == '\n' || r == '\r' || r == 0x2028 || r == 0x2029 || r == '<':
			return nil, "raw " + strconv.QuoteToASCII(string(r)) + " at offset " + itoa(i)
		case r == '\\':
			if i+1 >= len(s) {
				return nil, "dangling backslash"
			}
			switch e := s[i+1]; e {
			case '\\', '\'', '"':
				units = append(units, uint16(e))
				i += 2
			case 'u':
				if i+6 > len(s) {
					return nil, "short \\u escape"
				}
				v, err := strconv.ParseUint(s[i+2:i+6], 16, 16)
				if err != nil {
					return nil, "bad \\u escape"
				}
				units = append(units, uint16(v))
				i += 6
			default:
				return nil, "unexpected escape \\" + string(e)
			}
			continue
		case r >= 0x10000:
			r -= 0x10000
			units = append(units, uint16(0xD800+(r>>10)), uint16(0xDC00+(r&0x3ff)))
		default:
			units = append(units, uint16(r))
		}
		i += size
	}
	var dec []byte
	for i := 0; i < len(units); i++ {
		u := rune(units[i])
		if 0xD800 <= u && u < 0xDC00 && i+1 < len(units) && 0xDC00 <= units[i+1] && units[i+1] < 0xE000 {
			u = 0x10000 + (u-0xD800)<<10 + rune(units[i+1]-0xDC00)
			i++
		}
		dec = utf8.AppendRune(dec, u)
	}
	return dec, ""
}

// escTruncateOracle: the statement of C16 for truncate(n[, ellipsis]) with n >= 0.
func escTruncateOracle(v, out []byte, n int, ellipsis bool) string {
	if len(v) <= n {
		if !bytes.Equal(out, v) {
			return "value fits the limit but was changed"
		}
		return ""
	}
	if len(out) > n {
		return "result is longer than the limit (" + itoa(len(out)) + " > " + itoa(n) + ")"
	}
	p := out
	if !bytes.HasPrefix(v, p) {
		if ellipsis && bytes.HasSuffix(out, []byte("...")) && bytes.HasPrefix(v, out[:len(out)-3]) {
			p = out[:len(out)-3]
		} else {
			return "result is not a prefix of the value (plus optional ellipsis)"
		}
	}
	if utf8.Valid(v) {
		if !utf8.Valid(out) {
			return "result is not valid UTF-8 although the value is"
		}
	}
	// the start of the text is always a boundary (text beginning with continuation bytes is cut to nothing)
	if len(p) > 0 && len(p) < len(v) && !utf8.RuneStart(v[len(p)]) {
		return "cut inside a character (next byte is a continuation byte)"
	}
	return ""
}

func escViol(key, what string) *Viol { return &Viol{Key: key, What: what} }

func escKeyOf(c *Case, impl string) string {
	f := strings.Split(c.Req, "\t")
	if f[0] == "dir" && len(f) > 1 {
		return "dir:" + f[1]
	}
	return f[0]
}

// escOracle checks the implementation's answer against the property statements.
func escOracle(c *Case, impl string) *Viol {
	f := strings.Split(c.Req, "\t")
	op := f[0]
	var out []byte
	isOK := strings.HasPrefix(impl, "OK ")
	if isOK {
		var ok bool
		if out, ok = unhx(impl[3:]); !ok {
			return nil
		}
	}
	htmlCheck := func(key string, v []byte, tag string, want []byte) *Viol {
		dec, why := escHTMLDecode(out, tag)
		if why != "" {
			return escViol(key, key+": "+why)
		}
		if !bytes.Equal(dec, want) {
			return escViol(key, key+": output does not decode back to the value")
		}
		return nil
	}
	switch op {
	case "htmlesc":
		v, _ := unhx(f[1])
		if !isOK {
			return escViol("htmlesc:fail", "autoescaper failed: "+impl)
		}
		return htmlCheck("htmlesc", v, "", v)
	case "gohtmlesc":
		v, _ := unhx(f[1])
		if !isOK {
			return escViol("gohtmlesc:fail", "escaper failed: "+impl)
		}
		return htmlCheck("gohtmlesc", v, "", escNulToFFFD(v))
	case "queryesc":
		v, _ := unhx(f[1])
		dec, why := escPercentDecode(out)
		if !isOK || why != "" {
			return escViol("queryesc", "queryesc: "+why+impl[:min(len(impl), 5)])
		}
		if !bytes.Equal(dec, v) {
			return escViol("queryesc", "queryesc: output does not percent-decode to the value")
		}
	case "jsesc":
		// text/template.JSEscape itself: soy no longer calls it (internal/jsescape since c70f1e4); the op stays as
		// the tie of the baseline model that jsEscapeFixed is compared with, without a property oracle.
		return nil
	case "jsesc2":
		// the proposed escaper: safe and evaluating to the value on EVERY valid string, equal to
		// text/template.JSEscape wherever that one is right
		v, _ := unhx(f[1])
		if vi := escJSOracle("jsesc2", v, out, isOK); vi != nil {
			return vi
		}
		if utf8.Valid(v) {
			ref := []byte(template.JSEscapeString(string(v)))
			if dec, why := escJSDecode(ref); why == "" && bytes.Equal(dec, v) && !bytes.Equal(ref, out) {
				return escViol("jsesc2:differs", "jsesc2: differs from text/template.JSEscape on an input that one handles correctly")
			}
		}
		if bytes.ContainsAny(out, "<>&=\n\r") {
			return escViol("jsesc2:unsafe", "jsesc2: unsafe byte in the output")
		}
	case "jsrt2":
		v, _ := unhx(f[1])
		if utf8.Valid(v) && (!isOK || !bytes.Equal(out, v)) {
			return escViol("jsrt2", "jsrt2: the proposed escaper's output does not evaluate to the value")
		}
	case "jsonstr":
		v, _ := unhx(f[1])
		return escJSONOracle("jsonstr", v, out, isOK)
	case "dir":
		if len(f) < 3 {
			return nil
		}
		name := f[1]
		v, _ := unhx(f[2])
		args := f[3:]
		inRange := func(n int) bool { return len(args) == n }
		switch name {
		case "escapeHtml", "changeNewlineToBr", "escapeUri", "escapeJsString", "json", "id", "noAutoescape":
			if !inRange(0) {
				return nil
			}
			if !isOK {
				return escViol("dir:"+name+":fail", name+" failed on an in-range call: "+impl)
			}
		}
		switch name {
		case "escapeHtml":
			return htmlCheck("dir:escapeHtml", v, "", v)
		case "changeNewlineToBr":
			return htmlCheck("dir:changeNewlineToBr", v, "<br>", escStripNewlines(v))
		case "insertWordBreaks":
			if len(args) != 1 {
				return nil
			}
			n, err := strconv.Atoi(args[0])
			if err != nil || n < 1 {
				return nil
			}
			if !isOK {
				return escViol("dir:insertWordBreaks:fail", "insertWordBreaks failed on an in-range call: "+impl)
			}
			return htmlCheck("dir:insertWordBreaks", v, "<wbr>", v)
		case "escapeUri":
			dec, why := escPercentDecode(out)
			if why != "" {
				return escViol("dir:escapeUri", "escapeUri: "+why)
			}
			if !bytes.Equal(dec, v) {
				return escViol("dir:escapeUri", "escapeUri: output does not percent-decode to the value")
			}
		case "escapeJsString":
			return escJSOracle("dir:escapeJsString", v, out, isOK)
		case "json":
			return escJSONOracle("dir:json", v, out, isOK)
		case "id", "noAutoescape":
			if !bytes.Equal(out, v) {
				return escViol("dir:"+name, name+" changed the value")
			}
		case "truncate":
			if len(args) < 1 || len(args) > 2 {
				return nil
			}
			n, err := strconv.Atoi(args[0])
			if err != nil || n < 0 {
				return nil // not an in-range integer argument
			}
			ell := true
			if len(args) == 2 {
				if args[1] != "true" && args[1] != "false" {
					return nil
				}
				ell = args[1] == "true"
			}
			if !isOK {
				return escViol("dir:truncate:fail", "truncate("+itoa(n)+") does not return a value (a Go panic is surfaced by evalPrint as a render error): "+impl)
			}
			if why := escTruncateOracle(v, out, n, ell); why != "" {
				return escViol("dir:truncate", "truncate: "+why)
			}
		}
	case "print":
		// the C03 statement: mode on/contextual (or unspecified = on) and no cancelling directive
		// => escaped output that decodes to the value.  Only chains without directives (or with
		// truncate only, which does not cancel) are judged here; the table obligation in
		// Inst/C03.lean pins the set of cancelling names.
		if len(f) < 4 {
			return nil
		}
		ns, tm := f[1], f[2]
		v, _ := unhx(f[3])
		eff := tm
		if eff == "-" {
			eff = ns
		}
		if eff == "false" {
			return nil
		}
		chain := f[4:]
		if len(chain) == 0 {
			if !isOK {
				return escViol("print:fail", "plain print failed: "+impl)
			}
			return htmlCheck("print:autoescape", v, "", v)
		}
		if len(chain) == 1 && strings.HasPrefix(chain[0], "truncate,") && isOK {
			if _, why := escHTMLDecode(out, ""); why != "" {
				return escViol("print:autoescape", "print|truncate: "+why)
			}
		}
	}
	return nil
}

func escJSOracle(key string, v, out []byte, isOK bool) *Viol {
	if !isOK {
		return escViol(key+":fail", key+" failed")
	}
	if !utf8.Valid(v) {
		return nil // a script is Unicode text: the statement is about well-formed strings
	}
	dec, why := escJSDecode(out)
	if why != "" {
		return escViol(key, key+": "+why)
	}
	if !bytes.Equal(dec, v) {
		k := key
		for _, r := range string(v) {
			if r > 0xFFFF {
				k = key + ":astral-escape"
			}
		}
		return escViol(k, key+": as a JavaScript string literal the output evaluates to "+quote(dec)+", not to the value")
	}
	return nil
}

func escJSONOracle(key string, v, out []byte, isOK bool) *Viol {
	if !isOK {
		return escViol(key+":fail", key+" failed")
	}
	if !utf8.Valid(v) {
		return nil
	}
	var s string
	if err := json.Unmarshal(out, &s); err != nil {
		return escViol(key, key+": output is not a JSON string: "+err.Error())
	}
	if s != string(v) {
		return escViol(key, key+": output parses to a different string")
	}
	return nil
}
