module verifharness

go 1.21

require (
	github.com/robertkrimen/otto v0.0.0-20191219234010-c382bd3c16ff
	github.com/robfig/gettext v0.0.0-20200526193151-a093425df149
	github.com/robfig/soy v0.0.0
)

require (
	github.com/fsnotify/fsnotify v1.4.9 // indirect
	golang.org/x/sys v0.0.0-20220722155257-8c9f86f7a55f // indirect
	gopkg.in/sourcemap.v1 v1.0.5 // indirect
	golang.org/x/text v0.3.8 // indirect
)

replace github.com/robfig/soy => /repo
