module verifharness

go 1.21

require (
	github.com/robfig/gettext v0.0.0-20200526193151-a093425df149
	github.com/robfig/soy v0.0.0
)

require (
	github.com/fsnotify/fsnotify v1.4.9 // indirect
	golang.org/x/sys v0.0.0-20220722155257-8c9f86f7a55f // indirect
	golang.org/x/text v0.3.8 // indirect
)

replace github.com/robfig/soy => /repo
