module verifharness

go 1.21

require github.com/robfig/soy v0.0.0

replace github.com/robfig/soy => /repo
