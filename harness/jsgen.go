package main

import (
	"bytes"
	"fmt"
	"math"
	"sort"
	"strconv"
	"strings"
	"sync"

	soy "github.com/robfig/soy"
	"github.com/robfig/soy/ast"
	"github.com/robfig/soy/data"
	"github.com/robfig/soy/soyjs"
	"github.com/robfig/soy/soymsg"
	"github.com/robfig/soy/template"
)

// ---- S-expressions read back on the Go side (globals, message bundles) ----

type sxNode struct {
	atom string
	list []*sxNode
	isL  bool
}

func parseSx(s string) (*sxNode, bool) {
	var stack []*sxNode
	cur := &sxNode{isL: true}
	i := 0
	for i < len(s) {
		switch c := s[i]; {
		case c == '(':
			stack = append(stack, cur)
			cur = &sxNode{isL: true}
			i++
		case c == ')':
			if len(stack) == 0 {
				return nil, false
			}
			top := stack[len(stack)-1]
			stack = stack[:len(stack)-1]
			top.list = append(top.list, cur)
			cur = top
			i++
		case c == ' ':
			i++
		default:
			j := i
			for j < len(s) && s[j] != '(' && s[j] != ')' && s[j] != ' ' {
				j++
			}
			cur.list = append(cur.list, &sxNode{atom: s[i:j]})
			i = j
		}
	}
	if len(stack) != 0 || len(cur.list) != 1 {
		return nil, false
	}
	return cur.list[0], true
}

func (n *sxNode) head() string {
	if n.isL && len(n.list) > 0 && !n.list[0].isL {
		return n.list[0].atom
	}
	return ""
}

func (n *sxNode) hexAt(i int) string {
	if i < len(n.list) {
		b, _ := unhx(n.list[i].atom)
		return string(b)
	}
	return ""
}

// ---- globals on the wire ----

func sxValue(v data.Value) string {
	switch v := v.(type) {
	case data.Undefined:
		return "(u)"
	case data.Null:
		return "(n)"
	case data.Bool:
		return sx("b", bit(bool(v)))
	case data.Int:
		return sx("i", strconv.FormatInt(int64(v), 10))
	case data.Float:
		return sx("f", strconv.FormatUint(math.Float64bits(float64(v)), 10))
	case data.String:
		return sx("s", hxs(string(v)))
	case data.List:
		parts := []string{"l"}
		for _, x := range v {
			parts = append(parts, sxValue(x))
		}
		return sx(parts...)
	case data.Map:
		keys := make([]string, 0, len(v))
		for k := range v {
			keys = append(keys, k)
		}
		sort.Strings(keys)
		parts := []string{"m"}
		for _, k := range keys {
			parts = append(parts, sx(hxs(k), sxValue(v[k])))
		}
		return sx(parts...)
	}
	return "(u)"
}

func sxGlobals(g data.Map) string {
	keys := make([]string, 0, len(g))
	for k := range g {
		keys = append(keys, k)
	}
	sort.Strings(keys)
	parts := []string{"globals"}
	for _, k := range keys {
		parts = append(parts, sx(hxs(k), sxValue(g[k])))
	}
	return sx(parts...)
}

func valueOfSx(n *sxNode) data.Value {
	switch n.head() {
	case "n":
		return data.Null{}
	case "b":
		return data.Bool(n.list[1].atom == "1")
	case "i":
		i, _ := strconv.ParseInt(n.list[1].atom, 10, 64)
		return data.Int(i)
	case "f":
		u, _ := strconv.ParseUint(n.list[1].atom, 10, 64)
		return data.Float(math.Float64frombits(u))
	case "s":
		return data.String(n.hexAt(1))
	case "l":
		l := data.List{}
		for _, x := range n.list[1:] {
			l = append(l, valueOfSx(x))
		}
		return l
	case "m":
		m := data.Map{}
		for _, kv := range n.list[1:] {
			m[kv.hexAt(0)] = valueOfSx(kv.list[1])
		}
		return m
	}
	return data.Undefined{}
}

func globalsOfSx(s string) data.Map {
	g := data.Map{}
	n, ok := parseSx(s)
	if !ok || n.head() != "globals" {
		return g
	}
	for _, kv := range n.list[1:] {
		g[kv.hexAt(0)] = valueOfSx(kv.list[1])
	}
	return g
}

// ---- message bundles on the wire ----

type jsMemBundle struct {
	msgs   map[uint64]*soymsg.Message
	plural func(n int) int
}

func (b *jsMemBundle) Locale() string { return "xx" }
func (b *jsMemBundle) Message(id uint64) *soymsg.Message {
	if b == nil {
		return nil
	}
	return b.msgs[id]
}
func (b *jsMemBundle) PluralCase(n int) int {
	if b.plural != nil {
		return b.plural(n)
	}
	return -1
}

func sxMsgParts(ps []soymsg.Part) []string {
	var out []string
	for _, p := range ps {
		switch p := p.(type) {
		case soymsg.RawTextPart:
			out = append(out, sx("r", hxs(p.Text)))
		case soymsg.PlaceholderPart:
			out = append(out, sx("p", hxs(p.Name)))
		case soymsg.PluralPart:
			parts := []string{"pl", hxs(p.VarName)}
			for _, c := range p.Cases {
				parts = append(parts, sx(append([]string{"c"}, sxMsgParts(c.Parts)...)...))
			}
			out = append(out, sx(parts...))
		}
	}
	return out
}

func sxMsgs(b *jsMemBundle) string {
	if b == nil {
		return "-"
	}
	ids := make([]uint64, 0, len(b.msgs))
	for id := range b.msgs {
		ids = append(ids, id)
	}
	sort.Slice(ids, func(i, j int) bool { return ids[i] < ids[j] })
	parts := []string{"msgs"}
	for _, id := range ids {
		parts = append(parts, sx(append([]string{strconv.FormatUint(id, 10)}, sxMsgParts(b.msgs[id].Parts)...)...))
	}
	return sx(parts...)
}

func msgPartsOfSx(ns []*sxNode) []soymsg.Part {
	var out []soymsg.Part
	for _, n := range ns {
		switch n.head() {
		case "r":
			out = append(out, soymsg.RawTextPart{Text: n.hexAt(1)})
		case "p":
			out = append(out, soymsg.PlaceholderPart{Name: n.hexAt(1)})
		case "pl":
			pp := soymsg.PluralPart{VarName: n.hexAt(1)}
			for _, c := range n.list[2:] {
				pp.Cases = append(pp.Cases, soymsg.PluralCase{Spec: soymsg.PluralSpec{Type: soymsg.PluralSpecOther, ExplicitValue: -1}, Parts: msgPartsOfSx(c.list[1:])})
			}
			out = append(out, pp)
		}
	}
	return out
}

func msgsOfSx(s string) *jsMemBundle {
	if s == "-" {
		return nil
	}
	n, ok := parseSx(s)
	if !ok || n.head() != "msgs" {
		return nil
	}
	b := &jsMemBundle{msgs: map[uint64]*soymsg.Message{}}
	for _, m := range n.list[1:] {
		id, _ := strconv.ParseUint(m.list[0].atom, 10, 64)
		b.msgs[id] = &soymsg.Message{ID: id, Parts: msgPartsOfSx(m.list[1:])}
	}
	return b
}

// identityParts: the message as its own translation.
func identityParts(children []ast.Node) []soymsg.Part {
	var out []soymsg.Part
	for _, c := range children {
		switch c := c.(type) {
		case *ast.RawTextNode:
			out = append(out, soymsg.RawTextPart{Text: string(c.Text)})
		case *ast.MsgPlaceholderNode:
			out = append(out, soymsg.PlaceholderPart{Name: c.Name})
		case *ast.MsgPluralNode:
			pp := soymsg.PluralPart{VarName: c.VarName}
			for _, pc := range c.Cases {
				pp.Cases = append(pp.Cases, soymsg.PluralCase{Parts: identityParts(pc.Body.Children())})
			}
			pp.Cases = append(pp.Cases, soymsg.PluralCase{Parts: identityParts(c.Default.Children())})
			out = append(out, pp)
		}
	}
	return out
}

func reverseParts(ps []soymsg.Part) []soymsg.Part {
	out := make([]soymsg.Part, 0, len(ps))
	for i := len(ps) - 1; i >= 0; i-- {
		p := ps[i]
		if pp, ok := p.(soymsg.PluralPart); ok {
			q := soymsg.PluralPart{VarName: pp.VarName}
			for _, c := range pp.Cases {
				q.Cases = append(q.Cases, soymsg.PluralCase{Spec: c.Spec, Parts: reverseParts(c.Parts)})
			}
			p = q
		}
		out = append(out, p)
	}
	return out
}

func allMsgNodes(reg *template.Registry) []*ast.MsgNode {
	var out []*ast.MsgNode
	for _, f := range reg.SoyFiles {
		for _, n := range f.Body {
			findMsgs(n, &out)
		}
	}
	return out
}

// ---- compiling with globals (cached in the worker) ----

var (
	jcMu    sync.Mutex
	jcKeys  []string
	jcCache = map[string]*ccEntry{}
)

func jsCompile(fs []srcFile, globals data.Map) (*template.Registry, error) {
	b := soy.NewBundle()
	for _, f := range fs {
		b.AddTemplateString(f.name, f.content)
	}
	if len(globals) > 0 {
		b.AddGlobalsMap(globals)
	}
	return b.Compile()
}

func jsCompileCached(encSrc, encGlobals string) (*template.Registry, error) {
	key := encSrc + "|" + encGlobals
	jcMu.Lock()
	defer jcMu.Unlock()
	if e, ok := jcCache[key]; ok {
		return e.reg, e.err
	}
	reg, err := jsCompile(decSources(encSrc), globalsOfSx(encGlobals))
	if len(jcKeys) >= 32 {
		delete(jcCache, jcKeys[0])
		jcKeys = jcKeys[1:]
	}
	jcKeys = append(jcKeys, key)
	jcCache[key] = &ccEntry{reg, err}
	return reg, err
}

func jsFormatter(name string) soyjs.JSFormatter {
	if name == "es6" {
		return &soyjs.ES6Formatter{}
	}
	return &soyjs.ES5Formatter{}
}

// jsWrite = soyjs.Write on the named file of the registry; ok=false if Write returns an error.
func jsWrite(reg *template.Registry, file, formatter string, msgs *jsMemBundle) (string, bool) {
	for _, f := range reg.SoyFiles {
		if f.Name == file {
			var buf bytes.Buffer
			opts := soyjs.Options{Formatter: jsFormatter(formatter)}
			if msgs != nil {
				opts.Messages = msgs
			}
			if err := soyjs.Write(&buf, f, opts); err != nil {
				return err.Error(), false
			}
			return buf.String(), true
		}
	}
	return "no such file", false
}

func init() {
	// fields: sources, compiled files (read by the model only), file name, formatter, messages, globals, orders
	implOps["jsgen"] = func(f []string) string {
		reg, err := jsCompileCached(f[0], f[5])
		if err != nil {
			return "COMPILE-ERR"
		}
		name, _ := unhx(f[2])
		js, ok := jsWrite(reg, string(name), f[3], msgsOfSx(f[4]))
		if !ok {
			return "ERR"
		}
		return "OK " + hxs(js)
	}
	register(&Prop{
		ID: "C14gen",
		Rule: "generated bundles with every feature (all directives, css with expression, log, debugger, msg/plural with and without an in-memory translation bundle, globals of every kind, string literals / raw text / map keys / css names drawn from all ASCII bytes, U+2028/9, quotes, backslashes, </script>, astral code points, long strings; map literals with >= 4 keys; a hub template with >= 7 cross-file calls) " +
			"compiled by the real compiler; per file x formatter (ES5, ES6) x bundle: soyjs.Write versus the Lean model on the compiled trees, compared as JavaScript token streams (string literals verbatim); " +
			"the model runs under three iteration orders of the Go maps; non-trivial = the file contains a call, a message, a global, a map literal or a print directive",
		Gen:   genC14gen,
		CanonBoth: jsCanon,
	})
}

// ---- generator ----

var jsWeirdRunes = []rune{'\'', '"', '\\', '\n', '\r', '\t', 0, 1, 0x1f, 0x7f, '<', '>', '&', '=', '/', '{', '}', ' ', 'a', 'Z', '0', 0xe9, 0x2028, 0x2029, 0xfeff, 0xfffd, 0x1F600, 0xF0000, 0x10FFFF, 0x80, 0x3b1}

// weirdString draws a string from all ASCII bytes, the JS line terminators, quotes,
// backslashes, "</script>", astral code points; sometimes long.
func weirdString(r *RNG) string {
	switch r.Intn(10) {
	case 0:
		return "</script><!--"
	case 1:
		return "it's \"q\" \\ end"
	case 2:
		return strings.Repeat("long'\"\\<", 40+r.Intn(80))
	}
	n := r.Intn(9)
	var b strings.Builder
	for i := 0; i < n; i++ {
		switch r.Intn(3) {
		case 0:
			b.WriteRune(rune(r.Intn(128)))
		default:
			b.WriteRune(jsWeirdRunes[r.Intn(len(jsWeirdRunes))])
		}
	}
	return b.String()
}

// soyQuote spells a Soy string literal with the given value.
func soyQuote(v string, r *RNG) string {
	var b strings.Builder
	b.WriteByte('\'')
	for _, c := range v {
		switch {
		case c == '\'':
			b.WriteString(`\'`)
		case c == '\\':
			b.WriteString(`\\`)
		case c == '\n':
			b.WriteString(`\n`)
		case c == '\r':
			b.WriteString(`\r`)
		case c == '\t':
			b.WriteString(`\t`)
		case c < 0x20 || c == 0x7f || c == '{' || c == '}':
			fmt.Fprintf(&b, `\u%04x`, c)
		case c < 0x10000 && c >= 0x80 && r != nil && r.Intn(3) == 0:
			fmt.Fprintf(&b, `\u%04X`, c)
		default:
			b.WriteRune(c)
		}
	}
	b.WriteByte('\'')
	return b.String()
}

// literalBlock spells raw text with the given value through {literal}.
func literalBlock(v string) string {
	v = strings.ReplaceAll(v, "{/literal}", "")
	if v == "" {
		v = "'" // an empty {literal} block does not parse
	}
	return "{literal}" + v + "{/literal}"
}

var jsAllDirectives = []string{"|json", "|bidiSpanWrap", "|bidiUnicodeWrap", "|escapeJsString|noAutoescape", "|id|escapeHtml", "|truncate:3|insertWordBreaks:2", "|noAutoescape|truncate:6,true"}

var jsGlobals = data.Map{
	"G_NULL": data.Null{}, "G_T": data.Bool(true), "G_F": data.Bool(false), "G_I": data.Int(42), "G_NEG": data.Int(-7),
	"G_BIG": data.Int(1 << 52), "G_FL": data.Float(2.5), "G_FL3": data.Float(3), "G_INF": data.Float(math.Inf(1)), "G_NINF": data.Float(math.Inf(-1)),
	"G_NAN": data.Float(math.NaN()), "G_NZERO": data.Float(math.Copysign(0, -1)), "G_S": data.String("he said \"hi\"\n</script>'\\ "),
	"G_S2": data.String("plain"), "g.dotted.NAME": data.String("\U0001F600 \U000F0000"),
}

var jsGlobalsByType = map[ty][]string{
	tNull: {"G_NULL"}, tBool: {"G_T", "G_F"}, tInt: {"G_I", "G_NEG", "G_BIG"}, tFloat: {"G_FL", "G_FL3", "G_INF", "G_NINF", "G_NAN", "G_NZERO"}, tStr: {"G_S", "G_S2", "g.dotted.NAME"},
	tList: {"G_L"}, tMap: {"G_M"},
}

func jsGlobalsFull() data.Map {
	g := data.Map{}
	for k, v := range jsGlobals {
		g[k] = v
	}
	g["G_L"] = data.List{data.Int(1), data.String("a'\"b"), data.List{data.Float(0.5), data.Null{}}}
	g["G_M"] = data.Map{"k\"1": data.Int(1), "b\\": data.Map{"c": data.Null{}, "</script>": data.Bool(true)}, "z": data.List{}, "a": data.String(" ")}
	return g
}

func bigMapLiteral(r *RNG) string {
	n := 4 + r.Intn(4)
	seen := map[string]bool{}
	var parts []string
	for len(parts) < n {
		k := weirdString(r)
		if len(k) > 40 {
			k = k[:7]
		}
		if r.Intn(2) == 0 {
			k = []string{"a", "b", "k1", "zz", "k\"q", "b\\s", "it's"}[r.Intn(7)]
		}
		// a key must survive the soy literal round trip as valid UTF-8 (the generator cuts strings bytewise)
		k = strings.ToValidUTF8(k, "?")
		if seen[k] {
			continue
		}
		seen[k] = true
		parts = append(parts, soyQuote(k, r)+": "+[]string{"1", "'v'", "null", "[1, 2]", "true", "2.5"}[r.Intn(6)])
	}
	return "[" + strings.Join(parts, ", ") + "]"
}

func jsExtraLit(g *bundleGen, t ty) (string, bool) {
	r := g.r
	if r.Intn(5) != 0 {
		return "", false
	}
	g.stat("js-extra-lit")
	if names, ok := jsGlobalsByType[t]; ok && r.Intn(2) == 0 {
		g.stat("global")
		return names[r.Intn(len(names))], true
	}
	switch t {
	case tStr:
		g.stat("weird-string-literal")
		return soyQuote(strings.ToValidUTF8(weirdString(r), "?"), r), true
	case tMap:
		g.stat("big-map-literal")
		return bigMapLiteral(r), true
	case tInt:
		return []string{"9007199254740992", "0", "-0", "0x1F", "1234567890123"}[r.Intn(5)], true
	case tFloat:
		return []string{"1e6", "1.5e-7", "0.1", "3.0", "1e21", "123456.789", "0.5e1"}[r.Intn(7)], true
	}
	return "", false
}

func jsExtraCmd(g *bundleGen, s *gScope, depth int) (string, bool) {
	r := g.r
	if r.Intn(7) != 0 {
		return "", false
	}
	switch r.Intn(9) {
	case 8:
		// placeholder names that collide (X, X, X_1 …): the naming pass ranges over Go maps
		if ms := s.ofType(tMap); len(ms) > 0 && g.opts.msgs {
			m := ms[r.Intn(len(ms))]
			s.used[m] = true
			n := s.vars[m].name
			g.stat("msg-colliding-placeholders")
			return "{msg desc=\"collide\"}{$" + n + ".x}{$" + n + ".y.x}{$" + n + ".x_1}{$" + n + ".x}<b>{$" + n + ".z.x_1}</b><b class=\"c\">{$" + n + ".x_2}</b>{/msg}", true
		}
	case 0:
		g.stat("debugger")
		return "{debugger}", true
	case 1:
		g.stat("weird-literal-block")
		return literalBlock(strings.ToValidUTF8(weirdString(r), "?")), true
	case 2:
		g.stat("weird-css")
		w := strings.Map(func(c rune) rune {
			if c == '}' || c == '{' || c == ',' || c == '\n' || c == '\r' || c < 0x20 {
				return '-'
			}
			return c
		}, strings.ToValidUTF8(weirdString(r), "?"))
		if len(w) > 30 {
			w = w[:30]
			w = strings.ToValidUTF8(w, "?")
		}
		if r.Bool() {
			return "{css " + g.expr(s, 0, tStr) + ", x" + w + "}", true
		}
		return "{css x" + w + "}", true
	case 3:
		g.stat("print-map-literal")
		return "{" + bigMapLiteral(r) + "|json}", true
	case 4:
		g.stat("print-global")
		all := []string{"G_NULL", "G_T", "G_I", "G_NEG", "G_FL", "G_FL3", "G_INF", "G_NINF", "G_NAN", "G_NZERO", "G_S", "g.dotted.NAME", "G_L", "G_M"}
		return "{" + all[r.Intn(len(all))] + "}", true
	case 5:
		g.stat("all-directives")
		return "{" + g.expr(s, 1, tStr) + jsAllDirectives[r.Intn(len(jsAllDirectives))] + "}", true
	case 6:
		g.stat("funcs")
		return "{" + []string{"round(2.567, 2)", "round(3.5)", "floor(2.5)", "ceiling(2.5)", "max(1, 2.5)", "min(1, 2)", "length(keys(['a': 1]))", "length(keys(augmentMap(['a': 1], ['b': 2])))", "strContains('abc', 'b')", "randomInt(1)", "hasData()", "bidiGlobalDir()", "bidiStartEdge()", "bidiEndEdge()", "isNonnull(null)"}[r.Intn(15)] + "}", true
	case 7:
		g.stat("nullsafe-refs")
		if ms := s.ofType(tMap); len(ms) > 0 {
			m := ms[r.Intn(len(ms))]
			s.used[m] = true
			n := s.vars[m].name
			return "{$" + n + "?.a ?: 'd'}{$" + n + "?['b']?.c}{$" + n + ".l?[0]}{$ij.foo}{$ij?.bar.baz}", true
		}
	}
	return "", false
}

// libFile: nine leaf templates in a namespace of their own, and a hub template (appended to the
// first file) that calls all of them and uses functions and directives: >= 7 ES6 imports.
func addHub(b *gBundle, r *RNG) {
	lib := &gFile{name: "lib.soy", ns: "lib.u"}
	var calls strings.Builder
	for i := 0; i < 9; i++ {
		short := string(rune('a' + i))
		t := &gTemplate{ns: lib.ns, short: short, body: "[" + short + "]"}
		if i%3 == 0 {
			t.params = []gParam{{"s", tStr, false}}
			t.body = "[" + short + " {$s}]"
		}
		lib.tmpls = append(lib.tmpls, t)
	}
	order := r.Intn(3)
	for k := 0; k < 9; k++ {
		i := k
		if order == 1 {
			i = 8 - k
		} else if order == 2 {
			i = (k*4 + 3) % 9
		}
		short := string(rune('a' + i))
		if i%3 == 0 {
			calls.WriteString("{call lib.u." + short + "}{param s: 'x' /}{/call}")
		} else {
			calls.WriteString("{call lib.u." + short + " /}")
		}
	}
	// names that differ only in case, or that a case-insensitive / non-stable order would tie or swap
	for _, short := range []string{"Row", "row", "ROW", "rOw", "A", "B", "Ab", "aB", "a_b", "Z9", "z9"} {
		lib.tmpls = append(lib.tmpls, &gTemplate{ns: lib.ns, short: short, body: "[" + short + "]"})
	}
	for _, k := range r.Perm(11) {
		calls.WriteString("{call lib.u." + []string{"Row", "row", "ROW", "rOw", "A", "B", "Ab", "aB", "a_b", "Z9", "z9"}[k] + " /}")
	}
	hub := &gTemplate{ns: b.files[0].ns, short: "hub", body: calls.String() + "{round(1.5)}{'abcdef'|truncate:3}{floor(2.5)|escapeUri}{max(1, 2)}"}
	b.files[0].tmpls = append(b.files[0].tmpls, hub)
	b.files = append(b.files, lib)
}

type jsBundleCase struct {
	fs      []srcFile
	globals data.Map
	reg     *template.Registry
	wire    string
	gwire   string
	msgs    []*jsMemBundle // nil entry = no bundle
	nt      bool
}

// translations builds an in-memory bundle for the compiled messages: kind 0 identity, 1 reversed,
// 2 with extra text (specials) and a duplicated placeholder, 3 with an unknown placeholder (Write fails).
func translations(reg *template.Registry, r *RNG, kind int) *jsMemBundle {
	b := &jsMemBundle{msgs: map[uint64]*soymsg.Message{}}
	for _, m := range allMsgNodes(reg) {
		if r.Intn(5) == 0 {
			continue // not translated: the source text is used
		}
		parts := identityParts(m.Body.Children())
		switch kind {
		case 1:
			parts = reverseParts(parts)
		case 2:
			parts = append([]soymsg.Part{soymsg.RawTextPart{Text: "«'\"\\\n</script> » "}}, parts...)
			for _, p := range parts {
				if ph, ok := p.(soymsg.PlaceholderPart); ok {
					parts = append(parts, ph)
					break
				}
			}
		case 3:
			if r.Intn(4) == 0 {
				parts = append(parts, soymsg.PlaceholderPart{Name: "NO_SUCH_PH"})
			}
		}
		b.msgs[m.ID] = &soymsg.Message{ID: m.ID, Parts: parts}
	}
	return b
}

func newJsBundleGen(r *RNG) *bundleGen {
	return newBundleGen(r, bundleOpts{msgs: true, directives: true, calls: true,
		extraCmd: jsExtraCmd, extraLit: jsExtraLit, extraDirectives: jsAllDirectives})
}

func makeJsBundleCase(bg *bundleGen, r *RNG, hub bool) (*jsBundleCase, error) {
	b := bg.bundle()
	if hub {
		addHub(b, r)
	}
	c := &jsBundleCase{fs: b.sources(), globals: jsGlobalsFull()}
	reg, err := jsCompile(c.fs, c.globals)
	if err != nil {
		return c, err
	}
	c.reg = reg
	parts := []string{"files"}
	for _, f := range reg.SoyFiles {
		parts = append(parts, sxFile(f))
	}
	c.wire = sx(parts...)
	c.gwire = sxGlobals(c.globals)
	c.msgs = []*jsMemBundle{nil}
	if len(allMsgNodes(reg)) > 0 {
		c.msgs = append(c.msgs, translations(reg, r, r.Intn(4)))
	}
	for _, f := range c.fs {
		if strings.Contains(f.content, "{call ") || strings.Contains(f.content, "{msg ") || strings.Contains(f.content, "G_") || strings.Contains(f.content, "': ") || strings.Contains(f.content, "|") {
			c.nt = true
		}
	}
	return c, nil
}

// hand-written corners: shapes the random generator does not reach.
var jsHandSources = []string{
	// shapes that must either be rejected by the compiler or yield JavaScript that parses (they used to compile into broken files)
	"{namespace n}\n/** @param a */\n{template .t}{if $a == 1}A{else}B{else}C{/if}{/template}\n/** */\n{template .other}x{/template}\n",
	"{namespace n}\n/** @param a */\n{template .t}{switch $a}{case 1}A{default}B{default}C{/switch}{/template}\n",
	"{namespace n}\n/** @param a */\n{template .t}{$a.}{/template}\n",
	"{namespace n}\n/** @param a */\n{template .t}{$a?.}{$a.\u0663}{/template}\n",
	"{namespace n}\n/** */\n{template .}x{/template}\n",
	"{namespace ns.}\n/** */\n{template .t}x{/template}\n",
	"{namespace n}\n/** @param a */\n{template .t}{length(5)}{length(-5)}{strContains(5, 'a')}{length(not $a)}{-isNonnull($a)}{/template}\n",
	"{namespace a}\n{template .t}\n{@param x: ?}\nA{@param y: ?}{$x}{$y}\n{/template}\n", // header param after content: Write fails
	"{namespace a.b.c.d}\n/** @param x */\n{template .t}{foreach $x in $x}{$x}{/foreach}{for $x in range($x)}{$x}{/for}{/template}\n",
	"{namespace n}\n/** @param? a */\n{template .t}{for $i in range(1, $a ?: 3, 2)}{isFirst($i) ? 'f' : ''}{isLast($i)}{index($i)}{/for}{isFirst($a)}{/template}\n",
	"{namespace n}\n/** */\n{template .t}{bidiDirAttr()}{/template}\n",
	"{namespace n}\n{template .t}{length()}{/template}\n",
	// the data KEY `length` (`opt_data.a.length`) next to the length FUNCTION (`(opt_data.a).length`): textually distinct since 0a4b4eb
	"{namespace n}\n/** @param a */\n{template .t}{$a.length}{length($a)}{let $l: $a /}{$l.length}{let $m: $l.length /}{$m}{foreach $i in $a.length}{$i}{/foreach}{/template}\n",
	"{namespace n}\n{template .t}{round(1, 2, 3)}{keys()}{augmentMap(1, 2, 3, 4)}{bidiDirAttr('x')}{/template}\n",
	"{namespace n}\n{template .t}{noSuchFunction(1)}{/template}\n",
	"{namespace n}\n/** @param l */\n{template .t autoescape=\"false\"}{foreach $a in $l}{foreach $b in $l}{$a}{$b}{index($b)}{isLast($a)}{ifempty}e{/foreach}{ifempty}{let $a: 1 /}{$a}{/foreach}{/template}\n",
	"{namespace n}\n/** @param m */\n{template .t}{$m?.a.b?[0]?['k']?[$m.i]}{$m[0][1]}{$ij}{$ij.a}{-$m?.a}{not $m?.b}{/template}\n",
	"{namespace n}\n/** @param s */\n{template .t}{let $s}{$s}{let $s: $s + 1 /}{$s}{/let}{$s}{log}{$s}{log}x{/log}{/log}{call .t}{param s}{$s}{call .t}{param s: $s /}{/call}{/param}{/call}{/template}\n",
	"{namespace n}\n/** @param s */\n{template .t}{switch $s}{case 1, 'a', 2.5}A{let $q: 1 /}{$q}{case null}B{default}C{/switch}{switch $s}{/switch}{/template}\n",
	"{namespace n}\n/** @param n */\n{template .t}{msg desc=\"\"}{plural $n}{case 0}none {$n}{case 1}one{default}{$n} many <b>x</b>{/plural}{/msg}{msg desc=\"d\" meaning=\"m\"}a{$n}b{$n + 1}{$n}<br/>{call .t}{param n: 1 /}{/call}{/msg}{/template}\n",
	"{namespace n}\n/** @param __limit\n @param __index */\n{template .t}{$__limit}{foreach $__limit in $__index}{$__limit}{isLast($__limit)}{/foreach}{/template}\n",
	"{namespace n}\n/** @param 1z */\n{template .t}{$1z}{let $2: 1 /}{$2}{/template}\n",
	"{namespace n}\n{template .t}{G_L}{G_M}{G_NULL}{G_FL3}{G_BIG}{g.dotted.NAME}{G_S|id}{/template}\n",
	// non-finite float globals (soyjs 2b9928c: NaN / Infinity / -Infinity, not +Inf) and the negative zero
	"{namespace n}\n{template .t}{G_INF}{G_NINF}{G_NAN}{G_NZERO}{G_INF + 1}{-G_NINF}{/template}\n",
	// the {ifempty} of a loop over range(…) (soyjs 2e1528d): `if (index == 0) {…}` after the loop, outside its frame
	"{namespace n}\n/** @param n */\n{template .t}{foreach $i in range($n)}[{$i}]{ifempty}nothing{/foreach}|{for $i in range(2, $n)}{$i}{ifempty}E{let $i: 'x' /}{$i}{/for}|{foreach $i in range(0, 3, 2)}{$i}{foreach $j in range($i)}{$j}{ifempty}in{/foreach}{ifempty}no{/foreach}{/template}\n",
	"{namespace n}\n{template .t private=\"true\" autoescape=\"contextual\"}{1|noAutoescape|escapeHtml}{2|id}{3|truncate:1}{4|truncate:1,false}{5|bidiSpanWrap|json}{/template}\n",
	"{namespace n}\n{template .t}{1.0}{1e100}{-0.0}{1e-7}{123456789.0}{9223372036854775807}{-5}{- 5}{0x10}{/template}\n",
	"{namespace n}\n{template .t}{['a': ['b': [1, [2, [:]]]], 'c': []]}{[]}{[:]}{[1, 'x', null, true, 2.5, G_I]}{/template}\n",
}

// file names are arbitrary strings (AddTemplateString's label, any path): the header comment names the file
var handNames = []string{"hand.soy", "dir/ü nter.soy", "a\nalert(1);//.soy", "we\\ird'\"*/.soy", "x\r.soy", "l\u2028s\u2029.soy", "</script>.soy", "bad\xff\xe2\x80\n\xed\xa0\x80.soy"}

func genC14gen(g *G) {
	n := g.N(600, 12000)
	bg := newJsBundleGen(g.R)
	genErrs := 0
	for hi, src := range jsHandSources {
		hname := handNames[hi%len(handNames)]
		fs := []srcFile{{hname, src}}
		globals := jsGlobalsFull()
		reg, err := jsCompile(fs, globals)
		if err != nil {
			g.Add(Case{Req: req("jsgen", encSources(fs), "(files)", "-", "es5", "-", sxGlobals(globals), "1"), Class: "hand-rejected", NoModel: true, Note: "hand#" + itoa(hi) + " " + err.Error()})
			continue
		}
		wire := sx("files", sxFile(reg.SoyFiles[0]))
		bundles := []*jsMemBundle{nil}
		if len(allMsgNodes(reg)) > 0 {
			for k := 0; k < 4; k++ {
				bundles = append(bundles, translations(reg, NewRNG(uint64(k+1)*7919), k))
			}
		}
		for _, fm := range []string{"es5", "es6"} {
			for _, mb := range bundles {
				g.Add(Case{Req: req("jsgen", encSources(fs), wire, hxs(hname), fm, sxMsgs(mb), sxGlobals(globals), "3"), NT: true, Class: "hand-" + fm, Note: "hand#" + itoa(hi) + " " + fm})
			}
		}
	}
	for i := 0; i < n; i++ {
		c, err := makeJsBundleCase(bg, g.R, i%3 == 0)
		if err != nil {
			genErrs++
			if genErrs <= 3 {
				g.Add(Case{Req: req("jsgen", encSources(c.fs), "(files)", "-", "es5", "-", sxGlobals(c.globals), "1"), Class: "generator-bug:" + err.Error(), NoModel: true, Note: "bundle#" + itoa(i)})
			}
			continue
		}
		src := encSources(c.fs)
		for _, f := range c.reg.SoyFiles {
			for _, fm := range []string{"es5", "es6"} {
				for mi, mb := range c.msgs {
					class := fm
					if mb != nil {
						class += "+bundle"
					}
					if mi > 0 && !strings.Contains(sxFile(f), "(msg ") {
						continue // no message in this file: the bundle changes nothing
					}
					g.Add(Case{Req: req("jsgen", src, c.wire, hxs(f.Name), fm, sxMsgs(mb), c.gwire, "3"), NT: c.nt, Class: class,
						Note: fmt.Sprintf("bundle#%d seed=%d file=%s %s", i, g.Seed, f.Name, class)})
				}
			}
		}
	}
}
