package main

import (
	"fmt"
	"sort"
	"strconv"
	"strings"
	"sync"

	soy "github.com/robfig/soy"
	"github.com/robfig/soy/ast"
)

// C10conc: ids are a function of the message, not of what else the process is doing.  Several goroutines compile
// DIFFERENT bundles (many long messages each) at the same time, repeatedly; every message must get the id and the
// placeholder names it gets when its bundle is compiled alone.  (A server compiles its bundles in parallel; the
// catalogue was extracted by a sequential run.)

func init() {
	register(&Prop{
		ID: "C10conc",
		Rule: "8 goroutines x rounds, each compiling its own bundle of 24 long messages (text, placeholders, tags, plurals, meanings) while the others compile theirs; " +
			"oracle: id, placeholder names and placeholder string of every message = those of the sequential compilation of the same bundle; non-trivial = every comparison",
		Direct: directC10conc,
	})
}

func c10concObserve(src string) (string, error) {
	reg, err := soy.NewBundle().AddTemplateString("c.soy", src).Compile()
	if err != nil {
		return "", err
	}
	var ms []*ast.MsgNode
	for _, t := range reg.Templates {
		findMsgs(t.Node, &ms)
	}
	var obs []string
	for _, m := range ms {
		obs = append(obs, msgObs(m))
	}
	sort.Strings(obs)
	return strings.Join(obs, "\n"), nil
}

func directC10conc(g *G, rep *Report) {
	const G = 8
	r := g.R.Fork()
	words := []string{"Hello", "world", "archive", "You have", "messages", "click", "here", "to continue", "é", "naïve", "<b>", "</b>", "<a href=\"x\">", "</a>", "<br/>"}
	mkBundle := func(w int) string {
		var b strings.Builder
		b.WriteString("{namespace c" + strconv.Itoa(w) + "}\n/**\n * @param a\n * @param b\n * @param n\n */\n{template .t}\n{$a}{$b}{$n}\n")
		for k := 0; k < 24; k++ {
			attrs := ` desc="d` + strconv.Itoa(k) + `"`
			if k%5 == 0 {
				attrs = ` meaning="m` + strconv.Itoa(w) + `"` + attrs
			}
			var body strings.Builder
			for j, n := 0, 20+r.Intn(60); j < n; j++ {
				switch r.Intn(6) {
				case 0:
					body.WriteString("{$a}")
				case 1:
					body.WriteString("{$b.c" + strconv.Itoa(r.Intn(3)) + "}")
				default:
					body.WriteString(words[r.Intn(len(words))] + " ")
				}
			}
			body.WriteString(" #" + strconv.Itoa(w) + "." + strconv.Itoa(k))
			if k%4 == 3 {
				b.WriteString("{msg" + attrs + "}{plural $n}{case 1}" + body.String() + "{default}{$n} " + body.String() + "{/plural}{/msg}\n")
			} else {
				b.WriteString("{msg" + attrs + "}" + body.String() + "{/msg}\n")
			}
		}
		b.WriteString("{/template}\n")
		return b.String()
	}
	rounds := g.N(40, 400)
	var srcs, want [G]string
	for w := 0; w < G; w++ {
		srcs[w] = mkBundle(w)
		o, err := c10concObserve(srcs[w])
		if err != nil {
			rep.Violations = append(rep.Violations, Viol{Key: "c10conc:setup", What: "generated bundle does not compile: " + err.Error(), Req: req("c10conc", hxs(srcs[w])), Impl: "ERR", Want: "compiles"})
			return
		}
		want[w] = o
	}
	var wg sync.WaitGroup
	var mu sync.Mutex
	start := make(chan struct{})
	bad := 0
	for w := 0; w < G; w++ {
		wg.Add(1)
		go func(w int) {
			defer wg.Done()
			<-start
			for k := 0; k < rounds; k++ {
				got, err := c10concObserve(srcs[w])
				if err != nil {
					got = "ERR " + err.Error()
				}
				if got != want[w] {
					mu.Lock()
					bad++
					if len(rep.Violations) < 5 {
						rep.Violations = append(rep.Violations, Viol{Key: "c10conc:ids-differ", What: fmt.Sprintf("a bundle compiled while %d other goroutines compile theirs gets other message ids / names than when compiled alone (round %d)", G-1, k),
							Req: req("c10conc", hxs(srcs[w])), Note: "goroutine " + strconv.Itoa(w), Impl: firstDiffLine(got, want[w]), Want: "the sequential observation"})
					}
					mu.Unlock()
				}
			}
		}(w)
	}
	close(start)
	wg.Wait()
	rep.Evaluations += G * rounds
	rep.DistinctNT += G*rounds - bad
	rep.Extra["c10conc_goroutines"] = G
	rep.Extra["c10conc_rounds"] = rounds
}

func firstDiffLine(a, b string) string {
	la, lb := strings.Split(a, "\n"), strings.Split(b, "\n")
	for i := 0; i < len(la) && i < len(lb); i++ {
		if la[i] != lb[i] {
			return "line " + strconv.Itoa(i) + ": " + la[i] + " <> " + lb[i]
		}
	}
	return "lengths " + strconv.Itoa(len(la)) + " <> " + strconv.Itoa(len(lb))
}
