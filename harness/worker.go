package main

import (
	"bufio"
	"fmt"
	"os"
	"runtime"
	"strings"
	"time"
)

// answer computes the implementation's observation for one request line.
// Panics are caught and reported as PANIC (a property-relevant observation).
func answer(line string) (out string) {
	defer func() {
		if e := recover(); e != nil {
			out = "PANIC " + hxs(fmt.Sprint(e))
		}
	}()
	f := strings.Split(line, "\t")
	h, ok := implOps[f[0]]
	if !ok {
		return "BADOP"
	}
	return h(f[1:])
}

var implOps = map[string]func([]string) string{}

func workerMain() {
	// memory watchdog: an unbounded allocation must not take the machine down.
	go func() {
		var ms runtime.MemStats
		for {
			time.Sleep(50 * time.Millisecond)
			runtime.ReadMemStats(&ms)
			if ms.HeapAlloc > 1<<30 {
				fmt.Println("OOM")
				os.Exit(3)
			}
		}
	}()
	in := bufio.NewReaderSize(os.Stdin, 1<<20)
	out := bufio.NewWriter(os.Stdout)
	for {
		line, err := in.ReadString('\n')
		if line == "" && err != nil {
			return
		}
		line = strings.TrimRight(line, "\n")
		fmt.Fprintln(out, answer(line))
		out.Flush()
	}
}
