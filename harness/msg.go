package main

// C10 — message ids and placeholder names.
//
//	C10fp : fingerprint / hash32 / toUpperUnderscore / tagName / Parts on byte strings
//	C10id : generated {msg} templates compiled by the real bundle; the abstract body
//	        (base name + source text per placeholder, plural structure) goes to the model

import (
	"fmt"
	"sort"
	"strconv"
	"strings"

	"github.com/robfig/soy"
	"github.com/robfig/soy/ast"
	"github.com/robfig/soy/data"
	"github.com/robfig/soy/soymsg"
)

// ---------------------------------------------------------------------------
// implementation side

var msgGlobals = data.Map{
	"GLOBAL":      data.Int(1),
	"sub.global":  data.Int(2),
	"app.FooBar":  data.Int(3),
	"g.x_1":       data.Int(4),
	"x":           data.Int(5),
	"other.X":     data.Int(6),
	"fooBar2":     data.Int(7),
	"ns.a.fooBar": data.Int(8),
}

// absParts serialises what naming and ids depend on (see Ops/Msg.lean for the grammar).
func absParts(children []ast.Node, out *[]string) {
	for _, child := range children {
		switch c := child.(type) {
		case *ast.RawTextNode:
			*out = append(*out, "T"+hx(c.Text))
		case *ast.MsgPlaceholderNode:
			*out = append(*out, "P"+hxs(soymsg.VerifBaseName(c.Body, "XXX"))+":"+hxs(c.String()))
		case *ast.MsgPluralNode:
			*out = append(*out, "L"+hxs(soymsg.VerifBaseName(c.Value, "NUM"))+":"+hxs(c.String())+":"+itoa(len(c.Cases)))
			for _, pc := range c.Cases {
				ch := pc.Body.Children()
				*out = append(*out, "C"+itoa(pc.Value)+":"+itoa(len(ch)))
				absParts(ch, out)
			}
			ch := c.Default.Children()
			*out = append(*out, "D"+itoa(len(ch)))
			absParts(ch, out)
		default:
			panic(fmt.Sprintf("absParts: unexpected %T in message body", child))
		}
	}
}

func absBody(n *ast.MsgNode) string {
	ch := n.Body.Children()
	out := []string{itoa(len(ch))}
	absParts(ch, &out)
	return strings.Join(out, ",")
}

// docNames lists the assigned names in document order.
func docNames(children []ast.Node, out *[]string) {
	for _, child := range children {
		switch c := child.(type) {
		case *ast.MsgPlaceholderNode:
			*out = append(*out, hxs(c.Name))
		case *ast.MsgPluralNode:
			*out = append(*out, hxs(c.VarName))
			for _, pc := range c.Cases {
				docNames(pc.Body.Children(), out)
			}
			docNames(c.Default.Children(), out)
		}
	}
}

func msgObs(n *ast.MsgNode) string {
	var names []string
	docNames(n.Body.Children(), &names)
	nf := "()"
	if len(names) > 0 {
		nf = strings.Join(names, ",")
	}
	return "OK " + strconv.FormatUint(n.ID, 10) + " " + nf + " " + hxs(soymsg.PlaceholderString(n))
}

func findMsgs(n ast.Node, out *[]*ast.MsgNode) {
	if m, ok := n.(*ast.MsgNode); ok {
		*out = append(*out, m)
		return
	}
	if p, ok := n.(ast.ParentNode); ok {
		for _, c := range p.Children() {
			findMsgs(c, out)
		}
	}
}

// compileMsg compiles the file with the real bundle and returns the target message:
// the one whose description starts with "T:", else the first one.
func compileMsg(src string) (*ast.MsgNode, error) {
	reg, err := soy.NewBundle().AddGlobalsMap(msgGlobals).AddTemplateString("t.soy", src).Compile()
	if err != nil {
		return nil, err
	}
	var msgs []*ast.MsgNode
	for _, t := range reg.Templates {
		findMsgs(t.Node, &msgs)
	}
	if len(msgs) == 0 {
		return nil, fmt.Errorf("no msg")
	}
	for _, m := range msgs {
		if strings.HasPrefix(m.Desc, "T:") {
			return m, nil
		}
	}
	return msgs[0], nil
}

// msgidAnswer is the implementation's observation: the base template is compiled five
// times and the variant (other description, surrounding code, neighbouring messages)
// twice; Go re-randomises map iteration each time.  All observations must coincide.
func msgidAnswer(tmpl, variant, meaning, body string) string {
	var first, firstAbs string
	try := func(src string, k int) string {
		for i := 0; i < k; i++ {
			m, err := compileMsg(src)
			if err != nil {
				return "ERR"
			}
			if m.Meaning != meaning {
				return "MEANING-MISMATCH"
			}
			o := msgObs(m)
			if first == "" {
				first, firstAbs = o, absBody(m)
			} else if o != first {
				return "NONDET " + first + " | " + o
			}
		}
		return ""
	}
	if r := try(tmpl, 5); r != "" {
		return r
	}
	if variant != "" {
		if r := try(variant, 2); r != "" {
			return r
		}
	}
	if body != "" && firstAbs != body {
		return "ABSTRACT-MISMATCH " + firstAbs
	}
	return first
}

func msgPartsField(ps []soymsg.Part) string {
	if len(ps) == 0 {
		return "()"
	}
	var out []string
	for _, p := range ps {
		switch p := p.(type) {
		case soymsg.RawTextPart:
			out = append(out, "T"+hxs(p.Text))
		case soymsg.PlaceholderPart:
			out = append(out, "P"+hxs(p.Name))
		default:
			out = append(out, fmt.Sprintf("?%T", p))
		}
	}
	return strings.Join(out, ",")
}

func init() {
	implOps["fp"] = func(f []string) string {
		s, ok := unhx(f[0])
		if !ok || len(f) != 1 {
			return "BADREQ"
		}
		return "OK " + strconv.FormatUint(soymsg.VerifFingerprint(s), 10)
	}
	implOps["hash32"] = func(f []string) string {
		if len(f) != 2 {
			return "BADREQ"
		}
		s, ok := unhx(f[0])
		c, err := strconv.ParseUint(f[1], 10, 32)
		if !ok || err != nil {
			return "BADREQ"
		}
		return "OK " + strconv.FormatUint(uint64(soymsg.VerifHash32(s, uint32(c))), 10)
	}
	implOps["upperunderscore"] = func(f []string) string {
		s, ok := unhx(f[0])
		if !ok || len(f) != 1 {
			return "BADREQ"
		}
		return "OK " + hxs(soymsg.VerifToUpperUnderscore(string(s)))
	}
	implOps["tagname"] = func(f []string) (out string) {
		s, ok := unhx(f[0])
		if !ok || len(f) != 1 {
			return "BADREQ"
		}
		defer func() {
			if recover() != nil {
				out = "PANIC"
			}
		}()
		name, typ := soymsg.VerifTagName(s)
		base := soymsg.VerifBaseName(&ast.MsgHtmlTagNode{Pos: 0, Text: s}, "XXX")
		return "OK " + hxs(name) + " " + hxs(typ) + " " + hxs(base)
	}
	implOps["parts"] = func(f []string) string {
		s, ok := unhx(f[0])
		if !ok || len(f) != 1 {
			return "BADREQ"
		}
		return "OK " + msgPartsField(soymsg.Parts(string(s)))
	}
	implOps["msgid"] = func(f []string) string {
		if len(f) != 5 {
			return "BADREQ"
		}
		t, ok1 := unhx(f[0])
		v, ok2 := unhx(f[1])
		m, ok3 := unhx(f[2])
		if !ok1 || !ok2 || !ok3 {
			return "BADREQ"
		}
		return msgidAnswer(string(t), string(v), string(m), f[3])
	}

	register(&Prop{
		ID: "C10fp",
		Rule: "fingerprint/hash32 on random byte strings of every length 0..64 (several per length) and long ones; " +
			"toUpperUnderscore on ASCII identifiers-like strings and arbitrary bytes < 0x80; tagName on tag-like and random bytes; " +
			"Parts on strings over braces/upper/digit/underscore/other; non-trivial = non-empty input; distinct by request",
		Gen:   genC10fp,
		KeyOf: func(c *Case, impl string) string { return c.Req },
		Oracle: func(c *Case, impl string) *Viol {
			if want, ok := c10Expected[c.Req]; ok && want != impl {
				return &Viol{What: "official vector: expected " + want, Want: want}
			}
			return nil
		},
	})
	register(&Prop{
		ID: "C10id",
		Rule: "generated soy files with one {msg} (raw text incl. {lb}{rb} and non-ASCII bytes, prints over data refs with colliding base names, " +
			"globals, function calls, html tags, repeated prints, plurals with several cases, meaning/desc) compiled 5x + a variant " +
			"(other desc, surrounding code, neighbouring messages) 2x by the real bundle in the worker and once in the parent process; " +
			"observation id, names, placeholder string; non-trivial = at least two placeholders sharing a base name or a plural; distinct by template text",
		Gen:     genC10id,
		KeyOf:   func(c *Case, impl string) string { return "msgid:" + c.Note },
		Oracle:  c10idOracle,
		Timeout: 20 * 1e9,
	})
	// C10 = both sub-checks in one run (what `./check C10` executes)
	register(&Prop{
		ID:   "C10",
		Rule: "C10fp + C10id: " + props["C10id"].Rule + " || " + props["C10fp"].Rule,
		Gen: func(g *G) {
			genC10id(g)
			genC10fp(g)
		},
		KeyOf: func(c *Case, impl string) string {
			if strings.HasPrefix(c.Req, "msgid\t") {
				return props["C10id"].KeyOf(c, impl)
			}
			return c.Req
		},
		Oracle: func(c *Case, impl string) *Viol {
			if strings.HasPrefix(c.Req, "msgid\t") {
				return c10idOracle(c, impl)
			}
			return props["C10fp"].Oracle(c, impl)
		},
		Timeout: 20 * 1e9,
	})
}

// c10Expected: request -> answer demanded by the property statement itself (official
// vectors; the parent process's own compilation for "identical across processes").
var c10Expected = map[string]string{}

// ---------------------------------------------------------------------------
// C10fp generator

func randBytes(r *RNG, n int) []byte {
	b := make([]byte, n)
	for i := range b {
		b[i] = byte(r.Intn(256))
	}
	return b
}

func pickFrom(r *RNG, n int, alphabet string) []byte {
	b := make([]byte, n)
	for i := range b {
		b[i] = alphabet[r.Intn(len(alphabet))]
	}
	return b
}

func genC10fp(g *G) {
	add := func(op string, s []byte, class string, extra ...string) string {
		fields := append([]string{hx(s)}, extra...)
		c := Case{Req: req(op, fields...), NT: len(s) > 0, Class: class, Note: op + "(" + quote(s) + strings.Join(extra, ",") + ")"}
		g.Add(c)
		return c.Req
	}
	// official vectors (soymsg tests)
	for _, t := range []struct{ in, out string }{
		{"booFoo", "BOO_FOO"}, {"_booFoo", "BOO_FOO"}, {"booFoo_", "BOO_FOO"}, {"BooFoo", "BOO_FOO"},
		{"boo_foo", "BOO_FOO"}, {"BOO_FOO", "BOO_FOO"}, {"__BOO__FOO__", "BOO_FOO"}, {"Boo_Foo", "BOO_FOO"},
		{"boo8Foo", "BOO_8_FOO"}, {"booFoo88", "BOO_FOO_88"}, {"boo88_foo", "BOO_88_FOO"}, {"_boo_8foo", "BOO_8_FOO"},
		{"boo_foo8", "BOO_FOO_8"}, {"_BOO__8_FOO_", "BOO_8_FOO"},
	} {
		c10Expected[add("upperunderscore", []byte(t.in), "uu-official")] = "OK " + hxs(t.out)
	}
	for _, t := range []struct {
		in  string
		out []string
	}{
		{"", nil}, {"hello world", []string{"Thello world"}}, {"hello {WORLD}", []string{"Thello ", "PWORLD"}},
		{"{HELLO_WORLD}", []string{"PHELLO_WORLD"}}, {"{A_1}{A_2}", []string{"PA_1", "PA_2"}}, {"{}", []string{"T{}"}},
		{"{ }", []string{"T{ }"}}, {"{br}", []string{"T{br}"}},
		{"x{A}{B} {C}.", []string{"Tx", "PA", "PB", "T ", "PC", "T."}},
	} {
		var want []string
		for _, p := range t.out {
			want = append(want, p[:1]+hxs(p[1:]))
		}
		w := "()"
		if len(want) > 0 {
			w = strings.Join(want, ",")
		}
		c10Expected[add("parts", []byte(t.in), "parts-official")] = "OK " + w
	}
	per := g.N(12, 150)
	for l := 0; l <= 64; l++ {
		for k := 0; k < per; k++ {
			s := randBytes(g.R, l)
			if k == 0 {
				s = make([]byte, l) // all zero
			}
			add("fp", s, "fp-len<=64")
			add("hash32", s, "hash32-len<=64", strconv.FormatUint(uint64(uint32(g.R.U64())), 10))
		}
	}
	for k := 0; k < g.N(150, 2500); k++ {
		s := randBytes(g.R, 65+g.R.Intn(400))
		add("fp", s, "fp-long")
		c := uint32(g.R.U64())
		if k%3 == 0 {
			c = []uint32{0, 102072, 0xffffffff}[g.R.Intn(3)]
		}
		add("hash32", s, "hash32-long", strconv.FormatUint(uint64(c), 10))
	}
	for k := 0; k < g.N(2500, 40000); k++ {
		var s []byte
		switch g.R.Intn(4) {
		case 0:
			s = pickFrom(g.R, g.R.Intn(12), "_aB1")
		case 1:
			s = pickFrom(g.R, g.R.Intn(16), "__abzAZ09xY5")
		case 2:
			s = pickFrom(g.R, g.R.Intn(20), "_abcdefgXYZQ0123456789.$-[] ")
		default:
			s = randBytes(g.R, g.R.Intn(24))
			for i := range s {
				s[i] &= 0x7f
			}
		}
		add("upperunderscore", s, "upperunderscore")
	}
	tagPieces := []string{"<", "/", ">", "/>", "</", "a", "A", "br", "Br", "img", "ul", "p", "em", "x1", " ", "href=", "\"", "Z", "9", "_", "-", "\xc3\xa9", "\xff", "\x00"}
	for k := 0; k < g.N(1500, 25000); k++ {
		var s []byte
		if g.R.Chance(1, 6) {
			s = randBytes(g.R, g.R.Intn(8))
		} else {
			if g.R.Chance(5, 6) {
				s = append(s, '<')
			}
			for j, n := 0, g.R.Intn(6); j < n; j++ {
				s = append(s, g.R.Pick(tagPieces)...)
			}
		}
		add("tagname", s, "tagname")
	}
	partPieces := []string{"{", "}", "{", "}", "A", "Z", "0", "9", "_", "a", " ", "{A}", "{B_1}", "{}", "{{", "}}", "\xc3\xa9", "\xff", "\x00", "x", ",plural,", "="}
	for k := 0; k < g.N(2500, 40000); k++ {
		var s []byte
		for j, n := 0, g.R.Intn(10); j < n; j++ {
			s = append(s, g.R.Pick(partPieces)...)
		}
		add("parts", s, "parts")
	}
}

// ---------------------------------------------------------------------------
// C10id generator

type msgGen struct {
	r      *RNG
	params map[string]bool
}

func (m *msgGen) use(p string) string { m.params[p] = true; return p }

// prints whose base names collide on purpose: X from $a.x $b.x $x $ij.x x(global);
// X_1 from $x_1 $x1 $a.x_1 g.x_1; X_2 from $x_2; X_1_1 from $x_1_1; FOO_BAR_2 from $fooBar2 ...
func (m *msgGen) printTag() string {
	r := m.r
	var e string
	switch r.Intn(33) {
	case 29:
		e = "$" + m.use("\xc3\xa9")
	case 30:
		e = "$" + m.use("_")
	case 31:
		e = "$" + m.use("__")
	case 0:
		e = "$" + m.use("a") + ".x"
	case 1:
		e = "$" + m.use("b") + ".x"
	case 2:
		e = "$" + m.use("x")
	case 3:
		e = "$" + m.use("x_1")
	case 4:
		e = "$" + m.use("x1")
	case 5:
		e = "$" + m.use("a") + ".x_1"
	case 6:
		e = "$" + m.use("x_2")
	case 7:
		e = "$" + m.use("x_1_1")
	case 8:
		e = "$" + m.use("fooBar2")
	case 9:
		e = "$" + m.use("a") + ".fooBar2"
	case 10:
		e = "$" + m.use("a")
	case 11:
		e = "$" + m.use("b") + ".a"
	case 12:
		e = "$" + m.use("a") + ".b.a"
	case 13:
		e = "$ij.x"
	case 14:
		e = r.Pick([]string{"GLOBAL", "sub.global", "app.FooBar", "g.x_1", "x", "other.X", "fooBar2", "ns.a.fooBar"})
	case 15:
		switch r.Intn(4) {
		case 0:
			e = "length($" + m.use("a") + ")"
		case 1:
			e = "max(1, 3)"
		case 2:
			e = "round(2.5)"
		default:
			e = "max($" + m.use("x") + ", 2)"
		}
	case 16:
		switch r.Intn(5) {
		case 0:
			e = "$" + m.use("a") + " + 1"
		case 1:
			e = "'text'"
		case 2:
			e = "12"
		case 3:
			e = "not $" + m.use("b")
		default:
			e = "$" + m.use("x") + " ? 1 : 2"
		}
	case 17:
		e = "$" + m.use("a") + r.Pick([]string{"[0]", ".0", ".x[0]", "['x']", "?.x", "?.x_1", ".b?.x"})
	case 18:
		e = "$" + m.use("x_2") + r.Pick([]string{"", ".x", ".x_1"})
	case 19:
		e = "$" + m.use("b") + ".x_2"
	case 20:
		e = "$" + m.use("xxx")
	case 21:
		e = "$" + m.use("a") + ".xxx_1"
	case 22:
		e = "$" + m.use("num")
	case 23:
		e = "$" + m.use("a") + ".num_1"
	case 24:
		e = "$" + m.use("startLink")
	case 25:
		e = "$" + m.use("start_link_1")
	case 26:
		e = "$" + m.use("_x__1_")
	case 27:
		e = "$" + m.use("X")
	case 28:
		e = "$" + m.use("b") + ".x.x"
	default:
		e = "$" + m.use(r.Pick([]string{"a", "b", "x", "x_1", "x_2"})) + r.Pick([]string{".x", ".x_1", ".x_2", ".x_1_1", ".x_3"})
	}
	dir := ""
	if r.Chance(1, 6) {
		dir = r.Pick([]string{"|noAutoescape", "|escapeHtml", "|id", "|truncate:5", " |escapeUri"})
	}
	switch r.Intn(6) {
	case 0:
		return "{print " + e + dir + "}"
	case 1:
		return "{" + e + " " + dir + "}"
	}
	return "{" + e + dir + "}"
}

var msgTags = []string{`<a href="x">`, `</a>`, `<br/>`, `<br>`, `<b>`, `</b>`, `<a href="y">`, `<a>`, `<p>`, `</p>`,
	`<img src="s"/>`, `<A HREF="x">`, `<xyz1>`, `</xyz1 >`, `<li>`, `<ul>`, `<em>`, `<i>`, `<ol>`, `<x_1>`, `<a\nhref="x">`, `<span class="c">`, `</span>`, `<br />`, `<link>`, `<startLink>`, `<a href="{$a.x}">`, `<img src="{$x_1}"/>`}

func (m *msgGen) text() string {
	r := m.r
	var sb strings.Builder
	for j, n := 0, 1+r.Intn(3); j < n; j++ {
		switch r.Intn(16) {
		case 0:
			sb.WriteString("{lb}")
		case 1:
			sb.WriteString("{rb}")
		case 2:
			sb.WriteString("{sp}")
		case 3:
			sb.WriteString("{lb}" + r.Pick([]string{"A", "X_1", "XXX", "NUM", "a", "", "START_LINK"}) + "{rb}")
		case 4:
			sb.WriteString(r.Pick([]string{"\xc3\xa9", "\xe2\x82\xac", "\xff", "\x80\xfe", "\x01"}))
		case 5:
			sb.WriteString(r.Pick([]string{"{\\n}", "{\\t}", "{nil}", "{\\r}"}))
		case 6:
			sb.WriteString(r.Pick([]string{" \n  ", "\n", "  ", "\t"}))
		case 7:
			sb.WriteString(r.Pick([]string{"X", "X_1", "A", ",plural,", "=1", "other", "<", ">", "< a>", "a < b", "1 > 0"}))
		case 8:
			sb.WriteString(string(pickFrom(r, 1+r.Intn(5), "abcXYZ019_ .,;:!?'\"()[]=+-*&%#@~^|")))
		default:
			sb.WriteString(r.Pick([]string{"Hello", "world", " ", "You have ", " eggs", "one egg", "Click ", "here", " to access ", ".", ", ", "Archive"}))
		}
	}
	return sb.String()
}

func (m *msgGen) other() string {
	r := m.r
	switch r.Intn(4) {
	case 0:
		return "{call .o /}"
	case 1:
		return "{call .o data=\"all\" /}"
	case 2:
		return "{css foo}"
	default:
		return "{call .o}{param p: $" + m.use("x") + " /}{/call}"
	}
}

// flat body: text / prints / tags, with repeats of earlier pieces.
func (m *msgGen) flat(maxItems int, allowHTML bool) string {
	r := m.r
	var items []string
	n := r.Intn(maxItems + 1)
	for j := 0; j < n; j++ {
		switch k := r.Intn(20); {
		case k < 6:
			items = append(items, m.text())
		case k < 14:
			items = append(items, m.printTag())
		case k < 16 && len(items) > 0:
			items = append(items, items[r.Intn(len(items))]) // repeat an identical piece
		case k < 19 && allowHTML:
			tag := r.Pick(msgTags)
			if strings.Contains(tag, "$a.") {
				m.use("a")
			}
			if strings.Contains(tag, "$x_1") {
				m.use("x_1")
			}
			items = append(items, tag)
		case k == 19:
			items = append(items, m.other())
		default:
			items = append(items, m.printTag())
		}
	}
	return strings.Join(items, "")
}

func (m *msgGen) plural(depth int) string {
	r := m.r
	var v string
	switch r.Intn(8) {
	case 0:
		v = "$" + m.use("eggs")
	case 1:
		v = "$" + m.use("a") + ".x"
	case 2:
		v = "length($" + m.use("a") + ")"
	case 3:
		v = "$" + m.use("x_1")
	case 4:
		v = "$" + m.use("num")
	case 5:
		v = "$" + m.use("x")
	case 6:
		v = "$" + m.use("num_1")
	default:
		v = "$" + m.use("b") + ".x"
	}
	var sb strings.Builder
	sb.WriteString("{plural " + v + "}")
	vals := []string{"0", "1", "2", "5", "10", "100", "1", "3", "-1", "-12"}
	for j, n := 0, r.Intn(4); j < n; j++ {
		sb.WriteString("{case " + r.Pick(vals) + "}")
		if depth < 2 && r.Chance(1, 8) {
			sb.WriteString(m.plural(depth + 1))
		} else {
			sb.WriteString(m.flat(4, true))
		}
	}
	sb.WriteString("{default}")
	if depth < 2 && r.Chance(1, 10) {
		sb.WriteString(m.plural(depth + 1))
	} else {
		sb.WriteString(m.flat(5, true))
	}
	sb.WriteString("{/plural}")
	return sb.String()
}

func soydoc(params map[string]bool) string {
	var ps []string
	for p := range params {
		ps = append(ps, p)
	}
	sort.Strings(ps)
	var sb strings.Builder
	sb.WriteString("/**\n")
	for _, p := range ps {
		sb.WriteString(" * @param " + p + "\n")
	}
	sb.WriteString(" */\n")
	return sb.String()
}

func attr(s string) string { return strconv.Quote(s) }

const otherTemplate = "/** @param? p */\n{template .o}\no{if $p}{$p}{/if}\n{/template}\n"

// buildFiles returns the base soy file and the variant: same body and meaning, other
// description, surrounding code, neighbouring messages, other template / namespace name.
func buildFiles(r *RNG, body, meaning string, params map[string]bool) (string, string) {
	mattr := ""
	if meaning != "" || r.Chance(1, 10) {
		mattr = " meaning=" + attr(meaning)
	}
	descs := []string{"", "The word", "Example: {x}", "Ask user to pick best keyword", "désc", "a \"quoted\" one"}
	msg := func(desc string) string {
		return "{msg" + mattr + " desc=" + attr("T:"+desc) + "}" + body + "{/msg}"
	}
	base := "{namespace ns}\n\n" + soydoc(params) + "{template .t}\n" + msg(r.Pick(descs)) + "\n{/template}\n\n" + otherTemplate

	vp := map[string]bool{}
	for k := range params {
		vp[k] = true
	}
	vp["zz"] = true
	var sb strings.Builder
	sb.WriteString("{namespace other.ns}\n\n" + soydoc(vp) + "{template .variant}\n")
	sb.WriteString("before {$zz}\n")
	if r.Bool() {
		sb.WriteString("{msg desc=\"first\"}{$zz} unrelated <a>x</a> {$zz.x}{/msg}\n")
	}
	wrap := r.Intn(3)
	switch wrap {
	case 1:
		sb.WriteString("{if $zz}\n")
	case 2:
		sb.WriteString("{foreach $q in $zz}\n")
	}
	sb.WriteString(msg("variant " + r.Pick(descs) + itoa(r.Intn(100))))
	switch wrap {
	case 1:
		sb.WriteString("\n{/if}")
	case 2:
		sb.WriteString("{$q}\n{/foreach}")
	}
	sb.WriteString("\n{msg meaning=\"m2\" desc=\"last\"}Archive{$zz.x}{$zz.y.x}{/msg}\n")
	sb.WriteString("{/template}\n\n" + otherTemplate)
	return base, sb.String()
}

// msgCase compiles in the parent (a different process than the worker) and builds the request.
func msgCase(tmpl, variant, meaning string, seed uint64, class string, nt bool) (c Case, ok bool) {
	var abs, obs string
	func() {
		defer func() {
			if e := recover(); e != nil {
				obs = "PANIC"
			}
		}()
		m, err := compileMsg(tmpl)
		if err != nil {
			obs = "ERR"
			return
		}
		abs, obs = absBody(m), msgObs(m)
		if m.Meaning != meaning {
			obs = "MEANING-MISMATCH"
		}
	}()
	if obs == "ERR" {
		return Case{}, false
	}
	if abs == "" {
		abs = "0"
	}
	c = Case{
		Req:   req("msgid", hxs(tmpl), hxs(variant), hxs(meaning), abs, strconv.FormatUint(seed%1000003, 10)),
		NT:    nt,
		Class: class,
		Note:  tmpl,
	}
	c10Expected[c.Req] = obs
	return c, true
}

type absNode struct{ base, src string }

// absNodes lists (base, src) of the placeholders / plurals of an abstract body in document order.
func absNodes(body string) []absNode {
	var out []absNode
	for _, tok := range strings.Split(body, ",") {
		if len(tok) > 0 && (tok[0] == 'P' || tok[0] == 'L') {
			f := strings.Split(tok[1:], ":")
			if len(f) >= 2 {
				out = append(out, absNode{f[0], f[1]})
			}
		}
	}
	return out
}

func c10idOracle(c *Case, impl string) *Viol {
	if strings.HasPrefix(impl, "NONDET") {
		return &Viol{What: "ids / names differ between compilations of the same message (or its variant with other description and surroundings)"}
	}
	if strings.HasPrefix(impl, "PANIC") || impl == "HANG" || impl == "OOM" {
		return &Viol{What: "compiling a message panics / hangs: " + impl}
	}
	if want, ok := c10Expected[c.Req]; ok && want != impl {
		return &Viol{What: "observation differs from the one computed in another process", Want: want}
	}
	if want, ok := c10Official[c.Req]; ok {
		f := strings.Split(impl, " ")
		if len(f) != 4 || (want.id != "" && f[1] != want.id) || (want.phstr != "\x00" && f[3] != hxs(want.phstr)) {
			return &Viol{Key: "c10:official-vector:" + want.phstr, What: "official vector: expected id " + want.id + " placeholder string " + strconv.Quote(want.phstr), Want: want.id + " " + hxs(want.phstr)}
		}
	}
	if !strings.HasPrefix(impl, "OK ") {
		return nil
	}
	f := strings.Split(impl, " ")
	if len(f) != 4 {
		return &Viol{What: "malformed observation"}
	}
	id, err := strconv.ParseUint(f[1], 10, 64)
	if err != nil || id >= 1<<63 {
		return &Viol{What: "message id has the top bit set"}
	}
	// names separate exactly the distinct placeholders: equal name <=> equal (base, source text)
	rf := strings.Split(c.Req, "\t")
	nodes := absNodes(rf[4])
	var names []string
	if f[2] != "()" {
		names = strings.Split(f[2], ",")
	}
	if len(names) != len(nodes) {
		return &Viol{What: "number of names differs from number of placeholders"}
	}
	byName := map[string]absNode{}
	byNode := map[absNode]string{}
	for i, n := range nodes {
		if o, ok := byName[names[i]]; ok && o != n {
			return &Viol{What: "two distinct placeholders share the name " + names[i]}
		}
		if o, ok := byNode[n]; ok && o != names[i] {
			return &Viol{What: "equivalent placeholders got different names"}
		}
		byName[names[i]], byNode[n] = n, names[i]
	}
	return nil
}

type officialMsg struct{ id, phstr string }

var c10Official = map[string]officialMsg{}

func genC10id(g *G) {
	// official vectors: soymsg/soymsg_test.go (ids from closure-templates' examples_extracted.xlf),
	// soymsg/placeholder_test.go (placeholder strings, plural var names)
	fixed := func(meaning, desc, body string, params []string, id, phstr string) {
		pm := map[string]bool{}
		for _, p := range params {
			pm[p] = true
		}
		mattr := ""
		if meaning != "" {
			mattr = " meaning=" + attr(meaning)
		}
		tmpl := "{namespace ns}\n\n" + soydoc(pm) + "{template .t}\n{msg" + mattr + " desc=" + attr(desc) + "}" + body + "{/msg}\n{/template}\n\n" +
			"/** @param? items */\n{template .buildCommaSeparatedList_}\n{if $items}x{/if}\n{/template}\n" + otherTemplate
		c, ok := msgCase(tmpl, "", meaning, g.R.U64(), "official", true)
		if !ok {
			c = Case{Req: req("msgid", hxs(tmpl), "-", hxs(meaning), "0", "1"), NT: true, Class: "official", Note: tmpl}
			c10Expected[c.Req] = "OK (official vector must compile)"
		}
		c10Official[c.Req] = officialMsg{id, phstr}
		g.Add(c)
	}
	fixed("noun", "The word 'Archive' used as a noun, i.e. an information store.", "Archive", nil, "7224011416745566687", "Archive")
	fixed("verb", "The word 'Archive' used as a verb, i.e. to store information.", "Archive", nil, "4826315192146469447", "Archive")
	fixed("", "", "A trip was taken.", nil, "3329840836245051515", "A trip was taken.")
	fixed("", "Ask user to pick best keyword", "Your favorite keyword", nil, "2209690285855487595", "Your favorite keyword")
	fixed("", "Link to Help", "Help", nil, "7911416166208830577", "Help")
	fixed("", "Example: Alice took a trip to wonderland.", "{$name} took a trip to {$destination}.", []string{"name", "destination"},
		"768490705511913603", "{NAME} took a trip to {DESTINATION}.")
	fixed("", "Example: 5 is nowhere near the value of pi.", "{$pi} is nowhere near the value of pi.", []string{"pi"},
		"889614911019327165", "{PI} is nowhere near the value of pi.")
	fixed("", "Example: Alice took a trip.", "{$name} took a trip.", []string{"name"}, "3179387603303514412", "{NAME} took a trip.")
	fixed("", "Example: The set of prime numbers is {2, 3, 5, 7, 11, 13, ...}.",
		"\nThe set of {$setName} is {lb}\n{call .buildCommaSeparatedList_}\n  {param items: $setMembers /}\n{/call}\n, ...{rb}.",
		[]string{"setName", "setMembers"}, "135956960462609535", "The set of {SET_NAME} is {{XXX}, ...}.")
	fixed("", "The number of eggs you need.", "\n{plural $eggs}\n  {case 1}You have one egg\n  {default}You have {$eggs} eggs\n{/plural}",
		[]string{"eggs"}, "176798647517908084", "{EGGS_1,plural,=1{You have one egg}other{You have {EGGS_2} eggs}}")
	// examples_extracted.xlf of closure-templates, the message of features.soy with a print inside a tag
	fixed("", "Link to Labs", "Click <a href=\"{$labsUrl}\">here</a> to access Labs.", []string{"labsUrl"}, "5539341884085868292", "Click {START_LINK}here{END_LINK} to access Labs.")
	for _, t := range []struct {
		body   string
		params []string
		phstr  string
	}{
		{"Hello world", nil, "Hello world"},
		{"Hello {$name}", []string{"name"}, "Hello {NAME}"},
		{"{$a}, {$b}, and {$c}", []string{"a", "b", "c"}, "{A}, {B}, and {C}"},
		{"{$a} {$a}", []string{"a"}, "{A} {A}"},
		{"{$a} {$b.a}", []string{"a", "b"}, "{A_1} {A_2}"},
		{"{$a.a}{$a.b.a}", []string{"a"}, "{A_1}{A_2}"},
		{"hello{sp}world", nil, "hello world"},
		{"Click <a>here</a>", nil, "Click {START_LINK}here{END_LINK}"},
		{"<br><br/><br/>", nil, "{START_BREAK}{BREAK}{BREAK}"},
		{"<a href=foo>Click</a> <a href=bar>here</a >", nil, "{START_LINK_1}Click{END_LINK_1} {START_LINK_2}here{END_LINK_2}"},
		{"<p>P1</p><p>P2</p><p>P3</p>", nil, "{START_PARAGRAPH}P1{END_PARAGRAPH}{START_PARAGRAPH}P2{END_PARAGRAPH}{START_PARAGRAPH}P3{END_PARAGRAPH}"},
		{"{plural $eggs}{case 1}one{default}other{/plural}", []string{"eggs"}, "{EGGS,plural,=1{one}other{other}}"},
		{"{plural $eggs}{case 1}one{default}{$eggs}{/plural}", []string{"eggs"}, "{EGGS_1,plural,=1{one}other{{EGGS_2}}}"},
		{"{plural length($eggs)}{case 1}one{default}other{/plural}", []string{"eggs"}, "{NUM,plural,=1{one}other{other}}"},
		// the case of the property statement: names (and the id) used to depend on map iteration order
		{"{$a.x}{$b.x}{$x_1}", []string{"a", "b", "x_1"}, "{X_2}{X_3}{X_1}"},
		{"{$x_1}{$a.x}{$b.x}{$x_2}{$x_3}", []string{"a", "b", "x_1", "x_2", "x_3"}, "{X_1}{X_4}{X_5}{X_2}{X_3}"},
	} {
		fixed("", "", t.body, t.params, "", t.phstr)
	}
	// placeholder names of camelCase identifiers by the official rule (BaseUtils.convertToUpperUnderscore: strip
	// leading/trailing underscores, collapse runs of them, insert '_' at EVERY word boundary found on the string as
	// it stands - letter|Upper+lower, letter|digit, digit|letter - by look-around, then upper-case), computed here
	idents := []string{"timeToLive", "numOfItems", "isMyId", "aBcDe", "userID2name", "fooBar", "fooBarBaz", "aB", "aBc", "xY1z", "a1b2c3", "HTMLParser", "parseHTML5Doc", "getXAndY", "iPhone6sPlus", "x", "URL", "myURLIsOk", "a_bC_dE", "__leading_", "aaBbCc", "oneTwoThreeFourFive", "i18nKey", "is2ndTry", "toA"}
	for i := 0; i < 40; i++ {
		var sb strings.Builder
		for k, n := 0, 2+g.R.Intn(5); k < n; k++ {
			w := []string{"a", "to", "is", "my", "id", "of", "url", "item", "x", "html", "ok"}[g.R.Intn(11)]
			if k > 0 {
				w = strings.ToUpper(w[:1]) + w[1:]
			}
			sb.WriteString(w)
			if g.R.Intn(5) == 0 {
				sb.WriteString(strconv.Itoa(g.R.Intn(30)))
			}
		}
		idents = append(idents, sb.String())
	}
	for _, id := range idents {
		fixed("", "", "{$"+id+"}", []string{id}, "", "{"+officialUpperUnderscore(id)+"}")
	}

	n := g.N(10000, 150000)
	skipped := 0
	for i := 0; i < n; i++ {
		m := &msgGen{r: g.R, params: map[string]bool{}}
		var body, class string
		switch k := g.R.Intn(10); {
		case k < 6:
			body, class = m.flat(8, true), "flat"
		case k < 9:
			body, class = m.plural(0), "plural"
			if g.R.Chance(1, 4) {
				body = "\n" + body + "\n"
			}
		default:
			body, class = m.flat(14, true), "flat-long"
		}
		meaning := ""
		if g.R.Chance(1, 3) {
			meaning = g.R.Pick([]string{"noun", "verb", "m", "a b", "été", "X", "{A}", "0"})
		}
		base, variant := buildFiles(g.R, body, meaning, m.params)
		c, ok := msgCase(base, variant, meaning, g.R.U64(), class, false)
		if !ok {
			skipped++
			continue
		}
		// non-trivial: a plural, or two placeholders with the same base name and different text
		rf := strings.Split(c.Req, "\t")
		bases := map[string]string{}
		for _, nd := range absNodes(rf[4]) {
			if s, ok := bases[nd.base]; ok && s != nd.src {
				c.NT = true
			}
			bases[nd.base] = nd.src
		}
		if class == "plural" {
			c.NT = true
		}
		g.Add(c)
	}
	if skipped*5 > n {
		// the generator is supposed to produce compilable files; make a broken generator visible
		g.Add(Case{Req: req("msgid", "-", "-", "-", "0", "0"), Class: "generator-broken: " + itoa(skipped) + " of " + itoa(n) + " files rejected", Note: "generator"})
	}
}

// officialUpperUnderscore: the naming rule of the reference implementation, boundaries by look-around.
func officialUpperUnderscore(s string) string {
	s = strings.Trim(s, "_")
	for strings.Contains(s, "__") {
		s = strings.ReplaceAll(s, "__", "_")
	}
	isL := func(b byte) bool { return b >= 'a' && b <= 'z' || b >= 'A' && b <= 'Z' }
	isU := func(b byte) bool { return b >= 'A' && b <= 'Z' }
	isLo := func(b byte) bool { return b >= 'a' && b <= 'z' }
	isD := func(b byte) bool { return b >= '0' && b <= '9' }
	var b strings.Builder
	for i := 0; i < len(s); i++ {
		if i > 0 {
			p, c := s[i-1], s[i]
			if isL(p) && isU(c) && i+1 < len(s) && isLo(s[i+1]) || isL(p) && isD(c) || isD(p) && isL(c) {
				b.WriteByte('_')
			}
		}
		b.WriteByte(s[i])
	}
	return strings.ToUpper(b.String())
}
