package main

// C20 generators and oracles.  The oracles are written from the property statement
// (properties.jsonl, C20), not from the model:
//   - equality is symmetric; numeric across int/float; by value on equal primitive kinds
//   - truthiness table: null, false, 0, 0.0, NaN, "" (and undefined) falsy, everything else truthy
//   - printing is deterministic
//   - conversion keeps structure and scalars; converting again changes nothing;
//     struct fields appear under their lowerCamel names.

import (
	"fmt"
	"math"
	"math/big"
	"strings"
	"time"
	"unicode"
	"unicode/utf8"
)

// ---------------------------------------------------------------- value generator

type vgen struct {
	g      *G
	nextID int
	lists  []*VNode
	maps   []*VNode
}

func newVgen(g *G) *vgen { return &vgen{g: g, nextID: 2} }

var c20Ints = []int64{0, 1, -1, 2, 7, 42, -42, 1 << 53, 1<<53 + 1, 1<<53 - 1, -(1 << 53), -(1<<53 + 1), math.MaxInt64, math.MinInt64,
	math.MaxInt64 - 1, 1 << 62, 1000000, 123456789, 1 << 31, 1 << 32, 255, 256, -128}

var c20Floats = []float64{0, math.Copysign(0, -1), 1, -1, 2, 7, 42, 0.5, 1.5, -2.5, 0.1, 0.30000000000000004, 1e6, 1e21, 1e-5, 1e-7, 123456.789,
	1 << 53, 1<<53 + 2, -(1 << 53), 1 << 63, -(1 << 63), 1 << 62, math.MaxFloat64, math.SmallestNonzeroFloat64, math.Inf(1), math.Inf(-1),
	1000000, 123456789, 255, 5e-324, 1e20, 100000, 4.35}

var c20Strings = []string{"", "a", "b", "0", "false", "null", "undefined", "a, b", "x: y", "é", "\xff", "<b>", "1", "NaN", "a:", "a: "}

var c20Keys = []string{"a", "b", "c", "", "a:", "a: ", "k", "é", "0", "x y", "z,", "A"}

const nanBits = 0x7ff8000000000001

func (vg *vgen) scalar() *VNode {
	r := vg.g.R
	switch r.Intn(12) {
	case 0:
		return &VNode{Kind: 'N'}
	case 1:
		return &VNode{Kind: 'T'}
	case 2:
		return &VNode{Kind: 'F'}
	case 3, 4:
		if r.Chance(3, 4) {
			return &VNode{Kind: 'I', I: uint64(c20Ints[r.Intn(len(c20Ints))])}
		}
		return &VNode{Kind: 'I', I: vg.g.int64bits()}
	case 5, 6, 7:
		switch r.Intn(6) {
		case 0:
			return &VNode{Kind: 'D', I: nanBits}
		case 1:
			b := vg.g.f64bits()
			if f := math.Float64frombits(b); f != f {
				b = nanBits
			}
			return &VNode{Kind: 'D', I: b}
		case 2: // the float of one of the special ints
			return &VNode{Kind: 'D', I: math.Float64bits(float64(c20Ints[r.Intn(len(c20Ints))]))}
		}
		return &VNode{Kind: 'D', I: math.Float64bits(c20Floats[r.Intn(len(c20Floats))])}
	case 8, 9, 10:
		return &VNode{Kind: 'S', S: []byte(c20Strings[r.Intn(len(c20Strings))])}
	}
	return &VNode{Kind: 'U'}
}

func (vg *vgen) value(depth int) *VNode {
	r := vg.g.R
	if depth <= 0 || r.Chance(3, 5) {
		return vg.scalar()
	}
	if r.Bool() { // list
		if len(vg.lists) > 0 && r.Chance(1, 4) {
			return vg.lists[r.Intn(len(vg.lists))] // the same object again
		}
		n := r.Intn(4)
		if n == 0 {
			return &VNode{Kind: 'L', ID: r.Intn(2)} // nil or the empty list
		}
		l := &VNode{Kind: 'L', ID: vg.nextID}
		vg.nextID++
		for i := 0; i < n; i++ {
			l.Xs = append(l.Xs, vg.value(depth-1))
		}
		vg.lists = append(vg.lists, l)
		return l
	}
	if len(vg.maps) > 0 && r.Chance(1, 4) {
		return vg.maps[r.Intn(len(vg.maps))]
	}
	n := r.Intn(4)
	if n == 0 && r.Bool() {
		return &VNode{Kind: 'M', ID: 0}
	}
	m := &VNode{Kind: 'M', ID: vg.nextID}
	vg.nextID++
	used := map[string]bool{}
	for i := 0; i < n; i++ {
		k := c20Keys[r.Intn(len(c20Keys))]
		if used[k] {
			continue
		}
		used[k] = true
		m.Keys = append(m.Keys, []byte(k))
		m.Xs = append(m.Xs, vg.value(depth-1))
	}
	vg.maps = append(vg.maps, m)
	return m
}

// a partner likely to be equal / nearly equal / numerically equal to a
func (vg *vgen) partner(a *VNode) *VNode {
	r := vg.g.R
	switch r.Intn(6) {
	case 0:
		return a
	case 1:
		switch a.Kind {
		case 'I': // the float with the same numeric value (where it exists), or a neighbour
			f := float64(int64(a.I))
			b := math.Float64bits(f)
			if r.Chance(1, 4) {
				b += uint64(r.Intn(3)) - 1
			}
			return &VNode{Kind: 'D', I: b}
		case 'D':
			f := math.Float64frombits(a.I)
			if f == f && math.Abs(f) < 1<<63 {
				return &VNode{Kind: 'I', I: uint64(int64(f)) + uint64(r.Intn(3)) - 1}
			}
		case 'S':
			return &VNode{Kind: 'S', S: append(append([]byte(nil), a.S...), byte('a'+r.Intn(2)))}
		case 'L': // same contents, different object
			if len(a.Xs) > 0 {
				vg.nextID++
				return &VNode{Kind: 'L', ID: vg.nextID - 1, Xs: a.Xs}
			}
			return &VNode{Kind: 'L', ID: 1 - a.ID}
		case 'M':
			vg.nextID++
			return &VNode{Kind: 'M', ID: vg.nextID - 1, Xs: a.Xs, Keys: a.Keys}
		}
	case 2:
		if a.Kind == 'D' && a.I&^(1<<63) == 0 { // the other zero
			return &VNode{Kind: 'D', I: a.I ^ 1<<63}
		}
	}
	return vg.value(2)
}

func vlawsCase(a, b *VNode) Case {
	nt := a.Kind != b.Kind || a.Kind == 'L' || a.Kind == 'M' || a.Kind == 'D'
	return Case{Req: req("vlaws", a.String(), b.String()), NT: nt, Class: "vlaws:" + string(a.Kind) + string(b.Kind),
		Note: "vlaws " + a.String() + " | " + b.String()}
}

func genC20val(g *G) {
	g.R = g.R.Fork() // NewRNG(seed+1) is NewRNG(seed) shifted by one draw: decorrelate the seeds
	// codec round trips first
	for i := 0; i < 300; i++ {
		v := newVgen(g).value(3)
		g.Add(Case{Req: req("vecho", v.String()), Class: "codec", Note: "vecho"})
	}
	// all pairs of the special scalars
	var sc []*VNode
	for _, k := range "UNTF" {
		sc = append(sc, &VNode{Kind: byte(k)})
	}
	for _, i := range c20Ints {
		sc = append(sc, &VNode{Kind: 'I', I: uint64(i)})
	}
	for _, f := range c20Floats {
		sc = append(sc, &VNode{Kind: 'D', I: math.Float64bits(f)})
	}
	sc = append(sc, &VNode{Kind: 'D', I: nanBits})
	for _, s := range c20Strings {
		sc = append(sc, &VNode{Kind: 'S', S: []byte(s)})
	}
	sc = append(sc, &VNode{Kind: 'L', ID: 0}, &VNode{Kind: 'L', ID: 1}, &VNode{Kind: 'M', ID: 0}, &VNode{Kind: 'M', ID: 2},
		&VNode{Kind: 'L', ID: 2, Xs: []*VNode{{Kind: 'I', I: 1}}}, &VNode{Kind: 'L', ID: 3, Xs: []*VNode{{Kind: 'I', I: 1}}},
		&VNode{Kind: 'L', ID: 4, Xs: []*VNode{{Kind: 'U'}}},
		&VNode{Kind: 'M', ID: 5, Xs: []*VNode{{Kind: 'U'}, {Kind: 'I', I: 1}}, Keys: [][]byte{[]byte("b"), []byte("a")}})
	for _, a := range sc {
		for _, b := range sc {
			g.Add(vlawsCase(a, b))
		}
	}
	n := g.N(12000, 290000)
	for i := 0; i < n; i++ {
		vg := newVgen(g)
		a := vg.value(3)
		b := vg.partner(a)
		g.Add(vlawsCase(a, b))
		if i%16 == 0 {
			if a.Kind == 'L' {
				idx := []int64{-1, 0, 1, 2, 3, math.MinInt64, math.MaxInt64}[g.R.Intn(7)]
				g.Add(Case{Req: req("vindex", a.String(), fmt.Sprintf("%016x", uint64(idx))), NT: true, Class: "vindex", Note: "vindex"})
			}
			if a.Kind == 'M' {
				g.Add(Case{Req: req("vkey", a.String(), hxs(c20Keys[g.R.Intn(len(c20Keys))])), NT: true, Class: "vkey", Note: "vkey"})
			}
		}
	}
}

// ---------------------------------------------------------------- oracle for the value laws

func vEqualByStatement(a, b *VNode) (want bool, specified bool) {
	num := func(n *VNode) (*big.Rat, bool) {
		if n.Kind == 'I' {
			return new(big.Rat).SetInt64(int64(n.I)), true
		}
		f := math.Float64frombits(n.I)
		if f != f || math.IsInf(f, 0) {
			return nil, false
		}
		return new(big.Rat).SetFloat64(f), true
	}
	isNum := func(n *VNode) bool { return n.Kind == 'I' || n.Kind == 'D' }
	switch {
	case isNum(a) && isNum(b):
		if a.Kind != b.Kind {
			// numeric across int/float; integers beyond 2^53 are outside what the language pins down
			i := a
			if a.Kind == 'D' {
				i = b
			}
			if v := int64(i.I); v > 1<<53 || v < -(1<<53) {
				return false, false
			}
		}
		x, ok1 := num(a)
		y, ok2 := num(b)
		if !ok1 || !ok2 { // NaN equals nothing; ±Inf only itself
			fa, fb := math.Float64frombits(a.I), math.Float64frombits(b.I)
			if a.Kind == 'D' && b.Kind == 'D' && fa == fa && fb == fb {
				return fa == fb, true
			}
			return false, true
		}
		return x.Cmp(y) == 0, true
	case a.Kind == 'S' && b.Kind == 'S':
		return string(a.S) == string(b.S), true
	case (a.Kind == 'T' || a.Kind == 'F') && (b.Kind == 'T' || b.Kind == 'F'):
		return a.Kind == b.Kind, true
	case a.Kind == 'N' && b.Kind == 'N', a.Kind == 'U' && b.Kind == 'U':
		return true, true
	case (a.Kind == 'L' && b.Kind == 'L') || (a.Kind == 'M' && b.Kind == 'M'):
		return false, false // identity: unspecified by the language
	}
	bk := func(n *VNode) byte {
		if n.Kind == 'F' {
			return 'T'
		}
		return n.Kind
	}
	_ = bk
	return false, true // different kinds never compare equal (no coercion)
}

func vTruthyByStatement(a *VNode) bool {
	switch a.Kind {
	case 'U', 'N', 'F':
		return false
	case 'I':
		return a.I != 0
	case 'D':
		f := math.Float64frombits(a.I)
		return !(f == 0 || f != f)
	case 'S':
		return len(a.S) > 0
	}
	return true
}

func oracleC20val(c *Case, impl string) *Viol {
	f := strings.Split(c.Req, "\t")
	switch f[0] {
	case "vecho":
		if impl != "OK "+f[1] {
			return &Viol{Key: "codec", What: "value codec round trip failed (harness bug)"}
		}
		return nil
	case "vlaws":
	default:
		return nil
	}
	a, b := decVField(f[1]), decVField(f[2])
	o := strings.Split(impl, " ")
	if len(o) != 9 || o[0] != "OK" {
		return &Viol{Key: "vlaws-crash", What: "Truthy/Equals did not return: " + impl}
	}
	if o[3] != o[4] {
		return &Viol{Key: "equals-asymmetric", What: "a.Equals(b) != b.Equals(a)"}
	}
	if want, ok := vEqualByStatement(a, b); ok && bit(want) != o[3] {
		return &Viol{Key: "equals-" + string(a.Kind) + string(b.Kind), What: "Equals differs from equality by value / numeric equality", Want: bit(want)}
	}
	if bit(vTruthyByStatement(a)) != o[1] {
		return &Viol{Key: "truthy-" + string(a.Kind), What: "Truthy differs from the language table", Want: bit(vTruthyByStatement(a))}
	}
	if bit(vTruthyByStatement(b)) != o[2] {
		return &Viol{Key: "truthy-" + string(b.Kind), What: "Truthy differs from the language table", Want: bit(vTruthyByStatement(b))}
	}
	if o[5] != o[7] || o[6] != o[8] {
		return &Viol{Key: "print-nondeterministic", What: "String() gave two different results for one value"}
	}
	return nil
}

// ---------------------------------------------------------------- Go value generator

var c20FieldNames = []string{"Foo", "Bar", "URL", "X", "ID", "UserName", "A1", "Z_z", "Éa", "Ωmega", "Ñ", "Ǆx", "Ａb", "Ԁ", "Straße"}
var c20Unexported = []string{"foo", "bar", "x", "_x", "_", "éa", "userName", "ǆx"}

func (g *G) goScalar() *GNode {
	r := g.R
	sext := func(v uint64, w int) uint64 {
		if w == 0 || w == 64 {
			return v
		}
		s := uint(64 - w)
		return uint64(int64(v<<s) >> s)
	}
	zext := func(v uint64, w int) uint64 {
		if w == 0 || w == 64 {
			return v
		}
		return v & (1<<uint(w) - 1)
	}
	widths := []int{0, 8, 16, 32, 64}
	switch r.Intn(11) {
	case 0:
		return &GNode{Kind: 'n'}
	case 1:
		return &GNode{Kind: 'b', B: r.Bool()}
	case 2, 3:
		w := widths[r.Intn(5)]
		return &GNode{Kind: 'i', W: w, U: sext(g.int64bits(), w)}
	case 4, 5:
		w := widths[r.Intn(5)]
		v := g.int64bits()
		if r.Chance(1, 4) {
			v = 1<<63 + uint64(r.Intn(3)) - 1 // around the wrap-around point
		}
		return &GNode{Kind: 'u', W: w, U: zext(v, w)}
	case 6:
		f32 := math.Float32frombits(uint32(r.U64()))
		if r.Bool() {
			f32 = float32(c20Floats[r.Intn(len(c20Floats))])
		}
		if f32 != f32 {
			return &GNode{Kind: 'f', U: 0x7ff8000000000000}
		}
		return &GNode{Kind: 'f', U: math.Float64bits(float64(f32))}
	case 7:
		b := g.f64bits()
		if f := math.Float64frombits(b); f != f {
			b = nanBits
		}
		return &GNode{Kind: 'd', U: b}
	case 8, 9:
		return &GNode{Kind: 's', S: []byte(c20Strings[r.Intn(len(c20Strings))])}
	}
	zone := []*time.Location{time.UTC, time.FixedZone("", 3600), time.FixedZone("", -5*3600-1800)}[r.Intn(3)]
	tm := time.Unix(int64(r.Intn(4000000000))-1000000000, int64(r.Intn(1000000000))).In(zone)
	return &GNode{Kind: 't', S: []byte(tm.Format(time.RFC3339))}
}

func (g *G) goVal(depth int, vg *vgen) *GNode {
	r := g.R
	if depth <= 0 || r.Chance(2, 5) {
		return g.goScalar()
	}
	switch r.Intn(20) {
	case 0, 1, 2:
		n := &GNode{Kind: 'A', Typed: r.Chance(1, 3)}
		k := r.Intn(4)
		if n.Typed && k > 0 && r.Bool() { // homogeneous elements so that a typed slice can be built
			proto := g.goScalar()
			for proto.Kind == 'n' {
				proto = g.goScalar()
			}
			for i := 0; i < k; i++ {
				c := *proto
				n.Xs = append(n.Xs, &c)
			}
			return n
		}
		for i := 0; i < k; i++ {
			n.Xs = append(n.Xs, g.goVal(depth-1, vg))
		}
		return n
	case 3:
		return &GNode{Kind: 'a'}
	case 4, 5:
		n := &GNode{Kind: 'O', Typed: r.Chance(1, 4)}
		used := map[string]bool{}
		for i := r.Intn(4); i > 0; i-- {
			k := c20Keys[r.Intn(len(c20Keys))]
			if used[k] {
				continue
			}
			used[k] = true
			n.Keys = append(n.Keys, []byte(k))
			n.Xs = append(n.Xs, g.goVal(depth-1, vg))
		}
		return n
	case 6:
		return &GNode{Kind: 'o'}
	case 7:
		if r.Chance(1, 3) {
			return &GNode{Kind: 'X', N: r.Intn(3)}
		}
		return &GNode{Kind: 'p'}
	case 8, 9, 10, 11:
		n := &GNode{Kind: 'R'}
		used := map[string]bool{}
		for i := r.Intn(5); i > 0; i-- {
			exp := r.Chance(2, 3)
			name := c20Unexported[r.Intn(len(c20Unexported))]
			if exp {
				name = c20FieldNames[r.Intn(len(c20FieldNames))]
			}
			if used[name] {
				continue
			}
			used[name] = true
			n.Keys = append(n.Keys, []byte(name))
			n.Exp = append(n.Exp, exp)
			n.Emb = append(n.Emb, exp && r.Chance(1, 4))
			n.Xs = append(n.Xs, g.goVal(depth-1, vg))
		}
		return n
	case 12, 13, 14:
		return &GNode{Kind: 'P', Xs: []*GNode{g.goVal(depth-1, vg)}}
	case 15:
		return &GNode{Kind: 'C', Xs: []*GNode{g.goVal(depth-1, vg)}}
	case 16, 17:
		return &GNode{Kind: 'V', V: vg.value(2)}
	case 18:
		if r.Chance(1, 6) {
			return &GNode{Kind: 'y'}
		}
		return &GNode{Kind: 'Y', PtrRecv: r.Bool(), V: vg.value(2)}
	}
	if r.Chance(1, 2) {
		return &GNode{Kind: 'Z', N: r.Intn(8)}
	}
	return &GNode{Kind: 'p'}
}

func convertCase(n *GNode, lc bool) Case {
	nt := n.Kind == 'A' || n.Kind == 'O' || n.Kind == 'R' || n.Kind == 'P'
	return Case{Req: req("convert", n.String(), bit(lc)), NT: nt, Class: "convert:" + string(n.Kind), Note: "convert lc=" + bit(lc) + " " + n.String()}
}

func genC20conv(g *G) {
	g.R = g.R.Fork() // NewRNG(seed+1) is NewRNG(seed) shifted by one draw: decorrelate the seeds
	for i := 0; i < 300; i++ {
		n := g.goVal(3, newVgen(g))
		g.Add(Case{Req: req("gecho", n.String()), Class: "codec", Note: "gecho"})
	}
	// lowerCamel of single field names through the real struct conversion
	for _, name := range append(append([]string(nil), c20FieldNames...), "K", "Ω", "Å", "İx", "ẞ", "Ⅰ", "Σ", "ǅ", "Ⴀ", "Ꙁ", "𐐀x", "Ə") {
		if r, _ := utf8.DecodeRuneInString(name); unicode.IsLetter(r) && !('a' <= r && r <= 'z') {
			g.Add(Case{Req: req("lowerfirst", hxs(name)), NT: true, Class: "lowerfirst", Note: "lowerfirst " + name})
		}
	}
	// fixed shapes
	mk := func(s string) *GNode { return decGField(s) }
	fixed := []string{
		"n", "p", "P,p", "P,P,p", "P,n", "P,C,n", "P,C,p", "a", "o", "X0", "X1", "R0", "A0.0", "A1.0", "O0.0", "O1.0",
		"V,L0.0", "V,L1.0", "V,M0.0", "V,U", "P,V,U", "P,V,N", "P,V,L0.0", "P,V,L1.0", "P,V,M0.0", "P,V,L2.1,I0000000000000001",
		"P,V,M2.1,K61,U", "P,V,I0000000000000005", "P,V,D3ff8000000000000", "P,V,S61", "P,V,T",
		"Y0,N", "Y1,N", "P,Y0,N", "P,Y1,N", "P,P,Y0,N", "P,P,Y1,N", "y", "P,y", "P,C,Y0,S61", "C,Y0,S61", "C,y",
		"A0.2,V,L2.1,N,V,L2.1,N", "A0.2,A0.0,A0.0", "A0.2,a,a", "A0.2,o,o",
		"u64.8000000000000000", "u64.7fffffffffffffff", "u64.ffffffffffffffff", "u0.8000000000000000", "u32.00000000ffffffff", "u8.00000000000000ff",
		"i8.ffffffffffffff80", "i64.8000000000000000", "f7ff0000000000000", "d7ff8000000000001", "d8000000000000000",
		"R2,F10.4b,i0.0000000000000001,F10.e284aa,i0.0000000000000002", // K and the Kelvin sign: both become "k"
		"R2,F10.c385,s61,F10.e284ab,s62",                               // Å and the Angstrom sign
		"R3,F10.466f6f,n,F00.666f6f,i0.0000000000000001,F11.426172,R1,F10.41,b1",
		"Z0", "Z1", "Z2", "Z3", "Z4", "Z5", "Z6", "Z7", "A0.1,Z4", "R1,F00.78,Z0", "R1,F10.58,Z0",
	}
	for _, s := range fixed {
		for _, lc := range []bool{false, true} {
			g.Add(convertCase(mk(s), lc))
		}
	}
	n := g.N(20000, 300000)
	for i := 0; i < n; i++ {
		g.Add(convertCase(g.goVal(4, newVgen(g)), g.R.Bool()))
	}
}

// ---------------------------------------------------------------- oracle for the conversion

// jsonLike: the node is in the domain the statement quantifies over, and expect describes what the
// statement promises.  Nodes outside (existing Values under pointers, marshalers reached by drilling,
// unsupported kinds, non-string-keyed maps) are skipped.
type shapeErr struct{ key, what string }

func lowerCamelByStatement(name string) string {
	r, size := utf8.DecodeRuneInString(name)
	if size == 0 {
		return name
	}
	return string(unicode.ToLower(r)) + name[size:]
}

// sameIgnoringIDs: structural equality of a described value and a printed one
func sameIgnoringIDs(a, b *VNode) bool {
	if a.Kind != b.Kind || len(a.Xs) != len(b.Xs) {
		return false
	}
	switch a.Kind {
	case 'I', 'D':
		return a.I == b.I
	case 'S':
		return string(a.S) == string(b.S)
	case 'L':
		for i := range a.Xs {
			if !sameIgnoringIDs(a.Xs[i], b.Xs[i]) {
				return false
			}
		}
	case 'M':
		for i, k := range a.Keys {
			found := false
			for j, k2 := range b.Keys {
				if string(k) == string(k2) {
					found = sameIgnoringIDs(a.Xs[i], b.Xs[j])
				}
			}
			if !found {
				return false
			}
		}
	}
	return true
}

// checkShape returns nil if v is what the statement promises for g (top = NewWith sees g directly,
// i.e. the Marshaler / data.Value checks apply).
func checkShape(g *GNode, v *VNode, lc bool, top bool) *shapeErr {
	sc := func(kind byte, bits uint64) *shapeErr {
		if v.Kind != kind || v.I != bits {
			return &shapeErr{"scalar-" + string(g.Kind), fmt.Sprintf("scalar %s converted to %s", g.String(), v.String())}
		}
		return nil
	}
	switch g.Kind {
	case 'n', 'p':
		if v.Kind != 'N' {
			return &shapeErr{"nil", "nil did not convert to null"}
		}
	case 'b':
		if (v.Kind == 'T') != g.B || (v.Kind != 'T' && v.Kind != 'F') {
			return &shapeErr{"scalar-b", "bool changed"}
		}
	case 'i':
		return sc('I', g.U)
	case 'u':
		if g.U >= 1<<63 {
			if v.Kind == 'I' && int64(v.I) < 0 {
				return &shapeErr{"uint64>=2^63", fmt.Sprintf("uint64 %d converted to the negative Int %d", g.U, int64(v.I))}
			}
			return &shapeErr{"uint64-other", "uint64 >= 2^63 converted to " + v.String()}
		}
		return sc('I', g.U)
	case 'f', 'd':
		want := g.U
		if f := math.Float64frombits(want); f != f {
			want = nanBits
		}
		return sc('D', want)
	case 's', 't':
		if v.Kind != 'S' || string(v.S) != string(g.S) {
			return &shapeErr{"scalar-" + string(g.Kind), "string/time changed"}
		}
	case 'A':
		if v.Kind != 'L' || len(v.Xs) != len(g.Xs) {
			return &shapeErr{"slice-shape", "slice did not become a list of the same length"}
		}
		for i := range g.Xs {
			if e := checkShape(g.Xs[i], v.Xs[i], lc, true); e != nil {
				return e
			}
		}
	case 'a':
		if v.Kind != 'L' || len(v.Xs) != 0 {
			return &shapeErr{"slice-shape", "nil slice did not become an empty list"}
		}
	case 'o':
		if v.Kind != 'M' || len(v.Xs) != 0 {
			return &shapeErr{"map-shape", "nil map did not become an empty map"}
		}
	case 'O':
		if v.Kind != 'M' || len(v.Xs) != len(g.Xs) {
			return &shapeErr{"map-shape", "map did not become a map with the same keys"}
		}
		for i, k := range g.Keys {
			j := v.find(k)
			if j < 0 {
				return &shapeErr{"map-shape", "map key lost"}
			}
			if e := checkShape(g.Xs[i], v.Xs[j], lc, true); e != nil {
				return e
			}
		}
	case 'R':
		if v.Kind != 'M' {
			return &shapeErr{"struct-shape", "struct did not become a map"}
		}
		want := 0
		for i, name := range g.Keys {
			if !g.Exp[i] {
				continue
			}
			want++
			key := string(name)
			if lc {
				key = lowerCamelByStatement(key)
			}
			j := v.find([]byte(key))
			if j < 0 {
				return &shapeErr{"struct-field-missing", "exported field " + string(name) + " not found under " + key}
			}
			clash := false
			for i2, n2 := range g.Keys {
				if i2 != i && g.Exp[i2] && lc && lowerCamelByStatement(string(n2)) == key {
					clash = true
				}
			}
			if clash {
				return &shapeErr{"lowerCamel-collision", "two exported fields share the lowerCamel name " + key + ": one value is lost"}
			}
			if e := checkShape(g.Xs[i], v.Xs[j], lc, true); e != nil {
				return e
			}
		}
		if len(v.Xs) != want {
			return &shapeErr{"struct-shape", "struct map has keys that are not exported fields"}
		}
	case 'P':
		c := g.Xs[0]
		if c.Kind == 'Y' && top {
			if !sameIgnoringIDs(c.V, v) {
				return &shapeErr{"marshaler", "pointer to a Marshaler did not convert to its MarshalValue()"}
			}
			return nil
		}
		if c.jsonLike() {
			return checkShape(c, v, lc, false)
		}
	case 'C':
		return checkShape(g.Xs[0], v, lc, top)
	case 'V':
		if top && !sameIgnoringIDs(g.V, v) {
			return &shapeErr{"value-changed", "an existing data.Value was not returned as is"}
		}
	case 'Y':
		if top && !g.PtrRecv && !sameIgnoringIDs(g.V, v) {
			return &shapeErr{"marshaler", "a Marshaler did not convert to its MarshalValue()"}
		}
	}
	return nil
}

func (v *VNode) find(k []byte) int {
	for j, k2 := range v.Keys {
		if string(k) == string(k2) {
			return j
		}
	}
	return -1
}

// jsonLike: nil, booleans, integer and float kinds, strings, times, slices, string-keyed maps, structs,
// pointers to them — all the way down.
func (g *GNode) jsonLike() bool {
	switch g.Kind {
	case 'V', 'Y', 'y', 'Z', 'X':
		return false
	}
	for _, x := range g.Xs {
		if !x.jsonLike() {
			return false
		}
	}
	return true
}

func oracleC20conv(c *Case, impl string) *Viol {
	f := strings.Split(c.Req, "\t")
	switch f[0] {
	case "gecho":
		g := decGField(f[1])
		g.stripModelInvisible()
		if impl != "OK "+g.String() {
			return &Viol{Key: "codec", What: "Go-value codec round trip failed (harness bug)"}
		}
		return nil
	case "lowerfirst":
		name, _ := unhx(f[1])
		if impl != "OK "+hxs(lowerCamelByStatement(string(name))) {
			return &Viol{Key: "lowerCamel-name", What: "field " + string(name) + " does not appear under its lowerCamel name"}
		}
		return nil
	case "convert":
	default:
		return nil
	}
	g := decGField(f[1])
	lc := f[2] == "1"
	if impl == "PANIC" {
		if g.jsonLike() {
			return &Viol{Key: "panic-on-json-like", What: "conversion of a JSON-like value panicked"}
		}
		return nil
	}
	o := strings.Split(impl, " ")
	if len(o) != 3 || o[0] != "OK" {
		return &Viol{Key: "convert-crash", What: "unexpected answer " + impl}
	}
	if strings.Contains(o[1], "ALIEN") || strings.Contains(o[1], "NILVALUE") {
		return &Viol{Key: "not-a-soy-value", What: "conversion returned something that is none of the Soy value types: " + o[1]}
	}
	if o[2] != "R1" {
		return &Viol{Key: "reconvert-changes", What: "converting the converted value again changed it"}
	}
	v := decVField(o[1])
	if e := checkShape(g, v, lc, true); e != nil {
		return &Viol{Key: e.key, What: e.what}
	}
	return nil
}

func init() {
	register(&Prop{
		ID: "C20val",
		Rule: "value laws on pairs of Soy values (all pairs of ~100 special scalars/collections, then random nested values with shared and distinct " +
			"list/map identities and partners chosen to be equal / numerically equal / neighbouring): Truthy, Equals both ways, String twice; " +
			"non-trivial = kinds differ or a float/list/map is involved",
		Gen:    genC20val,
		Oracle: oracleC20val,
	})
	register(&Prop{
		ID: "C20conv",
		Rule: "data.NewWith on Go values built with reflect from random nested descriptions over every kind (all int/uint widths, float32/64, " +
			"strings, times, typed and untyped slices/maps, nil slices/maps/pointers, structs with exported/unexported/embedded fields and " +
			"non-ASCII names, pointer and interface chains, existing Values, marshalers with value and pointer receivers, unsupported kinds), " +
			"both LowerCamel settings; non-trivial = slice, map, struct or pointer at the root",
		Gen:    genC20conv,
		Oracle: oracleC20conv,
		Direct: directC20conv,
	})
}

// C20 = the three sub-checks in one run (what `./check C20` executes).
func init() {
	register(&Prop{
		ID: "C20",
		Rule: "union of C20f64 (soft-float vs Go, bit for bit), C20val (value laws on pairs of values) and C20conv (data.NewWith on Go " +
			"values built with reflect over every kind, both LowerCamel settings); non-trivial as defined by each sub-check",
		Gen: func(g *G) {
			genF64(g)
			genC20val(g)
			genC20conv(g)
		},
		Oracle: func(c *Case, impl string) *Viol {
			switch {
			case strings.HasPrefix(c.Req, "vlaws"), strings.HasPrefix(c.Req, "vecho"):
				return oracleC20val(c, impl)
			case strings.HasPrefix(c.Req, "convert"), strings.HasPrefix(c.Req, "gecho"), strings.HasPrefix(c.Req, "lowerfirst"):
				return oracleC20conv(c, impl)
			}
			return nil
		},
		Direct: directC20conv,
	})
}
