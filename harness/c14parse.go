package main

// C14parse — the READER of JavaScript text of the proofs (lean/SoyVerif/Spec/JsParse.lean: a tokenizer, a parser for
// the sub-grammar of ECMA-262 the generator's output lives in, and the reading of the syntax tree as the ASTs of
// Spec/JsSemRef / Spec/JsStmt) against a JavaScript engine's parser and against the generator.
//
//   implementation side: the text — REAL soyjs.Write output (ES5 formatter) of a compiled file, or a corrupted variant
//       of it — is handed to otto's parser:  ACCEPT | REJECT <message>
//   specification side (driver op `jsparse`): the same text is read with `jsParseFile`; when every template of the file
//       is in the fragment of Props/C04c–f the functions read are compared with the model's translation `toFile`
//       (canonical form of Props/C14c):  ACCEPT n SAME | ACCEPT n DIFF … | ACCEPT n NOAST | REJECT LEX|PARSE|READ AST|NOAST
//
// Compared (Props/C14c jsparse_render_funcs, gen_funcs_parse are the theorems behind it):
//   * a file the model has a translation of must be ACCEPTed with the SAME functions — the text soyjs writes parses, by
//     the grammar of the proofs, to exactly the AST the semantic theorems are about;
//   * whatever the reader ACCEPTs, the engine's parser must accept (the grammar is a SUB-grammar of ECMA-262);
//   * the corrupted texts (a byte removed, doubled or replaced; the hand-written ones: unbalanced parenthesis, unterminated
//     string, `{2nd:1}`, …) that the engine rejects must be REJECTed.
// Files outside the fragment (C14gen's bundles: floats, map literals, messages with a bundle, …) are mostly rejected by
// the reader — counted, not judged.

import (
	"fmt"
	"strings"

	"github.com/robertkrimen/otto/parser"
)

func ottoParses(js string) (bool, string) {
	_, err := parser.ParseFile(nil, "", js, 0)
	if err != nil {
		msg := err.Error()
		if len(msg) > 120 {
			msg = msg[:120]
		}
		return false, msg
	}
	return true, ""
}

var c14pStats = map[string]int{}

// c14pDiffers: does the engine's verdict contradict the reader's?
func c14pDiffers(c *Case, want, impl string) bool {
	w := strings.Fields(want)
	if len(w) < 2 {
		return true
	}
	implAccepts := strings.HasPrefix(impl, "ACCEPT")
	key := w[0]
	if w[0] == "ACCEPT" {
		key += " " + w[2]
	} else {
		key += " " + w[1] + " " + w[2]
	}
	if implAccepts {
		key += " | engine accepts"
	} else {
		key += " | engine rejects"
	}
	c14pStats[c.Class+": "+key]++
	switch w[0] {
	case "ACCEPT":
		if !implAccepts {
			return true // the reader accepts what the engine rejects
		}
		if len(w) >= 3 && w[2] == "DIFF" && !strings.HasPrefix(c.Class, "corrupt") {
			return true // the text of a generated file is read as another AST than the model's translation
		}
		return false
	case "REJECT":
		if len(w) >= 3 && w[2] == "AST" && !strings.HasPrefix(c.Class, "corrupt") {
			return true // the model has a translation of the file, but its text is not read
		}
		return false
	}
	return true
}

// corruptions of a text: a byte removed, doubled, replaced
func c14pCorrupt(r *RNG, js string) (string, string) {
	if len(js) == 0 {
		return js, "empty"
	}
	i := r.Intn(len(js))
	switch r.Intn(4) {
	case 0:
		return js[:i] + js[i+1:], fmt.Sprintf("remove@%d(%q)", i, js[i])
	case 1:
		return js[:i] + js[i:i+1] + js[i:], fmt.Sprintf("double@%d(%q)", i, js[i])
	case 2:
		repl := []string{"(", ")", "{", "}", "'", ";", ",", ".", "1", "x", " ", "=", "+", "\\", "\n", "[", "]", ":", "?", "!", "\"", "/"}
		c := r.Pick(repl)
		return js[:i] + c + js[i+1:], fmt.Sprintf("replace@%d(%q->%q)", i, js[i], c)
	}
	// remove a whole line
	lines := strings.Split(js, "\n")
	k := r.Intn(len(lines))
	return strings.Join(append(append([]string{}, lines[:k]...), lines[k+1:]...), "\n"), fmt.Sprintf("dropline@%d(%q)", k, lines[k])
}

type c14pHand struct{ name, js string }

const c14pFn = "ns.t = function(opt_data, opt_sb, opt_ijData) {\n  var output = '';\n"
const c14pEnd = "  return output;\n};\n"

var c14pHands = []c14pHand{
	{"ok", c14pFn + "  output += 'a';\n" + c14pEnd},
	{"unbalanced-paren", c14pFn + "  output += soy.$$escapeHtml(((opt_data.x) + (1));\n" + c14pEnd},
	{"unbalanced-paren-2", c14pFn + "  output += soy.$$escapeHtml((opt_data.x) + (1)));\n" + c14pEnd},
	{"unterminated-string", c14pFn + "  output += 'abc;\n" + c14pEnd},
	{"string-with-newline", c14pFn + "  output += 'a\nb';\n" + c14pEnd},
	{"bad-object-key", c14pFn + "  output += ns.u(soy.$$augmentMap(opt_data, {2nd: 1}), opt_sb, opt_ijData);\n" + c14pEnd},
	{"number-dot-name", c14pFn + "  output += soy.$$escapeHtml(5.length);\n" + c14pEnd},
	{"ok-length-key", c14pFn + "  output += soy.$$escapeHtml(opt_data.x.length);\n" + c14pEnd},
	{"ok-length-function", c14pFn + "  output += soy.$$escapeHtml((opt_data.x).length);\n" + c14pEnd},
	{"missing-brace", "ns.t = function(opt_data, opt_sb, opt_ijData) {\n  var output = '';\n  if (opt_data.x) {\n    output += 'a';\n" + c14pEnd},
	{"missing-semicolon-brace", c14pFn + "  output += 'a'\n  }\n" + c14pEnd},
	{"reserved-var", c14pFn + "  var class = 1;\n" + c14pEnd},
	{"bad-escape", c14pFn + "  output += '\\u12';\n" + c14pEnd},
	{"case-outside-switch", c14pFn + "  case 1:\n" + c14pEnd},
	{"else-without-if", c14pFn + "  else {\n  }\n" + c14pEnd},
	{"for-missing-part", c14pFn + "  for (var i = 0; i < 3) {\n  }\n" + c14pEnd},
	{"double-operator", c14pFn + "  output += ((1) + * (2));\n" + c14pEnd},
	{"empty-parens", c14pFn + "  output += ();\n" + c14pEnd},
	{"trailing-dot", c14pFn + "  output += opt_data.;\n" + c14pEnd},
	{"index-unclosed", c14pFn + "  output += opt_data.x[0;\n" + c14pEnd},
	{"conditional-missing-colon", c14pFn + "  output += ((1) ?2);\n" + c14pEnd},
	{"keyword-as-value", c14pFn + "  output += var;\n" + c14pEnd},
}

func genC14parse(g *G) {
	g.R = g.R.Fork()
	for _, h := range c14pHands {
		r := req("jsparse", hxs(h.js), "(files)", hxs("-"))
		g.Add(Case{Req: r, SpecReq: r, NoModel: true, Class: "corrupt-hand", Note: "hand " + h.name})
	}
	// the files of the statement / function fragment (the generator of C04sem), and corruptions of their text
	n := g.N(500, 10000)
	sg := &semGen{r: g.R}
	for i := 0; i < n; i++ {
		src := sg.template()
		fs := []srcFile{{"sem.soy", src}}
		reg, err := jsCompile(fs, semGlobals)
		if err != nil {
			continue
		}
		js, ok := jsWrite(reg, "sem.soy", "es5", nil)
		if !ok {
			continue
		}
		wire := sx("files", sxFile(reg.SoyFiles[0]))
		gl := sxGlobals(semGlobals)
		r := req("jsparse", hxs(js), wire, hxs("sem.soy"), gl)
		g.Add(Case{Req: r, SpecReq: r, NoModel: true, NT: true, Class: "fragment", Note: fmt.Sprintf("template#%d seed=%d", i, g.Seed)})
		for k := 0; k < 2; k++ {
			bad, how := c14pCorrupt(g.R, js)
			rb := req("jsparse", hxs(bad), wire, hxs("sem.soy"), gl)
			g.Add(Case{Req: rb, SpecReq: rb, NoModel: true, Class: "corrupt", Note: fmt.Sprintf("template#%d seed=%d %s", i, g.Seed, how)})
		}
	}
	// the bundles of C14gen (every feature of the generator): mostly outside the fragment
	m := g.N(60, 1200)
	bg := newJsBundleGen(g.R)
	for i := 0; i < m; i++ {
		c, err := makeJsBundleCase(bg, g.R, i%3 == 0)
		if err != nil {
			continue
		}
		for _, f := range c.reg.SoyFiles {
			js, ok := jsWrite(c.reg, f.Name, "es5", nil)
			if !ok {
				continue
			}
			r := req("jsparse", hxs(js), c.wire, hxs(f.Name), c.gwire)
			g.Add(Case{Req: r, SpecReq: r, NoModel: true, Class: "bundle", Note: fmt.Sprintf("bundle#%d seed=%d file=%s", i, g.Seed, f.Name)})
		}
	}
}

func init() {
	// fields: JavaScript text, compiled files (read by the model only), file name, globals
	implOps["jsparse"] = func(f []string) string {
		js, ok := unhx(f[0])
		if !ok {
			return "BADREQ"
		}
		if ok, msg := ottoParses(string(js)); !ok {
			return "REJECT " + hxs(msg)
		}
		return "ACCEPT"
	}
	register(&Prop{
		ID: "C14parse",
		Rule: "validation of the JavaScript READER of the proofs (Spec/JsParse: tokenizer, parser of the sub-grammar of ECMA-262, reading as the ASTs of Spec/JsSemRef / Spec/JsStmt): " +
			"REAL soyjs.Write output (ES5) of generated files of the statement / function fragment (the generator of C04sem: raw text, prints with directives, let, if/elseif/else, foreach/ifempty, for-range, switch, content blocks, {call} with params, {msg} without a bundle, over the expression fragment), of C14gen's bundles, and corrupted variants of the former (a byte removed / doubled / replaced, a line dropped; hand-written: unbalanced parenthesis, unterminated string, `{2nd: 1}`, `5.length`, …): " +
			"the text read with jsParseFile in the driver versus otto's parser, and — where every template of the file is in the fragment — the functions read versus the model's translation toFile (canonical form); " +
			"a file with a translation must be read as exactly that translation; whatever the reader accepts the engine must accept; non-trivial = a file of the fragment",
		Gen:         genC14parse,
		SpecDiffers: c14pDiffers,
		Oracle: func(c *Case, impl string) *Viol {
			if !strings.HasPrefix(impl, "ACCEPT") && !strings.HasPrefix(impl, "REJECT") {
				return &Viol{Key: "c14parse:answer", What: "C14parse: malformed answer " + impl}
			}
			if (c.Class == "fragment" || c.Class == "bundle") && !strings.HasPrefix(impl, "ACCEPT") {
				// soyjs.Write output that the engine's parser rejects: C14's own subject; reported there as well
				return &Viol{Key: "c14parse:generated-text-rejected", What: "C14parse: otto rejects a generated file: " + impl + " [" + c.Note + "]", Want: "ACCEPT"}
			}
			if c.Class == "corrupt-hand" && !strings.HasPrefix(c.Note, "hand ok") && strings.HasPrefix(impl, "ACCEPT") {
				return &Viol{Key: "c14parse:hand", What: "C14parse: the engine accepts a hand-corrupted text [" + c.Note + "]", Want: "REJECT"}
			}
			return nil
		},
		Direct: func(g *G, rep *Report) {
			rep.Extra["verdicts"] = c14pStats
		},
	})
}
