package main

import (
	"bytes"
	"crypto/sha1"
	"encoding/hex"
	"encoding/json"
	"fmt"
	"github.com/robfig/soy/soyjs"
	"runtime"
	"sort"
	"strings"
	"sync"

	soy "github.com/robfig/soy"
	"github.com/robfig/soy/ast"
	"github.com/robfig/soy/data"
	"github.com/robfig/soy/soymsg"
	"github.com/robfig/soy/template"
)

// C13det: the implementation against ITSELF.  One observation of a bundle =
//   accept/reject with the error text; message ids, placeholder names and placeholder strings;
//   the rendered output of every template on fixed data; the JavaScript of every file under
//   ES5 / ES6, without and with a message bundle.
// The observation is taken 5 times in the generating process (Go re-randomises every map
// iteration), once more in a worker process, and under every permutation of the order in
// which the files are added to the bundle; all must coincide, label by label.

// translationsDet: like translations, but which messages are translated depends on the id only
// (not on the order in which the files are visited).
func translationsDet(reg *template.Registry, kind int) *jsMemBundle {
	b := &jsMemBundle{msgs: map[uint64]*soymsg.Message{}, plural: pluralEnglish}
	for _, m := range allMsgNodes(reg) {
		if m.ID%5 == 0 {
			continue
		}
		parts := identityParts(m.Body.Children())
		if kind == 1 {
			parts = reverseParts(parts)
		}
		if kind == 2 && m.ID%3 != 0 {
			parts = nil // translated to the EMPTY text (an entry without parts is still a translation)
		}
		b.msgs[m.ID] = &soymsg.Message{ID: m.ID, Parts: parts}
	}
	return b
}

type detObs map[string]string // label -> value

func detObserve(fs []srcFile, globals data.Map, dataByTmpl map[string]string, kind int) detObs {
	return detObserveWith(func() (*template.Registry, error) { return jsCompile(fs, globals) }, dataByTmpl, kind)
}

// detObserveWith observes what `compile` yields (a fresh Bundle, or one Bundle value compiled once more).
func detObserveWith(compile func() (*template.Registry, error), dataByTmpl map[string]string, kind int) detObs {
	obs := detObs{}
	reg, err := compile()
	if err != nil {
		obs["accept"] = "ERR " + err.Error()
		return obs
	}
	obs["accept"] = "OK"
	var ids []string
	for _, t := range reg.Templates {
		var ms []*ast.MsgNode
		findMsgs(t.Node, &ms)
		for k, m := range ms {
			ids = append(ids, t.Node.Name+"#"+itoa(k)+" "+msgObs(m))
		}
	}
	sort.Strings(ids)
	obs["ids"] = strings.Join(ids, "\n")
	for _, t := range reg.Templates {
		dj, ok := dataByTmpl[t.Node.Name]
		if !ok {
			dj = "{}"
		}
		out, class := renderSafe(reg, t.Node.Name, dataFromJSON(dj), data.Map{"foo": data.String("ij<>"), "bar": data.Map{"baz": data.Int(7)}})
		obs["render:"+t.Node.Name] = class + ":" + out
	}
	mb := translationsDet(reg, kind)
	for _, f := range reg.SoyFiles {
		// a file is identified by its namespace: the file NAME is a label that several files may share
		ns := ""
		for _, n := range f.Body {
			if nn, ok := n.(*ast.NamespaceNode); ok {
				ns = nn.Name
			}
			// several files may also share a namespace: the first template's name tells them apart
			if tn, ok := n.(*ast.TemplateNode); ok && !strings.Contains(ns, "#") {
				ns += "#" + tn.Name
			}
		}
		for _, fm := range []string{"es5", "es6"} {
			for mi, b := range []*jsMemBundle{nil, mb} {
				var buf bytes.Buffer
				opts := soyjs.Options{Formatter: jsFormatter(fm)}
				if b != nil {
					opts.Messages = b
				}
				js := ""
				if err := soyjs.Write(&buf, f, opts); err != nil {
					js = "ERR " + err.Error()
				} else {
					js = buf.String()
				}
				obs[fmt.Sprintf("js:%s:%s:%s:%d", f.Name, ns, fm, mi)] = js
			}
		}
	}
	return obs
}

func (o detObs) digest() string {
	labels := make([]string, 0, len(o))
	for k := range o {
		labels = append(labels, k)
	}
	sort.Strings(labels)
	var parts []string
	for _, k := range labels {
		h := sha1.Sum([]byte(o[k]))
		parts = append(parts, hxs(k)+"="+hex.EncodeToString(h[:8]))
	}
	return strings.Join(parts, ",")
}

// firstDifference names the first label on which two digests differ.
func firstDifference(a, b string) string {
	am, bm := map[string]string{}, map[string]string{}
	for _, p := range strings.Split(a, ",") {
		kv := strings.SplitN(p, "=", 2)
		if len(kv) == 2 {
			am[kv[0]] = kv[1]
		}
	}
	for _, p := range strings.Split(b, ",") {
		kv := strings.SplitN(p, "=", 2)
		if len(kv) == 2 {
			bm[kv[0]] = kv[1]
		}
	}
	var labels []string
	for k := range am {
		labels = append(labels, k)
	}
	for k := range bm {
		if _, ok := am[k]; !ok {
			labels = append(labels, k)
		}
	}
	sort.Strings(labels)
	for _, k := range labels {
		if am[k] != bm[k] {
			l, _ := unhx(k)
			return string(l)
		}
	}
	return ""
}

func permutations(n int) [][]int {
	if n <= 1 {
		return [][]int{{0}}[:n]
	}
	var out [][]int
	var rec func(cur []int, used []bool)
	rec = func(cur []int, used []bool) {
		if len(cur) == n {
			out = append(out, append([]int(nil), cur...))
			return
		}
		for i := 0; i < n; i++ {
			if !used[i] {
				used[i] = true
				rec(append(cur, i), used)
				used[i] = false
			}
		}
	}
	rec(nil, make([]bool, n))
	return out
}

type detExpect struct {
	digest string
	viols  []Viol
}

var (
	detMu      sync.Mutex
	detByReq   = map[string]*detExpect{}
	detStats   = map[string]int{}
	detLabelOf = func(label string) string {
		if i := strings.IndexByte(label, ':'); i > 0 {
			return label[:i]
		}
		return label
	}
)

// detCheck takes the in-process observations of one bundle and records what differs.
// multiErr: the injected defect can produce several independent errors (an added required param is
// unused AND missing at every call site): under a permutation only the decision must be the same.
func detCheck(fs []srcFile, globals data.Map, dataByTmpl map[string]string, kind int, note string, multiErr bool) *detExpect {
	e := &detExpect{}
	first := detObserve(fs, globals, dataByTmpl, kind)
	e.digest = first.digest()
	report := func(how string, o detObs) {
		d := o.digest()
		if d == e.digest {
			return
		}
		if multiErr && how == "file-order" && strings.HasPrefix(first["accept"], "ERR") && strings.HasPrefix(o["accept"], "ERR") {
			return
		}
		label := firstDifference(e.digest, d)
		e.viols = append(e.viols, Viol{
			Key:  "c13:" + detLabelOf(label) + ":" + how + ":" + note,
			What: fmt.Sprintf("C13: %s changes the observation %q of %s: %.300q versus %.300q", how, label, note, first[label], o[label]),
			Want: "identical observations",
		})
	}
	reps := 5
	if strings.HasPrefix(first["accept"], "ERR") {
		reps = 40 // a rejected bundle is observed by its error text only (cheap): more chances for a map order or a schedule to show
	}
	// every other repetition compiles ONE Bundle value again instead of building a fresh one: the result is a
	// function of the sources and globals, not of what the Bundle has been asked before
	shared := soy.NewBundle()
	for _, f := range fs {
		shared.AddTemplateString(f.name, f.content)
	}
	if len(globals) > 0 {
		shared.AddGlobalsMap(globals)
	}
	shared.Compile()
	for rep := 2; rep <= reps; rep++ {
		if rep%2 == 1 {
			report("recompilation of one Bundle value", detObserveWith(func() (*template.Registry, error) { return shared.Compile() }, dataByTmpl, kind))
			continue
		}
		report("repetition", detObserve(fs, globals, dataByTmpl, kind))
	}
	if len(fs) >= 2 && len(fs) <= 4 {
		for _, p := range permutations(len(fs))[1:] {
			perm := make([]srcFile, len(fs))
			for i, j := range p {
				perm[i] = fs[j]
			}
			report("file-order", detObserve(perm, globals, dataByTmpl, kind))
		}
	}
	return e
}

func init() {
	// fields: sources, globals, data per template (hex JSON object name -> JSON text), bundle kind
	implOps["c13obs"] = func(f []string) string {
		dj, _ := unhx(f[2])
		var dataByTmpl map[string]string
		json.Unmarshal(dj, &dataByTmpl)
		kind := 0
		if f[3] == "1" {
			kind = 1
		}
		return "OK " + detObserve(decSources(f[0]), globalsOfSx(f[1]), dataByTmpl, kind).digest()
	}
	register(&Prop{
		ID: "C13det",
		Rule: "the implementation against itself: every generated bundle (valid all-feature bundles with >= 7 ES6 imports, map literals with >= 4 keys, messages with colliding placeholder names; and the same bundles with ONE injected checker or syntax error, with one error that names several params, with independent errors in 2-3 files) is observed " +
			"5 times in-process (40 times when rejected), once in another process, and under every permutation of the file insertion order (2..4 files, exhaustively): accept/reject + error text, message ids + placeholder names, rendered output of every template, JavaScript of every file x {ES5, ES6} x {no bundle, bundle} must be identical; " +
			"non-trivial = bundle has >= 2 files or a message or a map literal",
		Gen: genC13det,
		Oracle: func(c *Case, impl string) *Viol {
			detMu.Lock()
			e := detByReq[c.Req]
			detMu.Unlock()
			if e == nil {
				return nil
			}
			if len(e.viols) > 0 {
				v := e.viols[0]
				return &v
			}
			if impl != "OK "+e.digest {
				label := firstDifference(e.digest, strings.TrimPrefix(impl, "OK "))
				return &Viol{Key: "c13:" + detLabelOf(label) + ":process:" + c.Note, What: "C13: another process observes a different " + label + " for " + c.Note, Want: "OK " + e.digest}
			}
			return nil
		},
		Direct: func(g *G, rep *Report) {
			rep.Extra["observations"] = detStats
		},
	})
}

func genC13det(g *G) {
	n := g.N(500, 8000)
	bg := newJsBundleGen(g.R)
	bg.opts.sharedNs = true // two files may share a namespace, each tag with its own autoescape attribute
	type job struct {
		fs      []srcFile
		globals data.Map
		dataBy  map[string]string
		kind    int
		note    string
		class   string
		nt      bool
	}
	var jobs []job
	syntaxInj := []injector{
		{"syntax-unclosed-tag", func(r *RNG, fs []srcFile) ([]srcFile, bool) { return bodySite(r, fs, "{if $x") }},
		{"syntax-unknown-directive-arg", func(r *RNG, fs []srcFile) ([]srcFile, bool) { return bodySite(r, fs, "{1 +}") }},
		{"syntax-bad-command", func(r *RNG, fs []srcFile) ([]srcFile, bool) { return bodySite(r, fs, "{/foreach}") }},
		{"undefined-global", func(r *RNG, fs []srcFile) ([]srcFile, bool) { return bodySite(r, fs, "{NO_SUCH_GLOBAL}") }},
		// ONE error whose text names several things: the text must not depend on a map's iteration order
		{"several-unused-params", func(r *RNG, fs []srcFile) ([]srcFile, bool) {
			return replaceFirstFrom(r, fs, "/**\n", "/**\n * @param? zq1\n * @param? zq2\n * @param? zq3\n * @param? zq4\n * @param? zq5\n")
		}},
		// several violations inside ONE map literal: which one is reported must not depend on map iteration order
		{"undeclared-in-map-literal", func(r *RNG, fs []srcFile) ([]srcFile, bool) {
			return bodySite(r, fs, "{length(['a': $zq1, 'b': $zq2, 'c': $zq3, 'd': $zq4, 'e': $zq5])}")
		}},
		{"unknown-function-in-map-literal", func(r *RNG, fs []srcFile) ([]srcFile, bool) {
			return bodySite(r, fs, "{length(['a': nosuch1(1), 'b': nosuch2(2), 'c': nosuch3(3), 'd': nosuch4(4)])}")
		}},
		// ONE error naming several missing params
		{"call-missing-several-required-params", func(r *RNG, fs []srcFile) ([]srcFile, bool) {
			out, ok := bodySite(r, fs[:1], "{call .zq5 /}")
			if !ok {
				return nil, false
			}
			out[0].content += "\n/**\n * @param alpha\n * @param beta\n * @param gamma\n * @param delta\n * @param eps\n */\n{template .zq5}\n{$alpha}{$beta}{$gamma}{$delta}{$eps}\n{/template}\n"
			return append(out, fs[1:]...), true
		}},
		{"duplicate-template", func(r *RNG, fs []srcFile) ([]srcFile, bool) {
			out := append([]srcFile(nil), fs...)
			out[0].content += "\n{template .t0}dup{/template}\n"
			return out, true
		}},
	}
	// independent errors in two or three files: which one is reported may depend on the insertion order of the
	// files, never on the repetition (or on a schedule)
	brokenFiles := func(r *RNG, fs []srcFile) ([]srcFile, bool) {
		if len(fs) < 2 {
			return nil, false
		}
		out := append([]srcFile(nil), fs...)
		snips := []string{"{if $x", "{1 +}", "{/foreach}", "{print 'unterminated}", "{call}", "{$}"}
		for k := range out {
			if k >= 3 {
				break
			}
			one, ok := bodySite(r, []srcFile{out[k]}, snips[r.Intn(len(snips))])
			if !ok {
				return nil, false
			}
			out[k] = one[0]
		}
		return out, true
	}
	for i := 0; i < n; i++ {
		b := bg.bundle()
		if i%3 == 0 {
			addHub(b, g.R)
		}
		fs := b.sources()
		dataBy := map[string]string{}
		for _, f := range b.files {
			for _, t := range f.tmpls {
				dataBy[t.full()] = dataToJSON(bg.dataFor(t))
			}
		}
		note := fmt.Sprintf("bundle#%d seed=%d", i, g.Seed)
		nt := len(fs) >= 2
		for _, f := range fs {
			if strings.Contains(f.content, "{msg ") || strings.Contains(f.content, "': ") {
				nt = true
			}
		}
		jobs = append(jobs, job{fs, jsGlobalsFull(), dataBy, i % 2, note, "valid", nt})
		if i%5 == 0 && len(fs) >= 2 {
			// the file name is a label for error messages only: different sources may carry the same one
			same := append([]srcFile(nil), fs...)
			for k := range same {
				same[k].name = []string{"part.soy", "", "dir/x.soy"}[(i/5)%3]
			}
			jobs = append(jobs, job{same, jsGlobalsFull(), dataBy, 0, note + " +same-file-names", "valid-same-file-names", nt})
		}
		if g.R.Intn(6) == 0 {
			if m, ok := brokenFiles(g.R, fs); ok {
				jobs = append(jobs, job{m, jsGlobalsFull(), dataBy, 0, note + " +broken-files", "several-errors:broken-files", nt})
			}
		}
		// the same bundle with one injected error
		if g.R.Intn(2) == 0 {
			all := append(append([]injector(nil), injectors...), syntaxInj...)
			inj := all[g.R.Intn(len(all))]
			if m, ok := inj.f(g.R, fs); ok {
				jobs = append(jobs, job{m, jsGlobalsFull(), dataBy, 0, note + " +" + inj.name, map[bool]string{false: "one-error:", true: "several-errors:"}[inj.name == "unused-param"] + inj.name, nt})
			}
		}
	}
	// in-process observations, in parallel
	expects := make([]*detExpect, len(jobs))
	var wg sync.WaitGroup
	sem := make(chan struct{}, runtime.NumCPU())
	for i := range jobs {
		wg.Add(1)
		sem <- struct{}{}
		go func(i int) {
			defer wg.Done()
			defer func() { <-sem }()
			j := jobs[i]
			expects[i] = detCheck(j.fs, j.globals, j.dataBy, j.kind, j.note, strings.HasPrefix(j.class, "several-errors:"))
		}(i)
	}
	wg.Wait()
	for i, j := range jobs {
		dj, _ := json.Marshal(j.dataBy)
		r := req("c13obs", encSources(j.fs), sxGlobals(j.globals), hx(dj), itoa(j.kind))
		detMu.Lock()
		detByReq[r] = expects[i]
		detStats["bundles"]++
		k := 5
		if len(j.fs) >= 2 && len(j.fs) <= 4 {
			k += len(permutations(len(j.fs))) - 1
		}
		detStats["in_process_observations"] += k
		if strings.HasPrefix(expects[i].digest, hxs("accept")+"=") && !strings.Contains(expects[i].digest, ",") {
			detStats["rejected_bundles"]++
		}
		detMu.Unlock()
		g.Add(Case{Req: r, NT: j.nt, Class: j.class, Note: j.note, NoModel: true})
	}
}
