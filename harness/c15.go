package main

import (
	"github.com/robfig/soy/parse"
)

func init() {
	implOps["rawtext"] = func(f []string) string {
		s, ok := unhx(f[0])
		if !ok || len(f) != 3 {
			return "BADREQ"
		}
		return "OK " + hx(parse.VerifRawtext(string(s), f[1] == "1", f[2] == "1"))
	}
	register(&Prop{
		ID: "C15",
		Rule: "rawtext(s,trimBefore,trimAfter): all strings over {a,<,>,space,tab,CR,LF,é,0xFF} up to a length bound x 4 flag settings, " +
			"plus random longer strings incl. NUL; non-trivial = contains whitespace and non-whitespace; distinct by (s,flags)",
		Gen: genC15,
		KeyOf: func(c *Case, impl string) string { return "rawtext:" + c.Req },
	})
}

var c15Alphabet = [][]byte{{'a'}, {'<'}, {'>'}, {' '}, {'\t'}, {'\r'}, {'\n'}, {0xc3, 0xa9}, {0xff}}

func rawtextCase(s []byte, tb, ta bool) Case {
	ws, non := false, false
	for _, b := range s {
		if b == ' ' || b == '\t' || b == '\r' || b == '\n' {
			ws = true
		} else {
			non = true
		}
	}
	cl := "len" + itoa(len(s))
	if len(s) > 8 {
		cl = "len>8"
	}
	return Case{
		Req:     req("rawtext", hx(s), bit(tb), bit(ta)),
		SpecReq: req("spec-rawtext", hx(s), bit(tb), bit(ta)),
		NT:      ws && non,
		Class:   cl,
		Note:    "rawtext(" + quote(s) + "," + bit(tb) + "," + bit(ta) + ")",
	}
}

func genC15(g *G) {
	maxLen := g.N(4, 5)
	var rec func(prefix []byte, depth int)
	rec = func(prefix []byte, depth int) {
		for f := 0; f < 4; f++ {
			g.Add(rawtextCase(append([]byte(nil), prefix...), f&1 != 0, f&2 != 0))
		}
		if depth == maxLen {
			return
		}
		for _, a := range c15Alphabet {
			rec(append(prefix, a...), depth+1)
		}
	}
	rec(nil, 0)
	g.Exhaustive = false
	// random longer strings, wider alphabet (incl. NUL and other bytes)
	n := g.N(3000, 60000)
	for i := 0; i < n; i++ {
		l := 5 + g.R.Intn(40)
		var s []byte
		for j := 0; j < l; j++ {
			switch k := g.R.Intn(12); {
			case k < 9:
				s = append(s, c15Alphabet[k]...)
			case k == 9:
				s = append(s, 0)
			case k == 10:
				s = append(s, byte(g.R.Intn(256)))
			default:
				s = append(s, "http://x"...)
			}
		}
		g.Add(rawtextCase(s, g.R.Bool(), g.R.Bool()))
	}
	// every kind of rune as the neighbour of a joined line break: the rule looks at whole characters, so a rune whose
	// code point (or one of whose UTF-8 bytes) merely resembles '<', '>', NUL or a whitespace byte is an ordinary character.
	// quick: all runes below U+0800 and, above, those whose low byte is one of the special bytes plus every 97th;
	// thorough: every rune of the BMP and a sample of the astral planes.
	special := map[byte]bool{0: true, '<': true, '>': true, ' ': true, '\t': true, '\r': true, '\n': true, 0x85: true, 0xa0: true}
	for r := rune(0x80); r < 0x30000; r++ {
		if r >= 0xd800 && r < 0xe000 {
			continue
		}
		if r >= 0x10000 && r%251 != 0 {
			continue
		}
		if g.Tier != "thorough" && r >= 0x800 && !special[byte(r)] && r%97 != 0 {
			continue
		}
		e := []byte(string(r))
		g.Add(rawtextCase(append(append([]byte("a\n  "), e...), 'b'), false, false))
		g.Add(rawtextCase(append(append(append([]byte{}, e...), "\r\n"...), e...), r%2 == 0, r%3 == 0))
		g.Add(rawtextCase(append(append([]byte("x"), e...), " \n c"...), false, false))
	}
}
