package main

import (
	"strings"
)

// C15glue: the lexer / parser glue around rawtext — which text runs are cut where, which
// neighbours count as comments, that `//` begins a comment only after whitespace or at the
// start of input, that literal blocks and special-character commands emit exactly their
// characters.  Templates are built from pieces; the expected output is computed here from
// the line-joining rule (a Go transcription of Spec.joinLines, the rule proved equal to the
// rawtext model) applied per text run with "neighbour is a comment" as the trim flags.

func init() {
	register(&Prop{
		ID: "C15glue",
		Rule: "template bodies built from pieces {text over letters < > space tab CR LF é à 々, print tag, {sp} {nil} {lb} {rb} {\\n} {\\t}, {literal} block, /* */ comment, /** */ doc comment, ' // ' line comment, text containing // after a non-space} with no two text pieces adjacent; " +
			"rendered through the real compiler; oracle: output = concatenation of joinLines(text, prev-is-comment, next-is-comment) / tag output / literal characters; non-trivial = the body has a comment or a literal and a text run with a line break",
		Direct: directC15glue,
	})
}

func jlIsWs(b byte) bool { return b == ' ' || b == '\t' || b == '\r' || b == '\n' }

// joinLinesGo: Spec.joinLines (lean/SoyVerif/Spec/JoinLines.lean) transcribed.
func joinLinesGo(s string, tb, ta bool) string {
	type tok struct {
		ws   bool
		text string
	}
	var toks []tok
	for i := 0; i < len(s); {
		j := i
		w := jlIsWs(s[i])
		for j < len(s) && jlIsWs(s[j]) == w {
			j++
		}
		toks = append(toks, tok{w, s[i:j]})
		i = j
	}
	hasNL := func(w string) bool { return strings.ContainsAny(w, "\r\n") }
	tight := func(b byte) bool { return b == '<' || b == '>' }
	var out strings.Builder
	for i, t := range toks {
		if !t.ws {
			out.WriteString(t.text)
			continue
		}
		first, last := i == 0, i == len(toks)-1
		switch {
		case first && last:
			if !(hasNL(t.text) || tb || ta) {
				out.WriteString(t.text)
			}
		case first:
			if !(hasNL(t.text) || tb) {
				out.WriteString(t.text)
			}
		case last:
			if !(hasNL(t.text) || ta) {
				out.WriteString(t.text)
			}
		default:
			if !hasNL(t.text) {
				out.WriteString(t.text)
			} else {
				p := toks[i-1].text
				q := toks[i+1].text
				if !(tight(p[len(p)-1]) || tight(q[0])) {
					out.WriteByte(' ')
				}
			}
		}
	}
	return out.String()
}

type gluePiece struct {
	src     string
	out     string // for tags / literals
	kind    string // text | tag | comment
	comment bool
}

var glueTextAtoms = []string{"a", "b", "<", ">", " ", "  ", "\t", "\n", "\r\n", "\n  ", "\r", "\r  ", " \r", "é", "à", "々", "x y", "<b>", "</b>", "w", "http://x.y", "voilà//fin", "о", "м", "一", "\x00", "a\x00", "\x00b", "\u00a0", "\u3000", "\u2028", "\u0085", "\f", "\v", "\u00a0\n", "\u3000\n  ", "a//b", "//b", "//example.com/x.png", "//"}

func directC15glue(g *G, rep *Report) {
	n := g.N(2500, 60000)
	r := g.R.Fork()
	seen := map[string]bool{}
	for i := 0; i < n; i++ {
		np := 1 + r.Intn(6)
		var pieces []gluePiece
		lastText := false
		hasComment, hasNLText := false, false
		for k := 0; k < np; k++ {
			c := r.Intn(10)
			if lastText && c < 5 {
				c = 5 + r.Intn(5)
			}
			switch {
			case c < 5:
				var b strings.Builder
				m := 1 + r.Intn(5)
				for j := 0; j < m; j++ {
					b.WriteString(glueTextAtoms[r.Intn(len(glueTextAtoms))])
				}
				s := b.String()
				// "//" directly after whitespace (or at the very start of a run that follows a tag) would BE a comment; keep text pieces comment-free
				// … except glued directly onto the "*/" of a block comment or the "}" of a tag: the character before
				// the "//" is then not whitespace, so it is TEXT (http:/* host *///example.com)
				gluedOK := strings.HasPrefix(s, "//") && len(pieces) > 0 &&
					(pieces[len(pieces)-1].kind == "tag" || strings.HasSuffix(pieces[len(pieces)-1].src, "*/"))
				if strings.Contains(s, " //") || strings.Contains(s, "\t//") || strings.Contains(s, "\n//") || strings.Contains(s, "\r//") || (strings.HasPrefix(s, "//") && !gluedOK) || strings.Contains(s, "/*") {
					k--
					continue
				}
				if gluedOK {
					rep.Distribution["text-starting-with-//-after-comment-or-tag"]++
				}
				pieces = append(pieces, gluePiece{src: s, kind: "text"})
				lastText = true
				if strings.ContainsAny(s, "\r\n") {
					hasNLText = true
				}
				continue
			case c == 5:
				pieces = append(pieces, gluePiece{src: "{'U'}", out: "U", kind: "tag"})
			case c == 6:
				sc := [][2]string{{"{sp}", " "}, {"{nil}", ""}, {"{lb}", "{"}, {"{rb}", "}"}, {"{\\n}", "\n"}, {"{\\t}", "\t"}, {"{\\r}", "\r"}}[r.Intn(7)]
				pieces = append(pieces, gluePiece{src: sc[0], out: sc[1], kind: "tag"})
			case c == 7:
				lit := []string{" x  \n y ", "{$notatag}", "a // b\n/* c */", "<  >", "{{}}", "é\tà", "\n", " \n ", "\r\n", "  ", "\t\n\t", "\r", " ", ""}[r.Intn(14)]
				pieces = append(pieces, gluePiece{src: "{literal}" + lit + "{/literal}", out: lit, kind: "tag"})
			case c == 8:
				if r.Intn(4) == 0 {
					// a doc comment inside a body is its own token: it renders nothing and, unlike /* */, does not trim the text around it
					pieces = append(pieces, gluePiece{src: []string{"/** doc */", "/** @param x */", "/** multi\n * line\n */"}[r.Intn(3)], kind: "doc"})
					hasComment = true
					break
				}
				pieces = append(pieces, gluePiece{src: []string{"/* c */", "/* multi\n line */", "/* */", "/**/", "/*/ x */", "/* ** */"}[r.Intn(6)], kind: "comment", comment: true})
				hasComment = true
			default:
				// a line comment needs whitespace before it and runs through its newline
				pieces = append(pieces, gluePiece{src: []string{" // note\n", "\t// x // y\n", " //\n"}[r.Intn(3)], kind: "comment", comment: true})
				hasComment = true
			}
			lastText = false
		}
		// a line-comment piece begins with whitespace that the lexer attributes to the comment only if a
		// text run is pending or it follows a tag; after a text piece the lexer sees "<text> //": fine; it
		// is the text run's trailing whitespace rule that applies to what precedes.  To keep the expectation
		// exact, never put a line comment directly after a text piece that ends in whitespace.
		ok := true
		for k := 1; k < len(pieces); k++ {
			if pieces[k].comment && strings.HasPrefix(pieces[k].src, " ") || strings.HasPrefix(pieces[k].src, "\t") {
				p := pieces[k-1]
				if p.kind == "text" && jlIsWs(p.src[len(p.src)-1]) {
					ok = false
				}
			}
		}
		if !ok {
			continue
		}
		var body, want strings.Builder
		for k, p := range pieces {
			body.WriteString(p.src)
			switch p.kind {
			case "text":
				prevC := k > 0 && pieces[k-1].comment
				nextC := k+1 < len(pieces) && pieces[k+1].comment
				// the template body's own frame: "{template .t}\n" + body + "\n{/template}" puts a newline before the
				// first and after the last piece; fold them into the first / last text run
				s := p.src
				if k == 0 {
					s = "\n" + s
				}
				if k == len(pieces)-1 {
					s = s + "\n"
				}
				want.WriteString(joinLinesGo(s, prevC, nextC))
			case "tag":
				want.WriteString(p.out)
			}
		}
		src := "{namespace n}\n/** */\n{template .t}\n" + body.String() + "\n{/template}\n"
		if i%3 == 2 && !strings.Contains(body.String(), "$u") {
			// the same body after a header param declaration: the blank text BETWEEN header params is not part of the
			// body, whatever follows the last one is ("{@param u: ?}\n" + body: the frame's line break now stands here)
			// (the param must be used: a command that renders nothing, after the frame's closing line break)
			src = "{namespace n}\n{template .t}\n{@param u: ?}\n" + body.String() + "\n{if not $u}never{/if}{/template}\n"
			rep.Distribution["after-header-param"]++
		}
		if pieces[0].kind == "comment" && strings.HasPrefix(pieces[0].src, "/*") == false {
			// a leading line comment directly after the header newline: "\n // note\n": fine
		}
		reg, err := compileBundle([]srcFile{{"n.soy", src}})
		rep.Evaluations++
		if err != nil {
			rep.Distribution["compile-error"]++
			// the bodies are valid by construction (text, tags, literal blocks, comments): being rejected is a failure
			if len(rep.Violations) < 10 {
				rep.Violations = append(rep.Violations, Viol{Key: "glue:rejected", What: "a template body of text, print tags, special-character commands, literal blocks and comments does not compile: " + err.Error(),
					Req: req("c15glue", hxs(src)), Note: quote([]byte(body.String())), Impl: "ERR " + err.Error(), Want: "compiles"})
			}
			continue
		}
		out, class := renderSafe(reg, "n.t", toData(map[string]interface{}{"u": "U"}), nil)
		rep.Distribution["render:"+class]++
		if class != "OK" {
			// nothing in these bodies can fail at run time (the only print is {$u} or a literal): a comment or text that makes rendering fail contributed something
			if len(rep.Violations) < 10 {
				rep.Violations = append(rep.Violations, Viol{Key: "glue:render-fails", What: "a template body of text, print tags, special-character commands, literal blocks and comments compiles but does not render: " + out,
					Req: req("c15glue", hxs(src)), Note: quote([]byte(body.String())), Impl: class + " " + out, Want: quote([]byte(want.String()))})
			}
			continue
		}
		if out != want.String() {
			if len(rep.Violations) < 30 {
				rep.Violations = append(rep.Violations, Viol{Key: "glue:" + body.String(), What: "template text is not normalised by the line-joining rule (text runs cut at tags, neighbours that are comments trim)",
					Req: req("c15glue", hxs(src)), Note: quote([]byte(body.String())), Impl: quote([]byte(out)), Want: quote([]byte(want.String()))})
			}
			continue
		}
		if (hasComment || strings.Contains(body.String(), "{literal}")) && hasNLText && !seen[body.String()] {
			seen[body.String()] = true
			rep.DistinctNT++
		}
		if len(rep.Samples) < 4 && hasComment && hasNLText {
			rep.Samples = append(rep.Samples, quote([]byte(body.String()))+" => "+quote([]byte(out)))
		}
	}
}
