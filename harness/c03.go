package main

import (
	"regexp"
	"strings"
)

var cssExprRe = regexp.MustCompile(`\{css [^}]*,[^}]*\}`)

// C03render: bundle-level taint oracle.  In bundles without autoescape="false" and
// without cancelling directives, a data string carrying the marker T<&"'>T must never
// reach the output raw — whether it is printed directly, through let/param content
// blocks, inside msg placeholders or through calls (data="all", data="$m", params).

const taint = "T<&\"'>T"

func init() {
	register(&Prop{
		ID: "C03render",
		Rule: "generated bundles (calls, let/param content, msg placeholders, loops) with every autoescape attribute other than \"false\" and no cancelling directive; every string in the data (params, map members, $ij) is the marker T<&\"'>T; " +
			"oracle: the marker never appears raw in the output and appears escaped whenever it appears at all; non-trivial = the output contains the escaped marker",
		Direct: directC03,
	})
}

func taintData(bg *bundleGen, t *gTemplate) map[string]interface{} {
	d := map[string]interface{}{}
	for _, p := range t.params {
		switch p.t {
		case tStr:
			d[p.name] = taint
		case tMap:
			d[p.name] = map[string]interface{}{"a": int64(1), "b": taint, "s": taint}
		case tList:
			d[p.name] = []interface{}{int64(1), int64(2)}
		default:
			d[p.name] = bg.valueOf(p.t)
		}
	}
	if t.recursive {
		d["i"] = int64(bg.r.Intn(4))
	}
	return d
}

func directC03(g *G, rep *Report) {
	n := g.N(250, 5000)
	bg := newBundleGen(g.R.Fork(), bundleOpts{msgs: true, directives: false, calls: true})
	escaped := "T&lt;&amp;&#34;&#39;&gt;T"
	seen := map[string]bool{}
	for i := 0; i < n; i++ {
		b := bg.bundle()
		fs := b.sources()
		for k := range fs {
			fs[k].content = strings.ReplaceAll(fs[k].content, ` autoescape="false"`, "")
			// {css $expr, x} is not a print command (the property speaks of print commands): keep it out of the taint's way
			fs[k].content = cssExprRe.ReplaceAllString(fs[k].content, "{css x-y}")
		}
		reg, err := compileBundle(fs)
		if err != nil {
			rep.Distribution["compile-error"]++
			continue
		}
		for _, f := range b.files {
			for _, t := range f.tmpls {
				d := taintData(bg, t)
				out, class := renderSafe(reg, t.full(), toData(d), toData(map[string]interface{}{"s": taint, "n": int64(1)}))
				rep.Evaluations++
				rep.Distribution["render:"+class]++
				if class != "OK" {
					continue
				}
				if strings.Contains(out, "<&\"'>") {
					rep.Violations = append(rep.Violations, Viol{
						Key:  "taint-raw:" + t.source(),
						What: "a data string reached the HTML output unescaped in a template with autoescaping on and no cancelling directive",
						Req:  req("render", encSources(fs), hxs(t.full()), hxs(dataToJSON(d))), Note: t.full() + "\n" + fs[0].content,
						Impl: out, Want: "no raw T<&\"'>T in the output"})
				}
				if strings.Contains(out, escaped) {
					if !seen[out] {
						seen[out] = true
						rep.DistinctNT++
					}
					if len(rep.Samples) < 4 {
						rep.Samples = append(rep.Samples, t.full()+" => "+out)
					}
				}
			}
		}
	}
	rep.Extra["generator_stats"] = bg.stats
}
