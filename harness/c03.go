package main

import (
	"regexp"
	"strings"
)

var cssExprRe = regexp.MustCompile(`\{css [^}]*,[^}]*\}`)

// C03render: bundle-level taint oracle.  In bundles without autoescape="false" and
// without cancelling directives, a data string carrying the marker T<&"'>T must never
// reach the output raw — whether it is printed directly, through let/param content
// blocks, inside msg placeholders or through calls (data="all", data="$m", params).

const taint = "T<&\"'>T"

func init() {
	register(&Prop{
		ID: "C03render",
		Rule: "generated bundles (calls, let/param content, msg placeholders, loops) with every autoescape attribute other than \"false\" and no cancelling directive; every string in the data (params, map members, $ij) is the marker T<&\"'>T; " +
			"oracle: the marker never appears raw in the output and appears escaped whenever it appears at all; non-trivial = the output contains the escaped marker",
		Direct: directC03,
	})
}

func taintData(bg *bundleGen, t *gTemplate) map[string]interface{} {
	d := map[string]interface{}{}
	for _, p := range t.params {
		switch p.t {
		case tStr:
			d[p.name] = taint
		case tMap:
			d[p.name] = map[string]interface{}{"a": int64(1), "b": taint, "s": taint}
		case tList:
			d[p.name] = []interface{}{int64(1), int64(2)}
		default:
			d[p.name] = bg.valueOf(p.t)
		}
	}
	if t.recursive {
		d["i"] = int64(bg.r.Intn(4))
	}
	return d
}

func directC03(g *G, rep *Report) {
	n := g.N(250, 5000)
	bg := newBundleGen(g.R.Fork(), bundleOpts{msgs: true, directives: false, calls: true})
	escaped := "T&lt;&amp;&quot;&#39;&gt;T"
	seen := map[string]bool{}
	for i := 0; i < n; i++ {
		b := bg.bundle()
		fs := b.sources()
		for k := range fs {
			fs[k].content = strings.ReplaceAll(fs[k].content, ` autoescape="false"`, "")
			// {css $expr, x} is not a print command (the property speaks of print commands): keep it out of the taint's way
			fs[k].content = cssExprRe.ReplaceAllString(fs[k].content, "{css x-y}")
		}
		reg, err := compileBundle(fs)
		if err != nil {
			rep.Distribution["compile-error"]++
			continue
		}
		for _, f := range b.files {
			for _, t := range f.tmpls {
				d := taintData(bg, t)
				out, class := renderSafe(reg, t.full(), toData(d), toData(map[string]interface{}{"s": taint, "n": int64(1)}))
				rep.Evaluations++
				rep.Distribution["render:"+class]++
				if class != "OK" {
					continue
				}
				if strings.Contains(out, "<&\"'>") {
					rep.Violations = append(rep.Violations, Viol{
						Key:  "taint-raw:" + t.source(),
						What: "a data string reached the HTML output unescaped in a template with autoescaping on and no cancelling directive",
						Req:  req("render", encSources(fs), hxs(t.full()), hxs(dataToJSON(d))), Note: t.full() + "\n" + fs[0].content,
						Impl: out, Want: "no raw T<&\"'>T in the output"})
				}
				if strings.Contains(out, escaped) {
					if !seen[out] {
						seen[out] = true
						rep.DistinctNT++
					}
					if len(rep.Samples) < 4 {
						rep.Samples = append(rep.Samples, t.full()+" => "+out)
					}
				}
			}
		}
	}
	rep.Extra["generator_stats"] = bg.stats
	directC03Modes(g, rep)
}

// directC03Modes: the effective autoescape mode is re-derived for every callee from ITS namespace and
// template attributes (namespace default, template override; unspecified = on), never inherited from the
// caller.  Exhaustive over namespace attr x template attr for a chain of three templates in three files,
// for the three ways of passing data; the expected output is computed here.
func directC03Modes(g *G, rep *Report) {
	nsAttrs := []string{"", "true", "false", "contextual"}
	tAttrs := []string{"", "true", "false"}
	attr := func(a string) string {
		if a == "" {
			return ""
		}
		return ` autoescape="` + a + `"`
	}
	eff := func(ns, t string) bool { // escaping on?
		m := ns
		if t != "" {
			m = t
		}
		return m != "false"
	}
	esc := "T&lt;&amp;&quot;&#39;&gt;T"
	show := func(on bool) string {
		if on {
			return esc
		}
		return taint
	}
	callForms := []string{"all", "param", "map"}
	count := 0
	for _, n0 := range nsAttrs {
		for _, t0 := range tAttrs {
			for _, n1 := range nsAttrs {
				for _, t1 := range tAttrs {
					for _, n2 := range nsAttrs {
						for _, t2 := range tAttrs {
							count++
							if g.Quick() && count%5 != int(g.Seed%5) {
								continue
							}
							form := callForms[count%3]
							call := func(target string) string {
								switch form {
								case "all":
									return "{call " + target + ` data="all"/}`
								case "param":
									return "{call " + target + "}{param p: $p/}{param m: $m/}{/call}"
								}
								return "{call " + target + ` data="$m"/}`
							}
							mk := func(ns, nsa, ta, body string) srcFile {
								return srcFile{ns + ".soy", "{namespace " + ns + attr(nsa) + "}\n/**\n * @param p\n * @param m\n */\n{template .t" + attr(ta) + "}\n" + body + "\n{/template}\n"}
							}
							fs := []srcFile{
								mk("n0", n0, t0, "0({$p}{$m.p})"+call("n1.t")),
								mk("n1", n1, t1, "1[{$p}{let $c}{$m.p}{/let}{$c|noAutoescape}]"+call("n2.t")),
								mk("n2", n2, t2, "2<{$p}{msg desc=\"d\"}x{$m.p}y{/msg}>"),
							}
							reg, err := compileBundle(fs)
							rep.Evaluations++
							if err != nil {
								rep.Distribution["modes:compile-error"]++
								continue
							}
							leaf := map[string]interface{}{"p": taint, "m": map[string]interface{}{"p": taint}}
							d := toData(map[string]interface{}{"p": taint, "m": map[string]interface{}{"p": taint, "m": map[string]interface{}{"p": taint, "m": leaf}}})
							out, class := renderSafe(reg, "n0.t", d, nil)
							rep.Distribution["modes:"+class]++
							e0, e1, e2 := eff(n0, t0), eff(n1, t1), eff(n2, t2)
							want := "0(" + show(e0) + show(e0) + ")1[" + show(e1) + show(e1) + "]2<" + show(e2) + "x" + show(e2) + "y>"
							if class != "OK" || out != want {
								rep.Violations = append(rep.Violations, Viol{
									Key:  "effective-mode:" + n0 + "/" + t0 + ">" + n1 + "/" + t1 + ">" + n2 + "/" + t2 + ":" + form,
									What: "the autoescape mode in force in a called template is not the one its own namespace/template attributes define",
									Req:  req("render", encSources(fs), hxs("n0.t")), Note: "ns/template attrs " + n0 + "/" + t0 + " -> " + n1 + "/" + t1 + " -> " + n2 + "/" + t2 + " call form " + form,
									Impl: class + " " + out, Want: want})
							} else if e0 != e1 || e1 != e2 {
								rep.DistinctNT++
							}
						}
					}
				}
			}
		}
	}
}
