package main

import (
	"bytes"
	"regexp"
	"strconv"
	"strings"

	"github.com/robfig/soy/soyhtml"
	"github.com/robfig/soy/soymsg"
	"github.com/robfig/soy/template"
)

var cssExprRe = regexp.MustCompile(`\{css [^}]*,[^}]*\}`)

// C03render: bundle-level taint oracle.  In bundles without autoescape="false" and
// without cancelling directives, a data string carrying the marker T<&"'>T must never
// reach the output raw — whether it is printed directly, through let/param content
// blocks, inside msg placeholders or through calls (data="all", data="$m", params).

const taint = "T<&\"'>T"

func init() {
	register(&Prop{
		ID: "C03render",
		Rule: "generated bundles (calls, let/param content, msg placeholders, loops) with every autoescape attribute other than \"false\" and no cancelling directive; every string in the data (params, map members, $ij) is the marker T<&\"'>T; " +
			"oracle: the marker never appears raw in the output and appears escaped whenever it appears at all; non-trivial = the output contains the escaped marker",
		Direct: directC03,
	})
}

func taintData(bg *bundleGen, t *gTemplate) map[string]interface{} {
	d := map[string]interface{}{}
	for _, p := range t.params {
		switch p.t {
		case tStr:
			d[p.name] = taint
		case tMap:
			d[p.name] = map[string]interface{}{"a": int64(1), "b": taint, "s": taint}
		case tList:
			d[p.name] = []interface{}{int64(1), int64(2)}
		default:
			d[p.name] = bg.valueOf(p.t)
		}
	}
	if t.recursive {
		d["i"] = int64(bg.r.Intn(4))
	}
	return d
}

func directC03(g *G, rep *Report) {
	n := g.N(250, 5000)
	bg := newBundleGen(g.R.Fork(), bundleOpts{msgs: true, directives: false, calls: true})
	escaped := "T&lt;&amp;&quot;&#39;&gt;T"
	seen := map[string]bool{}
	for i := 0; i < n; i++ {
		b := bg.bundle()
		fs := b.sources()
		for k := range fs {
			fs[k].content = strings.ReplaceAll(fs[k].content, ` autoescape="false"`, "")
			// {css $expr, x} is not a print command (the property speaks of print commands): keep it out of the taint's way
			fs[k].content = cssExprRe.ReplaceAllString(fs[k].content, "{css x-y}")
		}
		reg, err := compileBundle(fs)
		if err != nil {
			rep.Distribution["compile-error"]++
			continue
		}
		for _, f := range b.files {
			for _, t := range f.tmpls {
				d := taintData(bg, t)
				out, class := renderSafe(reg, t.full(), toData(d), toData(map[string]interface{}{"s": taint, "n": int64(1)}))
				rep.Evaluations++
				rep.Distribution["render:"+class]++
				if class != "OK" {
					continue
				}
				if strings.Contains(out, "<&\"'>") {
					rep.Violations = append(rep.Violations, Viol{
						Key:  "taint-raw:" + t.source(),
						What: "a data string reached the HTML output unescaped in a template with autoescaping on and no cancelling directive",
						Req:  req("render", encSources(fs), hxs(t.full()), hxs(dataToJSON(d))), Note: t.full() + "\n" + fs[0].content,
						Impl: out, Want: "no raw T<&\"'>T in the output"})
				}
				if strings.Contains(out, escaped) {
					if !seen[out] {
						seen[out] = true
						rep.DistinctNT++
					}
					if len(rep.Samples) < 4 {
						rep.Samples = append(rep.Samples, t.full()+" => "+out)
					}
				}
			}
		}
	}
	rep.Extra["generator_stats"] = bg.stats
	directC03Modes(g, rep)
}

// directC03Modes: the effective autoescape mode is re-derived for every callee from ITS namespace and
// template attributes (namespace default, template override; unspecified = on), never inherited from the
// caller.  Exhaustive over namespace attr x template attr for a chain of three templates in three files,
// for the three ways of passing data; the expected output is computed here.
// directC03Msg: prints inside a {msg} are placeholders; with a translation bundle the renderer finds the print to
// execute BY PLACEHOLDER NAME.  The same expression printed with and without a cancelling directive must stay two
// different placeholders: each is escaped iff its own directives say so, without a bundle, under the identity
// translation and under a translation that reverses the order of the parts.
func directC03Msg(g *G, rep *Report) {
	esc := "T&lt;&amp;&quot;&#39;&gt;T"
	type pr struct {
		src string
		raw bool
	}
	prints := []pr{{"{$p|noAutoescape}", true}, {"{$p}", false}, {"{$p|id}", true}, {"{$p|escapeHtml}", false}, {"{$m.p}", false}, {"{$m.p|noAutoescape}", true}, {"{$p|truncate:50}", false}, {"{$p|truncate:50|noAutoescape}", true}}
	r := g.R.Fork()
	n := g.N(120, 2000)
	for i := 0; i < n; i++ {
		k := 2 + r.Intn(4)
		var body strings.Builder
		var pieces []string // expected text of each part, in source order
		for j := 0; j < k; j++ {
			lit := string(rune('A' + j))
			body.WriteString(lit)
			pieces = append(pieces, lit)
			p := prints[r.Intn(len(prints))]
			if j == 1 && i%2 == 0 {
				p = prints[(i/2)%2] // the pair {$p|noAutoescape} / {$p} in both orders
			}
			if j == 2 && i%2 == 0 {
				p = prints[1-(i/2)%2]
			}
			body.WriteString(p.src)
			if p.raw {
				pieces = append(pieces, taint)
			} else {
				pieces = append(pieces, esc)
			}
		}
		src := "{namespace mm}\n/**\n * @param p\n * @param m\n */\n{template .t}\n{msg desc=\"d\"}" + body.String() + "{/msg}{if false}{$p}{$m}{/if}\n{/template}\n"
		reg, err := compileBundle([]srcFile{{"mm.soy", src}})
		if err != nil {
			rep.Distribution["msg-placeholders:compile-error"]++
			continue
		}
		d := toData(map[string]interface{}{"p": taint, "m": map[string]interface{}{"p": taint}})
		for kind := -1; kind <= 1; kind++ {
			want := strings.Join(pieces, "")
			if kind == 1 {
				rev := make([]string, len(pieces))
				for a := range pieces {
					rev[len(pieces)-1-a] = pieces[a]
				}
				want = strings.Join(rev, "")
			}
			var buf bytes.Buffer
			var rerr error
			cls := safely(func() error {
				rd := soyhtml.NewTofu(reg).NewRenderer("mm.t")
				if kind >= 0 {
					rd = rd.WithMessages(translationsAllKind(reg, kind))
				}
				rerr = rd.Execute(&buf, d)
				return rerr
			})
			rep.Evaluations++
			rep.Distribution["msg-placeholders:"+cls]++
			if cls != "OK" || buf.String() != want {
				if len(rep.Violations) < 30 {
					rep.Violations = append(rep.Violations, Viol{Key: "msg-placeholder-escaping:kind" + strconv.Itoa(kind), What: "a print inside a {msg} is not escaped according to its own directives (bundle kind " + strconv.Itoa(kind) + ": -1 none, 0 identity, 1 reversed)",
						Req: req("render", encSources([]srcFile{{"mm.soy", src}}), hxs("mm.t")), Note: body.String(), Impl: cls + " " + buf.String(), Want: want})
				}
			} else {
				rep.DistinctNT++
			}
		}
	}
}

// translationsAllKind: every message translated — kind 0 by itself, kind 1 with its parts in reverse order.
func translationsAllKind(reg *template.Registry, kind int) *jsMemBundle {
	b := &jsMemBundle{msgs: map[uint64]*soymsg.Message{}}
	for _, m := range allMsgNodes(reg) {
		parts := identityParts(m.Body.Children())
		if kind == 1 {
			parts = reverseParts(parts)
		}
		b.msgs[m.ID] = &soymsg.Message{ID: m.ID, Parts: parts}
	}
	return b
}

func directC03Modes(g *G, rep *Report) {
	directC03Msg(g, rep)
	directC03SharedNs(g, rep)
	directC03Nested(g, rep)
	// "deprecated-contextual" is the older spelling of "contextual": an attribute like any other, so it overrides a
	// namespace's "false" (seeded C03-19: it was turned into "unspecified")
	nsAttrs := []string{"", "true", "false", "contextual", "deprecated-contextual"}
	tAttrs := []string{"", "true", "false", "contextual", "deprecated-contextual"}
	attr := func(a string) string {
		if a == "" {
			return ""
		}
		return ` autoescape="` + a + `"`
	}
	eff := func(ns, t string) bool { // escaping on?
		m := ns
		if t != "" {
			m = t
		}
		return m != "false"
	}
	esc := "T&lt;&amp;&quot;&#39;&gt;T"
	show := func(on bool) string {
		if on {
			return esc
		}
		return taint
	}
	callForms := []string{"all", "param", "map"}
	count := 0
	for _, n0 := range nsAttrs {
		for _, t0 := range tAttrs {
			for _, n1 := range nsAttrs {
				for _, t1 := range tAttrs {
					for _, n2 := range nsAttrs {
						for _, t2 := range tAttrs {
							count++
							if g.Quick() && count%5 != int(g.Seed%5) {
								continue
							}
							form := callForms[count%3]
							call := func(target string) string {
								switch form {
								case "all":
									return "{call " + target + ` data="all"/}`
								case "param":
									return "{call " + target + "}{param p: $p/}{param m: $m/}{/call}"
								}
								return "{call " + target + ` data="$m"/}`
							}
							mk := func(ns, nsa, ta, body string) srcFile {
								return srcFile{ns + ".soy", "{namespace " + ns + attr(nsa) + "}\n/**\n * @param p\n * @param m\n */\n{template .t" + attr(ta) + "}\n" + body + "\n{/template}\n"}
							}
							fs := []srcFile{
								mk("n0", n0, t0, "0({$p}{$m.p})"+call("n1.t")+"0'({$p}{let $c}{$m.p}{/let}{$c})"),
								mk("n1", n1, t1, "1[{$p}{let $c}{$m.p}{/let}{$c|noAutoescape}]"+call("n2.t")+"1'[{$p}{msg desc=\"e\"}z{$m.p}{/msg}]"),
								mk("n2", n2, t2, "2<{$p}{msg desc=\"d\"}x{$m.p}y{/msg}>"),
							}
							reg, err := compileBundle(fs)
							rep.Evaluations++
							if err != nil {
								rep.Distribution["modes:compile-error"]++
								continue
							}
							leaf := map[string]interface{}{"p": taint, "m": map[string]interface{}{"p": taint}}
							d := toData(map[string]interface{}{"p": taint, "m": map[string]interface{}{"p": taint, "m": map[string]interface{}{"p": taint, "m": leaf}}})
							out, class := renderSafe(reg, "n0.t", d, nil)
							rep.Distribution["modes:"+class]++
							e0, e1, e2 := eff(n0, t0), eff(n1, t1), eff(n2, t2)
							// after a call returns, the caller's own mode is in force again (content blocks of an escaping template escape twice)
							twice := show(e0)
							if e0 {
								twice = strings.Replace(esc, "&", "&amp;", -1)
							}
							want := "0(" + show(e0) + show(e0) + ")1[" + show(e1) + show(e1) + "]2<" + show(e2) + "x" + show(e2) + "y>" + "1'[" + show(e1) + "z" + show(e1) + "]0'(" + show(e0) + twice + ")"
							if class != "OK" || out != want {
								rep.Violations = append(rep.Violations, Viol{
									Key:  "effective-mode:" + n0 + "/" + t0 + ">" + n1 + "/" + t1 + ">" + n2 + "/" + t2 + ":" + form,
									What: "the autoescape mode in force in a called template is not the one its own namespace/template attributes define",
									Req:  req("render", encSources(fs), hxs("n0.t")), Note: "ns/template attrs " + n0 + "/" + t0 + " -> " + n1 + "/" + t1 + " -> " + n2 + "/" + t2 + " call form " + form,
									Impl: class + " " + out, Want: want})
							} else if e0 != e1 || e1 != e2 {
								rep.DistinctNT++
							}
						}
					}
				}
			}
		}
	}
}

// directC03Nested: a {template} tag (or a {namespace} tag) written INSIDE a template body must not be able to
// switch escaping off for the template around it: either the compiler rejects it, or the prints after it are
// still escaped according to the enclosing template's own mode.
func directC03Nested(g *G, rep *Report) {
	esc := "T&lt;&amp;&quot;&#39;&gt;T"
	inner := []string{"{template .inner autoescape=\"false\"}{/template}", "{template .inner autoescape=\"false\"}x{/template}",
		"{log}{template .inner autoescape=\"false\"}{/template}{/log}", "{let $q}{template .inner autoescape=\"false\"}{/template}{/let}",
		"{if true}{template .inner autoescape=\"false\"}{/template}{/if}", "{msg desc=\"d\"}m{template .inner autoescape=\"false\"}{/template}{/msg}", "{namespace other autoescape=\"false\"}"}
	for _, in := range inner {
		src := "{namespace n}\n/** @param p */\n{template .t}\nA({$p})" + in + "B({$p})\n{/template}\n"
		fs := []srcFile{{"n.soy", src}}
		reg, err := compileBundle(fs)
		rep.Evaluations++
		if err != nil {
			rep.Distribution["nested:rejected"]++
			rep.DistinctNT++
			continue
		}
		out, cls := renderSafe(reg, "n.t", toData(map[string]interface{}{"p": taint}), nil)
		rep.Distribution["nested:accepted"]++
		if cls == "OK" && strings.Contains(out, taint) {
			rep.Violations = append(rep.Violations, Viol{Key: "nested-template-switches-escaping-off", What: "a {template autoescape=\"false\"} tag inside the body of a template whose mode is on makes the prints after it raw",
				Req: req("render", encSources(fs), hxs("n.t")), Note: in, Impl: cls + " " + out, Want: "A(" + esc + ")…B(" + esc + ") or a compile error"})
		}
	}
}

// directC03SharedNs: one namespace spread over two files whose {namespace} tags carry DIFFERENT autoescape
// attributes: each template is escaped according to the tag of the file it stands in (and its own attribute),
// whichever file was added first, rendered directly and as the other file's callee.
func directC03SharedNs(g *G, rep *Report) {
	attrs := []string{"", "true", "false", "contextual"}
	attr := func(a string) string {
		if a == "" {
			return ""
		}
		return " autoescape=\"" + a + "\""
	}
	esc := "T&lt;&amp;&quot;&#39;&gt;T"
	show := func(a string) string {
		if a == "false" {
			return taint
		}
		return esc
	}
	for _, a := range attrs {
		for _, b := range attrs {
			for _, tb := range []string{"", "true", "false"} {
				for order := 0; order < 2; order++ {
					fa := srcFile{"sh_a.soy", "{namespace sh" + attr(a) + "}\n/** @param p */\n{template .a}\nA({$p}){call .b data=\"all\"/}A'({$p})\n{/template}\n"}
					fb := srcFile{"sh_b.soy", "{namespace sh" + attr(b) + "}\n/** @param p */\n{template .b" + attr(tb) + "}\nB[{$p}]\n{/template}\n"}
					fs := []srcFile{fa, fb}
					if order == 1 {
						fs = []srcFile{fb, fa}
					}
					reg, err := compileBundle(fs)
					rep.Evaluations++
					if err != nil {
						rep.Distribution["shared-ns:compile-error"]++
						continue
					}
					effB := b
					if tb != "" {
						effB = tb
					}
					d := toData(map[string]interface{}{"p": taint})
					outA, classA := renderSafe(reg, "sh.a", d, nil)
					outB, classB := renderSafe(reg, "sh.b", d, nil)
					wantB := "B[" + show(effB) + "]"
					wantA := "A(" + show(a) + ")" + wantB + "A'(" + show(a) + ")"
					if classA != "OK" || classB != "OK" || outA != wantA || outB != wantB {
						rep.Violations = append(rep.Violations, Viol{
							Key:  "shared-namespace-mode:" + a + "+" + b + "/" + tb + ":order" + strconv.Itoa(order),
							What: "two files share the namespace sh with different autoescape attributes: a template is not escaped according to the {namespace} tag of its own file",
							Req:  req("render", encSources(fs), hxs("sh.a")), Note: "file a: " + a + ", file b: " + b + ", template b: " + tb + ", insertion order " + strconv.Itoa(order),
							Impl: classA + " " + outA + " | " + classB + " " + outB, Want: wantA + " | " + wantB})
					} else if a != effB {
						rep.DistinctNT++
					}
				}
			}
		}
	}
}
