package main

import (
	"fmt"

	"bytes"
	soy "github.com/robfig/soy"
	"regexp"
	"strings"
	"sync"
	"time"

	"github.com/robfig/soy/ast"
	"github.com/robfig/soy/data"
	"github.com/robfig/soy/parsepasses"
	"github.com/robfig/soy/soyhtml"
	"github.com/robfig/soy/template"
)

// ---- bundle sources on the wire: name:content pairs, hex, comma separated ----

type srcFile struct{ name, content string }

func encSources(fs []srcFile) string {
	var parts []string
	for _, f := range fs {
		parts = append(parts, hxs(f.name)+":"+hxs(f.content))
	}
	if len(parts) == 0 {
		return "-"
	}
	return strings.Join(parts, ",")
}

func decSources(s string) []srcFile {
	if s == "-" {
		return nil
	}
	var out []srcFile
	for _, p := range strings.Split(s, ",") {
		kv := strings.SplitN(p, ":", 2)
		n, _ := unhx(kv[0])
		c, _ := unhx(kv[1])
		out = append(out, srcFile{string(n), string(c)})
	}
	return out
}

func (b *gBundle) sources() []srcFile {
	var out []srcFile
	for _, f := range b.files {
		out = append(out, srcFile{f.name, f.source()})
	}
	return out
}

// parseFilesWire parses the sources with the real parser and renders the trees for the model.
func parseFilesWire(fs []srcFile) (string, []*ast.SoyFileNode, error) {
	parts := []string{"files"}
	var nodes []*ast.SoyFileNode
	for _, f := range fs {
		n, err := soyFileSafe(f.name, f.content)
		if err != nil {
			return "", nil, err
		}
		nodes = append(nodes, n)
		parts = append(parts, sxFile(n))
	}
	return sx(parts...), nodes, nil
}

// compileCheck = the part of Bundle.Compile up to and including CheckDataRefs.
func compileCheck(fs []srcFile) (*template.Registry, error) {
	var registry = template.Registry{}
	for _, f := range fs {
		tree, err := soyFileSafe(f.name, f.content)
		if err != nil {
			return nil, err
		}
		if err = registry.Add(tree); err != nil {
			return nil, err
		}
	}
	if err := parsepasses.CheckDataRefs(registry); err != nil {
		return nil, err
	}
	return &registry, nil
}

var unboundMu sync.Mutex

func init() {
	implOps["check"] = func(f []string) string {
		if _, err := compileCheck(decSources(f[0])); err != nil {
			return "ERR"
		}
		return "OK"
	}
	register(&Prop{
		ID: "C07",
		Rule: "generated bundles (1-3 files/namespaces, soydoc or header params, optional params, nested if/switch/foreach/for/let/call/msg, reused names so that shadowing is frequent) valid by construction, " +
			"and the same bundles with ONE rule violation injected (11 kinds, random applicable site); oracle: valid => accepted, injected => rejected, accepted+rendered with declared params => no unbound lookup; " +
			"tie: model checker on the real parser's trees = CheckDataRefs; non-trivial = bundle has a let, a loop or a call",
		Gen: genC07,
		Oracle: func(c *Case, impl string) *Viol {
			switch {
			case c.Class == "valid" && impl != "OK":
				return &Viol{Key: "reject-valid:" + c.Note, What: "a bundle satisfying the data-reference rules is rejected", Want: "OK"}
			case strings.HasPrefix(c.Class, "inject:") && impl != "ERR":
				return &Viol{Key: "accept-" + c.Class + ":" + c.Note, What: "a bundle violating rule '" + c.Class[7:] + "' is accepted", Want: "ERR"}
			}
			return nil
		},
		Direct: directC07,
	})
}

// injectors: each takes the bundle sources and returns mutated sources (ok=false if no applicable site).
type injector struct {
	name string
	f    func(r *RNG, fs []srcFile) ([]srcFile, bool)
}

// bodySite inserts `snip` at the start or the end of a random template body.
func bodySite(r *RNG, fs []srcFile, snip string) ([]srcFile, bool) {
	out := append([]srcFile(nil), fs...)
	fi := r.Intn(len(out))
	c := out[fi].content
	var sites []int
	for i := 0; ; {
		k := strings.Index(c[i:], "\n{/template}")
		if k < 0 {
			break
		}
		sites = append(sites, i+k)
		i += k + 1
	}
	if len(sites) == 0 {
		return nil, false
	}
	at := sites[r.Intn(len(sites))]
	out[fi].content = c[:at] + snip + c[at:]
	return out, true
}

func replaceFirstFrom(r *RNG, fs []srcFile, old, new string) ([]srcFile, bool) {
	out := append([]srcFile(nil), fs...)
	start := r.Intn(len(out))
	for k := 0; k < len(out); k++ {
		fi := (start + k) % len(out)
		c := out[fi].content
		idx := allIndex(c, old)
		if len(idx) > 0 {
			at := idx[r.Intn(len(idx))]
			out[fi].content = c[:at] + new + c[at+len(old):]
			return out, true
		}
	}
	return nil, false
}

func allIndex(s, sub string) []int {
	var out []int
	for i := 0; ; {
		k := strings.Index(s[i:], sub)
		if k < 0 {
			return out
		}
		out = append(out, i+k)
		i += k + 1
	}
}

var paramDeclRe = regexp.MustCompile(`@param\??\s+([A-Za-z_][A-Za-z0-9_]*)`)

func containsStr(xs []string, x string) bool {
	for _, y := range xs {
		if y == x {
			return true
		}
	}
	return false
}

var (
	callWithDataSelfClosing = regexp.MustCompile(`(\{call [a-zA-Z0-9_.]+ data="[^"]*")( ?/\})`)
	callWithDataOpen        = regexp.MustCompile(`\{call [a-zA-Z0-9_.]+ data="[^"]*"\}`)
)

var injectors = []injector{
	{"undeclared-name", func(r *RNG, fs []srcFile) ([]srcFile, bool) {
		// in every syntactic position that takes an expression
		sn := []string{"{$zz}", "{switch 1}{case 1, $zz}x{/switch}", "{switch $zz}{case 1}x{/switch}", "{if $zz}x{/if}", "{if false}x{elseif $zz}y{/if}",
			"{foreach $zq in $zz}{$zq}{/foreach}", "{for $zq in range($zz)}{$zq}{/for}", "{print 1|truncate:$zz}", "{let $zq: $zz/}{$zq}", "{css $zz, a}",
			"{msg desc=\"d\"}{$zz}{/msg}", "{msg desc=\"d\"}{plural $zz}{case 1}a{default}b{/plural}{/msg}", "{1 ?: $zz}", "{true ? 1 : $zz}", "{length([$zz])}", "{['k': $zz]}",
			"{$ij.a[$zz]}", "{$ij?.a?[$zz]}", "{not $zz}", "{-$zz}", "{log}{$zz}{/log}", "{let $zq}{$zz}{/let}{$zq}"}
		return bodySite(r, fs, sn[r.Intn(len(sn))])
	}},
	{"use-after-block", func(r *RNG, fs []srcFile) ([]srcFile, bool) {
		return bodySite(r, fs, []string{"{if true}{let $zq: 1/}{$zq}{/if}{$zq}", "{let $zc}{let $zq: 1/}{$zq}{/let}{$zc}{$zq}", "{switch 1}{case 1}{let $zq: 1/}{$zq}{/switch}{$zq}",
			// the let is the ONLY thing in its block
			"{log}{let $zq: 1/}{/log}{$zq}", "{let $zc}{let $zq: 1/}{/let}{$zc}{$zq}", "{msg desc=\"d\"}{let $zq: 1/}{/msg}{$zq}", "{if true}{let $zq: 1/}{/if}{$zq}", "{foreach $zi in [1]}{let $zq: $zi/}{/foreach}{$zq}"}[r.Intn(8)])
	}},
	{"use-before-definition", func(r *RNG, fs []srcFile) ([]srcFile, bool) {
		return bodySite(r, fs, []string{"{$zq}{let $zq: 1/}{$zq}", "{let $zq: $zq/}{$zq}", "{let $zq}{$zq}{/let}{$zq}"}[r.Intn(3)])
	}},
	{"loop-var-outside-loop", func(r *RNG, fs []srcFile) ([]srcFile, bool) {
		return bodySite(r, fs, []string{"{foreach $zq in [1]}{$zq}{/foreach}{$zq}", "{foreach $zq in $zq}{$zq}{/foreach}", "{foreach $zq in [1]}{$zq}{ifempty}{$zq}{/foreach}", "{for $zq in range(2)}x{/for}{$zq}"}[r.Intn(4)])
	}},
	// index / isFirst / isLast speak about the variable of an enclosing loop: of a let, of a loop variable whose loop
	// has ended, or of anything that is not a plain variable, the renderer has no index to look up (it would look up
	// a name that nothing binds)
	{"loop-function-off-loop", func(r *RNG, fs []srcFile) ([]srcFile, bool) {
		sn := []string{"{let $zq: 1/}{index($zq)}", "{let $zq}x{/let}{if isFirst($zq)}f{/if}", "{foreach $zq in [1]}{$zq}{/foreach}{let $zq: 2/}{isLast($zq)}",
			"{foreach $zq in [[1]]}{index($zq[0])}{/foreach}", "{foreach $zq in [1]}{index($zq, 1)}{/foreach}", "{foreach $zq in [1]}{$zq}{index()}{/foreach}", "{foreach $zq in [1]}{$zq}{isFirst('zq')}{/foreach}",
			"{foreach $zq in [1]}{$zq}{ifempty}{let $zq: 0/}{isLast($zq)}{/foreach}"}
		return bodySite(r, fs, sn[r.Intn(len(sn))])
	}},
	// a command outside every template is never checked nor rendered: whatever rule it breaks would go unnoticed
	{"command-outside-template", func(r *RNG, fs []srcFile) ([]srcFile, bool) {
		sn := []string{"{$zzz}", "{if $zzz}x{/if}", "{call .doesNotExist /}", "{let $ij: 1 /}", "{let $unused: 1 /}", "{foreach $i in [1]}x{/foreach}{$i}", "{msg desc=\"d\"}{$zzz}{/msg}", "{css $zzz, a}"}
		out := append([]srcFile(nil), fs...)
		k := r.Intn(len(out))
		c := out[k].content
		snip := sn[r.Intn(len(sn))] + "\n"
		if r.Bool() {
			out[k].content = c + snip
		} else if i := strings.Index(c, "{/template}\n"); i >= 0 {
			out[k].content = c[:i+len("{/template}\n")] + snip + c[i+len("{/template}\n"):]
		} else {
			return nil, false
		}
		return out, true
	}},
	{"unused-param", func(r *RNG, fs []srcFile) ([]srcFile, bool) {
		if r.Bool() {
			return replaceFirstFrom(r, fs, "/**\n", "/**\n * @param zz\n")
		}
		return replaceFirstFrom(r, fs, "{@param ", "{@param zz: ?}\n{@param ")
	}},
	// an unused param whose NAME is declared and used by an EARLIER template of the bundle (state kept by the
	// checker from one template to the next must not make it look used)
	{"unused-param-used-elsewhere", func(r *RNG, fs []srcFile) ([]srcFile, bool) {
		out := append([]srcFile(nil), fs...)
		var seen []string // param names of the templates before the current one, in registry order
		for fi := range out {
			chunks := strings.SplitAfter(out[fi].content, "{/template}\n")
			for ci, ch := range chunks {
				if !strings.Contains(ch, "{template ") {
					continue
				}
				if strings.Contains(ch, "data=\"all\"") {
					// a call with data="all" hands every param on: the checker rightly counts them all as used
					for _, m := range paramDeclRe.FindAllStringSubmatch(ch, -1) {
						seen = append(seen, m[1])
					}
					continue
				}
				var mine []string
				for _, m := range paramDeclRe.FindAllStringSubmatch(ch, -1) {
					mine = append(mine, m[1])
				}
				var cand []string
				for _, n := range seen {
					if !containsStr(mine, n) && !strings.Contains(ch, "$"+n) {
						cand = append(cand, n)
					}
				}
				if len(cand) > 0 && r.Intn(2) == 0 {
					n := cand[r.Intn(len(cand))]
					switch {
					case strings.Contains(ch, "{@param"):
						ch = strings.Replace(ch, "{@param", "{@param? "+n+": ?}\n{@param", 1)
					case strings.Contains(ch, "/**\n"):
						ch = strings.Replace(ch, "/**\n", "/**\n * @param? "+n+"\n", 1)
					default:
						continue
					}
					chunks[ci] = ch
					out[fi].content = strings.Join(chunks, "")
					return out, true
				}
				seen = append(seen, mine...)
			}
		}
		return nil, false
	}},
	{"unused-let", func(r *RNG, fs []srcFile) ([]srcFile, bool) {
		return bodySite(r, fs, []string{"{let $zq: 1/}", "{let $zq}x{/let}", "{if true}{let $zq: 1/}{/if}", "{let $zq: 1/}{foreach $zq in [1]}{$zq}{/foreach}", "{log}{let $zq: 1/}{/log}", "{let $zc}{let $zq: 1/}{/let}{$zc}", "{msg desc=\"d\"}{let $zq: 1/}{/msg}"}[r.Intn(7)])
	}},
	{"let-named-ij", func(r *RNG, fs []srcFile) ([]srcFile, bool) {
		return bodySite(r, fs, []string{"{let $ij: 1/}{$ij}", "{let $ij}x{/let}{$ij}"}[r.Intn(2)])
	}},
	{"undeclared-call-param", func(r *RNG, fs []srcFile) ([]srcFile, bool) {
		if r.Bool() {
			return replaceFirstFrom(r, fs, "{/call}", "{param zz: 1/}{/call}")
		}
		return replaceFirstFrom(r, fs, "{/call}", "{param zz}x{/param}{/call}")
	}},
	// the same violation at a call that passes data: data="all" / data="$m" waive the REQUIRED-param check only
	{"undeclared-call-param-with-data", func(r *RNG, fs []srcFile) ([]srcFile, bool) {
		out := append([]srcFile(nil), fs...)
		start := r.Intn(len(out))
		for k := 0; k < len(out); k++ {
			fi := (start + k) % len(out)
			c := out[fi].content
			if loc := callWithDataSelfClosing.FindStringSubmatchIndex(c); loc != nil {
				out[fi].content = c[:loc[3]] + "}{param zz: 1/}{/call}" + c[loc[1]:]
				return out, true
			}
			if loc := callWithDataOpen.FindStringIndex(c); loc != nil {
				out[fi].content = c[:loc[1]] + "{param zz}x{/param}" + c[loc[1]:]
				return out, true
			}
		}
		// no such call in the bundle: add one (every generated bundle has a template t0 in its first namespace)
		return bodySite(r, fs, []string{"{call .t0 data=\"all\"}{param zz: 1/}{/call}", "{call .t0 data=\"['a': 1]\"}{param zz: 1/}{/call}", "{call .t0 data=\"[:]\"}{param zz}x{/param}{/call}"}[r.Intn(3)])
	}},
	{"unknown-callee", func(r *RNG, fs []srcFile) ([]srcFile, bool) {
		return bodySite(r, fs, []string{"{call .nope /}", "{call no.such.tmpl /}", "{call .nope data=\"all\"/}"}[r.Intn(3)])
	}},
	{"both-param-kinds", func(r *RNG, fs []srcFile) ([]srcFile, bool) {
		// a template with soydoc params gets a header param as well
		out := append([]srcFile(nil), fs...)
		for k := 0; k < len(out); k++ {
			c := out[k].content
			for _, at := range allIndex(c, " * @param") {
				t := strings.Index(c[at:], "{template ")
				if t < 0 {
					continue
				}
				e := strings.Index(c[at+t:], "}\n")
				if e < 0 || strings.Contains(c[at:at+t], "{/template}") {
					continue
				}
				ins := at + t + e + 2
				out[k].content = c[:ins] + "{@param zh: ?}\n{$zh}" + c[ins:]
				return out, true
			}
		}
		return nil, false
	}},
}

// missing-required-param needs the structure of the bundle, so it is generated rather than patched.
func injectMissingRequired(g *bundleGen, b *gBundle) ([]srcFile, bool) {
	for _, f := range b.files {
		for _, t := range f.tmpls {
			for _, p := range t.params {
				if p.optional || t.recursive {
					continue
				}
				// add a caller that omits p
				var ps []string
				for _, q := range t.params {
					if q.name != p.name && !q.optional {
						ps = append(ps, "{param "+q.name+": "+(&scopedExprGen{g, &gScope{used: map[int]bool{}}}).lit(q.t)+" /}")
					}
				}
				call := "{call " + t.full() + " /}"
				if len(ps) > 0 {
					call = "{call " + t.full() + "}" + strings.Join(ps, "") + "{/call}"
				}
				fs := b.sources()
				fs = append(fs, srcFile{"zcaller.soy", "{namespace zcaller}\n\n/** */\n{template .c}\n" + call + "\n{/template}\n"})
				return fs, true
			}
		}
	}
	return nil, false
}

func bundleNT(src []srcFile) bool {
	for _, f := range src {
		if strings.Contains(f.content, "{let ") || strings.Contains(f.content, "{for") || strings.Contains(f.content, "{call ") {
			return true
		}
	}
	return false
}

func genC07(g *G) {
	n := g.N(700, 12000)
	bg := newBundleGen(g.R, bundleOpts{msgs: true, directives: true, calls: true})
	add := func(fs []srcFile, class, note string) {
		wire, _, err := parseFilesWire(fs)
		c := Case{Req: req("check", encSources(fs), "(files)"), NT: bundleNT(fs), Class: class, Note: note}
		if err != nil {
			c.NoModel = true
			c.Class = class + "(parse-error)"
			if class == "valid" {
				c.Class = "generator-bug"
			}
		} else {
			c.Req = req("check", encSources(fs), wire)
		}
		g.Add(c)
		// the same bundle once more: WHICH error is reported (kind + payload), model vs CheckDataRefs
		if err == nil {
			g.Add(Case{Req: req("checkerr", encSources(fs), wire), NT: c.NT, Class: "checkerr:" + class, Note: note})
		}
	}
	// hand cases for the errors the injectors do not reach: Registry.Add's other errors, a {@param} that is
	// not leading, several independent errors in one bundle (the FIRST template in registry order is reported)
	for i, h := range [][]srcFile{
		{{"a.soy", "{namespace n}\n/** */\n{template .t}\nx\n{/template}\n"}, {"b.soy", "{namespace n}\n/** */\n{template .t}\ny\n{/template}\n"}},
		{{"a.soy", "/** */\n{template .t}\nx\n{/template}\n"}},
		{{"a.soy", "/** */\n"}},
		{{"a.soy", "{namespace n}\n/** */\n{template .t}\nx{@param a: string}{$a}\n{/template}\n"}},
		{{"a.soy", "{namespace n}\n/** @param a */\n{template .t}\n{@param b: string}\n{$a}{$b}\n{/template}\n"}},
		{{"a.soy", "{namespace n}\n/** @param a\n @param b */\n{template .t}\nx\n{/template}\n/** */\n{template .u}\n{$zz}\n{/template}\n"}},
		{{"a.soy", "{namespace n}\n/** */\n{template .t}\n{let $p: 1/}{let $q: 2/}{if true}{let $r: 3/}{/if}\n{/template}\n"}},
		{{"a.soy", "{namespace n}\n/** @param a */\n{template .t}\n{foreach $x in $a}{let $y: $x/}{$zz}{/foreach}\n{/template}\n"}},
		{{"a.soy", "{namespace n}\n/** @param a\n @param b\n @param? c */\n{template .t}\n{$a}{$b}{$c}\n{/template}\n/** */\n{template .u}\n{call .t}{param c: 1/}{/call}{call .t}{param zz: 1/}{param yy: 1/}{/call}\n{/template}\n"}},
		{{"b.soy", "{namespace m}\n/** */\n{template .u}\n{call n.t/}{$zz}\n{/template}\n"}, {"a.soy", "{namespace n}\n/** @param a */\n{template .t}\nx\n{/template}\n"}},
	} {
		add(h, "hand", "hand#"+itoa(i))
	}
	for i := 0; i < n; i++ {
		b := bg.bundle()
		fs := b.sources()
		note := "bundle#" + itoa(i) + " seed=" + itoa(int(g.Seed))
		add(fs, "valid", note)
		// one injected violation of every kind that applies
		for _, inj := range injectors {
			if g.R.Intn(3) != 0 {
				continue
			}
			if m, ok := inj.f(g.R, fs); ok {
				add(m, "inject:"+inj.name, note+" +"+inj.name)
			}
		}
		if g.R.Intn(3) == 0 {
			if m, ok := injectMissingRequired(bg, b); ok {
				add(m, "inject:missing-required-param", note+" +missing-required-param")
			}
		}
	}
}

// toData converts generator values to soy data.
func toData(m map[string]interface{}) data.Map {
	return data.New(m).(data.Map)
}

// renderSafe renders with a timeout; outcome classes OK/ERR/PANIC/HANG.
func renderSafe(reg *template.Registry, name string, d data.Map, ij data.Map) (out string, class string) {
	type res struct {
		out, class string
	}
	ch := make(chan res, 1)
	go func() {
		defer func() {
			if e := recover(); e != nil {
				ch <- res{"", "PANIC"}
			}
		}()
		var buf bytes.Buffer
		r := soyhtml.NewTofu(reg).NewRenderer(name)
		if ij != nil {
			r = r.Inject(ij)
		}
		err := r.Execute(&buf, d)
		if err != nil {
			ch <- res{buf.String(), "ERR"}
			return
		}
		ch <- res{buf.String(), "OK"}
	}()
	select {
	case r := <-ch:
		return r.out, r.class
	case <-time.After(5 * time.Second):
		return "", "HANG"
	}
}

// directC07: accepted bundles rendered with all declared params never look up an unbound name.
func directC07(g *G, rep *Report) {
	n := g.N(300, 5000)
	bg := newBundleGen(g.R.Fork(), bundleOpts{msgs: true, directives: false, calls: true})
	renders, unbound := 0, 0
	for i := 0; i < n; i++ {
		b := bg.bundle()
		fs := b.sources()
		reg, err := compileCheck(fs)
		// one Bundle value compiled again (Compile, Compile, CompileToTofu): a verdict is a function of the bundle's
		// sources, not of how often it has been compiled.  Valid bundles and one injected variant.
		variants := [][]srcFile{fs}
		if inj := injectors[i%len(injectors)]; err == nil {
			if bad, ok := inj.f(bg.r, fs); ok {
				variants = append(variants, bad)
			}
		}
		for vi, v := range variants {
			_, e0 := compileBundle(v) // a fresh Bundle, compiled once
			var verdicts []string
			guarded(20*time.Second, func() {
				sb := soy.NewBundle()
				for _, f := range v {
					sb.AddTemplateString(f.name, f.content)
				}
				for k := 0; k < 3; k++ {
					var e error
					if k < 2 {
						_, e = sb.Compile()
					} else {
						_, e = sb.CompileToTofu()
					}
					verdicts = append(verdicts, errText(e))
				}
			})
			rep.Evaluations++
			for k, got := range verdicts {
				if (got == "OK") != (e0 == nil) || got != verdicts[0] {
					rep.Violations = append(rep.Violations, Viol{Key: fmt.Sprintf("recompile:%d:variant%d", k, vi), What: "compiling the same Bundle value again changes the verdict",
						Req: req("check", encSources(v), "(files)"), Note: fmt.Sprintf("compilation #%d of one Bundle", k+1), Impl: got, Want: verdicts[0] + " (fresh bundle: " + errText(e0) + ")"})
					break
				}
			}
			if len(verdicts) != 3 {
				rep.Violations = append(rep.Violations, Viol{Key: "recompile:no-return", What: "compiling the same Bundle value three times did not return", Req: req("check", encSources(v), "(files)"), Impl: "PANIC/HANG", Want: "verdicts"})
			}
		}
		if err != nil {
			continue
		}
		parsepasses.ProcessMessages(*reg)
		for _, f := range b.files {
			for _, t := range f.tmpls {
				// all DECLARED params supplied (optional ones too)
				d := map[string]interface{}{}
				for _, p := range t.params {
					d[p.name] = bg.valueOf(p.t)
				}
				if t.recursive {
					d["i"] = int64(bg.r.Intn(4)) // recursion bounded by the data
				}
				unboundMu.Lock()
				var names []string
				soyhtml.VerifUnboundObserver = func(k string) { names = append(names, k) }
				_, class := renderSafe(reg, t.full(), toData(d), data.Map{})
				soyhtml.VerifUnboundObserver = nil
				unboundMu.Unlock()
				renders++
				_ = class
				// a callee's OPTIONAL param that the caller did not pass is legitimately unbound there;
				// the property speaks of the rendered template's own declared params, so only names that
				// are not an optional param of any template count.
				for _, k := range names {
					if !isOptionalParamSomewhere(b, k) && !strings.HasSuffix(k, ".index") && !strings.HasSuffix(k, ".lastIndex") {
						unbound++
						rep.Violations = append(rep.Violations, Viol{Key: "unbound-lookup:" + k, What: "render of an accepted template looked up the unbound name " + k,
							Req: req("check", encSources(fs), "(files)"), Note: t.full(), Impl: "unbound " + k, Want: "no unbound lookup"})
						break
					}
				}
			}
		}
	}
	rep.Evaluations += renders
	rep.Extra["renders_observed_for_unbound_lookups"] = renders
	rep.Extra["unbound_lookups"] = unbound
	rep.Extra["generator_stats"] = bg.stats
}

func errText(e error) string {
	if e == nil {
		return "OK"
	}
	return "ERR " + e.Error()
}

func isOptionalParamSomewhere(b *gBundle, name string) bool {
	for _, f := range b.files {
		for _, t := range f.tmpls {
			for _, p := range t.params {
				if p.name == name && p.optional {
					return true
				}
			}
		}
	}
	return false
}
