package main

import (
	"encoding/hex"
	"strings"
)

// Wire format: op<TAB>field<TAB>field...   byte-string fields are hex, "-" is the
// empty string; answers are one line.

func hx(b []byte) string {
	if len(b) == 0 {
		return "-"
	}
	return hex.EncodeToString(b)
}

func hxs(s string) string { return hx([]byte(s)) }

func unhx(s string) ([]byte, bool) {
	if s == "-" {
		return nil, true
	}
	b, err := hex.DecodeString(s)
	return b, err == nil
}

func bit(b bool) string {
	if b {
		return "1"
	}
	return "0"
}

func req(op string, fields ...string) string {
	return op + "\t" + strings.Join(fields, "\t")
}
