package main

import (
	"bytes"
	"fmt"
	"os"
	"os/exec"
	"path/filepath"
	"strconv"
	"strings"

	"github.com/robfig/gettext/po"
	"github.com/robfig/soy/ast"
	"github.com/robfig/soy/data"
	"github.com/robfig/soy/soyhtml"
	"github.com/robfig/soy/soymsg"
	"github.com/robfig/soy/soymsg/pomsg"
	"github.com/robfig/soy/template"
)

// C11po: end-to-end extraction / translation round trip through the REAL xgettext-soy
// binary built from /repo, the real PO parser and pomsg.Dir, for locales with 1, 2 and 3
// plural forms.  The expected output is assembled here, from the translation strings and
// the marker values bound to the placeholders — independently of soy's own substitution.

// runJSWithMessages, if set (by the JS harness), renders template `name` of the registry through
// the generated JavaScript with the given message bundle and plural selector; ok=false = not available.
var runJSWithMessages func(reg *template.Registry, name string, d data.Map, bundle soymsg.Bundle, pluralJS string) (out string, ok bool, err error)

type c11Item struct {
	text string // literal text (may contain html tags), or
	v    int    // placeholder {$pV} if text == ""
}

type c11Msg struct {
	meaning string
	desc    string
	plural  bool
	sing    []c11Item // plural: {case 1} body; else the body
	plur    []c11Item // plural: {default} body
	inLoop  bool
	inCall  bool
	inBlock bool // inside a block that shadows $q, which is read again after the block
}

type c11Tmpl struct {
	msgs []c11Msg
	n    int // plural argument value
}

var c11Texts = []string{"Hello ", "world", " and ", "<b>", "</b>", "<br/>", "<a href=\"x\">", "</a>", "<my-button>", "</my-button>", "<x-foo/>", "<h1>", "<Img/>", "<tBody>", ", ", "!", " you have ", " items", "é ", "x=1 "}

func c11GenItems(r *RNG, nvars int) []c11Item {
	n := 1 + r.Intn(5)
	var out []c11Item
	for i := 0; i < n; i++ {
		if r.Intn(5) < 2 {
			out = append(out, c11Item{v: r.Intn(nvars)})
		} else {
			out = append(out, c11Item{text: c11Texts[r.Intn(len(c11Texts))], v: -1})
		}
	}
	return out
}

func c11ItemsSrc(items []c11Item) string {
	var b strings.Builder
	for _, it := range items {
		if it.v >= 0 && it.text == "" {
			b.WriteString("{$p" + strconv.Itoa(it.v) + "}")
		} else {
			b.WriteString(it.text)
		}
	}
	return b.String()
}

func (m *c11Msg) src() string {
	attrs := ""
	if m.meaning != "" {
		attrs = ` meaning="` + m.meaning + `"`
	}
	attrs += ` desc="` + m.desc + `"`
	if m.plural {
		return "{msg" + attrs + "}{plural $n}{case 1}" + c11ItemsSrc(m.sing) + "{default}" + c11ItemsSrc(m.plur) + "{/plural}{/msg}"
	}
	return "{msg" + attrs + "}" + c11ItemsSrc(m.sing) + "{/msg}"
}

const c11Vars = 3

func c11Gen(r *RNG) *c11Tmpl {
	t := &c11Tmpl{n: []int{0, 1, 2, 3, 5, 11}[r.Intn(6)]}
	nm := 1 + r.Intn(4)
	for i := 0; i < nm; i++ {
		m := c11Msg{desc: "d" + strconv.Itoa(r.Intn(3))}
		if r.Intn(4) == 0 {
			m.meaning = "m" + strconv.Itoa(r.Intn(2))
		}
		m.sing = c11GenItems(r, c11Vars)
		if r.Intn(3) == 0 {
			m.plural = true
			m.plur = c11GenItems(r, c11Vars)
		}
		// a message that shares its meaning and singular text with the one before it and is nevertheless a different
		// message (a different id): plain next to plural, or two plurals with different {default} texts.  Each
		// must get its own catalogue entry and its own translation.
		if i > 0 && r.Intn(4) == 0 && len(t.msgs[i-1].sing) > 0 {
			prev := t.msgs[i-1]
			m.meaning, m.sing = prev.meaning, prev.sing
			if !prev.plural || r.Intn(2) == 0 {
				m.plural = true
				m.plur = append(c11GenItems(r, c11Vars), c11Item{text: "twin", v: -1})
			} else {
				m.plural, m.plur = false, nil
			}
		}
		// a message with nothing in it: accepted by the compiler, renders nothing; there is nothing to translate (the
		// empty msgid is the catalogue's header entry), extraction must cope with it
		if r.Intn(9) == 0 {
			m.sing, m.plural, m.plur = nil, false, nil
		}
		switch r.Intn(6) {
		case 0:
			m.inLoop = true
		case 1:
			m.inCall = true
		case 2:
			m.inBlock = true
		}
		t.msgs = append(t.msgs, m)
	}
	return t
}

func (t *c11Tmpl) source() string {
	var b, callees strings.Builder
	b.WriteString("{namespace m}\n\n/**\n * @param p0\n * @param p1\n * @param p2\n * @param n\n * @param l\n */\n{template .t}\n")
	b.WriteString("{$p0}{$p1}{$p2}{$n}{length($l)}|")
	for i, m := range t.msgs {
		switch {
		case m.inLoop:
			b.WriteString("{foreach $x in $l}[" + m.src() + "]{/foreach}")
		case m.inBlock:
			// the message's own scope must be gone when the block ends (whether or not the catalogue has the message)
			b.WriteString("{let $q: 'out' /}{if $n >= 0}{let $q: 'in' /}<" + m.src() + ">{$q}{/if}{$q}")
		case m.inCall:
			name := ".c" + strconv.Itoa(i)
			b.WriteString("{call " + name + " data=\"all\"/}")
			callees.WriteString("\n/**\n * @param p0\n * @param p1\n * @param p2\n * @param n\n */\n{template " + name + "}\n{$p0}{$p1}{$p2}{$n}(" + m.src() + ")\n{/template}\n")
		default:
			b.WriteString(m.src())
		}
		b.WriteString("|")
	}
	b.WriteString("\n{/template}\n")
	b.WriteString(callees.String())
	return b.String()
}

var c11Markers = []string{"AA0", "BB1", "CC2"}

func (t *c11Tmpl) data() map[string]interface{} {
	return map[string]interface{}{"p0": c11Markers[0], "p1": c11Markers[1], "p2": c11Markers[2], "n": int64(t.n), "l": []interface{}{int64(1), int64(2)}}
}

// htmlEsc is the autoescaper applied to text printed by {$pK} (markers are alphanumeric: identity).
func c11Split(s string) []string {
	// parts of a PO string: text and {NAME} with NAME in [A-Z0-9_]+ (own scanner, not soymsg.Parts)
	var parts []string
	i := 0
	for i < len(s) {
		if s[i] == '{' {
			j := i + 1
			for j < len(s) && (s[j] >= 'A' && s[j] <= 'Z' || s[j] >= '0' && s[j] <= '9' || s[j] == '_') {
				j++
			}
			if j > i+1 && j < len(s) && s[j] == '}' {
				parts = append(parts, s[i:j+1])
				i = j + 1
				continue
			}
		}
		// text run up to the next '{' that starts a placeholder
		j := i + 1
		for j < len(s) {
			if s[j] == '{' {
				k := j + 1
				for k < len(s) && (s[k] >= 'A' && s[k] <= 'Z' || s[k] >= '0' && s[k] <= '9' || s[k] == '_') {
					k++
				}
				if k > j+1 && k < len(s) && s[k] == '}' {
					break
				}
			}
			j++
		}
		parts = append(parts, s[i:j])
		i = j
	}
	return parts
}

type c11Extracted struct {
	id    uint64
	varN  string
	msgid string
	plur  string
	ctxt  string
}

// translate builds the msgstr list for a message under a variant and a number of plural forms.
func c11Translate(e c11Extracted, variant string, nforms int) []string {
	tr := func(s string) string {
		parts := c11Split(s)
		switch variant {
		case "identity":
			return s
		case "reversed":
			for i, j := 0, len(parts)-1; i < j; i, j = i+1, j-1 {
				parts[i], parts[j] = parts[j], parts[i]
			}
			return strings.Join(parts, "")
		case "decorated":
			return "«" + strings.Join(parts, "·") + "»"
		}
		return s
	}
	if e.plur == "" && e.varN == "" {
		return []string{tr(e.msgid)}
	}
	switch nforms {
	case 1:
		return []string{tr(e.plur)}
	case 2:
		return []string{tr(e.msgid), tr(e.plur)}
	default:
		return []string{tr(e.msgid), tr(e.plur) + "(two)", tr(e.plur) + "(many)"}
	}
}

var c11Locales = []struct {
	name   string
	header string
	nforms int
	sel    func(n int) int
	js     string
}{
	{"ja", "nplurals=1; plural=0;", 1, func(n int) int { return 0 }, "function(n){return 0;}"},
	{"en", "nplurals=2; plural=(n != 1);", 2, func(n int) int {
		if n != 1 {
			return 1
		}
		return 0
	}, "function(n){return n != 1 ? 1 : 0;}"},
	{"ga", "nplurals=3; plural=n==1 ? 0 : n==2 ? 1 : 2;", 3, func(n int) int {
		if n == 1 {
			return 0
		}
		if n == 2 {
			return 1
		}
		return 2
	}, "function(n){return n==1 ? 0 : n==2 ? 1 : 2;}"},
	// catalogues whose Plural-Forms header is NOT the customary rule of the locale they are named for: the
	// catalogue's own header decides which msgstr a count selects (fr customarily has n > 1, en two forms, pt/ru others)
	{"fr", "nplurals=2; plural=(n != 1);", 2, func(n int) int {
		if n != 1 {
			return 1
		}
		return 0
	}, "function(n){return n != 1 ? 1 : 0;}"},
	{"en", "nplurals=3; plural=n==1 ? 0 : n==2 ? 1 : 2;", 3, func(n int) int {
		if n == 1 {
			return 0
		}
		if n == 2 {
			return 1
		}
		return 2
	}, "function(n){return n==1 ? 0 : n==2 ? 1 : 2;}"},
	{"ru", "nplurals=1; plural=0;", 1, func(n int) int { return 0 }, "function(n){return 0;}"},
}

func init() {
	register(&Prop{
		ID: "C11po",
		Rule: "generated templates with 1-4 messages (text with HTML tags, repeated and distinct placeholders, PO-representable plurals, messages inside loops and called templates, meanings) -> real xgettext-soy binary -> POT -> " +
			"catalogues {identity, reversed part order, decorated, partial} x locales with 1/2/3 plural forms -> pomsg.Dir -> render; oracle: output = text assembled here from the translation strings and the marker data; " +
			"identity = render without catalogue; missing message = source text; Go = JavaScript; non-trivial = a message with >= 2 placeholders or a plural",
		Direct: directC11,
	})
}

func directC11(g *G, rep *Report) {
	tmp, err := os.MkdirTemp(filepath.Dir(mustExe()), "c11-")
	if err != nil {
		rep.Violations = append(rep.Violations, Viol{Key: "c11-setup", What: "cannot create a scratch directory: " + err.Error()})
		return
	}
	defer os.RemoveAll(tmp)
	xg := filepath.Join(tmp, "xgettext-soy")
	cmd := exec.Command("go", "build", "-o", xg, "./soymsg/pomsg/xgettext-soy")
	cmd.Dir = repoDir()
	if out, err := cmd.CombinedOutput(); err != nil {
		rep.Violations = append(rep.Violations, Viol{Key: "c11-build-xgettext", What: "xgettext-soy does not build: " + string(out), Req: "(setup)", Impl: "build error", Want: "builds"})
		return
	}
	n := g.N(60, 1500)
	r := g.R.Fork()
	seen := map[string]bool{}
	for i := 0; i < n; i++ {
		t := c11Gen(r)
		src := t.source()
		dir := filepath.Join(tmp, "case")
		os.RemoveAll(dir)
		os.MkdirAll(dir, 0o755)
		os.WriteFile(filepath.Join(dir, "m.soy"), []byte(src), 0o644)
		viol := func(key, what, impl, want string) {
			if len(rep.Violations) < 30 {
				rep.Violations = append(rep.Violations, Viol{Key: key + ":" + src, What: what, Req: req("c11", hxs(src), strconv.Itoa(t.n)), Note: src, Impl: impl, Want: want})
			}
		}
		// 1. extract with the real tool
		var potBuf, errBuf bytes.Buffer
		xc := exec.Command(xg, dir)
		xc.Stdout, xc.Stderr = &potBuf, &errBuf
		if err := xc.Run(); err != nil {
			viol("c11-extract", "xgettext-soy failed on a compilable bundle: "+errBuf.String(), "exit error", "POT")
			continue
		}
		pot, err := po.Parse(bytes.NewReader(potBuf.Bytes()))
		if err != nil {
			viol("c11-pot-parse", "the extracted POT does not parse: "+err.Error(), potBuf.String(), "valid PO")
			continue
		}
		var ex []c11Extracted
		for _, m := range pot.Messages {
			e := c11Extracted{msgid: m.Id, plur: m.IdPlural, ctxt: m.Ctxt}
			for _, ref := range m.References {
				for _, f := range strings.Fields(ref) {
					if strings.HasPrefix(f, "id=") {
						e.id, _ = strconv.ParseUint(f[3:], 10, 64)
					} else if strings.HasPrefix(f, "var=") {
						e.varN = f[4:]
					}
				}
			}
			ex = append(ex, e)
		}
		// 2. compile; collect, per message id, the placeholder name -> rendered bytes map from the compiled tree
		reg, err := compileBundle([]srcFile{{"m.soy", src}})
		if err != nil {
			rep.Distribution["generator-compile-error"]++
			continue
		}
		d := toData(t.data())
		plain, class := renderSafe(reg, "m.t", d, nil)
		if class != "OK" {
			rep.Distribution["plain-render-"+class]++
			continue
		}
		phValue := map[uint64]map[string]string{}
		var walk func(n ast.Node)
		walk = func(n ast.Node) {
			if m, ok := n.(*ast.MsgNode); ok {
				mp := map[string]string{}
				var q []ast.Node = m.Body.Children()
				for len(q) > 0 {
					c := q[0]
					q = q[1:]
					switch c := c.(type) {
					case *ast.MsgPlaceholderNode:
						switch b := c.Body.(type) {
						case *ast.MsgHtmlTagNode:
							mp[c.Name] = string(b.Text)
						case *ast.PrintNode:
							if ref, ok := b.Arg.(*ast.DataRefNode); ok {
								if ref.Key == "n" {
									mp[c.Name] = strconv.Itoa(t.n)
								} else if ref.Key == "x" {
									mp[c.Name] = "?"
								} else {
									k, _ := strconv.Atoi(ref.Key[1:])
									mp[c.Name] = c11Markers[k]
								}
							}
						}
					case *ast.MsgPluralNode:
						for _, pc := range c.Cases {
							q = append(q, pc.Body.Children()...)
						}
						q = append(q, c.Default.Children()...)
					}
				}
				if len(m.Body.Children()) > 0 {
					phValue[m.ID] = mp
				}
				return
			}
			if p, ok := n.(ast.ParentNode); ok {
				for _, c := range p.Children() {
					if c != nil {
						walk(c)
					}
				}
			}
		}
		for _, tm := range reg.Templates {
			walk(tm.Node)
		}
		// every message of the bundle has an entry of its own in the extracted template (identified by its id)
		{
			have := map[uint64]bool{}
			for _, e := range ex {
				have[e.id] = true
			}
			for id := range phValue {
				if !have[id] {
					viol("c11-not-extracted", "a message of the bundle has no entry in the extracted catalogue template: it can never be translated", potBuf.String(), "an entry with id="+strconv.FormatUint(id, 10))
				}
			}
		}
		// 3. catalogues
		for _, variant := range []string{"identity", "reversed", "decorated", "partial"} {
			for _, loc := range c11Locales {
				pf := po.File{}
				pf.Header = map[string][]string{}
				pf.Header.Set("Content-Type", "text/plain; charset=UTF-8")
				pf.Header.Set("Plural-Forms", loc.header)
				translated := map[uint64][]string{}
				for k, e := range ex {
					if variant == "partial" && k%2 == 0 {
						continue // absent from the catalogue
					}
					v := variant
					if v == "partial" {
						v = "decorated"
					}
					strs := c11Translate(e, v, loc.nforms)
					translated[e.id] = strs
					refs := "id=" + strconv.FormatUint(e.id, 10)
					if e.varN != "" {
						refs += " var=" + e.varN
					}
					pf.Messages = append(pf.Messages, po.Message{Comment: po.Comment{References: []string{refs}}, Ctxt: e.ctxt, Id: e.msgid, IdPlural: e.plur, Str: strs})
				}
				pdir := filepath.Join(tmp, "po")
				os.RemoveAll(pdir)
				os.MkdirAll(pdir, 0o755)
				var pbuf bytes.Buffer
				pf.WriteTo(&pbuf)
				os.WriteFile(filepath.Join(pdir, loc.name+".po"), pbuf.Bytes(), 0o644)
				prov, err := pomsg.Dir(pdir)
				if err != nil {
					viol("c11-load", "pomsg.Dir rejects a catalogue written from the extracted template: "+err.Error(), pbuf.String(), "loads")
					continue
				}
				bundle := prov.Bundle(loc.name)
				if bundle == nil {
					viol("c11-bundle", "no bundle for locale "+loc.name, "nil", "bundle")
					continue
				}
				var buf bytes.Buffer
				err = soyhtml.NewTofu(reg).NewRenderer("m.t").WithMessages(bundle).Execute(&buf, d)
				got := buf.String()
				if err != nil {
					got = "ERR " + err.Error()
				}
				// expected: walk the generator's structure
				want := t.expected(translated, phValue, reg, loc.sel)
				rep.Evaluations++
				rep.Distribution[variant+"/"+loc.name]++
				if got != want {
					viol("c11-"+variant+"-"+loc.name, "rendering with the "+variant+" catalogue ("+loc.name+") does not put the translated segments and placeholder values where the translation puts them", got, want)
				}
				if variant == "identity" && loc.nforms == 2 && got != plain {
					viol("c11-identity", "the identity translation renders differently from rendering without a catalogue", got, plain)
				}
				if runJSWithMessages != nil {
					if js, ok, jerr := runJSWithMessages(reg, "m.t", d, bundle, loc.js); ok {
						if jerr != nil {
							js = "ERR " + jerr.Error()
						}
						rep.Distribution["js-compared"]++
						if js != got {
							viol("c11-js-"+variant+"-"+loc.name, "Go and JavaScript disagree when rendering with a catalogue", js, got)
						}
					}
				}
				if !seen[got] {
					seen[got] = true
					nt := false
					for _, m := range t.msgs {
						np := 0
						for _, it := range m.sing {
							if it.text == "" {
								np++
							}
						}
						if m.plural || np >= 2 {
							nt = true
						}
					}
					if nt {
						rep.DistinctNT++
					}
				}
				if len(rep.Samples) < 4 && variant == "reversed" {
					rep.Samples = append(rep.Samples, fmt.Sprintf("%s [%s/%s n=%d] => %s", strings.ReplaceAll(src, "\n", "\\n")[120:], variant, loc.name, t.n, got))
				}
			}
		}
	}
}

// expected output of template .t under the translations (by message id), assembled independently.
func (t *c11Tmpl) expected(tr map[uint64][]string, ph map[uint64]map[string]string, reg *template.Registry, sel func(int) int) string {
	// message ids in template order: walk the compiled trees in the order the generator emitted the messages
	ids := map[string]uint64{} // msg source -> id
	var walk func(n ast.Node)
	walk = func(n ast.Node) {
		if m, ok := n.(*ast.MsgNode); ok {
			ids[m.Meaning+"\x00"+msgBodyKey(m)] = m.ID
			return
		}
		if p, ok := n.(ast.ParentNode); ok {
			for _, c := range p.Children() {
				if c != nil {
					walk(c)
				}
			}
		}
	}
	for _, tm := range reg.Templates {
		walk(tm.Node)
	}
	head := c11Markers[0] + c11Markers[1] + c11Markers[2] + strconv.Itoa(t.n)
	var b strings.Builder
	b.WriteString(head + "2|")
	for _, m := range t.msgs {
		id := ids[m.meaning+"\x00"+m.key()]
		one := t.renderMsg(&m, id, tr, ph, sel)
		switch {
		case m.inLoop:
			b.WriteString("[" + one + "][" + one + "]")
		case m.inBlock:
			b.WriteString("<" + one + ">inout")
		case m.inCall:
			b.WriteString(head + "(" + one + ")")
		default:
			b.WriteString(one)
		}
		b.WriteString("|")
	}
	return b.String()
}

func itemsPlain(items []c11Item, n int) string {
	var b strings.Builder
	for _, it := range items {
		if it.text == "" {
			b.WriteString(c11Markers[it.v])
		} else {
			b.WriteString(it.text)
		}
	}
	return b.String()
}

func (t *c11Tmpl) renderMsg(m *c11Msg, id uint64, tr map[uint64][]string, ph map[uint64]map[string]string, sel func(int) int) string {
	strs, ok := tr[id]
	if !ok {
		// absent from the catalogue: the source text
		if m.plural {
			if t.n == 1 {
				return itemsPlain(m.sing, t.n)
			}
			return itemsPlain(m.plur, t.n)
		}
		return itemsPlain(m.sing, t.n)
	}
	s := strs[0]
	if m.plural {
		s = strs[sel(t.n)]
	}
	var b strings.Builder
	for _, p := range c11Split(s) {
		if len(p) >= 3 && p[0] == '{' && p[len(p)-1] == '}' {
			if v, ok := ph[id][p[1:len(p)-1]]; ok {
				b.WriteString(v)
				continue
			}
		}
		b.WriteString(p)
	}
	return b.String()
}

// key identifies a generated message by its body source (to find its id in the compiled tree).
func (m *c11Msg) key() string {
	if m.plural {
		return "P|" + c11ItemsSrc(m.sing) + "|" + c11ItemsSrc(m.plur)
	}
	return "S|" + c11ItemsSrc(m.sing)
}

func msgBodyKey(m *ast.MsgNode) string {
	src := func(ns []ast.Node) string {
		var b strings.Builder
		for _, c := range ns {
			switch c := c.(type) {
			case *ast.RawTextNode:
				b.Write(c.Text)
			case *ast.MsgPlaceholderNode:
				switch body := c.Body.(type) {
				case *ast.MsgHtmlTagNode:
					b.Write(body.Text)
				case *ast.PrintNode:
					b.WriteString("{" + body.Arg.String() + "}")
				}
			}
		}
		return b.String()
	}
	ch := m.Body.Children()
	if len(ch) == 1 {
		if pl, ok := ch[0].(*ast.MsgPluralNode); ok && len(pl.Cases) == 1 {
			return "P|" + src(pl.Cases[0].Body.Children()) + "|" + src(pl.Default.Children())
		}
	}
	return "S|" + src(ch)
}

func mustExe() string {
	exe, err := os.Executable()
	if err != nil {
		return "/verif/build/vh"
	}
	return exe
}

func repoDir() string {
	if d := os.Getenv("VERIF_REPO"); d != "" {
		return d
	}
	return "/repo"
}
