package main

import (
	"regexp"
	"strings"

	"github.com/robfig/soy/ast"
	"github.com/robfig/soy/parse"
)

var posRe = regexp.MustCompile(`\((null|bool|int|float|str|global|func|list|map|ref|not|neg|tern|mul|div|mod|add|sub|eq|ne|gt|ge|lt|le|or|and|elvis|k|i|x|dir|print) \d+`)

// stripPos removes positions from an expression S-expression (trees compared modulo positions).
func stripPos(s string) string {
	return posRe.ReplaceAllString(s, "($1")
}

// quotedRe: the Quoted field of a string node is the literal's own spelling; two
// spellings of the same string are the same expression, so compare by value only.
var strRe = regexp.MustCompile(`\(str ([0-9a-f-]+) ([0-9a-f-]+)\)`)

func stripQuoted(s string) string { return strRe.ReplaceAllString(s, "(str $2)") }

func parseExprSafe(src string) (n ast.Node, err error, panicked interface{}) {
	defer func() {
		if e := recover(); e != nil {
			panicked = e
		}
	}()
	n, err = parse.Expr(src)
	return
}

func init() {
	implOps["astecho"] = func(f []string) string { return "OK " + f[1] }
	// print: fields = hex source, tree (of that source, as parsed by the generator).
	implOps["exprstr"] = func(f []string) string {
		src, _ := unhx(f[0])
		n, err, p := parseExprSafe(string(src))
		if p != nil {
			return "PANIC"
		}
		if err != nil {
			return "ERR"
		}
		return "OK " + hxs(n.String())
	}
	register(&Prop{
		ID: "C17",
		Rule: "generated expression source (type-directed, all operators/literals/data refs/functions/list+map literals, minimal and redundant parentheses) -> parse -> String() -> parse; " +
			"tie: model printer on the parsed tree = String(); oracle: reparsed tree = tree modulo positions; non-trivial = tree has an operator or a collection literal",
		Gen: genC17,
		Oracle: func(c *Case, impl string) *Viol {
			if c.Class == "echo" {
				return nil
			}
			// property oracle, independent of the model: print -> parse gives the same tree
			f := strings.Split(c.Req, "\t")
			src, _ := unhx(f[1])
			n1, err, p := parseExprSafe(string(src))
			if p != nil || err != nil {
				return nil
			}
			printed := n1.String()
			n2, err2, p2 := parseExprSafe(printed)
			if p2 != nil || err2 != nil {
				return &Viol{Key: "roundtrip:" + string(src), What: "printed text does not parse: " + printed, Want: "parses"}
			}
			a, b := stripQuoted(stripPos(sxExpr(n1))), stripQuoted(stripPos(sxExpr(n2)))
			if a != b {
				return &Viol{Key: "roundtrip:" + string(src), What: "printed text " + printed + " parses to a different tree", Want: a}
			}
			return nil
		},
	})
}

// haveF64: the model driver formats floats (set once Base/F64.lean is merged).
var haveF64 = true

func genC17(g *G) {
	n := g.N(6000, 120000)
	eg := &exprGen{r: g.R, funcs: true, redundantParens: 10, illTyped: 10}
	hand := []string{
		"(1 + 2) * 3", "1 - (2 - 3)", "-(5)", "--5", "-(-$x)", "not (true and false)", "1.0", "1e6", "-0.0",
		"['a\\'b': 1, 'c\\\\': [2, 3]]", "(true ? 1 : 2) ?: 3", "true ?: (false ? 1 : 2)", "(true ? 1 : 2) ? 3 : 4",
		"true ? (false ? 1 : 2) : 3", "true ? 1 : false ? 2 : 3", "$a ? [1] : $b.c", "$a ? $b?.c : 2", "1 < (2 == 2)",
		"f(1, -2, [3])", "$a[1 + 2]?.b?[3].4", "GLOBAL.x + 1", "1 - -2", "-1 - 2", "[:]", "[]", "not not true",
	}
	unparsable := 0
	add := func(src string) {
		n1, err, p := parseExprSafe(src)
		if p != nil || err != nil {
			unparsable++
			return
		}
		tree := sxExpr(n1)
		nt := strings.ContainsAny(src, "+-*/%<>=?[") || strings.Contains(src, " and ") || strings.Contains(src, " or ") || strings.Contains(src, "not ")
		cl, nomodel := "expr", false
		if strings.Contains(tree, "(float ") {
			cl, nomodel = "expr-float", !haveF64
		}
		g.Add(Case{Req: req("exprstr", hxs(src), tree), NT: nt, Class: cl, Note: src, NoModel: nomodel})
		if g.R.Intn(4) == 0 {
			g.Add(Case{Req: req("astecho", "expr", tree), Class: "echo", Note: "echo " + src})
		}
	}
	for _, h := range hand {
		add(h)
	}
	for i := 0; i < n; i++ {
		add(eg.expr(1+g.R.Intn(4), tAny))
	}
}
