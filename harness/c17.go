package main

import (
	"strconv"
	"time"
	"regexp"
	"strings"

	"github.com/robfig/soy/ast"
	"github.com/robfig/soy/parse"
)

var posRe = regexp.MustCompile(`\((null|bool|int|float|str|global|func|list|map|ref|not|neg|tern|mul|div|mod|add|sub|eq|ne|gt|ge|lt|le|or|and|elvis|k|i|x|dir|print) \d+`)

// stripPos removes positions from an expression S-expression (trees compared modulo positions).
func stripPos(s string) string {
	return posRe.ReplaceAllString(s, "($1")
}

// quotedRe: the Quoted field of a string node is the literal's own spelling; two
// spellings of the same string are the same expression, so compare by value only.
var strRe = regexp.MustCompile(`\(str ([0-9a-f-]+) ([0-9a-f-]+)\)`)

func stripQuoted(s string) string { return strRe.ReplaceAllString(s, "(str $2)") }

func parseExprSafe(src string) (n ast.Node, err error, panicked interface{}) {
	if c := guarded(5*time.Second, func() { n, err = parse.Expr(src) }); c != "" {
		panicked = c
	}
	return
}

// parsePrintSafe parses a print command (with directives) in a minimal template and returns its node.
func parsePrintSafe(src string) (*ast.PrintNode, error) {
	f, err := soyFileSafe("p.soy", "{namespace a}\n{template .t}\n"+src+"\n{/template}")
	if err != nil {
		return nil, err
	}
	for _, n := range f.Body {
		if tn, ok := n.(*ast.TemplateNode); ok {
			for _, c := range tn.Body.Nodes {
				if p, ok := c.(*ast.PrintNode); ok {
					return p, nil
				}
			}
		}
	}
	return nil, errHang
}

func init() {
	implOps["printcmd"] = func(f []string) string {
		src, _ := unhx(f[0])
		p, err := parsePrintSafe(string(src))
		if err != nil {
			return "ERR"
		}
		return "OK " + hxs(p.String())
	}
	implOps["astecho"] = func(f []string) string { return "OK " + f[1] }
	// print: fields = hex source, tree (of that source, as parsed by the generator).
	implOps["exprstr"] = func(f []string) string {
		src, _ := unhx(f[0])
		n, err, p := parseExprSafe(string(src))
		if p != nil {
			return "PANIC"
		}
		if err != nil {
			return "ERR"
		}
		return "OK " + hxs(n.String())
	}
	register(&Prop{
		ID: "C17",
		Rule: "generated expression source (type-directed, all operators/literals/data refs/functions/list+map literals, minimal and redundant parentheses) -> parse -> String() -> parse; " +
			"tie: model printer on the parsed tree = String(); oracle: reparsed tree = tree modulo positions; non-trivial = tree has an operator or a collection literal",
		Gen: genC17,
		Oracle: func(c *Case, impl string) *Viol {
			if c.Class == "echo" {
				return nil
			}
			if c.Class == "printcmd" {
				f := strings.Split(c.Req, "\t")
				src, _ := unhx(f[1])
				p1, err := parsePrintSafe(string(src))
				if err != nil {
					return nil
				}
				printed := p1.String()
				p2, err := parsePrintSafe(printed)
				if err != nil {
					return &Viol{Key: "roundtrip-print:" + string(src), What: "printed print command does not parse: " + printed, Want: "parses"}
				}
				a, b := stripQuoted(stripPos(sxCmd(p1))), stripQuoted(stripPos(sxCmd(p2)))
				if a != b {
					return &Viol{Key: "roundtrip-print:" + string(src), What: "printed print command " + printed + " parses to a different tree", Want: a}
				}
				return nil
			}
			// property oracle, independent of the model: print -> parse gives the same tree
			f := strings.Split(c.Req, "\t")
			src, _ := unhx(f[1])
			n1, err, p := parseExprSafe(string(src))
			if p != nil || err != nil {
				return nil
			}
			printed := n1.String()
			n2, err2, p2 := parseExprSafe(printed)
			if p2 != nil || err2 != nil {
				return &Viol{Key: "roundtrip:" + string(src), What: "printed text does not parse: " + printed, Want: "parses"}
			}
			a, b := stripQuoted(stripPos(sxExpr(n1))), stripQuoted(stripPos(sxExpr(n2)))
			if a != b {
				return &Viol{Key: "roundtrip:" + string(src), What: "printed text " + printed + " parses to a different tree", Want: a}
			}
			return nil
		},
	})
}

// haveF64: the model driver formats floats (set once Base/F64.lean is merged).
var haveF64 = true

func genC17(g *G) {
	n := g.N(6000, 120000)
	eg := &exprGen{r: g.R, funcs: true, redundantParens: 10, illTyped: 10, rawBytes: 8}
	hand := []string{
		"['\xff': 1]", "['\xff\\'x': 1, '\xc3': 2]", "['\xe2\x82\\n': '\xff']", "['a\\nb\xf0\x9f': [1]]", "'\xff\\n' + '\xc3'",
		"(1 + 2) * 3", "1 - (2 - 3)", "-(5)", "--5", "-(-$x)", "not (true and false)", "1.0", "1e6", "-0.0",
		"['a\\'b': 1, 'c\\\\': [2, 3]]", "(true ? 1 : 2) ?: 3", "true ?: (false ? 1 : 2)", "(true ? 1 : 2) ? 3 : 4",
		"true ? (false ? 1 : 2) : 3", "true ? 1 : false ? 2 : 3", "$a ? [1] : $b.c", "$a ? $b?.c : 2", "1 < (2 == 2)",
		"f(1, -2, [3])", "$a[1 + 2]?.b?[3].4", "GLOBAL.x + 1", "1 - -2", "-1 - 2", "[:]", "[]", "not not true",
	}
	unparsable := 0
	add := func(src string) {
		n1, err, p := parseExprSafe(src)
		if p != nil || err != nil {
			unparsable++
			return
		}
		tree := sxExpr(n1)
		nt := strings.ContainsAny(src, "+-*/%<>=?[") || strings.Contains(src, " and ") || strings.Contains(src, " or ") || strings.Contains(src, "not ")
		cl, nomodel := "expr", false
		if strings.Contains(tree, "(float ") {
			cl, nomodel = "expr-float", !haveF64
		}
		g.Add(Case{Req: req("exprstr", hxs(src), tree), NT: nt, Class: cl, Note: src, NoModel: nomodel})
		if g.R.Intn(4) == 0 {
			g.Add(Case{Req: req("astecho", "expr", tree), Class: "echo", Note: "echo " + src})
		}
	}
	for _, h := range hand {
		add(h)
	}
	// print commands with directives (implicit and explicit print, 0-3 directives, 0-3 arguments each,
	// arguments that are ternaries / negative numbers / strings with quotes)
	dirNames := []string{"truncate", "insertWordBreaks", "escapeHtml", "noAutoescape", "id", "changeNewlineToBr", "escapeUri", "pad"}
	np := g.N(1500, 30000)
	for i := 0; i < np; i++ {
		var b strings.Builder
		if g.R.Intn(3) == 0 {
			b.WriteString("{print ")
		} else {
			b.WriteString("{")
		}
		b.WriteString(eg.expr(1+g.R.Intn(2), tAny))
		for d := g.R.Intn(4); d > 0; d-- {
			b.WriteString("|" + dirNames[g.R.Intn(len(dirNames))])
			na := g.R.Intn(4)
			for a := 0; a < na; a++ {
				if a == 0 {
					b.WriteString(":")
				} else {
					b.WriteString(",")
				}
				switch g.R.Intn(5) {
				case 0:
					b.WriteString(eg.expr(1, tBool) + " ? " + eg.atom(tInt) + " : " + eg.atom(tInt))
				case 1:
					b.WriteString("-" + strconv.Itoa(1+g.R.Intn(9)))
				default:
					b.WriteString(eg.expr(1, tAny))
				}
			}
		}
		b.WriteString("}")
		src := b.String()
		if strings.ContainsAny(src, "\n") {
			continue
		}
		p, err := parsePrintSafe(src)
		if err != nil {
			unparsable++
			continue
		}
		tree := sxCmd(p)
		g.Add(Case{Req: req("printcmd", hxs(src), tree), NT: strings.Contains(src, "|"), Class: "printcmd", Note: src, NoModel: strings.Contains(tree, "(float ") && !haveF64})
	}
	for i := 0; i < n; i++ {
		add(eg.expr(1+g.R.Intn(4), tAny))
	}
}
