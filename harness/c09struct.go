package main

import (
	"bytes"
	"reflect"
	"strconv"
	"sync"

	"github.com/robfig/soy/data"
	"github.com/robfig/soy/soyhtml"
)

// C09, renders that are handed Go values: Tofu.Render converts structs (also nested in slices, maps and other
// structs) to data.Map by reflection.  Struct TYPES nobody has converted yet are made with reflect.StructOf
// (fresh field names per round), and their first conversions happen in several goroutines at once, concurrently
// with conversions of other types and with renders — whatever the conversion remembers per type is written
// under contention.  Output: equal to the render of the hand-built data.Map.
func structsConcurrently(rep *Report, round, G int) {
	sfx := strconv.Itoa(round)
	str, num := reflect.TypeOf(""), reflect.TypeOf(int(0))
	inner := reflect.StructOf([]reflect.StructField{{Name: "Label" + sfx, Type: str}, {Name: "Weight", Type: num}})
	outerFor := func(w int) reflect.Type {
		// a few distinct outer types per round: goroutine w%3 shares a type with w%3+3, ...
		k := strconv.Itoa(w % 3)
		return reflect.StructOf([]reflect.StructField{
			{Name: "Title" + sfx + "x" + k, Type: str},
			{Name: "Count", Type: num},
			{Name: "Inner", Type: inner},
			{Name: "Items", Type: reflect.SliceOf(inner)},
			{Name: "ByName", Type: reflect.MapOf(str, reflect.PtrTo(inner))},
		})
	}
	src := func(k string) string {
		t := "title" + sfx + "x" + k
		return "{namespace st" + sfx + "x" + k + "}\n/** @param v */\n{template .t}\n{$v." + t + "}:{$v.count}:{$v.inner.label" + sfx + "}/{$v.inner.weight}" +
			"{foreach $it in $v.items}[{$it.label" + sfx + "}{$it.weight}]{/foreach}<{$v.byName.a.label" + sfx + "}>\n{/template}\n"
	}
	var fs []srcFile
	for k := 0; k < 3; k++ {
		fs = append(fs, srcFile{"st" + strconv.Itoa(k) + ".soy", src(strconv.Itoa(k))})
	}
	reg, err := compileBundle(fs)
	if err != nil {
		rep.Violations = append(rep.Violations, Viol{Key: "struct-bundle-does-not-compile", What: err.Error(), Req: req("racer", encSources(fs)), Want: "compiles"})
		return
	}
	tofu := soyhtml.NewTofu(reg)
	mkInner := func(l string, w int) reflect.Value {
		v := reflect.New(inner).Elem()
		v.Field(0).SetString(l)
		v.Field(1).SetInt(int64(w))
		return v
	}
	type job struct {
		name string
		obj  interface{}
		want string
	}
	jobs := make([]job, G)
	for w := 0; w < G; w++ {
		k := strconv.Itoa(w % 3)
		ot := outerFor(w)
		v := reflect.New(ot).Elem()
		v.Field(0).SetString("T<" + strconv.Itoa(w) + ">")
		v.Field(1).SetInt(int64(w))
		v.Field(2).Set(mkInner("in&"+strconv.Itoa(w), w+1))
		items := reflect.MakeSlice(reflect.SliceOf(inner), 0, 2)
		items = reflect.Append(items, mkInner("i0", w), mkInner("i1", w*2))
		v.Field(3).Set(items)
		m := reflect.MakeMap(ot.Field(4).Type)
		p := reflect.New(inner)
		p.Elem().Set(mkInner("p'"+strconv.Itoa(w), 0))
		m.SetMapIndex(reflect.ValueOf("a"), p)
		v.Field(4).Set(m)
		in := func(l string, wt int) data.Map {
			return data.Map{"label" + sfx: data.String(l), "weight": data.Int(wt)}
		}
		want := data.Map{"v": data.Map{
			"title" + sfx + "x" + k: data.String("T<" + strconv.Itoa(w) + ">"), "count": data.Int(w), "inner": in("in&"+strconv.Itoa(w), w+1),
			"items": data.List{in("i0", w), in("i1", w*2)}, "byName": data.Map{"a": in("p'"+strconv.Itoa(w), 0)}}}
		var buf bytes.Buffer
		name := "st" + sfx + "x" + k + ".t"
		if err := tofu.NewRenderer(name).Execute(&buf, want); err != nil {
			rep.Violations = append(rep.Violations, Viol{Key: "struct-reference-render-fails", What: err.Error(), Req: req("racer", encSources(fs)), Want: "renders"})
			return
		}
		// half of the goroutines pass the struct itself inside a map, the others a pointer to it
		var obj interface{} = map[string]interface{}{"v": v.Interface()}
		if w%2 == 1 {
			obj = map[string]interface{}{"v": v.Addr().Interface()}
		}
		jobs[w] = job{name, obj, buf.String()}
	}
	var wg sync.WaitGroup
	var mu sync.Mutex
	start := make(chan struct{})
	for w := 0; w < G; w++ {
		wg.Add(1)
		go func(w int) {
			defer wg.Done()
			<-start
			for r := 0; r < 3; r++ {
				j := jobs[(w+r)%G]
				var buf bytes.Buffer
				var err error
				if c := guarded(10e9, func() { err = tofu.Render(&buf, j.name, j.obj) }); c != "" || err != nil || buf.String() != j.want {
					mu.Lock()
					if len(rep.Violations) < 20 {
						rep.Violations = append(rep.Violations, Viol{Key: "concurrent-output-differs:Tofu.Render of a Go struct", What: "Tofu.Render with Go structs, first conversions of their types concurrent, differs from the render of the equivalent data.Map",
							Req: req("racer", encSources(fs)), Note: j.name, Impl: c + " " + buf.String(), Want: j.want})
					}
					mu.Unlock()
				}
				// the other naming convention, through data.NewWith
				_ = data.NewWith(data.StructOptions{LowerCamel: false}, j.obj)
			}
		}(w)
	}
	close(start)
	wg.Wait()
	rep.Evaluations += G * 3
	rep.Distribution["struct-rounds"]++
}
