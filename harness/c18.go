package main

import (
	"bytes"
	"runtime"
	"strconv"
	"strings"
	"time"

	"github.com/robfig/soy/parse"
)

// lexerGoroutines counts the goroutines whose stack contains parse.(*lexer).run.
func lexerGoroutines() int {
	buf := make([]byte, 1<<20)
	for {
		n := runtime.Stack(buf, true)
		if n < len(buf) {
			buf = buf[:n]
			break
		}
		buf = make([]byte, 2*len(buf))
	}
	return bytes.Count(buf, []byte("parse.(*lexer).run"))
}

// leakProbe parses the input and reports how many lexer goroutines survive the call.
func leakProbe(mode, src string) string {
	base := lexerGoroutines()
	func() {
		defer func() { recover() }()
		if mode == "expr" {
			parse.Expr(src)
		} else {
			parse.SoyFile("f.soy", src)
		}
	}()
	// the goroutine needs a moment to run to its exit after the last receive
	deadline := time.Now().Add(200 * time.Millisecond)
	for {
		n := lexerGoroutines() - base
		if n <= 0 {
			return "OK"
		}
		if time.Now().After(deadline) {
			return "LEAK " + strconv.Itoa(n)
		}
		runtime.Gosched()
		time.Sleep(200 * time.Microsecond)
	}
}

func init() {
	implOps["leak"] = func(f []string) string {
		src, _ := unhx(f[1])
		a := leakProbe(f[0], string(src))
		if len(a) > 4 && a[:4] == "LEAK" {
			return "LEAK"
		}
		return a
	}
	register(&Prop{
		ID: "C18",
		Rule: "every input family of the parser checks (valid and mutated expressions with trailing tokens, valid / truncated / malformed files, errors inside quoted attribute expressions): after the parse call returns, " +
			"the number of goroutines running parse.(*lexer).run is back to what it was; tie: the models of parse.Expr and parse.SoyFile predict drained-or-consumed for the real token stream; " +
			"non-trivial = the input has unread trailing tokens or ends in an error",
		Gen: genC18,
		Oracle: func(c *Case, impl string) *Viol {
			if impl != "OK" {
				return &Viol{Key: "leak:" + c.Note, What: "the lexer goroutine of a returned parse call is still alive (or the call panicked): " + impl, Want: "OK"}
			}
			return nil
		},
		Timeout: 5e9,
		Direct:  directC18,
	})
}

var c18Files = []string{
	"{namespace a}\n/** @param x */\n{template .t}\nhello {$x}\n{/template}\n",
	"{namespace a}\n{template .t}\n{call .u data=\"$x +\"/}\n{/template}\n",
	"{namespace a}\n{template .t}\n{call .u}{param k value=\"1 2 3\"/}{/call}\n{/template}\n",
	"{namespace a}\n{template .t}\n{css $x $y, cls}\n{/template}\n",
	"{namespace a}\n{template .t}\n{css (, cls}\n{/template}\n",
	"{namespace a}\n{template .t}\n{if $x}a{elseif}b{/if}\n{/template}\n",
	"{namespace a}\n{template .t}\n{msg desc=\"d\"}{plural $n}{case 1}one{default}many{/plural}{/msg}\n{/template}\n",
	"{namespace a}\n{template .t}\nwor}ld\n{/template}\n",
	"{namespace a}\n{template .t}\n{literal}x{/template}\n",
	"{namespace a}\n{template .t}\n/* unclosed\n{/template}\n",
	"{namespace a}{namespace b}",
	"{template .t}x{/template}{template .t}y{/template} trailing {$x} {foo",
}

func genC18(g *G) {
	n := g.N(3000, 60000)
	eg := &exprGen{r: g.R, funcs: true, redundantParens: 10, illTyped: 10}
	addExpr := func(src, class string) {
		toks, _ := itemsWire(src, true)
		g.Add(Case{Req: req("leak", "expr", hxs(src), toks), NT: class != "valid", Class: class, Note: "expr:" + src})
	}
	addFile := func(src, class string) {
		toks, hasFloat := itemsWire(src, false)
		g.Add(Case{Req: req("leak", "file", hxs(src), toks), NT: class != "valid-file", Class: class, Note: "file:" + src, NoModel: hasFloat && !haveF64})
	}
	for _, h := range []string{"1 2 3", "1", "", "(", "$a.b c d e f", "'abc", "1 + ", "f(1, 2) g(3)", "[1, 2] [3]", "1 ? 2 : 3 4 5 6 7 8 9"} {
		addExpr(h, "hand")
	}
	for i := 0; i < n; i++ {
		src := eg.expr(1+g.R.Intn(3), tAny)
		switch g.R.Intn(4) {
		case 0:
			addExpr(src+" "+eg.expr(1, tAny)+" "+eg.expr(1, tAny), "trailing")
		case 1:
			addExpr(mutateSrc(g.R, src), "mutated")
		default:
			addExpr(src, "valid")
		}
	}
	// errors in the MIDDLE of the input, followed by input that keeps the scanner busy (state functions that
	// emit several items per call: text + EOF, literal blocks, header params, soydoc params, css)
	tails := []string{" tail", " tail // why", "tail {$x} more", "{literal}x{/literal}", "\n/** @param x */", "{@param x: int}", "{css a-b}", "{sp}{nil}", " 1 @param x: int", "\n{/template}\n trailing text"}
	errToks := []string{"{if}", "{$x +}", "{call}", "{/foo}", "}", "{'a", "{1 ! 2}", "{08}", "{$x | }", "{foreach $x}", "{let $y}"}
	nmid := g.N(600, 12000)
	for i := 0; i < nmid; i++ {
		pre := []string{"", "{namespace a}\n", "{namespace a}\n{template .t}\n", "{namespace a}\n{template .t}\nhello {$x}\n", "\xef\xbb\xbf{namespace a}\n{template .t}\n", "\xef\xbb\xbf"}[g.R.Intn(6)]
		mid := errToks[g.R.Intn(len(errToks))]
		if g.R.Intn(3) == 0 {
			mid = "" // no error at all: just unusual prefixes / tails
		}
		tail := tails[g.R.Intn(len(tails))]
		if g.R.Bool() {
			tail += tails[g.R.Intn(len(tails))]
		}
		addFile(pre+mid+tail, "error-then-busy-scanner")
	}
	// errors inside quoted attribute expressions (a nested parser with its own scanner), not at the last token
	nq := g.N(600, 12000)
	for i := 0; i < nq; i++ {
		e := eg.expr(1+g.R.Intn(2), tAny)
		bad := mutateSrc(g.R, e) + " " + eg.expr(1, tAny) + " " + eg.expr(1, tAny)
		if g.R.Intn(4) == 0 {
			bad = []string{"$a + * $b", "[1, 2 3]", "f(1 2) + 3 + 4", "1 ? 2 3 : 4", "$a[ 1 2 ] . b", "( 1 2 3 4"}[g.R.Intn(6)]
		}
		if strings.ContainsAny(bad, "\"\\\n}") {
			continue
		}
		wrap := []string{"{call .u data=\"%s\"/}", "{call .u}{param k value=\"%s\"/}{/call}", "{css %s, cls}"}[g.R.Intn(3)]
		addFile("{namespace a}\n{template .t}\n"+strings.Replace(wrap, "%s", bad, 1)+"\n{/template}\n{template .u}\nx\n{/template}\n", "quoted-expr-error")
	}
	// blank / degenerate quoted attribute expressions (an error raised before the nested scanner was read at all)
	for _, blank := range []string{"", " ", "  ", "\t", ",", "(", ")", "'", "$", "1", "$x"} {
		for _, wrap := range []string{"{call .u data=\"%s\"/}", "{call .u data=\"%s\"}{/call}", "{call .u}{param k value=\"%s\"/}{/call}", "{call .u}{param key=\"k\" value=\"%s\"/}{/call}", "{css %s, cls}", "{css %s,cls}"} {
			addFile("{namespace a}\n{template .t}\n"+strings.Replace(wrap, "%s", blank, 1)+"\n{/template}\n{template .u}\nx\n{/template}\n", "quoted-expr-blank")
		}
	}
	// NUL bytes (a UTF-16 file, a stray NUL in text, in a tag, in a string): whatever is said about them, every scanner ends
	for _, src := range []string{"\xff\xfe{\x00n\x00a\x00m\x00e\x00s\x00p\x00a\x00c\x00e\x00", "{namespace a}\n{template .t}\nhel\x00lo\n{/template}\n", "{namespace a}\n{template .t}\n{$x\x00}\n{/template}\n",
		"{namespace a}\n{template .t}\n{'a\x00b'}\n{/template}\n", "\x00", "\x00{namespace a}", "{namespace a}\n\x00\n{template .t}\nx\n{/template}\n", "{namespace a}\n/** \x00 */\n{template .t}\nx\n{/template}\n", "{namespace a}\n{template .t}\nx\n{/template}\n\x00"} {
		addFile(src, "nul-bytes")
	}
	for _, e := range []string{"\x00", "1 + \x00", "'a\x00'", "$a\x00b"} {
		addExpr(e, "nul-bytes")
	}
	// soydoc params in every degenerate shape (a lexer error inside a helper that cannot stop the state machine)
	for _, p := range []string{"@param", "@param ", "@param  ", "@param?", "@param? ", "@param?  ", "@param\t", "@param x", "@param? x y", "@param 1x", "@param $x", "@param x\n * @param", "@param ?", "@param?x", "@paramx", "@param x @param y", "@param\r", "@param é"} {
		for _, shape := range []string{"/** %s */", "/**\n * %s\n */", "/** %s\n*/", "/**%s*/", "/** %s", "/**\n * %s \n * more\n */"} {
			addFile("{namespace a}\n"+strings.Replace(shape, "%s", p, 1)+"\n{template .t}\nx\n{/template}\n", "soydoc-param-shape")
		}
	}
	// a line comment that runs to the end of the input (no final newline), alone and after an error
	for _, tail := range []string{"// end", " // end", "x // end", "{/template}\n// end", "{$x +} // end", "{if} // end", "// a\n// b"} {
		addFile("{namespace a}\n{template .t}\nhello\n"+tail, "line-comment-at-eof")
		addFile("{namespace a}\n{template .t}\nhello\n{/template}\n"+tail, "line-comment-at-eof")
	}
	for _, h := range []string{"1 @param x: int", "1 2 @param? y", "$a {literal}x{/literal}", "1 /* c */ 2 3", "'a' \n // c\n 'b' 'c'"} {
		addExpr(h, "hand")
	}
	bg := newBundleGen(g.R, bundleOpts{msgs: true, directives: true, calls: true})
	nf := g.N(300, 6000)
	for i := 0; i < nf; i++ {
		var src string
		if i < len(c18Files) {
			src = c18Files[i]
		} else {
			b := bg.bundle()
			src = b.files[0].source()
		}
		addFile(src, "valid-file")
		addFile(src[:g.R.Intn(len(src)+1)], "truncated-file")
		addFile(mutateSrc(g.R, src), "mutated-file")
	}
}

// directC18: long sequences within ONE process keep the goroutine count bounded.
func directC18(g *G, rep *Report) {
	base := runtime.NumGoroutine()
	n := g.N(2000, 40000)
	eg := &exprGen{r: g.R.Fork(), funcs: true, redundantParens: 10, illTyped: 10}
	for i := 0; i < n; i++ {
		src := eg.expr(2, tAny) + " " + eg.expr(1, tAny)
		guarded(5*time.Second, func() {
			parse.Expr(src)
			if i%7 == 0 {
				parse.SoyFile("f", "{namespace a}\n{template .t}\n{"+src+"\n{/template}")
			}
		})
	}
	// a parse that gives up early while the scanner is in the middle of a state function that has sent an item and
	// then reports a LEXICAL error in the same call (unterminated literal / comment / soydoc, malformed header
	// param, a double-brace tag closed once): whether the scanner is already blocked in a send when the parser
	// stops is a matter of scheduling, so each input is parsed many times, and once with megabytes of valid text
	// in front of the error (the parser is then far behind the scanner).
	{
		pres := []string{"{namespace a}\n{template .t}\n{switch $x}", "{namespace a}\n{template .t}\n{let $y: 1} text {if}", "{namespace a}\n{template .t}\n{if}", "{namespace a}\n{template .t}\n{call}"}
		lexTails := []string{"{literal}oops", " text /* never closed", " text\n/** @param x ", " {@param x: ", " {{css a}", " {{$x}\n", "{literal}a{/literal}{literal}", " 'abc", " {'abc"}
		reps := g.N(150, 1500)
		stress := 0
		for _, pre := range pres {
			for _, tl := range lexTails {
				src := pre + tl
				for k := 0; k < reps; k++ {
					guarded(5*time.Second, func() { parse.SoyFile("f.soy", src) })
					stress++
				}
			}
		}
		pad := strings.Repeat("line of valid text {$x} and more\n", g.N(40000, 250000))
		for _, tl := range lexTails {
			src := "{namespace a}\n{template .t}\n" + pad + "{if}" + tl
			for k := 0; k < 3; k++ {
				guarded(60*time.Second, func() { parse.SoyFile("big.soy", src) })
				stress++
			}
		}
		deadline := time.Now().Add(2 * time.Second)
		left := lexerGoroutines()
		for left > 0 && time.Now().Before(deadline) {
			time.Sleep(5 * time.Millisecond)
			left = lexerGoroutines()
		}
		rep.Evaluations += stress
		rep.Extra["stress_parses"] = stress
		rep.Extra["stress_scanner_goroutines_left"] = left
		if left > 0 {
			rep.Violations = append(rep.Violations, Viol{Key: "leak-under-repetition", What: strconv.Itoa(left) + " scanner goroutines are still alive after " + strconv.Itoa(stress) + " parses that stop early while the scanner runs into a lexical error (each input parsed repeatedly; also behind megabytes of valid text)",
				Req: "(direct sweep)", Impl: strconv.Itoa(left) + " goroutines in parse.(*lexer).run", Want: "0"})
		}
	}
	time.Sleep(100 * time.Millisecond)
	grown := runtime.NumGoroutine() - base
	rep.Evaluations += n
	rep.Extra["sequence_length"] = n
	rep.Extra["goroutines_grown_by"] = grown
	if grown > 4 {
		rep.Violations = append(rep.Violations, Viol{Key: "leak-growth", What: "goroutine count grew by " + strconv.Itoa(grown) + " over " + strconv.Itoa(n) + " parse calls in one process",
			Req: "(direct sweep)", Impl: "grown " + strconv.Itoa(grown), Want: "bounded"})
	}
}
