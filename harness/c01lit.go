package main

import (
	"fmt"
	"math"
	"strconv"
	"strings"
	"unicode/utf8"

	"github.com/robfig/soy/ast"
	"github.com/robfig/soy/parse"
)

// C01lit: literals denote what the language says they denote.  The expected values are computed here, from
// the definition of the literal forms, not by any code of soy:
//   - '\uXXXX' is the code point XXXX (all 65536 of them; surrogates have no defined value and are skipped),
//     alone and embedded between other characters; the other escapes \\ \' \" \n \r \t \b \f;
//   - decimal and hexadecimal integer literals, float literals in both notations.
// Everything goes through parse.Expr and, for a sample, through a compiled template's output.

func init() {
	register(&Prop{
		ID: "C01lit",
		Rule: "string literals with every \\uXXXX escape (thorough: all 65536; quick: every 61st plus all boundaries of the UTF-8 length classes and of 2^15), alone and embedded, and the single-character escapes; integer literals (decimal, 0x hex, 53- and 63-bit boundaries), float literals (positional and exponent); " +
			"oracle: the literal's value computed from its definition (code point -> UTF-8; strconv for numerals); a sample is also printed by a compiled template; non-trivial = the literal has an escape or is not a single digit",
		Direct: directC01lit,
	})
}

func directC01lit(g *G, rep *Report) {
	viol := func(key, src, got, want string) {
		if len(rep.Violations) < 20 {
			rep.Violations = append(rep.Violations, Viol{Key: "c01lit:" + key, What: "the literal " + src + " does not denote the value the language defines",
				Req: req("c01lit", hxs(src)), Note: src, Impl: got, Want: want})
		}
	}
	parseLit := func(src string) (ast.Node, string) {
		var n ast.Node
		var err error
		if c := guarded(2e9, func() { n, err = parse.Expr(src) }); c != "" {
			return nil, c
		}
		if err != nil {
			return nil, "ERR " + err.Error()
		}
		return n, ""
	}
	checkStr := func(key, src, want string) {
		rep.Evaluations++
		n, e := parseLit(src)
		if e != "" {
			viol(key, src, e, quote([]byte(want)))
			return
		}
		s, ok := n.(*ast.StringNode)
		if !ok || s.Value != want {
			viol(key, src, fmt.Sprintf("%T %v", n, n), quote([]byte(want)))
			return
		}
		rep.DistinctNT++
	}
	// 1. \uXXXX
	step := 61
	if g.Tier == "thorough" {
		step = 1
	}
	boundary := map[int]bool{}
	for _, b := range []int{0, 1, 0x1f, 0x20, 0x27, 0x5c, 0x7e, 0x7f, 0x80, 0xff, 0x100, 0x7ff, 0x800, 0xfff, 0x1000, 0x2028, 0x2029, 0x7ffe, 0x7fff, 0x8000, 0x8001, 0xabcd, 0xd7ff, 0xe000, 0xfeff, 0xfffd, 0xfffe, 0xffff} {
		boundary[b] = true
	}
	for cp := 0; cp < 0x10000; cp++ {
		if !boundary[cp] && cp%step != 0 {
			continue
		}
		if cp >= 0xd800 && cp <= 0xdfff {
			continue // a lone surrogate has no defined value
		}
		want := string(rune(cp))
		for _, hexf := range []string{"%04x", "%04X"} {
			esc := `\u` + fmt.Sprintf(hexf, cp)
			checkStr("unicode-escape", "'"+esc+"'", want)
			if boundary[cp] || cp%(step*7) == 0 {
				checkStr("unicode-escape-embedded", "'a"+esc+"é"+esc+"'", "a"+want+"é"+want)
			}
		}
		rep.Distribution["unicode-escape:utf8-len-"+strconv.Itoa(utf8.RuneLen(rune(cp)))]++
	}
	// 1b. a high surrogate escape followed by a low surrogate escape is ONE character beyond the BMP (Soy strings are
	// UTF-16 in the reference implementation: '\uD83D\uDE00' is U+1F600)
	for _, hi := range []int{0xD800, 0xD83D, 0xD83E, 0xDB40, 0xDBFF} {
		for _, lo := range []int{0xDC00, 0xDE00, 0xDD25, 0xDFFF} {
			cp := 0x10000 + (hi-0xD800)<<10 + (lo - 0xDC00)
			esc := fmt.Sprintf(`\u%04X\u%04x`, hi, lo)
			checkStr("surrogate-pair-escape", "'"+esc+"'", string(rune(cp)))
			checkStr("surrogate-pair-escape", "'a"+esc+"b"+esc+"'", "a"+string(rune(cp))+"b"+string(rune(cp)))
		}
	}
	// 2. single-character escapes
	for esc, want := range map[string]string{`\\`: "\\", `\'`: "'", `\"`: "\"", `\n`: "\n", `\r`: "\r", `\t`: "\t", `\b`: "\b", `\f`: "\f"} {
		checkStr("char-escape", "'"+esc+"'", want)
		checkStr("char-escape", "'x"+esc+esc+"y'", "x"+want+want+"y")
	}
	// 3. integers
	ints := []string{"0", "1", "9", "10", "42", "827", "1000000", "2147483647", "2147483648", "4294967296", "9007199254740991", "9007199254740992", "9007199254740993", "9223372036854775807",
		"0x0", "0x1", "0xA", "0xFF", "0x1A2B", "0x7FFFFFFF", "0xFFFFFFFF", "0x1FFFFFFFFFFFFF", "0x7FFFFFFFFFFFFFFF"}
	r := g.R.Fork()
	for i := 0; i < 300; i++ {
		v := int64(r.U64() >> uint(1+r.Intn(63)))
		ints = append(ints, strconv.FormatInt(v, 10), "0x"+strings.ToUpper(strconv.FormatInt(v, 16)))
	}
	for _, src := range ints {
		rep.Evaluations++
		want, _ := strconv.ParseInt(src, 0, 64)
		n, e := parseLit(src)
		if e != "" {
			viol("integer", src, e, strconv.FormatInt(want, 10))
			continue
		}
		in, ok := n.(*ast.IntNode)
		if !ok || in.Value != want {
			viol("integer", src, fmt.Sprintf("%T %v", n, n), strconv.FormatInt(want, 10))
			continue
		}
		if len(src) > 1 {
			rep.DistinctNT++
		}
	}
	// 4. floats
	floats := []string{"1.5e+3", "2e+2", "4e+0", "1.0e+10", "6.02e+23", "1e+6", "0.0", "0.5", "1.0", "1.5", "100.0", "3.14159", "0.1", "0.001", "123456789.125", "6.02e23", "5.1e-9", "3e-3", "1e3", "1.0e10", "2.5e-7", "1.7976931348623157e308", "4.9e-324", "0.30000000000000004", "9007199254740993.0"}
	for i := 0; i < 300; i++ {
		f := math.Float64frombits(r.U64())
		if math.IsNaN(f) || math.IsInf(f, 0) || f < 0 {
			continue
		}
		s := strconv.FormatFloat(f, 'e', -1, 64) // d.ddde+XX: Soy wants a lower-case e and digits on both sides of the point
		if !strings.Contains(s, ".") {
			s = strings.Replace(s, "e", ".0e", 1)
		}
		floats = append(floats, s) // with the explicit '+' of the exponent
		s = strings.Replace(s, "e+", "e", 1)
		floats = append(floats, s)
		if f > 1e-5 && f < 1e15 {
			p := strconv.FormatFloat(f, 'f', -1, 64)
			if !strings.Contains(p, ".") {
				p += ".0"
			}
			floats = append(floats, p)
		}
	}
	for _, src := range floats {
		rep.Evaluations++
		want, _ := strconv.ParseFloat(src, 64)
		n, e := parseLit(src)
		if e != "" {
			viol("float", src, e, strconv.FormatFloat(want, 'g', -1, 64))
			continue
		}
		fn, ok := n.(*ast.FloatNode)
		if !ok || fn.Value != want {
			viol("float", src, fmt.Sprintf("%T %v", n, n), strconv.FormatFloat(want, 'g', -1, 64))
			continue
		}
		rep.DistinctNT++
	}
	// 5. a sample through a compiled template: what is printed is the literal's value
	var body, want strings.Builder
	k := 0
	for cp := 0x21; cp < 0x10000; cp += 211 {
		if cp >= 0xd800 && cp <= 0xdfff || cp == '{' || cp == '}' {
			continue
		}
		body.WriteString(fmt.Sprintf("{'\\u%04X'|noAutoescape}", cp))
		want.WriteString(string(rune(cp)))
		k++
	}
	body.WriteString("{0x1F}{9007199254740993}{'\\\\\\'\\n'|noAutoescape}")
	want.WriteString("319007199254740993\\'\n")
	rep.Evaluations++
	reg, err := compileBundle([]srcFile{{"l.soy", "{namespace l}\n/** */\n{template .t}\n" + body.String() + "\n{/template}\n"}})
	if err != nil {
		viol("rendered-sample", "template of "+strconv.Itoa(k)+" \\uXXXX prints", "COMPILE-ERR "+err.Error(), "compiles")
	} else if out, class := renderSafe(reg, "l.t", toData(map[string]interface{}{}), nil); class != "OK" || out != want.String() {
		viol("rendered-sample", "template of "+strconv.Itoa(k)+" \\uXXXX prints", class+" "+quote([]byte(firstDiffCtx(out, want.String()))), "the code points themselves")
	} else {
		rep.DistinctNT++
	}
	rep.Samples = append(rep.Samples, "'\\u8000' = U+8000", "0x7FFFFFFFFFFFFFFF", "4.9e-324")
}

func firstDiffCtx(a, b string) string {
	i := 0
	for i < len(a) && i < len(b) && a[i] == b[i] {
		i++
	}
	lo := i - 8
	if lo < 0 {
		lo = 0
	}
	hi := i + 8
	if hi > len(a) {
		hi = len(a)
	}
	return fmt.Sprintf("at byte %d: …%s…", i, a[lo:hi])
}
