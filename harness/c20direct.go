package main

// In-process checks of C20 on Go values that the description language cannot express:
// predeclared types with embedded unexported structs, and pointers to the data.Value types themselves.

import (
	"fmt"

	"github.com/robfig/soy/data"
)

type c20inner struct{ A int }
type C20Emb struct{ A int }
type c20outerUnexp struct {
	c20inner
	B string
}
type c20outerExp struct {
	C20Emb
	B string
}

func isSoyValue(v data.Value) bool {
	switch v.(type) {
	case data.Undefined, data.Null, data.Bool, data.Int, data.Float, data.String, data.List, data.Map:
		return true
	}
	return false
}

func directC20conv(g *G, r *Report) {
	add := func(key, what, input, observed string) {
		r.Violations = append(r.Violations, Viol{Key: key, What: what, Req: "direct: " + input, Impl: observed})
	}
	r.Evaluations += 4
	// embedded unexported struct: skipped; embedded exported struct: a nested map under its lowerCamel type name
	if m, ok := data.New(c20outerUnexp{c20inner{1}, "x"}).(data.Map); !ok || len(m) != 1 || !m.Key("b").Equals(data.String("x")) {
		add("embedded-unexported", "struct with an embedded unexported struct did not convert to {b: x}", "c20outerUnexp{c20inner{1}, \"x\"}", fmt.Sprint(m))
	}
	if m, ok := data.New(c20outerExp{C20Emb{1}, "x"}).(data.Map); !ok || len(m) != 2 || !m.Key("b").Equals(data.String("x")) ||
		!data.Map(m.Key("c20Emb").(data.Map)).Key("a").Equals(data.Int(1)) {
		add("embedded-exported", "struct with an embedded exported struct did not convert to {b: x, c20Emb: {a: 1}}", "c20outerExp{C20Emb{1}, \"x\"}", fmt.Sprint(m))
	}
	// a pointer to one of the value types implements data.Value itself and is returned unchanged
	x := data.Int(5)
	v := data.New(&x)
	if !isSoyValue(v) {
		add("pointer-to-data-value",
			fmt.Sprintf("data.New(&x) with x := data.Int(5) returns a %T, which is none of the eight value types; v.Equals(data.Int(5)) = %v but data.Int(5).Equals(v) = %v",
				v, v.Equals(data.Int(5)), data.Int(5).Equals(v)),
			"x := data.Int(5); v := data.New(&x)", fmt.Sprintf("%T", v))
	}
	m := data.Map{"a": data.Int(1)}
	if v := data.New(&m); !isSoyValue(v) {
		add("pointer-to-data-value", fmt.Sprintf("data.New(&m) with m := data.Map{\"a\": data.Int(1)} returns a %T, which is none of the eight value types", v),
			"m := data.Map{\"a\": data.Int(1)}; v := data.New(&m)", fmt.Sprintf("%T", v))
	}
}
