package main

import (
	"crypto/sha256"
	"encoding/hex"
	"os"
	"strconv"
	"strings"

	"github.com/robfig/soy/errortypes"
	"github.com/robfig/soy/parse"
)

// C05file / C19parse: whole-file parsing.  The worker answers
//   OK <digest of the tree>  |  ERR <file> <line> <col> <numbers-in-message-ok>  |  PANIC
// and the pool adds HANG / CRASH / OOM.  (No Lean model of the file-level parser yet: these
// cases are oracle-only; the lexer and the expression parser below it are modelled.)

func init() {
	implOps["parsefile"] = func(f []string) string {
		name, _ := unhx(f[0])
		src, _ := unhx(f[1])
		n, err := parse.SoyFile(string(name), string(src)) // runtime panics propagate to answer(): PANIC
		if err != nil {
			fp, ok := err.(errortypes.ErrFilePos)
			if !ok {
				return "ERR ? 0 0 0"
			}
			// the same numbers must appear in the message text: "template <file>:<line>:<col>: …"
			want := fp.File() + ":" + strconv.Itoa(fp.Line()) + ":" + strconv.Itoa(fp.Col())
			inMsg := "0"
			if strings.Contains(err.Error(), want) {
				inMsg = "1"
			}
			return "ERR " + hxs(fp.File()) + " " + strconv.Itoa(fp.Line()) + " " + strconv.Itoa(fp.Col()) + " " + inMsg
		}
		h := sha256.Sum256([]byte(sxFile(n)))
		return "OK " + hex.EncodeToString(h[:8])
	}
	register(&Prop{
		ID: "C05file",
		Rule: "whole files: every prefix of the repository's testdata and of generated bundle files, sequences of up to 3 (quick) / 4 (thorough) tags from the full tag dictionary at file, template and block level, " +
			"token deletions/duplications/swaps, random bytes incl. invalid UTF-8; oracle: parse.SoyFile returns a tree or an error value (never PANIC/HANG/CRASH/OOM); non-trivial = the input is not a valid file",
		Gen:     genC05file,
		Timeout: 3e9,
		Oracle: func(c *Case, impl string) *Viol {
			if strings.HasPrefix(impl, "OK ") || strings.HasPrefix(impl, "ERR ") {
				return nil
			}
			return &Viol{Key: "parse-" + strings.Fields(impl+" ?")[0] + ":" + c.Note, What: "parse.SoyFile did not return a tree or an error: " + impl, Want: "OK|ERR"}
		},
	})
	register(&Prop{
		ID: "C19parse",
		Rule: "valid generated files with ONE fault injected on a known line (illegal character in a tag, invalid UTF-8, stray closing brace in text, unterminated string / block comment / tag / quoted expression, unknown command, bad number), at every line, and files cut inside a template (blocks left open at the end of the input); " +
			"oracle: the error carries the file name given, a line inside the input that is the line of the injected fault, and the same numbers in its message; non-trivial = the fault is not on the first or last line",
		Gen: genC19parse,
		Oracle: func(c *Case, impl string) *Viol {
			f := strings.Split(c.Req, "\t")
			src, _ := unhx(f[2])
			lines := 1 + strings.Count(string(src), "\n")
			parts := strings.Fields(impl)
			if len(parts) != 5 || parts[0] != "ERR" {
				return &Viol{Key: "c19-no-error:" + c.Note, What: "a file with an injected fault was not rejected with a positioned error: " + impl, Want: "ERR file line col"}
			}
			name, _ := unhx(parts[1])
			line, _ := strconv.Atoi(parts[2])
			given, _ := unhx(f[1])
			if string(name) != string(given) {
				return &Viol{Key: "c19-file:" + c.Note, What: "the parse error does not carry the file name given for the input", Want: string(given)}
			}
			if line < 1 || line > lines {
				return &Viol{Key: "c19-range:" + c.Note, What: "the parse error's line " + parts[2] + " lies outside the input (" + strconv.Itoa(lines) + " lines)", Want: "1.." + strconv.Itoa(lines)}
			}
			if parts[4] != "1" {
				return &Viol{Key: "c19-text:" + c.Note, What: "file:line:col do not appear in the message text", Want: "same numbers in the text"}
			}
			if lohi := strings.SplitN(f[3], "-", 2); len(lohi) == 2 {
				// a construct left open at the end of the input: any line from where it opens to the end of the input
				lo, _ := strconv.Atoi(lohi[0])
				hi, _ := strconv.Atoi(lohi[1])
				if line < lo || line > hi {
					return &Viol{Key: "c19-line:" + c.Class + ":" + c.Note, What: "the error points at line " + parts[2] + ", the construct left open spans lines " + f[3], Want: f[3]}
				}
				return nil
			}
			expect, _ := strconv.Atoi(f[3])
			if line != expect {
				return &Viol{Key: "c19-line:" + c.Class + ":" + c.Note, What: "the error points at line " + parts[2] + ", the fault is on line " + f[3], Want: f[3]}
			}
			return nil
		},
	})
	// C19parse requests carry the expected line as an extra field; the worker ignores it.
	implOps["parsefile19"] = func(f []string) string { return implOps["parsefile"]([]string{f[0], f[1]}) }
}

var tagDict = []string{
	"{namespace a.b}", "{namespace a autoescape=\"false\"}", "{template .t}", "{/template}", "{template .u private=\"true\"}", "/** @param x */", "/**\n * @param? y d\n */",
	"{@param x: int}", "{@param? y: list<string> = [1]}", "{$x}", "{print $x|escapeUri}", "{$x.y?.z[0]|truncate:3,false}", "{if $x}", "{elseif $y > 1}", "{else}", "{/if}",
	"{switch $x}", "{case 1, 2}", "{default}", "{/switch}", "{foreach $i in $l}", "{ifempty}", "{/foreach}", "{for $i in range(3)}", "{/for}", "{let $v: 1 /}", "{let $w}", "{/let}",
	"{call .u /}", "{call .u data=\"all\"}", "{call a.b.u data=\"$x\"}", "{param k: 1 /}", "{param k}", "{/param}", "{/call}", "{css a-b}", "{css $x, c}", "{log}", "{/log}", "{debugger}",
	"{msg desc=\"d\"}", "{msg meaning=\"m\" desc=\"\"}", "{/msg}", "{plural $n}", "{/plural}", "{literal}", "{/literal}", "{sp}", "{nil}", "{\\n}", "{lb}", "{rb}", "{alias a.b.c}",
	"text", " ", "\n", "<b>", "// comment\n", "/* c */", "{{", "}}", "{", "}", "'", "\"", "{delcall x}", "{foo}", "{$x", "{call", "{css", "{@param", "{msg", "{'a' + }",
}

const randAlphabet = "{}/*$.'\"\\ \n@abc019-?:[]()|,="

func genC05file(g *G) {
	add := func(src, class string) {
		g.Add(Case{Req: req("parsefile", hxs("f.soy"), hxs(src)), NT: class != "valid", Class: class, Note: src, NoModel: true})
	}
	// 1. every prefix of the repository's own templates
	for _, fn := range []string{"/repo/testdata/features.soy", "/repo/testdata/simple.soy"} {
		b, err := os.ReadFile(fn)
		if err != nil {
			continue
		}
		s := string(b)
		step := 1
		if g.Quick() {
			step = len(s)/400 + 1
		}
		for i := 0; i <= len(s); i += step {
			add(s[:i], "prefix-testdata")
		}
	}
	// 2. prefixes and mutations of generated files
	bg := newBundleGen(g.R, bundleOpts{msgs: true, directives: true, calls: true})
	nb := g.N(40, 800)
	for i := 0; i < nb; i++ {
		b := bg.bundle()
		s := b.files[0].source()
		add(s, "valid")
		cuts := g.N(25, 60)
		for k := 0; k < cuts; k++ {
			add(s[:g.R.Intn(len(s)+1)], "prefix-generated")
		}
		for k := 0; k < 10; k++ {
			m := mutateSrc(g.R, s)
			if g.R.Bool() {
				m = mutateSrc(g.R, m)
			}
			add(m, "mutated")
		}
	}
	// 3. tag-dictionary sequences at file, template and block level
	maxTags := g.N(3, 4)
	contexts := []string{"%s", "{namespace a}\n%s", "{namespace a}\n{template .t}\n%s\n{/template}", "{namespace a}\n{template .t}\n{if $x}%s{/if}\n{/template}", "{namespace a}\n{template .t}\n{msg desc=\"\"}%s{/msg}\n{/template}"}
	nseq := g.N(6000, 150000)
	for i := 0; i < nseq; i++ {
		n := 1 + g.R.Intn(maxTags)
		var b strings.Builder
		for k := 0; k < n; k++ {
			b.WriteString(tagDict[g.R.Intn(len(tagDict))])
		}
		ctx := contexts[g.R.Intn(len(contexts))]
		add(strings.Replace(ctx, "%s", b.String(), 1), "tag-sequence")
	}
	// exhaustive pairs at template level (thorough) / single tags in every context (quick)
	for _, t1 := range tagDict {
		for _, ctx := range contexts {
			add(strings.Replace(ctx, "%s", t1, 1), "tag-single")
		}
		if !g.Quick() {
			for _, t2 := range tagDict {
				add("{namespace a}\n{template .t}\n"+t1+t2, "tag-pair-eof")
			}
		}
	}
	// 4. random bytes
	nr := g.N(1500, 40000)
	for i := 0; i < nr; i++ {
		l := g.R.Intn(40)
		buf := make([]byte, l)
		for k := range buf {
			switch g.R.Intn(4) {
			case 0:
				buf[k] = byte(g.R.Intn(256))
			default:
				buf[k] = randAlphabet[g.R.Intn(len(randAlphabet))]
			}
		}
		add(string(buf), "random-bytes")
	}
}

// fault injectors for C19: each returns the text to insert (the fault sits on ONE line).
var c19Faults = []struct {
	name    string
	text    string
	lineOff int // the fault sits on this line of text (0 = its first line)
}{
	// multi-line commands: the error belongs to the line of the part that holds the fault
	{"quoted-expr-data-multiline", "{call .zz data=\"$x +\"}\n{param k: 1 /}\n{param j}x{/param}\n{/call}", 0},
	{"quoted-expr-value-multiline", "{call .zz}\n{param j: 1 /}\n{param k value=\"(1\"/}\n{param l: 2 /}\n{/call}", 2},
	{"bad-param-expr-multiline", "{call .zz}\n{param j: 1 /}\n{param k: 1 + /}\n{/call}", 2},
	{"bad-case-multiline", "{switch 1}\n{case 1}a\n{case 2 +}b\n{default}c\n{/switch}", 2},
	{"bad-elseif-multiline", "{if true}\na\n{elseif 1 +}\nb\n{else}\nc\n{/if}", 2},
	{"bad-plural-case-multiline", "{msg desc=\"d\"}\n{plural 1}\n{case x}one\n{default}other\n{/plural}\n{/msg}", 2},
	{"illegal-char-in-tag", "{$x # 1}", 0},
	{"invalid-utf8-in-tag", "{$x \xe9 1}", 0},
	{"invalid-utf8-lone-lead-in-tag", "{$x + \xc3}", 0},
	{"stray-closing-brace", "text } more", 0},
	{"unterminated-string", "{'abc}", 0},
	{"unknown-command", "{/fooo}", 0},
	{"unknown-symbol", "{1 ! 2}", 0},
	{"bad-number", "{08}", 0},
	{"quoted-expr-data", "{call .zz data=\"$x +\"/}", 0},
	{"quoted-expr-value", "{call .zz}{param k value=\"(1\"/}{/call}", 0},
	{"quoted-expr-css", "{css $x +, c}", 0},
	{"unterminated-comment", "/* never closed", 0},
	{"unterminated-tag", "{if $x", 0},
	// a double-brace tag closed by a single brace at the very end of its line: the scanner has looked at the
	// line break when it finds out; the construct is on THIS line
	{"double-brace-closed-once", "{{$x}", 0},
	{"double-brace-closed-once-selfclosing", "{{call .zz /}", 0},
	{"double-brace-closed-once-css", "{{css c}", 0},
	// tags cut off by the end of their line: the scanner skips blanks (and line breaks) looking for what must follow
	{"literal-cut-by-line-end", "text {literal", 0},
	{"header-param-cut-by-line-end", "{@param foo", 0},
	{"header-param-cut-by-line-end-2", "{@param? foo  ", 0},
	// checks made after a whole block has been read
	{"content-outside-plural-multiline", "{msg desc=\"d\"}\nstray\n{plural 1}\n{case 1}one\n{default}other\n{/plural}\n{/msg}", 0},
	// stray text between the params of a call / the cases of a switch, on a line of its own
	{"stray-text-in-call-multiline", "{call .zz}\n{param j: 1 /}\nstray\n\n\n{param k: 2 /}\n{/call}", 2},
	{"stray-text-in-switch-multiline", "{switch 1}\n{case 1}a\n{/switch}{switch 2}\n  stray\n\n{case 2}b\n{/switch}", 3},
	{"double-brace-closed-once-multiline", "{{call .zz}}\n{{param k: 1 /}\n{{/call}}", 1},
	// an unterminated string that begins on a LATER line than its tag: the error stands at the quote, not at the tag's brace
	{"unterminated-string-multiline-print", "{$x +\n 'abc}", 1},
	{"unterminated-string-multiline-print-3", "{$x\n +\n 1 + 'abc | escapeUri}", 2},
	{"unterminated-string-multiline-param", "{call .zz}\n{param k:\n 'abc /}\n{/call}", 2},
	{"unterminated-string-multiline-call-data", "{call .zz\n data=\"$x['abc]\" /}", 1},
}

func genC19parse(g *G) {
	bg := newBundleGen(g.R, bundleOpts{msgs: false, directives: true, calls: true})
	nb := g.N(40, 900)
	for i := 0; i < nb; i++ {
		b := bg.bundle()
		s := b.files[0].source()
		if _, err := soyFileSafe("x", s); err != nil {
			continue
		}
		lines := strings.Split(s, "\n")
		// candidate lines: lines inside a template body that are plain top-level positions.  To stay
		// independent of the body's structure, the fault is put on a line of its own right after the
		// {template …} header or right before {/template}.
		for li, ln := range lines {
			if !(strings.HasPrefix(ln, "{template ") || strings.HasPrefix(ln, "{/template}")) {
				continue
			}
			for _, fl := range c19Faults {
				if g.Quick() && g.R.Intn(3) != 0 {
					continue
				}
				var out []string
				faultLine := 0
				if strings.HasPrefix(ln, "{template ") {
					// skip header params that follow the template tag
					at := li + 1
					for at < len(lines) && strings.HasPrefix(lines[at], "{@param") {
						at++
					}
					out = append(append(append([]string{}, lines[:at]...), strings.Split(fl.text, "\n")...), lines[at:]...)
					faultLine = at + 1 + fl.lineOff
				} else {
					out = append(append(append([]string{}, lines[:li]...), strings.Split(fl.text, "\n")...), lines[li:]...)
					faultLine = li + 1 + fl.lineOff
				}
				src := strings.Join(out, "\n")
				if (fl.name == "unterminated-comment" && strings.Contains(strings.Join(out[faultLine:], "\n"), "*/")) ||
					(fl.name == "unterminated-tag" && strings.ContainsAny(strings.Join(out[faultLine:], "\n"), "}")) {
					continue
				}
				if strings.HasPrefix(fl.name, "unterminated-string") && strings.Contains(strings.Join(out[faultLine:], "\n"), "'") {
					continue // a later quote would close the string: the fault would legitimately surface elsewhere
				}
				nt := faultLine > 1 && faultLine < len(out)
				fname := "dir/file_x.soy"
				if g.R.Intn(6) == 0 {
					// the name is a label: whatever it contains, it is reported as given and the message shows it
					fname = []string{"dir/100%d off.soy", "%s%v%!.soy", "a b\\c.soy", "", "évènement.soy", "%"}[g.R.Intn(6)]
				}
				g.Add(Case{Req: req("parsefile19", hxs(fname), hxs(src), strconv.Itoa(faultLine)), NT: nt,
					Class: fl.name, Note: fl.name + " on line " + strconv.Itoa(faultLine) + " of " + itoa(len(out)) + "\n" + src, NoModel: true})
				if g.R.Intn(4) == 0 {
					// the same file with CR LF line ends (and with a lone CR inside a line): a line is what "\n" ends
					crlf := strings.ReplaceAll(src, "\n", "\r\n")
					g.Add(Case{Req: req("parsefile19", hxs("dir/file_x.soy"), hxs(crlf), strconv.Itoa(faultLine)), NT: nt,
						Class: fl.name + "+crlf", Note: fl.name + " (CR LF) on line " + strconv.Itoa(faultLine) + " of " + itoa(len(out)) + "\n" + crlf, NoModel: true})
				}
			}
		}
	}
	// blocks left open at the end of the input: the file is cut after a line inside a template (so at least the
	// {template} is open); the error must point into the open construct — from the {template} line to the end
	// of the input — not at line 1 (the position of the closed token stream's zero token)
	nb2 := g.N(25, 400)
	for i := 0; i < nb2; i++ {
		b := bg.bundle()
		s := "// c\n\n" + b.files[0].source()
		if _, err := soyFileSafe("x", s); err != nil {
			continue
		}
		lines := strings.Split(s, "\n")
		tmplLine := 0
		for li, ln := range lines {
			if strings.HasPrefix(ln, "{template ") {
				tmplLine = li + 1
			}
			if strings.HasPrefix(ln, "{/template}") {
				tmplLine = 0
				continue
			}
			if tmplLine == 0 || (g.Quick() && g.R.Intn(2) != 0) {
				continue
			}
			for _, tail := range []string{"\n", "", "\n\n  \n"} {
				src := strings.Join(lines[:li+1], "\n") + tail
				if _, err := soyFileSafe("x", src); err == nil {
					continue
				}
				// only cuts that leave every tag complete and the error at the end of input: the cut line must not
				// itself hold a half-open tag, string or comment (those are the faults above)
				if strings.Count(lines[li], "{") != strings.Count(lines[li], "}") || strings.Contains(lines[li], "/*") || strings.Count(lines[li], "'")%2 != 0 || strings.Contains(lines[li], "{literal}") {
					continue
				}
				eof := 1 + strings.Count(src, "\n")
				g.Add(Case{Req: req("parsefile19", hxs("dir/file_x.soy"), hxs(src), strconv.Itoa(tmplLine)+"-"+strconv.Itoa(eof)), NT: tmplLine > 1,
					Class: "unclosed-block", Note: "cut after line " + strconv.Itoa(li+1) + ", template opens on line " + strconv.Itoa(tmplLine) + "\n" + src, NoModel: true})
			}
		}
	}
	// unterminated constructs run to the end of the input: the error is reported where the construct STARTS
	// or at the end of input — the property asks for "the line of the construct that could not be scanned";
	// these are checked for file name and range only (expected line = where the lexer gives up = last line).
}
