// Command vh is the Go side of the /verif machinery for robfig/soy.
//
//	vh worker                 implementation driver: answers protocol lines on stdin using the real code
//	vh corr  <prop> [flags]   correspondence: generated requests -> implementation vs Lean model driver
//	vh tables <dir>           dump the live tables of /repo as Lean source
//	vh replay <file>          re-run one replay file against the current /repo
package main

import (
	"fmt"
	"os"
)

func main() {
	if len(os.Args) < 2 {
		fmt.Fprintln(os.Stderr, "usage: vh worker|corr|tables|replay ...")
		os.Exit(2)
	}
	switch os.Args[1] {
	case "worker":
		workerMain()
	case "corr":
		corrMain(os.Args[2:])
	case "tables":
		tablesMain(os.Args[2:])
	case "replay":
		replayMain(os.Args[2:])
	default:
		fmt.Fprintln(os.Stderr, "unknown subcommand", os.Args[1])
		os.Exit(2)
	}
}
