package main

import (
	"bytes"
	"strconv"
	"sync"

	soy "github.com/robfig/soy"
	"github.com/robfig/soy/data"
	"github.com/robfig/soy/parse"
	"github.com/robfig/soy/soyhtml"
	"github.com/robfig/soy/soyjs"
	"github.com/robfig/soy/template"
)

// C09: concurrent use of one compiled bundle.  This file is meant to run in the
// race-detector build of the harness (`go build -race`): the detector reports races on
// stderr / its log file, which ./check turns into violations; independently, every
// goroutine's output is compared with the sequential output here.

func init() {
	register(&Prop{
		ID: "C09",
		Rule: "generated bundles; G goroutines x R repetitions render the same and different templates of ONE compiled bundle (shared Tofu, shared data maps, shared $ij, shared message-less bundle), " +
			"generate JavaScript for every file concurrently, and compile independent bundles concurrently, under the race detector; oracle: no race report, and every goroutine's bytes = the sequential bytes; " +
			"non-trivial = a (template,data) pair whose sequential render succeeds with non-empty output",
		Direct: directC09,
	})
}

type renderJob struct {
	name string
	d    data.Map
	want string
	ok   bool
}

// racerProbe is added to every racer bundle: prints whose directive lists have 3, 5, 6 and 7 entries that do
// not cancel autoescaping (the parser's slice then has spare capacity: an append by a reader writes into the
// shared tree), marker directives followed by others, content blocks in let / param / log.
const racerProbe = `{namespace rprobe}

/** @param s */
{template .dirs}
{$s|truncate:9|truncate:8|truncate:7}
{$s|truncate:9|truncate:8|truncate:7|truncate:6|truncate:5}
{$s|truncate:9|truncate:8|truncate:7|truncate:6|truncate:5|truncate:4}
{$s|truncate:9|truncate:8|truncate:7|truncate:6|truncate:5|truncate:4|truncate:3}
{$s|noAutoescape|truncate:40}{$s|id|insertWordBreaks:3}{$s|truncate:5|changeNewlineToBr}
{let $c}block {$s}{/let}{$c}{call .wrap}{param body}inner {$s}{/param}{/call}{log}log {$s}{/log}
{/template}

/** @param body */
{template .wrap}
[{$body|noAutoescape}]
{/template}
`

// firstFailuresConcurrently: the first FAILING parses of the process happen in several goroutines at once
// (lazily built tables of the error paths — token names, messages — are initialised under contention).
// Must run before anything else parses a broken source in this process.
func firstFailuresConcurrently(rep *Report) {
	broken := []string{
		"{namespace a}\n{template .t}\n{foreach $x $y}{/foreach}\n{/template}\n",    // expect "in"
		"{namespace a}\n{template .t}\n{call .u}{param k 1/}{/call}\n{/template}\n", // expect ":"
		"{namespace a}\n{template .t}\n{let $x 1/}\n{/template}\n",
		"{namespace a}\n{template .t}\n{if $x}\n{/template}\n",
		"{namespace a}\n{template .t}\n{switch $x}{case}{/switch}\n{/template}\n",
		"{namespace a}\n{template .t}\n{$x ? 1}\n{/template}\n", // expect ":" in ternary
		"{namespace a}\n{template .t}\n{[1, 2}\n{/template}\n",
		"{namespace a}\n{template .t}\n{msg}x{/msg}\n{/template}\n",
	}
	for round := 0; round < 2; round++ {
		var wg sync.WaitGroup
		start := make(chan struct{})
		for w := 0; w < 8; w++ {
			wg.Add(1)
			go func(w int) {
				defer wg.Done()
				<-start
				for k := range broken {
					soy.NewBundle().AddTemplateString("b.soy", broken[(k+w)%len(broken)]).Compile()
					parse.Expr("1 +")
					parse.Expr("f(1,")
				}
			}(w)
		}
		close(start)
		wg.Wait()
		rep.Evaluations += 8 * len(broken)
	}
	rep.Distribution["concurrent-first-failing-parses"] += 2
}

func directC09(g *G, rep *Report) {
	firstFailuresConcurrently(rep)
	providerFallbackConcurrently(rep)
	nb := g.N(25, 400)
	G, R := 8, g.N(6, 12)
	bg := newBundleGen(g.R.Fork(), bundleOpts{msgs: true, directives: true, calls: true})
	seen := map[string]bool{}
	for i := 0; i < nb; i++ {
		b := bg.bundle()
		// identifiers no earlier bundle has used (caches keyed by identifier are then cold for this bundle)
		uniq := "{namespace uq" + strconv.Itoa(i) + "}\n/** @param zq" + strconv.Itoa(i) + "User */\n{template .m}\n{msg desc=\"d\"}Hi {$zq" + strconv.Itoa(i) + "User.firstName" + strconv.Itoa(i) + "} <b>{$zq" + strconv.Itoa(i) + "User.lastName" + strconv.Itoa(i) + "}</b>{/msg}\n{/template}\n"
		fs := append(b.sources(), srcFile{"rprobe.soy", racerProbe}, srcFile{"uniq.soy", uniq})
		// COLD phase 1: the first compilations of these sources happen concurrently, in independent bundles
		coldRegs := make([]*template.Registry, G)
		{
			var wg sync.WaitGroup
			start := make(chan struct{})
			for w := 0; w < G; w++ {
				wg.Add(1)
				go func(w int) {
					defer wg.Done()
					<-start
					bb := soy.NewBundle()
					for _, f := range fs {
						bb.AddTemplateString(f.name, f.content)
					}
					coldRegs[w], _ = bb.Compile()
				}(w)
			}
			close(start)
			wg.Wait()
		}
		structsConcurrently(rep, i, G)
		reg, err := compileBundle(fs)
		if err != nil {
			continue
		}
		// a third of the bundles run with an obligatory print directive installed (a user-extensible registry)
		if i%3 == 0 {
			soyhtml.PrintDirectives["verifMark"] = soyhtml.PrintDirective{
				Apply:           func(v data.Value, _ []data.Value) data.Value { return data.String(v.String() + "!") },
				ValidArgLengths: []int{0},
			}
			soyhtml.ObligatoryPrintDirectiveNames = []string{"verifMark"}
			rep.Distribution["with-obligatory-directive"]++
		} else {
			soyhtml.ObligatoryPrintDirectiveNames = nil
			rep.Distribution["default-registries"]++
		}
		ij := toData(map[string]interface{}{"s": "ij<s>", "n": int64(3)})
		var jobs []renderJob
		for _, f := range b.files {
			for _, t := range f.tmpls {
				d := toData(bg.dataFor(t))
				var buf bytes.Buffer
				err := soyhtml.NewTofu(reg).NewRenderer(t.full()).Inject(ij).Execute(&buf, d)
				jobs = append(jobs, renderJob{t.full(), d, buf.String(), err == nil})
				if err == nil && buf.Len() > 0 && !seen[buf.String()] {
					seen[buf.String()] = true
					rep.DistinctNT++
				}
			}
		}
		{
			d := toData(map[string]interface{}{"s": "a<b>&c d\ne f g h i j k"})
			var buf bytes.Buffer
			err := soyhtml.NewTofu(reg).NewRenderer("rprobe.dirs").Inject(ij).Execute(&buf, d)
			jobs = append(jobs, renderJob{"rprobe.dirs", d, buf.String(), err == nil})
		}
		// sequential JS per file
		wantJS := map[string]string{}
		for _, sf := range reg.SoyFiles {
			var buf bytes.Buffer
			soyjs.Write(&buf, sf, soyjs.Options{})
			wantJS[sf.Name] = buf.String()
		}
		tofu := soyhtml.NewTofu(reg)
		var wg sync.WaitGroup
		var mu sync.Mutex
		// COLD phase 2: the first renders and JS generations of a registry nobody has rendered yet happen concurrently
		if cold := coldRegs[0]; cold != nil {
			coldTofu := soyhtml.NewTofu(cold)
			var cwg sync.WaitGroup
			start := make(chan struct{})
			for w := 0; w < G; w++ {
				cwg.Add(1)
				go func(w int) {
					defer cwg.Done()
					<-start
					for k := range jobs {
						j := jobs[(k+w)%len(jobs)]
						var buf bytes.Buffer
						err := coldTofu.NewRenderer(j.name).Inject(ij).Execute(&buf, j.d)
						if (err == nil) != j.ok || buf.String() != j.want {
							mu.Lock()
							if len(rep.Violations) < 20 {
								rep.Violations = append(rep.Violations, Viol{Key: "concurrent-output-differs:cold render of " + j.name, What: "a first render of a freshly compiled bundle, concurrent with others, produced different bytes than the sequential run",
									Req: req("racer", encSources(fs)), Note: j.name, Impl: buf.String(), Want: j.want})
							}
							mu.Unlock()
						}
					}
					if w%2 == 1 {
						for _, sf := range cold.SoyFiles {
							var buf bytes.Buffer
							soyjs.Write(&buf, sf, soyjs.Options{})
						}
					}
				}(w)
			}
			close(start)
			cwg.Wait()
			rep.Distribution["cold-bundles"]++
		} else {
			rep.Distribution["cold-compile-failed"]++
		}
		mismatch := func(what, got, want string) {
			mu.Lock()
			defer mu.Unlock()
			if len(rep.Violations) < 20 {
				rep.Violations = append(rep.Violations, Viol{Key: "concurrent-output-differs:" + what, What: "a concurrent " + what + " produced different bytes than the sequential run",
					Req: req("racer", encSources(fs)), Note: what, Impl: got, Want: want})
			}
		}
		for w := 0; w < G; w++ {
			wg.Add(1)
			go func(w int) {
				defer wg.Done()
				for r := 0; r < R; r++ {
					// renders: goroutine w starts at a different job so that same and different templates overlap
					for k := range jobs {
						j := jobs[(k+w)%len(jobs)]
						var buf bytes.Buffer
						err := tofu.NewRenderer(j.name).Inject(ij).Execute(&buf, j.d)
						if (err == nil) != j.ok || buf.String() != j.want {
							mismatch("render of "+j.name, buf.String(), j.want)
						}
					}
					// JS generation from the shared registry
					if w%2 == 0 {
						for _, sf := range reg.SoyFiles {
							var buf bytes.Buffer
							soyjs.Write(&buf, sf, soyjs.Options{})
							if buf.String() != wantJS[sf.Name] {
								mismatch("JS generation of "+sf.Name, buf.String(), wantJS[sf.Name])
							}
						}
					}
					// compilation of an independent bundle (same sources, fresh Bundle)
					if w%4 == 1 && r == 0 {
						if reg2, err := compileBundle(fs); err != nil || len(reg2.Templates) != len(reg.Templates) {
							mismatch("compilation", "differs", "same registry")
						}
					}
				}
			}(w)
		}
		wg.Wait()
		rep.Evaluations += G * R * len(jobs)
		if len(rep.Samples) < 3 && len(jobs) > 0 {
			rep.Samples = append(rep.Samples, strconv.Itoa(G)+" goroutines x "+strconv.Itoa(R)+" x "+jobs[0].name+" => "+jobs[0].want)
		}
	}
	soyhtml.ObligatoryPrintDirectiveNames = nil
	rep.Extra["goroutines"] = G
	rep.Extra["repetitions"] = R
	rep.Extra["race_detector"] = raceEnabled
	_ = template.Registry{}
}
