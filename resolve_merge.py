#!/usr/bin/env python3
"""Resolve the routine merge conflicts of agent branches (both sides add imports / ops lines): keep both."""
import re, sys
for p in sys.argv[1:]:
    t = open(p).read()
    def both(m):
        a, b = m.group(1), m.group(2)
        a = a.rstrip("\n"); b = b.rstrip("\n")
        if "Ops." in a and "++" in a + b and "import" not in a:
            # ops list: join with ++
            al = [x.strip().rstrip("+").strip() for x in re.split(r"\+\+|\n", a) if x.strip().rstrip("+").strip()]
            bl = [x.strip().rstrip("+").strip() for x in re.split(r"\+\+|\n", b) if x.strip().rstrip("+").strip()]
            seen = []
            for x in al + bl:
                if x not in seen:
                    seen.append(x)
            return "  " + " ++\n  ".join(seen) + "\n"
        lines = []
        for x in (a + "\n" + b).split("\n"):
            if x not in lines:
                lines.append(x)
        return "\n".join(lines) + "\n"
    t = re.sub(r"<<<<<<< HEAD\n(.*?)=======\n(.*?)>>>>>>> [^\n]*\n", both, t, flags=re.S)
    open(p, "w").write(t)
