/-
  Model driver: one request per line on stdin, one answer per line on stdout.
  Core-only (imports nothing that touches Mathlib) so it links as a `lean_exe`.
-/
import SoyVerif.Base.Bytes
import SoyVerif.Model.RawText
import SoyVerif.Spec.JoinLines

open SoyVerif

def optBytes : Option Bytes → String
  | some b => "OK " ++ Bytes.toHexWire b
  | none => "PANIC"

def flag (s : String) : Bool := s == "1"

def handle (op : String) (f : List String) : String :=
  match op, f with
  | "rawtext", [s, tb, ta] =>
    match Bytes.ofHex s with
    | some b => optBytes (Model.rawtext b (flag tb) (flag ta))
    | none => "BADREQ"
  | "spec-rawtext", [s, tb, ta] =>
    match Bytes.ofHex s with
    | some b => "OK " ++ Bytes.toHexWire (Spec.joinLines b (flag tb) (flag ta))
    | none => "BADREQ"
  | _, _ => "BADOP"

partial def loop (h : IO.FS.Stream) (out : IO.FS.Stream) : IO Unit := do
  let line ← h.getLine
  if line.isEmpty then return ()
  let line := (line.dropEndWhile (· == '\n')).toString
  let parts := line.splitOn "\t"
  let ans := match parts with
    | op :: f => handle op f
    | [] => "BADREQ"
  out.putStrLn ans
  out.flush
  loop h out

def main : IO Unit := do
  loop (← IO.getStdin) (← IO.getStdout)
