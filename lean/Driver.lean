/-
  Model driver: one request per line on stdin (`op<TAB>field<TAB>…`), one answer per
  line on stdout.  Core-only (imports nothing that touches Mathlib) so it links as a
  `lean_exe`.  Each model area registers its operations in `SoyVerif/Ops/<Area>.lean`.
-/
import SoyVerif.Ops.Common
import SoyVerif.Ops.RawText
import SoyVerif.Ops.Ast
import SoyVerif.Ops.Parser
import SoyVerif.Ops.Check
import SoyVerif.Ops.Writer
import SoyVerif.Ops.Escape
import SoyVerif.Ops.Value
import SoyVerif.Ops.Json
import SoyVerif.Ops.Msg
import SoyVerif.Ops.JsGen
import SoyVerif.Ops.JsSem
import SoyVerif.Ops.JsParse
import SoyVerif.Ops.Lexer
import SoyVerif.Ops.FileParser
import SoyVerif.Ops.Eval
import SoyVerif.Ops.EvalSpec

open SoyVerif SoyVerif.Ops

def allOps : List Op :=
  Ops.FileParser.ops ++   -- first: its `leak` handles mode `file` and delegates mode `expr`
  Ops.RawText.ops ++
  Ops.Ast.ops ++
  Ops.Parser.ops ++
  Ops.Check.ops ++
  Ops.Writer.ops ++
  Ops.Escape.ops ++
  Ops.Value.ops ++
  Ops.Json.ops ++
  Ops.Msg.ops ++
  Ops.JsGen.ops ++
  Ops.JsSem.ops ++
  Ops.JsParse.ops ++
  Ops.Lexer.ops ++
  Ops.Eval.ops ++
  Ops.EvalSpec.ops

def handle (op : String) (f : List String) : String :=
  match allOps.find? (·.1 == op) with
  | some (_, h) => h f
  | none => "BADOP"

partial def loop (h : IO.FS.Stream) (out : IO.FS.Stream) : IO Unit := do
  let line ← h.getLine
  if line.isEmpty then return ()
  let line := (line.dropEndWhile (· == '\n')).toString
  let parts := line.splitOn "\t"
  let ans := match parts with
    | op :: f => handle op f
    | [] => "BADREQ"
  out.putStrLn ans
  out.flush
  loop h out

def main : IO Unit := do
  loop (← IO.getStdin) (← IO.getStdout)
