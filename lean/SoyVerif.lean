-- Root of the `SoyVerif` library: everything `./setup.sh` pre-builds.
import SoyVerif.Base.Bytes
import SoyVerif.Base.SExp
import SoyVerif.Base.Utf8
import SoyVerif.Model.Token
import SoyVerif.Model.Ast
import SoyVerif.Model.AstWire
import SoyVerif.Model.Printer
import SoyVerif.Model.Quote
import SoyVerif.Model.Parser
import SoyVerif.Model.Check
import SoyVerif.Model.Registry
import SoyVerif.Model.Writer
import SoyVerif.Props.C15
import SoyVerif.Props.C12
import SoyVerif.Props.C03
import SoyVerif.Props.C16
import SoyVerif.Inst.C03
