import SoyVerif.Base.Bytes
import SoyVerif.Props.C15
