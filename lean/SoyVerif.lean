import SoyVerif.Base.Bytes
import SoyVerif.Props.C15
import SoyVerif.Props.C05
