/-
  Big-step semantics of the JavaScript EXPRESSION fragment the generator emits for literal,
  arithmetic, comparison and boolean Soy expressions — written from ECMA-262 (5.1 §11: unary `-`
  and `!`, `* % + -`, relational and equality operators, `&& ||`, the conditional operator), NOT
  from the generator.

  It is the semantics of the COMMON SUBSET only (property C04): a number is an integer that a
  double represents exactly (|i| ≤ 2^53) and an operation whose exact result leaves that range is
  `unspec`; operand types outside the subset (an arithmetic operator on a non-number, a
  relational operator on non-numbers, `==` across types, `&&`/`||` on non-booleans — all of which
  JavaScript defines through ToNumber / ToPrimitive coercions) are `unspec` as well.  Where the
  semantics answers `val v`, `v` is what every ES5 engine computes.
-/
import SoyVerif.Base.Bytes
import SoyVerif.Base.F64

namespace SoyVerif.Spec.JsSem
open SoyVerif

inductive JsOp where
  | mul | mod | add | sub | eq | ne | lt | le | gt | ge | and | or
  deriving DecidableEq, Repr

/-- the shapes of expression text the generator writes (parentheses as written) -/
inductive JsExpr where
  | null
  | bool (b : Bool)
  | num (i : Int)
  | str (s : Bytes)
  /-- `(- a)` -/
  | neg (a : JsExpr)
  /-- `!(a)` -/
  | not (a : JsExpr)
  /-- `((a) op (b))` -/
  | bin (op : JsOp) (a b : JsExpr)
  /-- `((c) ?a:b)` -/
  | cond (c a b : JsExpr)
  /-- `((a) != null ? a' : b)` -/
  | nonNull (a a' b : JsExpr)
  deriving Repr

inductive JVal where
  | null
  | bool (b : Bool)
  | num (i : Int)
  | str (s : Bytes)
  deriving DecidableEq, Repr

inductive JOut where
  | val (v : JVal)
  | unspec
  deriving DecidableEq, Repr

def JOut.bind (o : JOut) (f : JVal → JOut) : JOut :=
  match o with
  | .val v => f v
  | .unspec => .unspec

def two53 : Int := 9007199254740992

/-- an integer a double holds exactly -/
def exact (i : Int) : Bool := decide (-two53 ≤ i ∧ i ≤ two53)

def numRes (i : Int) : JOut := if exact i then .val (.num i) else .unspec

/-- ToBoolean (§9.2) -/
def toBoolean : JVal → Bool
  | .null => false
  | .bool b => b
  | .num i => i != 0
  | .str s => !s.isEmpty

/-- ToString (§9.8) on the values of the fragment -/
def toStr : JVal → Bytes
  | .null => [110, 117, 108, 108]
  | .bool b => if b then [116, 114, 117, 101] else [102, 97, 108, 115, 101]
  | .num i => F64.intDigits i
  | .str s => s

def isStr : JVal → Bool
  | .str _ => true
  | _ => false

/-- the strict binary operators -/
def binop (op : JsOp) (a b : JVal) : JOut :=
  match op with
  | .add =>
    match a, b with
    | .num x, .num y => numRes (x + y)
    | _, _ => if isStr a || isStr b then .val (.str (toStr a ++ toStr b)) else .unspec
  | .sub => match a, b with
    | .num x, .num y => numRes (x - y)
    | _, _ => .unspec
  | .mul => match a, b with
    | .num x, .num y => numRes (x * y)
    | _, _ => .unspec
  | .mod => match a, b with
    | .num x, .num y => if y == 0 then .unspec else numRes (Int.tmod x y)   -- NaN for y = 0
    | _, _ => .unspec
  | .lt => match a, b with
    | .num x, .num y => .val (.bool (decide (x < y)))
    | _, _ => .unspec
  | .le => match a, b with
    | .num x, .num y => .val (.bool (decide (x ≤ y)))
    | _, _ => .unspec
  | .gt => match a, b with
    | .num x, .num y => .val (.bool (decide (y < x)))
    | _, _ => .unspec
  | .ge => match a, b with
    | .num x, .num y => .val (.bool (decide (y ≤ x)))
    | _, _ => .unspec
  | .eq => match a, b with
    | .null, .null => .val (.bool true)
    | .bool x, .bool y => .val (.bool (x == y))
    | .num x, .num y => .val (.bool (x == y))
    | .str x, .str y => .val (.bool (x == y))
    | _, _ => .unspec
  | .ne => match a, b with
    | .null, .null => .val (.bool false)
    | .bool x, .bool y => .val (.bool (!(x == y)))
    | .num x, .num y => .val (.bool (!(x == y)))
    | .str x, .str y => .val (.bool (!(x == y)))
    | _, _ => .unspec
  | .and => .unspec
  | .or => .unspec

/-- evaluation (expressions of the fragment have no side effects and no free variables) -/
def eval : JsExpr → JOut
  | .null => .val .null
  | .bool b => .val (.bool b)
  | .num i => if exact i then .val (.num i) else .unspec      -- the literal itself must be exact
  | .str s => .val (.str s)
  | .neg a => (eval a).bind fun v => match v with
    | .num i => numRes (-i)
    | _ => .unspec
  | .not a => (eval a).bind fun v => .val (.bool (!toBoolean v))
  | .bin .and a b => (eval a).bind fun va => match va with
    | .bool false => .val (.bool false)                         -- `&&` returns its left operand
    | .bool true => (eval b).bind fun vb => match vb with
      | .bool y => .val (.bool y)
      | _ => .unspec
    | _ => .unspec
  | .bin .or a b => (eval a).bind fun va => match va with
    | .bool true => .val (.bool true)
    | .bool false => (eval b).bind fun vb => match vb with
      | .bool y => .val (.bool y)
      | _ => .unspec
    | _ => .unspec
  | .bin op a b => (eval a).bind fun va => (eval b).bind fun vb => binop op va vb
  | .cond c a b => (eval c).bind fun vc => if toBoolean vc then eval a else eval b
  | .nonNull a a' b => (eval a).bind fun va => match va with
    | .null => eval b
    | _ => eval a'

end SoyVerif.Spec.JsSem
