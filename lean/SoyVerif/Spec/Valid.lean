/-
  Declarative specification of property C07: the data-reference rules of a bundle.

  Written from the property statement, not from parsepasses/datarefcheck.go: there is
  no checker state here.  A reference `$k` is interpreted in its LEXICAL ENVIRONMENT
  (`Env`, the {let} and loop variables whose scope contains the reference, innermost
  last) by the relation `Resolves`; "a let / a param is used" is an existential over the
  reference occurrences of a region of the tree (`refs…`, the resolved free reference
  occurrences of a subtree under an environment).

  Rules (names as in the property statement):
    R1 `RefBound`   every reference is bound: `$ij`, an enclosing let whose tag precedes the
                    reference, an enclosing loop whose BODY contains it, or a declared param
    R2 `ParamUsed`  every declared param is the target of some reference, or is passed on by
                    a `{call … data="all"}` to a callee that declares it
    R3 `LetUsed`    every let is the target of some reference in its scope (innermost binding wins)
    R4 `LetNameOk`  no let is called `ij`
    R5 `CallOk`     the callee exists, only declared params are passed, all required params
                    are passed unless the call has a `data=` expression
    R6              no `{@param}` node is left in a template body
    R_loopfn `LoopArgOk`  every occurrence of `index` / `isFirst` / `isLast` has exactly one argument,
                    a plain reference `$x` (no access), and `x` is the variable of a loop whose BODY
                    contains the occurrence (a {let} of the same name inside that body does not matter:
                    the functions speak about the loop)

  Scopes: a let binds from just after its own tag to the end of the innermost enclosing
  node that has children (command list of a template / if-branch / case / loop body /
  ifempty / let or param content / log; a msg placeholder).  The position of a binding in
  the environment (its *level*) identifies it: environments only grow at the end, so a
  level means the same binding throughout the scope of that binding.
-/
import SoyVerif.Model.Ast
import SoyVerif.Model.Check

namespace SoyVerif.Spec
open SoyVerif SoyVerif.Model

/-- the name `ij` -/
def ijName : Bytes := [105, 106]

/-- a variable introduced by {let} (`isLet`) or by a loop -/
structure Binding where
  name : Bytes
  isLet : Bool
  deriving Repr, DecidableEq, Inhabited

/-- lexical environment: the let/loop variables in scope, innermost LAST -/
abbrev Env := List Binding

/-- what a reference denotes -/
inductive Target where
  | ij                       -- the injected data
  | var (level : Nat)        -- the binding at this position of the environment
  | param (name : Bytes)     -- a declared param of the template
  deriving Repr, DecidableEq, Inhabited

/-- `t` is not a variable of level `n` or above (it survives leaving a scope entered at level `n`) -/
def Target.below (n : Nat) : Target → Bool
  | .var i => decide (i < n)
  | _ => true

/-- `Resolves params env k t`: the reference `$k` in environment `env` of a template that declares
    `params` denotes `t`.  `ij` first, then the INNERMOST variable called `k`, then a param. -/
inductive Resolves (params : List Bytes) (env : Env) (k : Bytes) : Target → Prop where
  | ij : k = ijName → Resolves params env k .ij
  | var (i : Nat) (b : Binding) :
      k ≠ ijName → env[i]? = some b → b.name = k →
      (∀ j b', i < j → env[j]? = some b' → b'.name ≠ k) →
      Resolves params env k (.var i)
  | param : k ≠ ijName → (∀ b ∈ env, b.name ≠ k) → k ∈ params → Resolves params env k (.param k)

/-- level of the innermost (last) binding called `k` -/
def lastIndex (k : Bytes) : Env → Option Nat
  | [] => none
  | b :: rest =>
    match lastIndex k rest with
    | some i => some (i + 1)
    | none => if b.name = k then some 0 else none

/-- the function computing `Resolves` (see `resolve_eq_some_iff`) -/
def resolve (params : List Bytes) (env : Env) (k : Bytes) : Option Target :=
  if k = ijName then some .ij
  else match lastIndex k env with
    | some i => some (.var i)
    | none => if k ∈ params then some (.param k) else none

/-! ### reference occurrences of expressions (expressions bind nothing) -/

mutual
  /-- the keys of the references `$k…` occurring in an expression, in source order -/
  def exprKeys : Expr → List Bytes
    | .dataRef _ key acc => key :: accessKeys acc
    | .func _ _ args => exprsKeys args
    | .list _ items => exprsKeys items
    | .map _ items => mapKeys items
    | .not _ a => exprKeys a
    | .neg _ a => exprKeys a
    | .bin _ _ a b => exprKeys a ++ exprKeys b
    | .tern _ c a b => exprKeys c ++ (exprKeys a ++ exprKeys b)
    | _ => []
  def exprsKeys : ExprList → List Bytes
    | .nil => []
    | .cons e r => exprKeys e ++ exprsKeys r
  def mapKeys : MapItems → List Bytes
    | .nil => []
    | .cons _ e r => exprKeys e ++ mapKeys r
  def accessKeys : AccessList → List Bytes
    | .nil => []
    | .cons a r =>
      (match a with
       | .expr _ _ e => exprKeys e
       | _ => []) ++ accessKeys r
end

/-! ### occurrences of the loop functions

  `index($x)`, `isFirst($x)`, `isLast($x)` speak about a loop: each occurrence is listed, in source
  order, as the function's name and its argument list. -/

/-- an occurrence of a loop function: its name and its arguments -/
abbrev LoopOcc := Bytes × ExprList

mutual
  def exprLoops : Expr → List LoopOcc
    | .dataRef _ _ acc => accessLoops acc
    | .func _ name args => (if Check.loopFn name then [(name, args)] else []) ++ exprsLoops args
    | .list _ items => exprsLoops items
    | .map _ items => mapLoops items
    | .not _ a => exprLoops a
    | .neg _ a => exprLoops a
    | .bin _ _ a b => exprLoops a ++ exprLoops b
    | .tern _ c a b => exprLoops c ++ (exprLoops a ++ exprLoops b)
    | _ => []
  def exprsLoops : ExprList → List LoopOcc
    | .nil => []
    | .cons e r => exprLoops e ++ exprsLoops r
  def mapLoops : MapItems → List LoopOcc
    | .nil => []
    | .cons _ e r => exprLoops e ++ mapLoops r
  def accessLoops : AccessList → List LoopOcc
    | .nil => []
    | .cons a r =>
      (match a with
       | .expr _ _ e => exprLoops e
       | _ => []) ++ accessLoops r
end

def optLoops : Option Expr → List LoopOcc
  | none => []
  | some e => exprLoops e

def listLoops : List Expr → List LoopOcc
  | [] => []
  | e :: r => exprLoops e ++ listLoops r

def dirsLoops : List Directive → List LoopOcc
  | [] => []
  | d :: r => listLoops d.args ++ dirsLoops r

def optKeys : Option Expr → List Bytes
  | none => []
  | some e => exprKeys e

def listKeys : List Expr → List Bytes
  | [] => []
  | e :: r => exprKeys e ++ listKeys r

def dirsKeys : List Directive → List Bytes
  | [] => []
  | d :: r => listKeys d.args ++ dirsKeys r

/-- the keys of the `{param}`s of a call -/
def callKeys : ParamList → List Bytes
  | .nil => []
  | .value _ k _ r => k :: callKeys r
  | .content _ k _ r => k :: callKeys r

/-- the binding a command leaves behind for the commands that follow it in the same list -/
def decl : Cmd → List Binding
  | .letValue _ name _ => [{ name := name, isLet := true }]
  | .letContent _ name _ => [{ name := name, isLet := true }]
  | _ => []

/-! ### the rules -/

section
variable (reg : List Check.Template) (params : List Bytes)

/-- R1 for the references of an expression position -/
def RefBound (env : Env) (k : Bytes) : Prop := ∃ t, Resolves params env k t

def KeysBound (env : Env) (ks : List Bytes) : Prop := ∀ k ∈ ks, RefBound params env k

/-- R_loopfn for one occurrence of a loop function: it is applied to one plain reference `$x`, and
    `x` names the variable of an enclosing `{foreach}` / `{for}` (some binding of that name in scope is
    a loop variable; a `{let}` of the same name inside the loop does not matter) -/
def LoopArgOk (env : Env) (o : LoopOcc) : Prop :=
  ∃ x, Check.loopArg o.2 = some x ∧ ∃ b ∈ env, b.name = x ∧ b.isLet = false

def LoopsOk (env : Env) (ls : List LoopOcc) : Prop := ∀ o ∈ ls, LoopArgOk env o

/-- R1 and R_loopfn for an expression position with reference keys `ks` and loop-function
    occurrences `ls` -/
def ExprsOk (env : Env) (ks : List Bytes) (ls : List LoopOcc) : Prop :=
  KeysBound params env ks ∧ LoopsOk env ls

/-- the resolved reference occurrences among `ks` -/
def refsKeys (env : Env) (ks : List Bytes) : List Target := ks.filterMap (resolve params env)

/-- R3: the let at `level` is the target of one of the reference occurrences of its scope -/
def LetUsed (level : Nat) (scopeRefs : List Target) : Prop := Target.var level ∈ scopeRefs

/-- R4 -/
def LetNameOk (name : Bytes) : Prop := name ≠ ijName

/-- `Registry.Template(name)`: the first template of that name -/
def callee (name : Bytes) : Option Check.Template := reg.find? (fun t => decide (t.name = name))

/-- the caller's params that a `data="all"` call hands to a callee declaring them -/
def passedByAll (name : Bytes) (allData : Bool) : List Bytes :=
  match allData, callee reg name with
  | true, some c => params.filter (fun p => decide (p ∈ c.params.map (·.name)))
  | _, _ => []

/-- R5 -/
def CallOk (name : Bytes) (allData hasData : Bool) (keys : List Bytes) : Prop :=
  ∃ c, callee reg name = some c ∧
    (∀ k ∈ keys, k ∈ c.params.map (·.name)) ∧
    (hasData = false →
      ∀ p ∈ c.params, p.optional = false → p.name ∈ passedByAll reg params name allData ++ keys)

mutual
  /-- the resolved FREE reference occurrences of a command in environment `env`: the targets of
      its references that are not bound inside the command itself (plus, for a `data="all"` call,
      the params it passes on) -/
  def refsCmd (env : Env) : Cmd → List Target
    | .print _ a dirs => refsKeys params env (exprKeys a ++ dirsKeys dirs)
    | .msg _ _ _ _ _ body => refsParts env body
    | .css _ e _ => refsKeys params env (optKeys e)
    | .log _ b => refsBlock env b
    | .ifc _ conds => refsConds env conds
    | .forc _ v l b ie =>
      refsKeys params env (exprKeys l)
        ++ ((refsBlock (env ++ [{ name := v, isLet := false }]) b).filter (Target.below env.length)
        ++ (match ie with
            | some b' => refsBlock env b'
            | none => []))
    | .switch _ v cases => refsKeys params env (exprKeys v) ++ refsCases env cases
    | .call _ name allData d ps =>
      (passedByAll reg params name allData).map Target.param
        ++ (refsKeys params env (optKeys d) ++ refsParams env ps)
    | .letValue _ _ e => refsKeys params env (exprKeys e)      -- not in the scope of the variable
    | .letContent _ _ b => refsBlock env b                      -- not in the scope of the variable
    | .template _ _ b _ _ => refsBlock env b
    | _ => []
  /-- a command list is a scope: references to the lets declared in it are not free -/
  def refsBlock (env : Env) : Block → List Target
    | .mk _ cmds => (refsCmds env cmds).filter (Target.below env.length)
  /-- a let binds in the commands that follow it -/
  def refsCmds (env : Env) : CmdList → List Target
    | .nil => []
    | .cons c r => refsCmd env c ++ refsCmds (env ++ decl c) r
  def refsConds (env : Env) : CondList → List Target
    | .nil => []
    | .cons _ c b r => (refsKeys params env (optKeys c) ++ refsBlock env b) ++ refsConds env r
  def refsCases (env : Env) : CaseList → List Target
    | .nil => []
    | .cons _ vs b r => (refsBlock env b ++ refsKeys params env (listKeys vs)) ++ refsCases env r
  def refsParams (env : Env) : ParamList → List Target
    | .nil => []
    | .value _ _ e r => refsKeys params env (exprKeys e) ++ refsParams env r
    | .content _ _ b r => refsBlock env b ++ refsParams env r
  def refsParts (env : Env) : MsgParts → List Target
    | .nil => []
    | .text _ _ r => refsParts env r
    | .ph _ _ body r =>
      (match body with
       | .htmlTag .. => []
       | .cmd c => refsCmd env c) ++ refsParts env r
    | .plural _ _ v cases _ d r =>
      (refsKeys params env (exprKeys v) ++ (refsPlCases env cases ++ refsParts env d)) ++ refsParts env r
  def refsPlCases (env : Env) : PluralCases → List Target
    | .nil => []
    | .cons _ _ _ b r => refsParts env b ++ refsPlCases env r
end

mutual
  /-- the rules R1, R3–R6 and R_loopfn for a command in environment `env` -/
  def OkCmd (env : Env) : Cmd → Prop
    | .print _ a dirs => ExprsOk params env (exprKeys a ++ dirsKeys dirs) (exprLoops a ++ dirsLoops dirs)
    | .msg _ _ _ _ _ body => OkParts env body
    | .css _ e _ => ExprsOk params env (optKeys e) (optLoops e)
    | .log _ b => OkBlock env b
    | .ifc _ conds => OkConds env conds
    | .forc _ v l b ie =>
      ExprsOk params env (exprKeys l) (exprLoops l)                          -- the list is outside the loop variable's scope
        ∧ (OkBlock (env ++ [{ name := v, isLet := false }]) b    -- only the body is inside
        ∧ (match ie with
           | some b' => OkBlock env b'
           | none => True))
    | .switch _ v cases => ExprsOk params env (exprKeys v) (exprLoops v) ∧ OkCases env cases
    | .call _ name allData d ps =>
      CallOk reg params name allData d.isSome (callKeys ps)      -- R5
        ∧ (ExprsOk params env (optKeys d) (optLoops d) ∧ OkParams env ps)
    | .letValue _ name e => LetNameOk name ∧ ExprsOk params env (exprKeys e) (exprLoops e)   -- R4
    | .letContent _ name b => LetNameOk name ∧ OkBlock env b                      -- R4
    | .headerParam .. => False                                                     -- R6
    | .template _ _ b _ _ => OkBlock env b
    | _ => True
  def OkBlock (env : Env) : Block → Prop
    | .mk _ cmds => OkCmds env cmds
  /-- R3: a let must be the target of a reference among the commands that follow it -/
  def OkCmds (env : Env) : CmdList → Prop
    | .nil => True
    | .cons c r =>
      OkCmd env c
        ∧ (decl c ≠ [] → LetUsed env.length (refsCmds reg params (env ++ decl c) r))
        ∧ OkCmds (env ++ decl c) r
  def OkConds (env : Env) : CondList → Prop
    | .nil => True
    | .cons _ c b r => (ExprsOk params env (optKeys c) (optLoops c) ∧ OkBlock env b) ∧ OkConds env r
  def OkCases (env : Env) : CaseList → Prop
    | .nil => True
    | .cons _ vs b r => (OkBlock env b ∧ ExprsOk params env (listKeys vs) (listLoops vs)) ∧ OkCases env r
  def OkParams (env : Env) : ParamList → Prop
    | .nil => True
    | .value _ _ e r => ExprsOk params env (exprKeys e) (exprLoops e) ∧ OkParams env r
    | .content _ _ b r => OkBlock env b ∧ OkParams env r
  def OkParts (env : Env) : MsgParts → Prop
    | .nil => True
    | .text _ _ r => OkParts env r
    | .ph _ _ body r =>
      (match body with
       | .htmlTag .. => True
       | .cmd c => OkCmd env c ∧ decl c = [])     -- R3: nothing follows a let here, it cannot be used
        ∧ OkParts env r
    | .plural _ _ v cases _ d r =>
      (ExprsOk params env (exprKeys v) (exprLoops v) ∧ (OkPlCases env cases ∧ OkParts env d)) ∧ OkParts env r
  def OkPlCases (env : Env) : PluralCases → Prop
    | .nil => True
    | .cons _ _ _ b r => OkParts env b ∧ OkPlCases env r
end

end

/-! ### R1 on its own: the reference occurrences with their lexical environments

  `occsCmd env c` lists every reference `$k` of the subtree together with the environment at
  that point.  (`OkCmd` implies that each of them is bound: `Lemmas.Check.ok_occs_bound`.) -/

/-- a reference occurrence: the environment at the reference, and its key -/
abbrev Occ := Env × Bytes

def occsKeys (env : Env) (ks : List Bytes) : List Occ := ks.map fun k => (env, k)

mutual
  def occsCmd (env : Env) : Cmd → List Occ
    | .print _ a dirs => occsKeys env (exprKeys a ++ dirsKeys dirs)
    | .msg _ _ _ _ _ body => occsParts env body
    | .css _ e _ => occsKeys env (optKeys e)
    | .log _ b => occsBlock env b
    | .ifc _ conds => occsConds env conds
    | .forc _ v l b ie =>
      occsKeys env (exprKeys l)
        ++ (occsBlock (env ++ [{ name := v, isLet := false }]) b
        ++ (match ie with
            | some b' => occsBlock env b'
            | none => []))
    | .switch _ v cases => occsKeys env (exprKeys v) ++ occsCases env cases
    | .call _ _ _ d ps => occsKeys env (optKeys d) ++ occsParams env ps
    | .letValue _ _ e => occsKeys env (exprKeys e)
    | .letContent _ _ b => occsBlock env b
    | .template _ _ b _ _ => occsBlock env b
    | _ => []
  def occsBlock (env : Env) : Block → List Occ
    | .mk _ cmds => occsCmds env cmds
  def occsCmds (env : Env) : CmdList → List Occ
    | .nil => []
    | .cons c r => occsCmd env c ++ occsCmds (env ++ decl c) r
  def occsConds (env : Env) : CondList → List Occ
    | .nil => []
    | .cons _ c b r => (occsKeys env (optKeys c) ++ occsBlock env b) ++ occsConds env r
  def occsCases (env : Env) : CaseList → List Occ
    | .nil => []
    | .cons _ vs b r => (occsBlock env b ++ occsKeys env (listKeys vs)) ++ occsCases env r
  def occsParams (env : Env) : ParamList → List Occ
    | .nil => []
    | .value _ _ e r => occsKeys env (exprKeys e) ++ occsParams env r
    | .content _ _ b r => occsBlock env b ++ occsParams env r
  def occsParts (env : Env) : MsgParts → List Occ
    | .nil => []
    | .text _ _ r => occsParts env r
    | .ph _ _ body r =>
      (match body with
       | .htmlTag .. => []
       | .cmd c => occsCmd env c) ++ occsParts env r
    | .plural _ _ v cases _ d r =>
      (occsKeys env (exprKeys v) ++ (occsPlCases env cases ++ occsParts env d)) ++ occsParts env r
  def occsPlCases (env : Env) : PluralCases → List Occ
    | .nil => []
    | .cons _ _ _ b r => occsParts env b ++ occsPlCases env r
end

/-- R1 for a template: every reference occurrence of the body is bound -/
def AllRefsBound (t : Check.Template) : Prop :=
  ∀ o ∈ occsBlock [] t.body, RefBound (t.params.map (·.name)) o.1 o.2

/-- R2: the param is the target of a free reference occurrence of the body (or is passed on by `data="all"`) -/
def ParamUsed (reg : List Check.Template) (params : List Bytes) (body : Block) (p : Bytes) : Prop :=
  Target.param p ∈ refsBlock reg params [] body

def ValidTemplate (reg : List Check.Template) (t : Check.Template) : Prop :=
  OkBlock reg (t.params.map (·.name)) [] t.body
    ∧ ∀ p ∈ t.params.map (·.name), ParamUsed reg (t.params.map (·.name)) t.body p

/-- the bundle satisfies the data-reference rules -/
def Valid (reg : List Check.Template) : Prop := ∀ t ∈ reg, ValidTemplate reg t

end SoyVerif.Spec
