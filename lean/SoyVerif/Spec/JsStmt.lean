/-
  Big-step semantics of the JavaScript STATEMENT fragment the generator emits inside a template
  function, on top of the expression semantics of Spec/JsSemRef:

      buf += 'text';                       (raw text)
      buf += dN(…d1(e, a…)…, a…);          (print: a nest of library calls around an expression)
      var x = e;
      if (c) {…} else if (c') {…} else {…}
      var n = xs.length;   var x = xs[i];                       (the pieces of a foreach loop,
      if (n > 0) {…} else {…}   for (var i = 0; i < n; i++) {…}  over variables)

  Written from ECMA-262 5.1, NOT from the generator:
    * §12.2  `var x = e` — evaluate, assign; a `var` is FUNCTION-scoped: a block `{…}` opens no
      scope (§12.1), so what a branch declares stays visible after it.  `locals` is the function's
      variable environment; an assignment puts the new binding in front (the first binding of a
      name is the current one).
    * §11.13.2  `x += e` is `x = x + e`; reading an undeclared `x` is a ReferenceError — here
      `unspec` (Spec/JsSemRef: `.local`), and `+` is §11.6.1 as in `JsSemRef.binop .add`
      (string concatenation once one side is a string; ToString of the common primitives only).
    * §12.5  `if` — ToBoolean of the condition.
    * §12.11  `switch` — the value is compared with `===` to the labels in order; the generator closes
      every clause with `break` and writes `default:` last, so exactly the first matching clause runs.
    * §12.6.3  `for (var i = 0; i < n; i++) body` — initialise; then, as long as `i < n` (§11.8.1 on
      numbers), run the body and increment (§11.3.1: `i++` on a number).  A run is a finite
      unfolding: `fuel` bounds the number of iterations, running out of it is `unspec`.
    * §11.2.1  `xs[i]` with `i` a number is the property ToString(i): the element, or `undefined`.
    * a call of a TEMPLATE function `ns.t(data, opt_sb, opt_ijData)` is `G name data`: the callee's own run (the same
      semantics one call level down, Props/C04d); soy.$$augmentMap(base, {k: v, …}) is read as the object whose
      properties are looked up in the literal first, then in `base`.
    * a call of a library function (`soy.$$escapeHtml(x)`, `soy.$$truncate(x, 5, true)`, …) is
      UNINTERPRETED: `F name args` is what the function the generator writes for the directive
      `|name:args` computes from its first argument (strict: an error in the argument is the error).
      The directive arguments are literals in the fragment (Props/C04d), so `args` names them.

  `error` = an exception was thrown, `unspec` = outside the common subset.
-/
import SoyVerif.Spec.JsSemRef
import SoyVerif.Model.Ast

namespace SoyVerif.Spec.JsStmt
open SoyVerif SoyVerif.Spec.JsSemRef
open SoyVerif.Model (Directive Expr)

/-- the data argument of a call of a template function, before the parameters: `{}`, `opt_data`, an expression -/
inductive DataBase where
  | empty
  | all
  | expr (e : JsExpr)

mutual
  inductive JsStmt where
    /-- `buf += 'text';` -/
    | appendLit (buf : Bytes) (text : Bytes)
    /-- `buf += dN(…d1(e, args1)…, argsN);` — `ds` lists the calls INNERMOST FIRST -/
    | append (buf : Bytes) (e : JsExpr) (ds : List Directive)
    /-- `var x = e;` -/
    | var (x : Bytes) (e : JsExpr)
    /-- `var x = '';` -/
    | varEmpty (x : Bytes)
    /-- `if (c1) {…} else if (c2) {…} … [else {…}]` -/
    | ifs (conds : JsConds)
    /-- `var x = list.length;` -/
    | varLength (x list : Bytes)
    /-- `var x = list[idx];` -/
    | varIndex (x list idx : Bytes)
    /-- `for (var i = 0; i < lim; i++) {…}` -/
    | forUp (i lim : Bytes) (body : JsStmts)
    /-- `if (lim > 0) {…} else {…}` -/
    | ifPos (lim : Bytes) (body els : JsStmts)
    /-- `if (idx == 0) {…}` (the `{ifempty}` of a range loop: no iteration happened) -/
    | ifZero (idx : Bytes) (body : JsStmts)
    /-- `for (var i = init, idx = 0; i < lim; i += step, idx++) {…}` (lim, step: variables) -/
    | forStep (i lim step idx : Bytes) (init : JsExpr) (body : JsStmts)
    /-- `switch (e) { case v: … break; … default: … break; }` -/
    | switchS (e : JsExpr) (cases : JsCases)
    /-- `buf += callee(DATA, opt_sb, opt_ijData);` with DATA = the base, or `soy.$$augmentMap(base, {k: v, …})` when there
        are parameters -/
    | call (buf : Bytes) (callee : Bytes) (base : DataBase) (params : List (Bytes × JsExpr))
    /-- `switch (e) { case n: … break; … default: … }` with integer labels (a `{plural}` without a message bundle) -/
    | pluralS (e : JsExpr) (cases : JsPlural) (dflt : JsStmts)
    /-- `buf += e + '-';` (the expression part of a `{css}` command) -/
    | appendCss (buf : Bytes) (e : JsExpr)
    /-- `debugger;` (§12.15: without a debugger attached, nothing) -/
    | debuggerS
  inductive JsStmts where
    | nil
    | cons (s : JsStmt) (rest : JsStmts)
  inductive JsConds where
    | nil
    /-- the final `else {…}` -/
    | els (body : JsStmts)
    | cons (c : JsExpr) (body : JsStmts) (rest : JsConds)
  /-- the clauses of a `switch`, every one closed by `break;`, a `default:` clause last -/
  inductive JsCases where
    | nil
    | dflt (body : JsStmts)
    | cons (labels : List JsExpr) (body : JsStmts) (rest : JsCases)
  /-- the `case n:` clauses of a plural switch, each closed by `break;` (the `default:` clause follows them) -/
  inductive JsPlural where
    | nil
    | cons (v : Int) (body : JsStmts) (rest : JsPlural)
end

def JsStmts.append : JsStmts → JsStmts → JsStmts
  | .nil, b => b
  | .cons s r, b => .cons s (JsStmts.append r b)

def JsStmts.one (s : JsStmt) : JsStmts := .cons s .nil

/-- the completion of a statement list: the variable environment it leaves, or an abrupt one -/
inductive SRes where
  | ok (env : JEnv)
  | error
  | unspec

def SRes.bind (r : SRes) (k : JEnv → SRes) : SRes :=
  match r with
  | .ok env => k env
  | .error => .error
  | .unspec => .unspec

/-- `x = v` (PutValue on a declared or newly declared variable of the function) -/
def setLocal (env : JEnv) (x : Bytes) (v : JVal) : JEnv := { env with locals := (x, v) :: env.locals }

/-- run `k` on the value of an expression; its abrupt completion is the statement's -/
def withVal (o : JOut) (k : JVal → SRes) : SRes :=
  match o with
  | .val v => k v
  | .error => .error
  | .unspec => .unspec

/-- `i++` (§11.3.1) on a number of the subset -/
def incr (v : JVal) : JOut :=
  match v with
  | .num x => numRes (x + 1)
  | _ => .unspec

/-- §12.6.3, after the initialisation: test, body, increment — at most `fuel` tests -/
def execLoop (body : JEnv → SRes) (i lim : Bytes) : Nat → JEnv → SRes
  | 0, _ => .unspec
  | fuel + 1, env =>
    withVal (eval env (.bin .lt (.local i) (.local lim))) fun c =>
      if toBoolean c then
        (body env).bind fun env1 =>
          withVal (eval env1 (.local i)) fun v => withVal (incr v) fun r =>
            execLoop body i lim fuel (setLocal env1 i r)
      else .ok env

/-- `for (…; i < lim; i += step, idx++)` after the initialisation (§12.6.3; `i += e` is `i = i + e`, §11.13.2; the
    comma expression evaluates left to right, §11.14) -/
def execLoopStep (body : JEnv → SRes) (i lim step idx : Bytes) : Nat → JEnv → SRes
  | 0, _ => .unspec
  | fuel + 1, env =>
    withVal (eval env (.bin .lt (.local i) (.local lim))) fun c =>
      if toBoolean c then
        (body env).bind fun env1 =>
          withVal (eval env1 (.bin .add (.local i) (.local step))) fun r =>
            withVal (eval (setLocal env1 i r) (.local idx)) fun v => withVal (incr v) fun r2 =>
              execLoopStep body i lim step idx fuel (setLocal (setLocal env1 i r) idx r2)
      else .ok env

/-- `a === b` (§11.9.6) on the primitives of the subset: different types are different; `undefined` and
    object identity are outside the subset -/
def strictEq : JVal → JVal → Option Bool
  | .null, .null => some true
  | .bool a, .bool b => some (a == b)
  | .num a, .num b => some (a == b)
  | .str a, .str b => some (a == b)
  | .undefined, _ => none
  | _, .undefined => none
  | .arr _, _ => none
  | .obj _, _ => none
  | _, .arr _ => none
  | _, .obj _ => none
  | _, _ => some false

/-- does the switch value equal (===) one of the labels?  The labels are evaluated in order, up to the first hit (§12.11) -/
def matchLabels (env : JEnv) (v : JVal) : List JsExpr → Option (JOut ⊕ Bool)
  | [] => some (.inr false)
  | l :: r =>
    match eval env l with
    | .val w =>
      (match strictEq v w with
        | some true => some (.inr true)
        | some false => matchLabels env v r
        | none => none)
    | o => some (.inl o)

/-- `list[idx]` on variables -/
def indexVar (env : JEnv) (list idx : Bytes) : JOut :=
  (eval env (.local list)).bind fun l => (eval env (.local idx)).bind fun i =>
    match i with
    | .num n => getIndex l n
    | _ => .unspec

/-- the object a call passes, from the base object and the evaluated parameters: soy.$$augmentMap(base, extra) is an
    object whose own properties are those of `extra` and whose prototype is `base` — a property is looked up in
    `extra` first; in an object literal a later duplicate key wins (§11.1.5), so the later parameters come first -/
def evalParams (env : JEnv) : List (Bytes × JsExpr) → List (Bytes × JVal) → JOut ⊕ List (Bytes × JVal)
  | [], acc => .inr acc
  | (k, e) :: r, acc =>
    match eval env e with
    | .val v => evalParams env r ((k, v) :: acc)
    | o => .inl o

/-- a callee: the name of the function, the data object, the injected data (`undefined` when absent) -/
abbrev Callee := Bytes → JVal → Option (List (Bytes × JVal)) → JOut

def evalBase (env : JEnv) : DataBase → JOut
  | .empty => .val (.obj [])
  | .all => .val (.obj env.optData)
  | .expr e => eval env e

section
-- `G name data ij`: what the template function `name` returns on the data object `data` and the injected data `ij`
-- (`callee(data, opt_sb, opt_ijData)`; its own run: Props/C04d)
variable (F : Bytes → List Expr → JVal → JOut) (G : Callee) (fuel : Nat)

/-- the library calls around a value, innermost first; strict -/
def applyCalls (ds : List Directive) (o : JOut) : JOut :=
  ds.foldl (fun acc d => acc.bind (F d.name d.args)) o

/-- `buf += v` -/
def appendTo (env : JEnv) (buf : Bytes) (v : JVal) : SRes :=
  withVal (eval env (.local buf)) fun a => withVal (binop .add a v) fun r => .ok (setLocal env buf r)

mutual
  def execStmt : JsStmt → JEnv → SRes
    | .appendLit buf t, env => appendTo env buf (.str t)
    | .append buf e ds, env => withVal (applyCalls F ds (eval env e)) fun v => appendTo env buf v
    | .var x e, env => withVal (eval env e) fun v => .ok (setLocal env x v)
    | .varEmpty x, env => .ok (setLocal env x (.str []))
    | .ifs conds, env => execConds conds env
    | .varLength x list, env => withVal (eval env (.call1 .length (.local list))) fun v => .ok (setLocal env x v)
    | .varIndex x list idx, env => withVal (indexVar env list idx) fun v => .ok (setLocal env x v)
    | .forUp i lim body, env => execLoop (execStmts body) i lim fuel (setLocal env i (.num 0))
    | .forStep i lim step idx init body, env =>
      withVal (eval env init) fun v =>
        execLoopStep (execStmts body) i lim step idx fuel (setLocal (setLocal env i v) idx (.num 0))
    | .switchS e cases, env => withVal (eval env e) fun v => execCases cases v env
    | .appendCss buf e, env =>
      -- `e + '-'` with a string operand: ToString of `e` (a primitive of the subset), then the hyphen
      withVal (eval env e) fun v =>
        match toStr? v with
        | some s => appendTo env buf (.str (s ++ [45]))
        | none => .unspec
    | .debuggerS, env => .ok env
    | .pluralS e cases dflt, env =>
      withVal (eval env e) fun v =>
        match v with
        | .num i =>
          (match execPlural cases i env with
            | some r => r
            | none => execStmts dflt env)
        | _ => .unspec           -- a plural over a value that is no number: the default clause in JavaScript; outside the subset
    | .call buf callee base params, env =>
      withVal (evalBase env base) fun b =>
        match b, evalParams env params [] with
        | .obj bkvs, .inr extra => withVal (G callee (.obj (extra ++ bkvs)) env.ijData) fun r => appendTo env buf r
        | .obj _, .inl .error => .error
        | _, _ => .unspec           -- a base that is no object, an argument outside the subset
    | .ifZero idx body, env =>
      withVal (eval env (.loopFirst idx)) fun c => if toBoolean c then execStmts body env else .ok env
    | .ifPos lim body els, env =>
      withVal (eval env (.bin .gt (.local lim) (.num 0))) fun c =>
        if toBoolean c then execStmts body env else execStmts els env
  def execStmts : JsStmts → JEnv → SRes
    | .nil, env => .ok env
    | .cons s r, env => (execStmt s env).bind fun env' => execStmts r env'
  def execConds : JsConds → JEnv → SRes
    | .nil, env => .ok env
    | .els body, env => execStmts body env
    | .cons c body rest, env =>
      withVal (eval env c) fun v => if toBoolean v then execStmts body env else execConds rest env
  /-- §12.11 with every clause closed by `break` and `default` last: the first clause with a matching label runs -/
  def execCases : JsCases → JVal → JEnv → SRes
    | .nil, _, env => .ok env
    | .dflt body, _, env => execStmts body env
    | .cons labels body rest, v, env =>
      match matchLabels env v labels with
      | some (.inr true) => execStmts body env
      | some (.inr false) => execCases rest v env
      | some (.inl .error) => .error
      | _ => .unspec
  /-- §12.11: a number against integer labels under `===` -/
  def execPlural : JsPlural → Int → JEnv → Option SRes
    | .nil, _, _ => none                   -- no label matched: the default clause
    | .cons v body rest, i, env =>
      if SoyVerif.Spec.JsSem.exact v then (if i == v then some (execStmts body env) else execPlural rest i env)
      else some .unspec
end

end

/-! ## functions

  A generated template function

      name = function(opt_data, opt_sb, opt_ijData) {
        opt_data = opt_data || {};        // only when every declared parameter is optional
        var output = '';
        body
        return output;
      };

  and the call of one by name through the table of the functions loaded (§13.2.1 [[Call]]: a fresh environment, the
  parameter bound to the argument; `return` of the output variable).  The calls a body makes go through the same
  table, one level of `depth` down; `depth` 0 and a name that is not in the table are `unspec`. -/

structure JsFunc where
  name : Bytes
  optional : Bool
  body : JsStmts

/-- `opt_data = opt_data || {}` -/
def defaultData (optional : Bool) (d : JVal) : JVal := if optional && !toBoolean d then .obj [] else d

def sOutputVar : Bytes := [111, 117, 116, 112, 117, 116]

def callFn (F : Bytes → List Expr → JVal → JOut) (table : List JsFunc) (fuel : Nat) : Nat → Callee
  | 0, _, _, _ => .unspec
  | depth + 1, name, data, ij =>
    match table.find? (fun f => f.name == name) with
    | none => .unspec
    | some f =>
      match defaultData f.optional data with
      | .obj kvs =>
        (match execStmts F (callFn F table fuel depth) fuel f.body ⟨kvs, ij, [(sOutputVar, .str [])]⟩ with
          | .ok e =>
            (match e.locals.find? (·.1 == sOutputVar) with
              | some kv => .val kv.2
              | none => .unspec)
          | .error => .error
          | .unspec => .unspec)
      | _ => .unspec           -- `opt_data.k` of a primitive: outside the subset

end SoyVerif.Spec.JsStmt
