/-
  Specification side of escapeUri (C16), written from the property statement and
  application/x-www-form-urlencoded decoding — NOT from the code:

  * `queryUnescape`: `+` is a space, `%XY` (two hex digits, either case) is the byte XY, every
    other byte stands for itself; a `%` not followed by two hex digits is malformed (`none`).
  * `urlSafe s`: only unreserved characters [A-Za-z0-9-_.~] and `+` `%` occur.
-/
import SoyVerif.Base.Bytes

namespace SoyVerif.Spec

def hexDigitVal (b : UInt8) : Option Nat :=
  if 48 ≤ b && b ≤ 57 then some (b.toNat - 48)
  else if 65 ≤ b && b ≤ 70 then some (b.toNat - 55)
  else if 97 ≤ b && b ≤ 102 then some (b.toNat - 87)
  else none

def queryUnescape : Bytes → Option Bytes
  | [] => some []
  | 37 :: h :: l :: r =>
    match hexDigitVal h, hexDigitVal l, queryUnescape r with
    | some x, some y, some t => some (UInt8.ofNat (x * 16 + y) :: t)
    | _, _, _ => none
  | b :: r =>
    if b == 37 then none
    else match queryUnescape r with
      | some t => some ((if b == 43 then 32 else b) :: t)
      | none => none

def isUnreserved (b : UInt8) : Bool :=
  (97 ≤ b && b ≤ 122) || (65 ≤ b && b ≤ 90) || (48 ≤ b && b ≤ 57) || b == 45 || b == 95 || b == 46 || b == 126

def urlSafe (s : Bytes) : Bool := s.all fun b => isUnreserved b || b == 43 || b == 37

end SoyVerif.Spec
