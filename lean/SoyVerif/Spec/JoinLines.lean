/-
  Specification of Soy's line-joining rule for raw template text (property C15),
  written from the language documentation, independently of the state machine in
  parse/rawtext.go:

  * the text is split into maximal whitespace runs (space, tab, CR, LF) and maximal
    non-whitespace chunks;
  * every chunk is kept verbatim;
  * a whitespace run WITHOUT a line break is kept verbatim — except a leading run
    when the caller asks to trim before, and a trailing run when it asks to trim after;
  * a whitespace run WITH a line break is removed at either end of the text, and
    inside the text becomes a single space, or nothing when the byte before or the
    byte after it is '<' or '>'.

  No byte is special beyond that: in particular NUL is an ordinary character.  (Until /repo
  4eb5547 the Go code used rune 0 for "no neighbour", so NUL counted like '<' / '>', and this
  specification recorded that quirk as `tight b = … || b == 0`; the code now uses a mark that
  decoding never yields, and the rule is exactly the documented one on EVERY byte string.)
  `lastByte` / `firstByte` are only ever applied to chunks, which `tokenize` never leaves empty;
  their default value plays no role.
-/
import SoyVerif.Base.Bytes

namespace SoyVerif.Spec

def isWs (b : UInt8) : Bool := b == 32 || b == 9 || b == 13 || b == 10
def isNL (b : UInt8) : Bool := b == 13 || b == 10
def hasNL (w : Bytes) : Bool := w.any isNL
def tight (b : UInt8) : Bool := b == 60 || b == 62

inductive Tok where
  | ws (w : Bytes)
  | chunk (c : Bytes)
  deriving Repr, DecidableEq

/-- maximal runs: consecutive bytes of the same class are merged -/
def tokenize : Bytes → List Tok
  | [] => []
  | b :: rest =>
    match tokenize rest with
    | Tok.ws w :: ts => if isWs b then Tok.ws (b :: w) :: ts else Tok.chunk [b] :: Tok.ws w :: ts
    | Tok.chunk c :: ts => if isWs b then Tok.ws [b] :: Tok.chunk c :: ts else Tok.chunk (b :: c) :: ts
    | [] => if isWs b then [Tok.ws [b]] else [Tok.chunk [b]]

def lastByte (c : Bytes) : UInt8 := c.getLast?.getD 0
def firstByte (c : Bytes) : UInt8 := c.head?.getD 0

/-- rendering of an inner whitespace run between a chunk ending in `p` and one starting with `q` -/
def innerWs (p q : UInt8) (w : Bytes) : Bytes :=
  if !hasNL w then w else if tight p || tight q then [] else [32]

/-- rendering of a whitespace run at an end of the text (`trim` = caller asked to trim there) -/
def edgeWs (trim : Bool) (w : Bytes) : Bytes :=
  if hasNL w || trim then [] else w

/-- the tokens behind a chunk; `p` is the last byte of that chunk -/
def renderRest (ta : Bool) (p : UInt8) : List Tok → Bytes
  | [] => []
  | [Tok.ws w] => edgeWs ta w
  | Tok.ws w :: Tok.chunk c :: ts => innerWs p (firstByte c) w ++ c ++ renderRest ta (lastByte c) ts
  | Tok.chunk c :: ts => c ++ renderRest ta (lastByte c) ts     -- (not produced by tokenize after a chunk)
  | Tok.ws w :: ts => innerWs p p w ++ renderRest ta p ts        -- (not produced by tokenize: two runs in a row)

def render (tb ta : Bool) : List Tok → Bytes
  | [] => []
  | [Tok.ws w] => if hasNL w || tb || ta then [] else w
  | Tok.ws w :: Tok.chunk c :: ts => edgeWs tb w ++ c ++ renderRest ta (lastByte c) ts
  | Tok.chunk c :: ts => c ++ renderRest ta (lastByte c) ts
  | Tok.ws w :: ts => edgeWs tb w ++ render tb ta ts             -- (not produced by tokenize: two runs in a row)

def joinLines (s : Bytes) (tb ta : Bool) : Bytes := render tb ta (tokenize s)

end SoyVerif.Spec
