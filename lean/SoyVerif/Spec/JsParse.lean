/-
  A READER of JavaScript source text for the fragment soyjs emits: tokenizer, parser, and the reading of the
  syntax tree as the ASTs of Spec/JsSemRef (`JsExpr`) and Spec/JsStmt (`JsStmt`, `JsFunc`) whose semantics the
  C04 theorems are about.  Written from ECMA-262 5.1 (§7 lexical grammar, §11 expressions, §12 statements, §13
  function definitions, §14 program), NOT from the generator.  It is a SUB-grammar: whatever is outside it is
  REJECTED (`none`), never read differently from ECMA-262.

  1. TOKENS (§7).  InputElementDiv is never needed (no division, no regular expression in the fragment: a `/` that
     does not start a `//` comment is rejected).
       WhiteSpace / LineTerminator   TAB SP LF CR            (the others: rejected)
       SingleLineComment             `//` up to LF / CR      (a raw U+2028 / U+2029 inside: rejected; `/*`: rejected)
       IdentifierName                ASCII letters, digits, `$`, `_`   (no unicode escapes, no non-ASCII letters)
       DecimalIntegerLiteral         `0` | NonZeroDigit Digits*; the next character must not be an IdentifierStart
                                     or digit (§7.8.3); a fraction / exponent / hex literal is rejected
       StringLiteral                 '…' only; the body is read by Spec/JsString `jsUnescape` (strict: \\ \' \" \uXXXX
                                     with surrogate pairs, no raw control byte, quote or < > & =), giving the UTF-8 value
       Punctuator                    §7.7, the longest match
     No automatic semicolon insertion: every statement of the fragment carries its `;`.
  2. SYNTAX TREE and PARSER (§11 – §14): `PE` expressions (PrimaryExpression: Identifier, null / true / false, number,
     string, ObjectLiteral with IdentifierName keys, parentheses; MemberExpression / CallExpression `.name` `[e]`
     `(args)`; PostfixExpression `++`; UnaryExpression `-` `!` `typeof`; the left-associative binary levels `* %`,
     `+ -`, `< > <= >=`, `== != === !==`, `&&`, `||`; ConditionalExpression; AssignmentExpression `=` `+=`),
     `PS` statements (Block, VariableStatement, EmptyStatement, ExpressionStatement, `if`, `for (var …; …; …)`,
     `return`, `break`, `switch`), and a program of statements and `name = function(params) { body };` definitions.
     The parser is recursive descent along the grammar's levels, bounded by a fuel that the top-level entry points set
     to the number of tokens.
  3. READING (`readE`, `readS`, `readFunc`): which tree is which node of `JsExpr` / `JsStmt` — the inverse of the
     concrete syntax written next to the constructors in Spec/JsSemRef and Spec/JsStmt.
-/
import SoyVerif.Base.BLit
import SoyVerif.Spec.JsString
import SoyVerif.Spec.Json
import SoyVerif.Spec.JsSemRef
import SoyVerif.Spec.JsStmt
import SoyVerif.Gen.JsTables

namespace SoyVerif.Spec.JsParse
open SoyVerif SoyVerif.Spec
open SoyVerif.Spec.Json (digitsVal isDigit)

/-! ## 1. tokens -/

inductive Tok where
  /-- IdentifierName (reserved words included) -/
  | id (s : Bytes)
  /-- DecimalIntegerLiteral -/
  | num (n : Nat)
  /-- StringLiteral: its value -/
  | str (v : Bytes)
  /-- Punctuator -/
  | p (s : Bytes)
  deriving DecidableEq, Repr, Inhabited

def isIdStart (c : UInt8) : Bool := (65 ≤ c && c ≤ 90) || (97 ≤ c && c ≤ 122) || c == 36 || c == 95
def isIdPart (c : UInt8) : Bool := isIdStart c || isDigit c
def isWs (c : UInt8) : Bool := c == 32 || c == 9 || c == 10 || c == 13
def isEol (c : UInt8) : Bool := c == 10 || c == 13

/-- SingleStringCharacters up to the closing `'`: a backslash takes the next byte with it -/
def strBody : Bytes → Option (Bytes × Bytes)
  | [] => none
  | c :: r =>
    if c == 39 then some ([], r)
    else if c == 92 then
      match r with
      | [] => none
      | d :: r' => (strBody r').map fun x => (c :: d :: x.1, x.2)
    else (strBody r).map fun x => (c :: x.1, x.2)

/-- §7.7: the length of the longest Punctuator the text begins with (0: none).
    `{ } ( ) [ ] ; , ? : ~ .`   `= == ===  ! != !==`   `+ ++ +=  - -- -=  & && &=  | || |=`   `* *=  % %=  ^ ^=`
    `< <= << <<=`   `> >= >> >>= >>> >>>=`  -/
def punctLen : Bytes → Nat
  | [] => 0
  | c :: r =>
    if c == 123 || c == 125 || c == 40 || c == 41 || c == 91 || c == 93 || c == 59 || c == 44 || c == 63 || c == 58 ||
        c == 126 || c == 46 then 1
    else if c == 61 || c == 33 then
      if r.take 2 == [61, 61] then 3 else if r.take 1 == [61] then 2 else 1
    else if c == 43 || c == 45 || c == 38 || c == 124 then
      if r.take 1 == [c] || r.take 1 == [61] then 2 else 1
    else if c == 42 || c == 37 || c == 94 then
      if r.take 1 == [61] then 2 else 1
    else if c == 60 then
      if r.take 2 == [60, 61] then 3 else if r.take 1 == [60] || r.take 1 == [61] then 2 else 1
    else if c == 62 then
      if r.take 3 == [62, 62, 61] then 4 else if r.take 2 == [62, 62] || r.take 2 == [62, 61] then 3
      else if r.take 1 == [62] || r.take 1 == [61] then 2 else 1
    else 0

/-- one input element: a token, or nothing (white space, comment); and the rest of the text -/
def lexOne : Bytes → Option (Option Tok × Bytes)
  | [] => none
  | c :: r =>
    if isWs c then some (none, r)
    else if c == 47 then
      if r.take 1 == [47] && noLineSep (r.takeWhile fun b => !isEol b) then some (none, r.dropWhile fun b => !isEol b) else none
    else if isIdStart c then some (some (.id (c :: r.takeWhile isIdPart)), r.dropWhile isIdPart)
    else if isDigit c then
      let ds := r.takeWhile isDigit
      let t := r.dropWhile isDigit
      if (c == 48 && !ds.isEmpty) || t.head?.any (fun b => isIdStart b || b == 46) then none
      else some (some (.num (digitsVal (c :: ds))), t)
    else if c == 39 then
      match strBody r with
      | some (body, t) => (jsUnescape body).map fun v => (some (.str v), t)
      | none => none
    else if c == 46 && r.head?.any isDigit then none
    else
      match punctLen (c :: r) with
      | 0 => none
      | n + 1 => some (some (.p (c :: r.take n)), r.drop n)

def lexN : Nat → Bytes → Option (List Tok)
  | _, [] => some []
  | 0, _ :: _ => none
  | n + 1, c :: r =>
    match lexOne (c :: r) with
    | none => none
    | some (t, rest) =>
      match lexN n rest with
      | none => none
      | some ts => some (match t with | some t => t :: ts | none => ts)

/-- the tokens of a text -/
def jsLex (s : Bytes) : Option (List Tok) := lexN s.length s

/-! ## 2. syntax trees -/

inductive UnOp where
  | neg | not | typeof
  deriving DecidableEq, Repr

inductive BinOp where
  | mul | mod | add | sub | lt | gt | le | ge | eq | ne | seq | sne | and | or
  deriving DecidableEq, Repr

inductive AsgOp where
  | set | add
  deriving DecidableEq, Repr

mutual
  inductive PE where
    | ident (s : Bytes)
    | null
    | bool (b : Bool)
    | num (n : Nat)
    | str (v : Bytes)
    /-- `{k: v, …}` -/
    | obj (ps : PProps)
    | paren (x : PE)
    | member (x : PE) (k : Bytes)
    | index (x i : PE)
    | call (f : PE) (args : PArgs)
    | postInc (x : PE)
    | unary (op : UnOp) (x : PE)
    | bin (op : BinOp) (a b : PE)
    | cond (c a b : PE)
    | assign (op : AsgOp) (l r : PE)
  inductive PArgs where
    | nil
    | cons (a : PE) (rest : PArgs)
  inductive PProps where
    | nil
    | cons (k : Bytes) (v : PE) (rest : PProps)
end

instance : Inhabited PE := ⟨.null⟩

/-- the level of the grammar a token continues an expression at: MemberExpression / CallExpression (0), PostfixExpression
    (1), Multiplicative (2), Additive (3), Relational (5), Equality (6), LogicalAND (10), LogicalOR (11), Conditional
    (12), Assignment (13) -/
def BinOp.lvl : BinOp → Nat
  | .mul | .mod => 2
  | .add | .sub => 3
  | .lt | .gt | .le | .ge => 5
  | .eq | .ne | .seq | .sne => 6
  | .and => 10
  | .or => 11

def BinOp.sym : BinOp → Bytes
  | .mul => b!"*" | .mod => b!"%" | .add => b!"+" | .sub => b!"-"
  | .lt => b!"<" | .gt => b!">" | .le => b!"<=" | .ge => b!">="
  | .eq => b!"==" | .ne => b!"!=" | .seq => b!"===" | .sne => b!"!=="
  | .and => b!"&&" | .or => b!"||"

def allBinOps : List BinOp := [.mul, .mod, .add, .sub, .lt, .gt, .le, .ge, .eq, .ne, .seq, .sne, .and, .or]

/-- the binary operator of level `l` a punctuator spells -/
def binOpAt (l : Nat) (s : Bytes) : Option BinOp := allBinOps.find? fun op => op.lvl == l && op.sym == s

/-- §7.6.1 ReservedWord (Keyword, FutureReservedWord, NullLiteral, BooleanLiteral) -/
def reserved : List Bytes := [
  b!"break", b!"do", b!"instanceof", b!"typeof", b!"case", b!"else", b!"new", b!"var", b!"catch", b!"finally",
  b!"return", b!"void", b!"continue", b!"for", b!"switch", b!"while", b!"debugger", b!"function", b!"this", b!"with",
  b!"default", b!"if", b!"throw", b!"delete", b!"in", b!"try",
  b!"class", b!"enum", b!"extends", b!"super", b!"const", b!"export", b!"import",
  b!"null", b!"true", b!"false"]

def isReserved (s : Bytes) : Bool := reserved.contains s

abbrev P (α : Type) := List Tok → Option (α × List Tok)

/-- the rest behind the punctuator `s`, if the tokens begin with it -/
def eat (s : Bytes) : List Tok → Option (List Tok)
  | .p s' :: r => if s' = s then some r else none
  | _ => none

/-- the rest behind the word `s`, if the tokens begin with it -/
def eatId (s : Bytes) : List Tok → Option (List Tok)
  | .id s' :: r => if s' = s then some r else none
  | _ => none

section expr
/- `n`: the bound of the loops of one level; `pa`: AssignmentExpression one nesting level down (inside parentheses,
   brackets, argument lists, object literals, the branches of `?:`, the right-hand side of an assignment) -/
variable (n : Nat) (pa : P PE)

/-- Arguments after `(` and a first look: `arg , arg , … )` -/
def argsLoop : Nat → P PArgs
  | 0, _ => none
  | k + 1, ts =>
    match pa ts with
    | none => none
    | some (a, r) =>
      match eat b!")" r with
      | some r' => some (.cons a .nil, r')
      | none =>
        match eat b!"," r with
        | some r' =>
          (match argsLoop k r' with
            | some x => some (.cons a x.1, x.2)
            | none => none)
        | none => none

/-- §11.2 Arguments, after the `(` -/
def args (ts : List Tok) : Option (PArgs × List Tok) :=
  match eat b!")" ts with
  | some r => some (.nil, r)
  | none => argsLoop pa n ts

/-- PropertyNameAndValueList after `{` and a first look: `k : v , … }` (IdentifierName keys; no trailing comma) -/
def propsLoop : Nat → P PProps
  | 0, _ => none
  | k + 1, ts =>
    match ts with
    | .id key :: r0 =>
      (match eat b!":" r0 with
        | none => none
        | some r1 =>
          match pa r1 with
          | none => none
          | some (v, r) =>
            match eat b!"}" r with
            | some r' => some (.cons key v .nil, r')
            | none =>
              match eat b!"," r with
              | some r' =>
                (match propsLoop k r' with
                  | some x => some (.cons key v x.1, x.2)
                  | none => none)
              | none => none)
    | _ => none

/-- §11.1.5 ObjectLiteral, after the `{` -/
def props (ts : List Tok) : Option (PProps × List Tok) :=
  match eat b!"}" ts with
  | some r => some (.nil, r)
  | none => propsLoop pa n ts

/-- §11.1 PrimaryExpression -/
def primary : P PE
  | .id s :: r =>
    if s = b!"null" then some (.null, r)
    else if s = b!"true" then some (.bool true, r)
    else if s = b!"false" then some (.bool false, r)
    else if isReserved s then none
    else some (.ident s, r)
  | .num v :: r => some (.num v, r)
  | .str v :: r => some (.str v, r)
  | .p s :: r =>
    if s = b!"(" then
      (match pa r with
        | some (e, r1) => (match eat b!")" r1 with | some r' => some (.paren e, r') | none => none)
        | none => none)
    else if s = b!"{" then
      (match props n pa r with
        | some (ps, r') => some (.obj ps, r')
        | none => none)
    else none
  | [] => none

/-- §11.2 the tail of a MemberExpression / CallExpression: `.name`, `[e]`, `(args)` -/
def postLoop : Nat → PE → P PE
  | 0, _, _ => none
  | k + 1, x, ts =>
    match eat b!"." ts with
    | some r =>
      (match r with
        | .id key :: r' => postLoop k (.member x key) r'
        | _ => none)
    | none =>
      match eat b!"[" ts with
      | some r =>
        (match pa r with
          | some (i, r1) => (match eat b!"]" r1 with | some r' => postLoop k (.index x i) r' | none => none)
          | none => none)
      | none =>
        match eat b!"(" ts with
        | some r =>
          (match args n pa r with
            | some (as, r') => postLoop k (.call x as) r'
            | none => none)
        | none => some (x, ts)

/-- §11.2 LeftHandSideExpression (without `new` and function expressions) -/
def lhs (ts : List Tok) : Option (PE × List Tok) :=
  match primary n pa ts with
  | some (x, r) => postLoop n pa n x r
  | none => none

/-- §11.3 PostfixExpression (`++` only) -/
def postfixE (ts : List Tok) : Option (PE × List Tok) :=
  match lhs n pa ts with
  | some (x, r) => (match eat b!"++" r with | some r' => some (.postInc x, r') | none => some (x, r))
  | none => none

/-- §11.4 UnaryExpression (`-`, `!`, `typeof`) -/
def unary : Nat → P PE
  | 0, _ => none
  | k + 1, ts =>
    match eat b!"-" ts with
    | some r => (match unary k r with | some (x, r') => some (.unary .neg x, r') | none => none)
    | none =>
      match eat b!"!" ts with
      | some r => (match unary k r with | some (x, r') => some (.unary .not x, r') | none => none)
      | none =>
        match eatId b!"typeof" ts with
        | some r => (match unary k r with | some (x, r') => some (.unary .typeof x, r') | none => none)
        | none => postfixE n pa ts

/-- the operators of one binary level, left-associative: `left op right op right …` -/
def binLoop (sub : P PE) (l : Nat) : Nat → PE → P PE
  | 0, _, _ => none
  | k + 1, a, ts =>
    match ts with
    | .p s :: r =>
      (match binOpAt l s with
        | some op =>
          (match sub r with
            | some (b, r') => binLoop sub l k (.bin op a b) r'
            | none => none)
        | none => some (a, ts))
    | _ => some (a, ts)

/-- §11.5 – §11.11: level 0 is UnaryExpression, level `l + 1` is `level l (op level l)*` with the operators of level
    `l + 1` (2 Multiplicative, 3 Additive, 5 Relational, 6 Equality, 10 LogicalAND, 11 LogicalOR) -/
def binLevel : Nat → P PE
  | 0 => unary n pa n
  | l + 1 => fun ts =>
    match binLevel l ts with
    | some (a, r) => binLoop (binLevel l) (l + 1) n a r
    | none => none

/-- §11.12 ConditionalExpression -/
def condE (ts : List Tok) : Option (PE × List Tok) :=
  match binLevel n pa 11 ts with
  | none => none
  | some (c, r) =>
    match eat b!"?" r with
    | none => some (c, r)
    | some r1 =>
      match pa r1 with
      | none => none
      | some (a, r2) =>
        match eat b!":" r2 with
        | none => none
        | some r3 =>
          match pa r3 with
          | some (b, r4) => some (.cond c a b, r4)
          | none => none

/-- what may stand left of an assignment operator (§11.13.1: a Reference) -/
def isRef : PE → Bool
  | .ident _ => true
  | .member _ _ => true
  | .index _ _ => true
  | _ => false

/-- the right-hand side of an assignment -/
def assignRhs (op : AsgOp) (l : PE) (r : List Tok) : Option (PE × List Tok) :=
  if isRef l then (match pa r with | some (v, r') => some (.assign op l v, r') | none => none) else none

/-- §11.13 AssignmentExpression (`=` and `+=`) -/
def assignE (ts : List Tok) : Option (PE × List Tok) :=
  match condE n pa ts with
  | none => none
  | some (l, r) =>
    match eat b!"=" r with
    | some r1 => assignRhs pa .set l r1
    | none =>
      match eat b!"+=" r with
      | some r1 => assignRhs pa .add l r1
      | none => some (l, r)

end expr

/-- AssignmentExpression with `fuel` nesting levels, loops bounded by `n` -/
def assignN (n : Nat) : Nat → P PE
  | 0 => fun _ => none
  | fuel + 1 => assignE n (assignN n fuel)

/-- an expression (without the comma operator): the whole token list -/
def parseExpr (ts : List Tok) : Option PE :=
  match assignN ts.length ts.length ts with
  | some (e, []) => some e
  | _ => none

/-! ### statements (§12) -/

mutual
  inductive PS where
    /-- ExpressionStatement `e;` -/
    | expr (e : PE)
    /-- VariableStatement `var x = e, …;` (every declaration with its initialiser) -/
    | var (ds : List (Bytes × PE))
    /-- `if (c) t` -/
    | ifS (c : PE) (t : PS)
    /-- `if (c) t else e` -/
    | ifElse (c : PE) (t e : PS)
    /-- Block `{ … }` -/
    | block (ss : PStmts)
    /-- `for (var ds; test; u1, u2, …) body` -/
    | forVar (ds : List (Bytes × PE)) (test : PE) (upd : List PE) (body : PS)
    /-- `switch (e) { clauses }` -/
    | switchS (e : PE) (cs : PClauses)
    /-- `return e;` -/
    | ret (e : PE)
    /-- `break;` -/
    | brk
    /-- `debugger;` -/
    | dbg
  inductive PStmts where
    | nil
    | cons (s : PS) (rest : PStmts)
  inductive PClauses where
    | nil
    /-- `case e: stmts` -/
    | case (e : PE) (body : PStmts) (rest : PClauses)
    /-- `default: stmts` -/
    | dflt (body : PStmts) (rest : PClauses)
end

instance : Inhabited PS := ⟨.brk⟩

/-- an AssignmentExpression at the head of the tokens -/
def exprP (ts : List Tok) : Option (PE × List Tok) := assignN ts.length ts.length ts

/-- VariableDeclarationList: `x = e , y = e …` -/
def declsLoop : Nat → P (List (Bytes × PE))
  | 0, _ => none
  | k + 1, ts =>
    match ts with
    | .id x :: r0 =>
      if isReserved x then none
      else
        (match eat b!"=" r0 with
          | none => none
          | some r1 =>
            match exprP r1 with
            | none => none
            | some (e, r2) =>
              match eat b!"," r2 with
              | none => some ([(x, e)], r2)
              | some r3 =>
                match declsLoop k r3 with
                | some (ds, r4) => some ((x, e) :: ds, r4)
                | none => none)
    | _ => none

/-- Expression: `e , e …` -/
def exprsLoop : Nat → P (List PE)
  | 0, _ => none
  | k + 1, ts =>
    match exprP ts with
    | none => none
    | some (e, r) =>
      match eat b!"," r with
      | none => some ([e], r)
      | some r1 =>
        match exprsLoop k r1 with
        | some (es, r2) => some (e :: es, r2)
        | none => none

/-- where a StatementList ends: at the end of the text, before `}`, `case`, `default` -/
def stmtsEnd : List Tok → Bool
  | [] => true
  | .p s :: _ => s == b!"}"
  | .id s :: _ => s == b!"case" || s == b!"default"
  | _ => false

mutual
  /-- §12 Statement -/
  def stmtN : Nat → P PS
    | 0, _ => none
    | n + 1, ts =>
      match eat b!"{" ts with
      | some r =>
        (match stmtsN n r with
          | some (ss, r1) => (match eat b!"}" r1 with | some r2 => some (.block ss, r2) | none => none)
          | none => none)
      | none =>
      match eatId b!"var" ts with
      | some r =>
        (match declsLoop r.length r with
          | some (ds, r1) => (match eat b!";" r1 with | some r2 => some (.var ds, r2) | none => none)
          | none => none)
      | none =>
      match eatId b!"if" ts with
      | some r =>
        (match eat b!"(" r with
          | none => none
          | some r1 =>
            match exprP r1 with
            | none => none
            | some (c, r2) =>
              match eat b!")" r2 with
              | none => none
              | some r3 =>
                match stmtN n r3 with
                | none => none
                | some (t, r4) =>
                  match eatId b!"else" r4 with
                  | none => some (.ifS c t, r4)
                  | some r5 =>
                    match stmtN n r5 with
                    | some (e, r6) => some (.ifElse c t e, r6)
                    | none => none)
      | none =>
      match eatId b!"for" ts with
      | some r =>
        (match eat b!"(" r with
          | none => none
          | some r1 =>
            match eatId b!"var" r1 with
            | none => none
            | some r2 =>
              match declsLoop r2.length r2 with
              | none => none
              | some (ds, r3) =>
                match eat b!";" r3 with
                | none => none
                | some r4 =>
                  match exprP r4 with
                  | none => none
                  | some (test, r5) =>
                    match eat b!";" r5 with
                    | none => none
                    | some r6 =>
                      match exprsLoop r6.length r6 with
                      | none => none
                      | some (upd, r7) =>
                        match eat b!")" r7 with
                        | none => none
                        | some r8 =>
                          match stmtN n r8 with
                          | some (body, r9) => some (.forVar ds test upd body, r9)
                          | none => none)
      | none =>
      match eatId b!"switch" ts with
      | some r =>
        (match eat b!"(" r with
          | none => none
          | some r1 =>
            match exprP r1 with
            | none => none
            | some (e, r2) =>
              match eat b!")" r2 with
              | none => none
              | some r3 =>
                match eat b!"{" r3 with
                | none => none
                | some r4 =>
                  match clausesN n r4 with
                  | none => none
                  | some (cs, r5) => (match eat b!"}" r5 with | some r6 => some (.switchS e cs, r6) | none => none))
      | none =>
      match eatId b!"return" ts with
      | some r =>
        (match exprP r with
          | some (e, r1) => (match eat b!";" r1 with | some r2 => some (.ret e, r2) | none => none)
          | none => none)
      | none =>
      match eatId b!"break" ts with
      | some r => (match eat b!";" r with | some r1 => some (.brk, r1) | none => none)
      | none =>
      match eatId b!"debugger" ts with
      | some r => (match eat b!";" r with | some r1 => some (.dbg, r1) | none => none)
      | none =>
        -- ExpressionStatement (it cannot begin with `{`; `function` and the other keywords are no expressions)
        (match exprP ts with
          | some (e, r) => (match eat b!";" r with | some r1 => some (.expr e, r1) | none => none)
          | none => none)
  /-- StatementList, up to `}` / `case` / `default` / the end -/
  def stmtsN : Nat → P PStmts
    | 0, _ => none
    | n + 1, ts =>
      if stmtsEnd ts then some (.nil, ts)
      else
        match stmtN n ts with
        | none => none
        | some (s, r) =>
          match stmtsN n r with
          | some (ss, r1) => some (.cons s ss, r1)
          | none => none
  /-- CaseClauses with a DefaultClause anywhere, up to `}` -/
  def clausesN : Nat → P PClauses
    | 0, _ => none
    | n + 1, ts =>
      match eatId b!"case" ts with
      | some r =>
        (match exprP r with
          | none => none
          | some (e, r1) =>
            match eat b!":" r1 with
            | none => none
            | some r2 =>
              match stmtsN n r2 with
              | none => none
              | some (body, r3) =>
                match clausesN n r3 with
                | some (cs, r4) => some (.case e body cs, r4)
                | none => none)
      | none =>
      match eatId b!"default" ts with
      | some r =>
        (match eat b!":" r with
          | none => none
          | some r1 =>
            match stmtsN n r1 with
            | none => none
            | some (body, r2) =>
              match clausesN n r2 with
              | some (cs, r3) => some (.dflt body cs, r3)
              | none => none)
      | none => some (.nil, ts)
end

/-- a statement list: the whole token list -/
def parseStmts (ts : List Tok) : Option PStmts :=
  match stmtsN (ts.length + 2) ts with
  | some (ss, []) => some ss
  | _ => none

/-! ### function definitions and the program (§13, §14) -/

/-- a SourceElement of the fragment: `name = function(params) { body };` (an ExpressionStatement whose expression
    assigns a FunctionExpression to a dotted name), or a Statement -/
inductive PTop where
  | func (name : PE) (params : List Bytes) (body : PStmts)
  | stmt (s : PS)

/-- `.name .name …` behind a name -/
def qnameTail : PE → List Tok → PE × List Tok
  | x, .p s :: .id k :: r => if s = b!"." then qnameTail (.member x k) r else (x, .p s :: .id k :: r)
  | x, r => (x, r)

/-- a dotted name `a.b.c` -/
def qnameP : List Tok → Option (PE × List Tok)
  | .id g :: r => if isReserved g then none else some (qnameTail (.ident g) r)
  | _ => none

/-- FormalParameterList after the first name: `, x, y )` -/
def paramsTail : List Tok → Option (List Bytes × List Tok)
  | .p s :: r =>
    if s = b!")" then some ([], r)
    else if s = b!"," then
      (match r with
        | .id x :: r' =>
          if isReserved x then none
          else (match paramsTail r' with | some (xs, r'') => some (x :: xs, r'') | none => none)
        | _ => none)
    else none
  | _ => none

/-- FormalParameterList and the closing parenthesis -/
def paramsP : List Tok → Option (List Bytes × List Tok)
  | .id x :: r =>
    if isReserved x then none
    else (match paramsTail r with | some (xs, r') => some (x :: xs, r') | none => none)
  | .p s :: r => if s = b!")" then some ([], r) else none
  | _ => none

/-- `= function (params) { body } ;` behind the name -/
def funcRest (n : Nat) (name : PE) (r : List Tok) : Option (PTop × List Tok) :=
  match eat b!"=" r with
  | none => none
  | some r1 =>
    match eatId b!"function" r1 with
    | none => none
    | some r2 =>
      match eat b!"(" r2 with
      | none => none
      | some r3 =>
        match paramsP r3 with
        | none => none
        | some (ps, r4) =>
          match eat b!"{" r4 with
          | none => none
          | some r5 =>
            match stmtsN n r5 with
            | none => none
            | some (body, r6) =>
              match eat b!"}" r6 with
              | none => none
              | some r7 =>
                match eat b!";" r7 with
                | some r8 => some (.func name ps body, r8)
                | none => none

/-- a SourceElement -/
def topN (n : Nat) (ts : List Tok) : Option (PTop × List Tok) :=
  match (match qnameP ts with | some (name, r) => funcRest n name r | none => none) with
  | some x => some x
  | none => (match stmtN n ts with | some (s, r) => some (.stmt s, r) | none => none)

/-- Program: SourceElements to the end of the text -/
def progN (n : Nat) : Nat → List Tok → Option (List PTop)
  | _, [] => some []
  | 0, _ :: _ => none
  | k + 1, t :: ts =>
    match topN n (t :: ts) with
    | none => none
    | some (x, r) => (match progN n k r with | some xs => some (x :: xs) | none => none)

def parseProgram (ts : List Tok) : Option (List PTop) := progN (ts.length + 2) ts.length ts

/-! ## 3. reading the tree as a `JsExpr` -/

open SoyVerif.Spec.JsSemRef (JsExpr Fn1 Fn2)
open SoyVerif.Spec.JsSem (JsOp)

def sOptData : Bytes := b!"opt_data"
def sOptIj : Bytes := b!"opt_ijData"
def sLength : Bytes := b!"length"
def sMath : Bytes := b!"Math"

def jsOpOf : BinOp → Option JsOp
  | .mul => some .mul | .mod => some .mod | .add => some .add | .sub => some .sub
  | .lt => some .lt | .gt => some .gt | .le => some .le | .ge => some .ge
  | .eq => some .eq | .ne => some .ne | .and => some .and | .or => some .or
  | .seq => none | .sne => none

def mathFn1 (f : Bytes) : Option Fn1 :=
  if f == b!"floor" then some .floor else if f == b!"ceil" then some .ceil else if f == b!"round" then some .round else none

def mathFn2 (f : Bytes) : Option Fn2 :=
  if f == b!"min" then some .min else if f == b!"max" then some .max else none

/-- the parameter `opt_data` -/
def isOptData : PE → Bool
  | .ident g => g == sOptData
  | _ => false

/-- `JsExpr` of a tree (the concrete syntax of Spec/JsSemRef, read backwards) -/
def readE : PE → Option JsExpr
  | .null => some .null
  | .bool b => some (.bool b)
  | .num v => some (.num (v : Int))
  | .str v => some (.str v)
  | .ident g => if g == sOptData then none else if g == sOptIj then some .ijData else some (.local g)
  | .member x k =>
    -- `opt_data.k`; `(x).length`: the `length` function (soyjs 0a4b4eb always parenthesises its argument); `x.k` — also
    -- `x.length` with `x` not in parentheses: the data key `length`
    if isOptData x then some (.optData k)
    else
      (match x with
        | .paren y =>
          if k == sLength then (match readE y with | some jy => some (.call1 .length jy) | none => none)
          else (match readE (.paren y) with | some jx => some (.member jx k) | none => none)
        | x => (match readE x with | some jx => some (.member jx k) | none => none))
  | .index x (.num i) => (match readE x with | some jx => some (.index jx (i : Int)) | none => none)
  | .call (.member (.ident m) f) (.cons a .nil) =>
    -- `Math.floor(a)`
    if m == sMath then
      (match mathFn1 f, readE a with
        | some fn, some ja => some (.call1 fn ja)
        | _, _ => none)
    else none
  | .call (.member (.ident m) f) (.cons a (.cons b .nil)) =>
    -- `Math.min(a,b)`
    if m == sMath then
      (match mathFn2 f, readE a, readE b with
        | some fn, some ja, some jb => some (.call2 fn ja jb)
        | _, _, _ => none)
    else none
  | .unary .not (.paren a) => (match readE a with | some ja => some (.not ja) | none => none)
  | .unary .neg (.num v) => if v == 0 then none else some (.num (-(v : Int)))
  -- the bare `a != null` (the text of isNonnull before soyjs a5155c6; now `(a != null)`, below)
  | .bin .ne a .null => (match readE a with | some ja => some (.call1 .nonNull ja) | none => none)
  | .cond (.paren (.bin .eq g .null)) .null r =>
    -- `(g == null) ? null : r`
    (match readE g, readE r with
      | some jg, some jr => some (.guard jg jr)
      | _, _ => none)
  | .paren x =>
    (match x with
      | .unary .neg a => (match readE a with | some ja => some (.neg ja) | none => none)            -- `(- a)`
      | .bin op (.paren a) (.paren b) =>                                                            -- `((a) op (b))`
        (match jsOpOf op, readE a, readE b with
          | some jo, some ja, some jb => some (.bin jo ja jb)
          | _, _, _ => none)
      | .bin .ne a .null => (match readE a with | some ja => some (.call1 .nonNull ja) | none => none)   -- `(a != null)`, soyjs a5155c6
      | .bin .eq (.ident idx) (.num v) => if v == 0 then some (.loopFirst idx) else none           -- `(idx == 0)`
      | .bin .eq (.ident idx) (.bin .sub (.ident lim) (.num v)) =>                                  -- `(idx == lim - 1)`
        if v == 1 then some (.loopLastEach idx lim) else none
      | .bin .ge (.bin .add (.ident v) (.ident step)) (.ident lim) => some (.loopLastRange v step lim)
      | .cond (.bin .ne (.paren a) .null) a' b =>                                                   -- `((a) != null ? a' : b)`
        (match readE a, readE a', readE b with
          | some ja, some ja', some jb => some (.nonNullElse ja ja' jb)
          | _, _, _ => none)
      | .cond (.paren (.bin .eq g .null)) .null r =>                                                -- `((g == null) ? null : r)`
        (match readE g, readE r with
          | some jg, some jr => some (.paren (.guard jg jr))
          | _, _ => none)
      | .cond (.paren c) a b =>                                                                     -- `((c) ?a:b)`
        (match readE c, readE a, readE b with
          | some jc, some ja, some jb => some (.cond jc ja jb)
          | _, _, _ => none)
      | x => (match readE x with | some jx => some (.paren jx) | none => none))
  | _ => none

/-! ## 4. reading statements as `JsStmt` (the concrete syntax of Spec/JsStmt, read backwards) -/

open SoyVerif.Model (Directive Expr)
open SoyVerif.Spec.JsStmt (JsStmt JsStmts JsConds JsCases JsPlural DataBase JsFunc)

/-- the dotted name `a.b.c` a chain of `.name` spells -/
def qnameOf : PE → Option Bytes
  | .ident g => some g
  | .member x k => (match qnameOf x with | some q => some (q ++ 46 :: k) | none => none)
  | _ => none

/-- the print directive whose JavaScript function is `q` (Gen/JsTables: soyjs.PrintDirectives) -/
def dirOfJs (q : Bytes) : Option Bytes :=
  if q.isEmpty then none
  else match Gen.jsDirectives.find? (fun d => d.jsName == q) with
    | some d => some d.name
    | none => none

/-- a literal argument of a directive as the source expression (at position 0) -/
def litOf : JsExpr → Option Expr
  | .null => some (.null 0)
  | .bool b => some (.bool 0 b)
  | .num v => some (.int 0 v)
  | .str v => some (.str 0 [] v)
  | _ => none

def readLits : PArgs → Option (List Expr)
  | .nil => some []
  | .cons a r =>
    match readE a, readLits r with
    | some j, some es => (match litOf j with | some e => some (e :: es) | none => none)
    | _, _ => none

/-- the directive a callee names -/
def dirOfCallee (f : PE) : Option Bytes :=
  match qnameOf f with
  | some q => dirOfJs q
  | none => none

/-- `dN(…d1(e, a…)…, a…)`: the expression and the calls of library functions around it, innermost first -/
def readPrint : PE → Option (JsExpr × List Directive)
  | .call f (.cons a as) =>
    (match dirOfCallee f with
      | some name =>
        (match readPrint a, readLits as with
          | some (e, ds), some args => some (e, ds ++ [⟨0, name, args⟩])
          | _, _ => none)
      | none => (match readE (.call f (.cons a as)) with | some e => some (e, []) | none => none))
  | x => (match readE x with | some e => some (e, []) | none => none)

def readProps : PProps → Option (List (Bytes × JsExpr))
  | .nil => some []
  | .cons k v r =>
    match readE v, readProps r with
    | some j, some ps => some ((k, j) :: ps)
    | _, _ => none

/-- `{}`, `opt_data`, an expression -/
def readBase : PE → Option DataBase
  | .obj .nil => some .empty
  | x => if isOptData x then some .all else (match readE x with | some e => some (.expr e) | none => none)

def sAugment : Bytes := b!"soy.$$augmentMap"

/-- the data argument of a call of a template: the base, or `soy.$$augmentMap(base, {k: v, …})` -/
def readData : PE → Option (DataBase × List (Bytes × JsExpr))
  | .call f (.cons base (.cons (.obj ps) .nil)) =>
    if qnameOf f == some sAugment then
      (match readBase base, readProps ps with
        | some b, some (p :: r) => some (b, p :: r)
        | _, _ => none)
    else none
  | x => (match readBase x with | some b => some (b, []) | none => none)

/-- the right-hand side of `buf += …;` -/
def readAppend (buf : Bytes) : PE → Option JsStmt
  | .str t => some (.appendLit buf t)
  | .bin .add x (.str t) =>
    -- `buf += e + '-';`
    if t == b!"-" then (match readE x with | some e => some (.appendCss buf e) | none => none) else none
  | .call f (.cons d (.cons (.ident a1) (.cons (.ident a2) .nil))) =>
    if a1 == b!"opt_sb" && a2 == b!"opt_ijData" then
      (match qnameOf f, readData d with
        | some callee, some (b, ps) => some (.call buf callee b ps)
        | _, _ => none)
    else
      (match readPrint (.call f (.cons d (.cons (.ident a1) (.cons (.ident a2) .nil)))) with
        | some (e, ds) => some (.append buf e ds)
        | none => none)
  | x => (match readPrint x with | some (e, ds) => some (.append buf e ds) | none => none)

/-- `var x = init;` -/
def readVar (x : Bytes) : PE → Option JsStmt
  | .str [] => some (.varEmpty x)
  | .member (.ident l) k =>
    if k == sLength && l != sOptData && l != sOptIj then some (.varLength x l)
    else (match readE (.member (.ident l) k) with | some e => some (.var x e) | none => none)
  | .index (.ident l) (.ident i) => some (.varIndex x l i)
  | e => (match readE e with | some j => some (.var x j) | none => none)

mutual
  def readS : PS → Option JsStmt
    | .expr (.assign .add (.ident buf) rhs) => readAppend buf rhs
    | .var [(x, init)] => readVar x init
    | .ifElse (.bin .gt (.ident lim) (.num 0)) (.block body) (.block els) =>
      (match readSs body, readSs els with
        | some b, some e => some (.ifPos lim b e)
        | _, _ => none)
    | .ifS (.bin .eq (.ident idx) (.num n)) (.block body) =>
      if n == 0 then (match readSs body with | some b => some (.ifZero idx b) | none => none) else none
    | .ifS c (.block body) =>
      (match readE c, readSs body with
        | some jc, some b => some (.ifs (.cons jc b .nil))
        | _, _ => none)
    | .ifElse c (.block body) e =>
      (match readE c, readSs body, readElse e with
        | some jc, some b, some r => some (.ifs (.cons jc b r))
        | _, _, _ => none)
    | .dbg => some .debuggerS
    | .forVar [(i, .num 0)] (.bin .lt (.ident i1) (.ident lim)) [.postInc (.ident i2)] (.block body) =>
      if i1 == i && i2 == i then (match readSs body with | some b => some (.forUp i lim b) | none => none) else none
    | .forVar [(i, init), (idx, .num 0)] (.bin .lt (.ident i1) (.ident lim))
        [.assign .add (.ident i2) (.ident step), .postInc (.ident idx1)] (.block body) =>
      if i1 == i && i2 == i && idx1 == idx then
        (match readE init, readSs body with
          | some ji, some b => some (.forStep i lim step idx ji b)
          | _, _ => none)
      else none
    | .switchS e cs =>
      (match readE e with
        | none => none
        | some je =>
          match readCases cs with
          | some jc => some (.switchS je jc)
          | none =>
            -- the `default:` clause is not closed by `break;`: a plural switch
            match readPlural cs with
            | some (pc, d) => some (.pluralS je pc d)
            | none => none)
    | _ => none
  def readSs : PStmts → Option JsStmts
    | .nil => some .nil
    | .cons s r =>
      match readS s, readSs r with
      | some js, some jr => some (.cons js jr)
      | _, _ => none
  /-- what follows `else`: a block, or the next `if` of the chain -/
  def readElse : PS → Option JsConds
    | .block els => (match readSs els with | some e => some (.els e) | none => none)
    | .ifS c (.block body) =>
      (match readE c, readSs body with
        | some jc, some b => some (.cons jc b .nil)
        | _, _ => none)
    | .ifElse c (.block body) e =>
      (match readE c, readSs body, readElse e with
        | some jc, some b, some r => some (.cons jc b r)
        | _, _, _ => none)
    | _ => none
  /-- the statements of a clause, closed by `break;` -/
  def readBrk : PStmts → Option JsStmts
    | .nil => none
    | .cons .brk .nil => some .nil
    | .cons s r =>
      match readS s, readBrk r with
      | some js, some jr => some (.cons js jr)
      | _, _ => none
  /-- `case n: … break;` with integer labels, then `default: …` (not closed by `break;`) as the last clause -/
  def readPlural : PClauses → Option (JsPlural × JsStmts)
    | .dflt body .nil => (match readSs body with | some d => some (.nil, d) | none => none)
    | .case l body rest =>
      (match readE l, readBrk body, readPlural rest with
        | some (.num v), some b, some (pc, d) => some (.cons v b pc, d)
        | _, _, _ => none)
    | _ => none
  /-- `case l1: case l2: … break;` is one clause with the labels l1, l2; `default:` is the last clause -/
  def readCases : PClauses → Option JsCases
    | .nil => some .nil
    | .dflt body .nil => (match readBrk body with | some b => some (.dflt b) | none => none)
    | .dflt _ _ => none
    | .case l .nil rest =>
      (match readE l, readCases rest with
        | some jl, some (.cons ls b r) => some (.cons (jl :: ls) b r)
        | _, _ => none)
    | .case l body rest =>
      (match readE l, readBrk body, readCases rest with
        | some jl, some b, some r => some (.cons [jl] b r)
        | _, _, _ => none)
end

/-- the statements a text denotes -/
def jsParseStmts (s : Bytes) : Option JsStmts :=
  match jsLex s with
  | some ts => (match parseStmts ts with | some ss => readSs ss | none => none)
  | none => none

/-! ## 5. reading function definitions as `JsFunc`, and a file -/

def sOutput : Bytes := b!"output"

/-- the statements of a function body up to the final `return output;` -/
def readRet : PStmts → Option JsStmts
  | .nil => none
  | .cons (.ret (.ident g)) .nil => if g == sOutput then some .nil else none
  | .cons s r =>
    match readS s, readRet r with
    | some js, some jr => some (.cons js jr)
    | _, _ => none

/-- the body after the optional `opt_data = opt_data || {};`: `var output = '';` … `return output;` -/
def readBody : PStmts → Option JsStmts
  | .cons (.var [(x, .str [])]) r => if x == sOutput then readRet r else none
  | _ => none

/-- `name = function(opt_data, opt_sb, opt_ijData) { [opt_data = opt_data || {};] var output = ''; … return output; };` -/
def readFunc (name : PE) (params : List Bytes) (body : PStmts) : Option JsFunc :=
  if params == [sOptData, b!"opt_sb", b!"opt_ijData"] then
    match qnameOf name with
    | none => none
    | some q =>
      match body with
      | .cons (.expr (.assign .set (.ident d) (.bin .or (.ident d') (.obj .nil)))) r =>
        if d == sOptData && d' == sOptData then
          (match readBody r with | some b => some ⟨q, true, b⟩ | none => none)
        else none
      | b => (match readBody b with | some b => some ⟨q, false, b⟩ | none => none)
  else none

/-- `if (typeof a.b == 'undefined') { a.b = {}; }` / `if (typeof a == 'undefined') { var a = {}; }` -/
def isNsDecl : PS → Bool
  | .ifS (.bin .eq (.unary .typeof q) (.str u)) (.block (.cons s .nil)) =>
    u == b!"undefined" &&
    (match qnameOf q, s with
      | some n, .var [(x, .obj .nil)] => n == x
      | some n, .expr (.assign .set q' (.obj .nil)) => qnameOf q' == some n && n.contains 46
      | _, _ => false)
  | _ => false

/-- the functions of a program whose other elements are namespace declarations -/
def readProgram : List PTop → Option (List JsFunc)
  | [] => some []
  | .func name ps body :: r =>
    (match readFunc name ps body, readProgram r with
      | some f, some fs => some (f :: fs)
      | _, _ => none)
  | .stmt s :: r => if isNsDecl s then readProgram r else none

/-- the functions a text (a generated file, or a part of one) defines -/
def jsParseFile (s : Bytes) : Option (List JsFunc) :=
  match jsLex s with
  | some ts => (match parseProgram ts with | some p => readProgram p | none => none)
  | none => none

/-- the expression a text denotes -/
def jsParseExpr (s : Bytes) : Option JsExpr :=
  match jsLex s with
  | some ts => (match parseExpr ts with | some e => readE e | none => none)
  | none => none

end SoyVerif.Spec.JsParse
