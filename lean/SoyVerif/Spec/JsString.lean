/-
  Specification side of JavaScript string escaping (C16 escapeJsString / C14 string literals),
  written from ECMA-262 (StringLiteral, UnicodeEscapeSequence, UTF-16 surrogate pairs) and
  RFC 3629 — NOT from the escaper:

  `jsUnescape body` evaluates `body`, the UTF-8 text between the quotes of a JavaScript string
  literal, to the UTF-8 encoding of the string it denotes.  It is STRICT: it answers `none`
  when the body is not acceptable as safe literal text, namely when it contains
    * a raw quote ' or ", a raw line terminator (LF, CR, U+2028, U+2029) or any other control
      byte < 0x20  (these end or break the literal),
    * a raw  < > & =   (unsafe inside <script> / an HTML attribute),
    * a backslash that does not begin one of   \\  \'  \"  \uXXXX   (four hex digits),
    * a \uXXXX that is a lone surrogate (no string of Unicode scalar values has it), or
    * raw non-ASCII bytes that are not well-formed UTF-8.
  So `jsUnescape out = some v` says both "safe to place between quotes" and "evaluates to v".
-/
import SoyVerif.Base.Bytes
import SoyVerif.Spec.Utf8
import SoyVerif.Spec.Percent

namespace SoyVerif.Spec

/-- UTF-8 encoding of a Unicode scalar value (RFC 3629 §3) -/
def utf8Encode (r : Nat) : Bytes :=
  if r < 0x80 then [UInt8.ofNat r]
  else if r < 0x800 then [UInt8.ofNat (0xC0 + r / 64), UInt8.ofNat (0x80 + r % 64)]
  else if r < 0x10000 then
    [UInt8.ofNat (0xE0 + r / 4096), UInt8.ofNat (0x80 + r / 64 % 64), UInt8.ofNat (0x80 + r % 64)]
  else
    [UInt8.ofNat (0xF0 + r / 262144), UInt8.ofNat (0x80 + r / 4096 % 64),
     UInt8.ofNat (0x80 + r / 64 % 64), UInt8.ofNat (0x80 + r % 64)]

/-- value of exactly four hex digits (either case) -/
def hex4 (a b c d : UInt8) : Option Nat :=
  match hexDigitVal a, hexDigitVal b, hexDigitVal c, hexDigitVal d with
  | some x, some y, some z, some w => some (((x * 16 + y) * 16 + z) * 16 + w)
  | _, _, _, _ => none

/-- length of the well-formed UTF-8 sequence `s` begins with, 0 if there is none -/
def utf8SeqLen (s : Bytes) : Nat :=
  if wellFormedSeq (s.take 1) then 1
  else if wellFormedSeq (s.take 2) then 2
  else if wellFormedSeq (s.take 3) then 3
  else if wellFormedSeq (s.take 4) then 4
  else 0

/-- raw ASCII bytes that may not stand for themselves in safe literal text -/
def jsRawForbidden (b : UInt8) : Bool :=
  b < 32 || b == 39 || b == 34 || b == 60 || b == 62 || b == 38 || b == 61

def isLineSep (s : Bytes) : Bool :=
  s.take 3 == [0xE2, 0x80, 0xA8] || s.take 3 == [0xE2, 0x80, 0xA9]

/-- the strict evaluator; `skip` = bytes of the current token still to be consumed -/
def jsUnescapeGo : Nat → Bytes → Option Bytes
  | _, [] => some []
  | skip + 1, _ :: r => jsUnescapeGo skip r
  | 0, b :: r =>
    if b == 92 then
      match r with
      | 92 :: _ => (jsUnescapeGo 1 r).map (92 :: ·)
      | 39 :: _ => (jsUnescapeGo 1 r).map (39 :: ·)
      | 34 :: _ => (jsUnescapeGo 1 r).map (34 :: ·)
      | 117 :: h1 :: h2 :: h3 :: h4 :: r' =>
        match hex4 h1 h2 h3 h4 with
        | none => none
        | some u =>
          if 0xD800 ≤ u && u < 0xDC00 then
            -- a high surrogate must be followed by an escaped low surrogate
            match r' with
            | 92 :: 117 :: l1 :: l2 :: l3 :: l4 :: _ =>
              match hex4 l1 l2 l3 l4 with
              | some v =>
                if 0xDC00 ≤ v && v < 0xE000 then
                  (jsUnescapeGo 11 r).map (utf8Encode (0x10000 + (u - 0xD800) * 1024 + (v - 0xDC00)) ++ ·)
                else none
              | none => none
            | _ => none
          else if 0xDC00 ≤ u && u < 0xE000 then none
          else (jsUnescapeGo 5 r).map (utf8Encode u ++ ·)
      | _ => none
    else if b < 0x80 then
      if jsRawForbidden b then none else (jsUnescapeGo 0 r).map (b :: ·)
    else
      let n := utf8SeqLen (b :: r)
      if n == 0 || isLineSep (b :: r) then none
      else (jsUnescapeGo (n - 1) r).map ((b :: r).take n ++ ·)

def jsUnescape (body : Bytes) : Option Bytes := jsUnescapeGo 0 body

/-! ### bytewise safety, meaningful for every output (also of text that is not UTF-8) -/

/-- a byte that can never harm: no control byte (so no LF / CR), none of  < > & =  -/
def jsByteSafe (b : UInt8) : Bool := 32 ≤ b && b != 60 && b != 62 && b != 38 && b != 61

/-- every quote ' or " is preceded by a backslash that escapes it, and no backslash dangles
    (scanning left to right, a backslash escapes exactly the next byte) -/
def jsQuotesEscapedGo : Bool → Bytes → Bool
  | esc, [] => !esc
  | true, _ :: r => jsQuotesEscapedGo false r
  | false, b :: r => if b == 92 then jsQuotesEscapedGo true r else b != 39 && b != 34 && jsQuotesEscapedGo false r

def jsQuotesEscaped (s : Bytes) : Bool := jsQuotesEscapedGo false s

/-- no raw U+2028 / U+2029 (E2 80 A8 / E2 80 A9) anywhere -/
def noLineSep : Bytes → Bool
  | [] => true
  | b :: r => !isLineSep (b :: r) && noLineSep r

end SoyVerif.Spec
