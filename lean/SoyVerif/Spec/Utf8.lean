/-
  Well-formed UTF-8 as a declarative specification (RFC 3629 §4 / Unicode Table 3-7), written
  from the standard — NOT from the decoder of the model:

    UTF8-1 = 00-7F
    UTF8-2 = C2-DF tail
    UTF8-3 = E0 A0-BF tail / E1-EC tail tail / ED 80-9F tail / EE-EF tail tail
    UTF8-4 = F0 90-BF tail tail / F1-F3 tail tail tail / F4 80-8F tail tail
    tail   = 80-BF
-/
import SoyVerif.Base.Bytes

namespace SoyVerif.Spec

def isTail (b : UInt8) : Bool := 0x80 ≤ b && b ≤ 0xBF

/-- `c` is exactly one well-formed UTF-8 byte sequence -/
def wellFormedSeq : Bytes → Bool
  | [b0] => b0 ≤ 0x7F
  | [b0, b1] => 0xC2 ≤ b0 && b0 ≤ 0xDF && isTail b1
  | [b0, b1, b2] =>
    ((b0 == 0xE0 && 0xA0 ≤ b1 && b1 ≤ 0xBF) ||
     (0xE1 ≤ b0 && b0 ≤ 0xEC && isTail b1) ||
     (b0 == 0xED && 0x80 ≤ b1 && b1 ≤ 0x9F) ||
     (0xEE ≤ b0 && b0 ≤ 0xEF && isTail b1)) && isTail b2
  | [b0, b1, b2, b3] =>
    ((b0 == 0xF0 && 0x90 ≤ b1 && b1 ≤ 0xBF) ||
     (0xF1 ≤ b0 && b0 ≤ 0xF3 && isTail b1) ||
     (b0 == 0xF4 && 0x80 ≤ b1 && b1 ≤ 0x8F)) && isTail b2 && isTail b3
  | _ => false

/-- a byte string is valid UTF-8 iff it is a concatenation of well-formed sequences -/
inductive ValidUtf8 : Bytes → Prop
  | nil : ValidUtf8 []
  | seq (c t : Bytes) : wellFormedSeq c = true → ValidUtf8 t → ValidUtf8 (c ++ t)

end SoyVerif.Spec
