/-
  JSON as a specification, written from RFC 8259 / ECMA-404 — NOT from encoding/json:

    value   = false / null / true / object / array / number / string
    object  = "{" [ member *( "," member ) ] "}"     member = string ":" value
    array   = "[" [ value *( "," value ) ] "]"
    number  = [ "-" ] int [ frac ] [ exp ]     int = "0" / ( digit1-9 *DIGIT )
              frac = "." 1*DIGIT               exp = ("e" / "E") [ "-" / "+" ] 1*DIGIT
    string  = quotation-mark *char quotation-mark
    char    = unescaped / "\" ( %x22 / %x5C / %x2F / "b" / "f" / "n" / "r" / "t" / "u" 4HEXDIG )
    unescaped = %x20-21 / %x23-5B / %x5D-10FFFF           ws = *( SP / HT / LF / CR )

  * JSON text is UTF-8 (RFC 8259 §8.1): raw non-ASCII bytes must be well-formed UTF-8
    (Spec/Utf8.lean); a raw control character (< 0x20) is not allowed in a string.
  * `\uXXXX` denotes the UTF-16 code unit XXXX (§7): a high surrogate followed by an escaped low
    surrogate denotes the supplementary character; a LONE surrogate has no UTF-8 encoding and is
    rejected by this decoder (the RFC calls the behaviour of receivers "unpredictable").
  * The decoder returns the string as UTF-8 bytes; a number is kept as its literal text
    (`JVal.num`) together with `numInt`, the integer a literal without fraction and exponent denotes.

  The safety predicates (`byteSafe`, `quotesEscaped`, no raw U+2028/9) say when a string literal can be
  embedded in a <script> element / an HTML context; they are not part of RFC 8259.
-/
import SoyVerif.Base.Bytes
import SoyVerif.Spec.Utf8
import SoyVerif.Spec.JsString

namespace SoyVerif.Spec.Json
open SoyVerif SoyVerif.Spec

/-! ### strings (RFC 8259 §7) -/

/-- put `p` in front of the decoded text -/
def pre (p : Bytes) : Option (Bytes × Bytes) → Option (Bytes × Bytes)
  | some (v, rest) => some (p ++ v, rest)
  | none => none

/-- the characters of a string after the opening quotation mark: the decoded text (UTF-8) and the
    input after the closing quotation mark; `skip` = bytes of the current token still to be consumed -/
def strBody : Nat → Bytes → Option (Bytes × Bytes)
  | _, [] => none                                  -- no closing quotation mark
  | skip + 1, _ :: r => strBody skip r
  | 0, b :: r =>
    if b == 34 then some ([], r)
    else if b == 92 then
      match r with
      | 34 :: _ => pre [34] (strBody 1 r)          -- \"
      | 92 :: _ => pre [92] (strBody 1 r)          -- \\
      | 47 :: _ => pre [47] (strBody 1 r)          -- \/
      | 98 :: _ => pre [8] (strBody 1 r)           -- \b
      | 102 :: _ => pre [12] (strBody 1 r)         -- \f
      | 110 :: _ => pre [10] (strBody 1 r)         -- \n
      | 114 :: _ => pre [13] (strBody 1 r)         -- \r
      | 116 :: _ => pre [9] (strBody 1 r)          -- \t
      | 117 :: h1 :: h2 :: h3 :: h4 :: r' =>
        match hex4 h1 h2 h3 h4 with
        | none => none
        | some u =>
          if 0xD800 ≤ u && u < 0xDC00 then
            match r' with
            | 92 :: 117 :: l1 :: l2 :: l3 :: l4 :: _ =>
              match hex4 l1 l2 l3 l4 with
              | some v =>
                if 0xDC00 ≤ v && v < 0xE000 then
                  pre (utf8Encode (0x10000 + (u - 0xD800) * 1024 + (v - 0xDC00))) (strBody 11 r)
                else none
              | none => none
            | _ => none
          else if 0xDC00 ≤ u && u < 0xE000 then none
          else pre (utf8Encode u) (strBody 5 r)
      | _ => none
    else if b < 0x20 then none                     -- control characters must be escaped
    else if b < 0x80 then pre [b] (strBody 0 r)
    else
      let n := utf8SeqLen (b :: r)
      if n == 0 then none else pre ((b :: r).take n) (strBody (n - 1) r)

/-- a complete JSON string literal: the text it denotes -/
def jsonDecodeString (s : Bytes) : Option Bytes :=
  match s with
  | 34 :: r =>
    match strBody 0 r with
    | some (v, []) => some v
    | _ => none
  | _ => none

/-! ### embedding safety of a string literal (not RFC 8259) -/

/-- no control byte, no `<` `>` `&` -/
def byteSafe (b : UInt8) : Bool := 32 ≤ b && b != 60 && b != 62 && b != 38

/-- scanning left to right (a backslash escapes exactly the next byte): no unescaped quotation
    mark, no dangling backslash -/
def quotesEscapedGo : Bool → Bytes → Bool
  | esc, [] => !esc
  | true, _ :: r => quotesEscapedGo false r
  | false, b :: r => if b == 92 then quotesEscapedGo true r else b != 34 && quotesEscapedGo false r

def quotesEscaped (body : Bytes) : Bool := quotesEscapedGo false body

/-- every byte string becomes valid UTF-8 when each byte that does not begin a well-formed sequence
    is replaced by U+FFFD (EF BF BD) — what a UTF-8 decoder that substitutes per byte delivers -/
def sanitizeGo : Nat → Bytes → Bytes
  | _, [] => []
  | skip + 1, b :: r => b :: sanitizeGo skip r
  | 0, b :: r =>
    let n := utf8SeqLen (b :: r)
    if n == 0 then [0xEF, 0xBF, 0xBD] ++ sanitizeGo 0 r else b :: sanitizeGo (n - 1) r

def sanitize (s : Bytes) : Bytes := sanitizeGo 0 s

/-! ### values (RFC 8259 §2–§6) -/

inductive JVal where
  | null
  | bool (b : Bool)
  | num (lit : Bytes)
  | str (s : Bytes)
  | arr (xs : List JVal)
  | obj (kvs : List (Bytes × JVal))
  deriving Repr, Inhabited

mutual
  /-- structural equality (objects as member LISTS, in order) — used to state examples -/
  def JVal.beq : JVal → JVal → Bool
    | .null, .null => true
    | .bool a, .bool b => a == b
    | .num a, .num b => a == b
    | .str a, .str b => a == b
    | .arr a, .arr b => JVal.beqL a b
    | .obj a, .obj b => JVal.beqM a b
    | _, _ => false
  def JVal.beqL : List JVal → List JVal → Bool
    | [], [] => true
    | x :: a, y :: b => JVal.beq x y && JVal.beqL a b
    | _, _ => false
  def JVal.beqM : List (Bytes × JVal) → List (Bytes × JVal) → Bool
    | [], [] => true
    | (k, x) :: a, (l, y) :: b => k == l && JVal.beq x y && JVal.beqM a b
    | _, _ => false
end

def isWs (b : UInt8) : Bool := b == 32 || b == 9 || b == 10 || b == 13
def isDigit (b : UInt8) : Bool := 48 ≤ b && b ≤ 57

def skipWs : Bytes → Bytes
  | [] => []
  | b :: r => if isWs b then skipWs r else b :: r

/-- `1*DIGIT`, or fewer: the digits at the head and the rest -/
def digits : Bytes → Bytes × Bytes
  | [] => ([], [])
  | b :: r => if isDigit b then ((b :: (digits r).1), (digits r).2) else ([], b :: r)

/-- `[ "-" ]` -/
def optMinus : Bytes → Bytes × Bytes
  | 45 :: r => ([45], r)
  | s => ([], s)

/-- `[ "-" / "+" ]` -/
def optSign : Bytes → Bytes × Bytes
  | 43 :: r => ([43], r)
  | 45 :: r => ([45], r)
  | s => ([], s)

/-- `int = "0" / ( digit1-9 *DIGIT )` -/
def intPart (s : Bytes) : Option (Bytes × Bytes) :=
  let d := digits s
  if d.1.isEmpty || (d.1.head? == some 48 && d.1.length > 1) then none else some d

/-- `[ frac ]`, `frac = "." 1*DIGIT` -/
def fracPart : Bytes → Option (Bytes × Bytes)
  | 46 :: r =>
    let d := digits r
    if d.1.isEmpty then none else some (46 :: d.1, d.2)
  | s => some ([], s)

/-- `[ exp ]`, `exp = ( "e" / "E" ) [ "-" / "+" ] 1*DIGIT` -/
def expPart : Bytes → Option (Bytes × Bytes)
  | [] => some ([], [])
  | e :: r =>
    if e == 101 || e == 69 then
      let sg := optSign r
      let d := digits sg.2
      if d.1.isEmpty then none else some (e :: sg.1 ++ d.1, d.2)
    else some ([], e :: r)

/-- `[ "-" ] int [ frac ] [ exp ]`: the literal and the rest -/
def number (s : Bytes) : Option (Bytes × Bytes) :=
  let sg := optMinus s
  match intPart sg.2 with
  | none => none
  | some (ds, s2) =>
    match fracPart s2 with
    | none => none
    | some (fr, s3) =>
      match expPart s3 with
      | none => none
      | some (ex, s4) => some (sg.1 ++ ds ++ fr ++ ex, s4)

/-- the value of `1*DIGIT` -/
def digitsVal (ds : Bytes) : Nat := ds.foldl (fun acc d => acc * 10 + (d.toNat - 48)) 0

/-- the integer a number literal without fraction and exponent denotes -/
def numInt (lit : Bytes) : Option Int :=
  match lit with
  | 45 :: ds => if !ds.isEmpty && ds.all isDigit then some (- (digitsVal ds : Int)) else none
  | ds => if !ds.isEmpty && ds.all isDigit then some (digitsVal ds : Int) else none

def litNull : Bytes := [110, 117, 108, 108]
def litTrue : Bytes := [116, 114, 117, 101]
def litFalse : Bytes := [102, 97, 108, 115, 101]

mutual
  /-- `ws value`: the value and the input after it; `fuel` bounds the number of nested calls (every
      call consumes at least one byte: the length of the input + 1 always suffices) -/
  def value : Nat → Bytes → Option (JVal × Bytes)
    | 0, _ => none
    | fuel + 1, s =>
      match skipWs s with
      | 110 :: 117 :: 108 :: 108 :: r => some (.null, r)
      | 116 :: 114 :: 117 :: 101 :: r => some (.bool true, r)
      | 102 :: 97 :: 108 :: 115 :: 101 :: r => some (.bool false, r)
      | 34 :: r =>
        match strBody 0 r with
        | some (v, r') => some (.str v, r')
        | none => none
      | 91 :: r =>
        match skipWs r with
        | 93 :: r' => some (.arr [], r')
        | _ => match elems fuel r with
          | some (xs, r') => some (.arr xs, r')
          | none => none
      | 123 :: r =>
        match skipWs r with
        | 125 :: r' => some (.obj [], r')
        | _ => match members fuel r with
          | some (kvs, r') => some (.obj kvs, r')
          | none => none
      | b :: r =>
        if b == 45 || isDigit b then
          match number (b :: r) with
          | some (lit, r') => some (.num lit, r')
          | none => none
        else none
      | [] => none
  /-- `value *( "," value ) "]"` -/
  def elems : Nat → Bytes → Option (List JVal × Bytes)
    | 0, _ => none
    | fuel + 1, s =>
      match value fuel s with
      | none => none
      | some (v, r) =>
        match skipWs r with
        | 93 :: r' => some ([v], r')
        | 44 :: r' =>
          match elems fuel r' with
          | some (xs, r'') => some (v :: xs, r'')
          | none => none
        | _ => none
  /-- `member *( "," member ) "}"` -/
  def members : Nat → Bytes → Option (List (Bytes × JVal) × Bytes)
    | 0, _ => none
    | fuel + 1, s =>
      match skipWs s with
      | 34 :: r =>
        match strBody 0 r with
        | none => none
        | some (k, r1) =>
          match skipWs r1 with
          | 58 :: r2 =>
            match value fuel r2 with
            | none => none
            | some (v, r3) =>
              match skipWs r3 with
              | 125 :: r' => some ([(k, v)], r')
              | 44 :: r' =>
                match members fuel r' with
                | some (kvs, r'') => some ((k, v) :: kvs, r'')
                | none => none
              | _ => none
          | _ => none
      | _ => none
end

/-- a complete JSON text: `ws value ws` -/
def jsonDecode (s : Bytes) : Option JVal :=
  match value (s.length + 1) s with
  | some (v, r) => if (skipWs r).isEmpty then some v else none
  | none => none

end SoyVerif.Spec.Json
