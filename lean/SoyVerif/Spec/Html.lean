/-
  Specification side of HTML escaping (C03), written from the property statement and the
  HTML syntax of character references — NOT from the code:

  * `htmlUnescape` decodes the character references a conforming escaper may use for the five
    special characters: the named ones (&amp; &lt; &gt; &quot; &apos;) and the decimal
    numeric ones (&#34; &#39; &#38; &#60; &#62;); every other byte stands for itself.
  * `noRawSpecial s`: none of  < > " '  occurs in `s`.
  * `ampsStartRefs s`: every `&` in `s` is the first byte of one of those references.
-/
import SoyVerif.Base.Bytes

namespace SoyVerif.Spec

/-- the character references for the five specials: (reference bytes, denoted byte) -/
def htmlRefs : List (Bytes × UInt8) := [
  ([38, 97, 109, 112, 59], 38),        -- &amp;
  ([38, 108, 116, 59], 60),            -- &lt;
  ([38, 103, 116, 59], 62),            -- &gt;
  ([38, 113, 117, 111, 116, 59], 34),  -- &quot;
  ([38, 97, 112, 111, 115, 59], 39),   -- &apos;
  ([38, 35, 51, 52, 59], 34),          -- &#34;
  ([38, 35, 51, 57, 59], 39),          -- &#39;
  ([38, 35, 51, 56, 59], 38),          -- &#38;
  ([38, 35, 54, 48, 59], 60),          -- &#60;
  ([38, 35, 54, 50, 59], 62)           -- &#62;
]

/-- the reference (if any) that `s` starts with: denoted byte and length of the reference -/
def matchRef (s : Bytes) : Option (UInt8 × Nat) :=
  htmlRefs.findSome? fun p => if p.1.isPrefixOf s then some (p.2, p.1.length) else none

/-- decoder; `skip` = bytes of a reference still to be consumed -/
def htmlUnescapeGo : Nat → Bytes → Bytes
  | _, [] => []
  | skip + 1, _ :: r => htmlUnescapeGo skip r
  | 0, b :: r =>
    match matchRef (b :: r) with
    | some (c, n) => c :: htmlUnescapeGo (n - 1) r
    | none => b :: htmlUnescapeGo 0 r

def htmlUnescape (s : Bytes) : Bytes := htmlUnescapeGo 0 s

def isHtmlSpecialQuote (b : UInt8) : Bool := b == 60 || b == 62 || b == 34 || b == 39

/-- none of  < > " '  occurs -/
def noRawSpecial (s : Bytes) : Bool := s.all fun b => !isHtmlSpecialQuote b

/-- every `&` starts a character reference of `htmlRefs` -/
def ampsStartRefs : Bytes → Bool
  | [] => true
  | b :: r => (b != 38 || (matchRef (b :: r)).isSome) && ampsStartRefs r

/-- `s` with every occurrence of the tag `t` removed (scanning left to right, non-overlapping);
    used to state "changes nothing but the inserted <br>/<wbr>" -/
def removeTagGo (t : Bytes) : Nat → Bytes → Bytes
  | _, [] => []
  | skip + 1, _ :: r => removeTagGo t skip r
  | 0, b :: r =>
    if t.isPrefixOf (b :: r) && !t.isEmpty then removeTagGo t (t.length - 1) r
    else b :: removeTagGo t 0 r

def removeTag (t : Bytes) (s : Bytes) : Bytes := removeTagGo t 0 s

end SoyVerif.Spec
