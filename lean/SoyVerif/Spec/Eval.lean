/-
  Denotational semantics of Soy expressions and commands over LEXICAL environments, transcribed from
  Appendix A of DESIGN.md (the specification tables) and the statements of C01 / C02 — NOT from
  soyhtml/exec.go.  It is the search oracle of C01/C02 (ops `spec-evalexpr`, `spec-exec`) and the
  right-hand side of the refinement theorems.

  * Integers are mathematical (`Int`); a result outside the int64 range is `unspec` (the table's
    "guard: no overflow").  Floats are the IEEE doubles of Base/F64.
  * `unspec` marks every region Appendix A leaves open (or guards away): the oracle skips it.
  * `error` is "the render returns an error"; a print that errors produces no text.
  * Environments are lexical: a `let` extends the environment for the rest of its block, a loop binds its
    variable in the body only, a callee starts from exactly the data passed to it.
  * Lists and maps have no identity here (`==` on them is unspecified).
  * Print directives and message bundles are outside Appendix A (they belong to C03/C16/C11).  A {msg}
    under a bundle is `unspec` unless the bundle's content `MsgSem` is supplied: then a message without a
    translation renders its source; a translation renders its parts in order — raw text verbatim, a
    placeholder part as the source placeholder of that name, a plural part as the form the bundle's plural
    function selects for the value of the plural variable (`renderT`).  A print with directives is `unspec` unless a directive semantics `DirSem`
    is supplied (which names exist, their arities, whether they cancel autoescaping, and what an
    implementation computes — all parameters): then the directives apply left to right to the value, an
    unknown name or a wrong number of arguments is an error, the arguments are evaluated left to right,
    and the text is escaped at the end iff autoescaping is on and no applied directive cancels it.  The
    oracle ops run without a `DirSem`.

  Corrections to the specification (clauses of the first version that demanded more than property C01
  states; the property says that indexing PAST THE END of a list and printing undefined are errors and is
  silent on the following, which are now `unspec`):
    * a NEGATIVE list index (was: undefined) — since the repair of evalDataRef it is an index outside
      the list like any other: undefined again;
    * printing a map with two or more entries (was: entries sorted by key) or with an undefined member
      (was: error);
  `round(x)` / `round(x, d)`: halves away from zero, exactly (the implementation was repaired to this).
  {switch}: the matching case WHEREVER it stands, else the first {default}, else nothing (`renderCases`;
  the implementation was repaired to this: a {default} written before a {case} no longer hides it).
-/
import SoyVerif.Model.Ast
import SoyVerif.Model.Registry
import SoyVerif.Model.Escape
import SoyVerif.Base.F64

namespace SoyVerif.Spec.Eval
open SoyVerif SoyVerif.Model

inductive Val where
  | undefined
  | null
  | bool (b : Bool)
  | int (i : Int)
  | float (f : F64)
  | str (s : Bytes)
  | list (xs : List Val)
  | map (kvs : List (Bytes × Val))

instance : Inhabited Val := ⟨.undefined⟩

/-- a value, an error, or a case the specification leaves open -/
inductive Out (α : Type) where
  | val (a : α)
  | error
  | unspec

namespace Out
def bind {α β : Type} (o : Out α) (f : α → Out β) : Out β :=
  match o with
  | .val a => f a
  | .error => .error
  | .unspec => .unspec
end Out

abbrev Binds := List (Bytes × Val)

def find : Binds → Bytes → Option Val
  | [], _ => none
  | (k', v) :: r, k => if k' == k then some v else find r k

structure Env where
  vars : Binds                          -- lexical bindings, innermost first; the entry data at the bottom
  loops : List (Bytes × Nat × Nat)      -- enclosing loops, innermost first: variable, index, last index
  ij : Option Binds
  globals : Binds

def Env.lookup (env : Env) (k : Bytes) : Val := (find env.vars k).getD .undefined

def Env.bind (env : Env) (k : Bytes) (v : Val) : Env := { env with vars := (k, v) :: env.vars }

/-! ### Truthiness -/

/-- undefined, null, false, 0, 0.0, NaN, '' are falsy; everything else is truthy -/
def truthy : Val → Bool
  | .undefined => false
  | .null => false
  | .bool b => b
  | .int i => i != 0
  | .float f => !(f.isZero || f.isNaN)
  | .str s => !s.isEmpty
  | .list _ => true
  | .map _ => true

/-! ### Printing -/

def two53 : Int := 9007199254740992
def two63 : Int := 9223372036854775808

def inI64 (i : Int) : Bool := decide (-two63 ≤ i ∧ i < two63)

/-- an integer result, under the "no overflow" guard -/
def intRes (i : Int) : Out Val := if inI64 i then .val (.int i) else .unspec

/-- positional form of a finite non-zero double with 10⁻⁴ ≤ |x| < 10⁶: shortest round-trip digits,
    integral values without ".0"; everything else is unspecified -/
def showFloat (x : F64) : Out Bytes :=
  if x.isNaN || x.isInf || x.isZero then .unspec
  else
    let (c, k) := F64.shortest x          -- |x| = c · 10^k, c without trailing zero
    let digs := F64.natDigits c
    let nd : Int := digs.length
    let dp : Int := nd + k                -- position of the decimal point: |x| = 0.d₁d₂… · 10^dp
    if dp < -3 ∨ 6 < dp then .unspec      -- |x| < 10⁻⁴ or |x| ≥ 10⁶
    else
      let sign : Bytes := if x.sign then [45] else []
      let body : Bytes :=
        if 0 < dp then
          (if nd ≤ dp then digs ++ F64.zeros (dp - nd).toNat
           else digs.take dp.toNat ++ 46 :: digs.drop dp.toNat)
        else if nd == 0 then [48]
        else [48, 46] ++ F64.zeros (-dp).toNat ++ digs
      .val (sign ++ body)

def bytesLe : Bytes → Bytes → Bool
  | [], _ => true
  | _ :: _, [] => false
  | a :: as, b :: bs => if a < b then true else if b < a then false else bytesLe as bs

def insertByKey {α : Type} (x : Bytes × α) : List (Bytes × α) → List (Bytes × α)
  | [] => [x]
  | y :: ys => if bytesLe x.1 y.1 then x :: y :: ys else y :: insertByKey x ys

def sortByKey {α : Type} : List (Bytes × α) → List (Bytes × α)
  | [] => []
  | x :: xs => insertByKey x (sortByKey xs)

def joinWith (sep : Bytes) : List Bytes → Bytes
  | [] => []
  | [x] => x
  | x :: y :: r => x ++ sep ++ joinWith sep (y :: r)

def sNull : Bytes := [110, 117, 108, 108]
def sTrue : Bytes := [116, 114, 117, 101]
def sFalse : Bytes := [102, 97, 108, 115, 101]

mutual
/-- the text a value prints as -/
def showVal : Val → Out Bytes
  | .undefined => .error
  | .null => .val sNull
  | .bool b => .val (if b then sTrue else sFalse)
  | .int i => .val (F64.intDigits i)
  | .float f => showFloat f
  | .str s => .val s
  | .list xs => (showList xs).bind fun items => .val ([91] ++ joinWith [44, 32] items ++ [93])
  | .map kvs =>
    -- the order of the entries and the form of an undefined member are open
    match kvs with
    | [] => .val [123, 125]
    | [(_, .undefined)] => .unspec
    | [(k, v)] => (showVal v).bind fun s => .val ([123] ++ k ++ [58, 32] ++ s ++ [125])
    | _ => .unspec
def showList : List Val → Out (List Bytes)
  | [] => .val []
  | x :: xs => (showVal x).bind fun s => (showList xs).bind fun r => .val (s :: r)
def showKvs : List (Bytes × Val) → Out (List (Bytes × Bytes))
  | [] => .val []
  | (k, v) :: r => (showVal v).bind fun s => (showKvs r).bind fun rest => .val ((k, s) :: rest)
end

/-! ### Operators -/

def isNum : Val → Bool
  | .int _ => true
  | .float _ => true
  | _ => false

def toF : Val → Option F64
  | .int i => some (F64.ofInt i)
  | .float f => some f
  | _ => none

def isStr : Val → Bool
  | .str _ => true
  | _ => false

def isZeroNum : Val → Bool
  | .int i => i == 0
  | .float f => f.isZero
  | _ => false

def small (i : Int) : Bool := decide (-two53 ≤ i ∧ i ≤ two53)

/-- `==`: same primitive type by value, int/float numerically, different types false, collections open -/
def equalsV : Val → Val → Out Bool
  | .undefined, _ => .unspec
  | _, .undefined => .unspec
  | .list _, .list _ => .unspec
  | .map _, .map _ => .unspec
  | .null, .null => .val true
  | .bool a, .bool b => .val (a == b)
  | .str a, .str b => .val (a == b)
  | .int a, .int b => .val (a == b)
  | .float a, .float b => .val (F64.eq a b)
  | .int a, .float b => if small a then .val (F64.eq (F64.ofInt a) b) else .unspec
  | .float a, .int b => if small b then .val (F64.eq a (F64.ofInt b)) else .unspec
  | _, _ => .val false

/-- ordering of two numbers -/
def compareV (lt : Bool) (orEq : Bool) (a b : Val) : Out Val :=
  let cmp (x y : F64) : Val :=
    .bool (if lt then (if orEq then F64.le x y else F64.lt x y) else (if orEq then F64.le y x else F64.lt y x))
  match a, b with
  | .int x, .int y =>
    if small x && small y then
      .val (.bool (if lt then (if orEq then decide (x ≤ y) else decide (x < y)) else (if orEq then decide (y ≤ x) else decide (y < x))))
    else .unspec
  | .int x, .float y => if small x then .val (cmp (F64.ofInt x) y) else .unspec
  | .float x, .int y => if small y then .val (cmp x (F64.ofInt y)) else .unspec
  | .float x, .float y => .val (cmp x y)
  | _, _ => .error

/-- truncated remainder (sign of the dividend) -/
def tmod (a b : Int) : Int := Int.tmod a b

/-- the strict binary operators on two evaluated operands -/
def binop (op : BinOp) (a b : Val) : Out Val :=
  match op with
  | .add =>
    match a, b with
    | .int x, .int y => intRes (x + y)
    | _, _ =>
      if isStr a || isStr b then
        match a, b with
        | .undefined, _ => .unspec            -- guard: the other side is defined
        | _, .undefined => .unspec
        | _, _ => (showVal a).bind fun s1 => (showVal b).bind fun s2 => .val (.str (s1 ++ s2))
      else match toF a, toF b with
        | some x, some y => .val (.float (F64.add x y))
        | _, _ => .error
  | .sub =>
    match a, b with
    | .int x, .int y => intRes (x - y)
    | _, _ => match toF a, toF b with
      | some x, some y => .val (.float (F64.sub x y))
      | _, _ => .error
  | .mul =>
    match a, b with
    | .int x, .int y => intRes (x * y)
    | _, _ => match toF a, toF b with
      | some x, some y => .val (.float (F64.mul x y))
      | _, _ => .error
  | .div =>
    match toF a, toF b with
    | some x, some y => if isZeroNum b then .unspec else .val (.float (F64.div x y))
    | _, _ => .error
  | .mod =>
    match a, b with
    | .int x, .int y => if y == 0 then .error else intRes (tmod x y)
    | _, _ => .error
  | .lt => compareV true false a b
  | .le => compareV true true a b
  | .gt => compareV false false a b
  | .ge => compareV false true a b
  | .eq => (equalsV a b).bind fun r => .val (.bool r)
  | .ne => (equalsV a b).bind fun r => .val (.bool (!r))
  | _ => .error

/-! ### Data references -/

def nth : List Val → Int → Val
  | xs, i => if 0 ≤ i ∧ i < (xs.length : Int) then xs.getD i.toNat .undefined else .undefined

/-- an evaluated access: `.k` / `['k']` (string key), `.n` / `[n]` (integer), or another kind of key -/
inductive Key where
  | str (k : Bytes)
  | int (i : Int)
  | other          -- float, bool, null
  | undef          -- undefined, or a collection: open

inductive Step where
  | next (v : Val)
  | stop (o : Out Val)

/-- one access on `base` -/
def access (base : Val) (nullSafe : Bool) (key : Key) (last : Bool) : Step :=
  match key with
  | .undef => .stop .unspec                 -- an undefined key: open
  | _ =>
  match base with
  | .undefined | .null =>
    if nullSafe then (if last then .stop (.val .null) else .stop .unspec)   -- what follows a null-safe hit is open
    else .stop .error
  | .list xs =>
    match key with
    | .int i => .next (nth xs i)          -- an index outside the list (negative ones included): undefined
    | _ => .stop .error                   -- a list indexed by a non-integer
  | .map kvs =>
    match key with
    | .str k => .next ((find kvs k).getD .undefined)      -- the empty string is a key like any other
    | _ => .stop .unspec                  -- `.n` on a map, non-string keys
  | _ => .stop .error                     -- access on a non-collection

/-! ### Functions -/

def nIsNonnull : Bytes := [105, 115, 78, 111, 110, 110, 117, 108, 108]
def nLength : Bytes := [108, 101, 110, 103, 116, 104]
def nKeys : Bytes := [107, 101, 121, 115]
def nAugmentMap : Bytes := [97, 117, 103, 109, 101, 110, 116, 77, 97, 112]
def nRound : Bytes := [114, 111, 117, 110, 100]
def nFloor : Bytes := [102, 108, 111, 111, 114]
def nCeiling : Bytes := [99, 101, 105, 108, 105, 110, 103]
def nMin : Bytes := [109, 105, 110]
def nMax : Bytes := [109, 97, 120]
def nStrContains : Bytes := [115, 116, 114, 67, 111, 110, 116, 97, 105, 110, 115]
def nRange : Bytes := [114, 97, 110, 103, 101]
def nHasData : Bytes := [104, 97, 115, 68, 97, 116, 97]
def nRandomInt : Bytes := [114, 97, 110, 100, 111, 109, 73, 110, 116]
def nIndex : Bytes := [105, 110, 100, 101, 120]
def nIsFirst : Bytes := [105, 115, 70, 105, 114, 115, 116]
def nIsLast : Bytes := [105, 115, 76, 97, 115, 116]

def containsB : Bytes → Bytes → Bool
  | [], sub => sub.isEmpty
  | b :: r, sub => (sub.length ≤ (b :: r).length && (b :: r).take sub.length == sub) || containsB r sub

/-- exact value of a finite double as a rational n / d (sign separately) -/
def ratOf (x : F64) : Int × Nat :=
  let m : Int := if x.sign then -(x.mant : Int) else (x.mant : Int)
  if 0 ≤ x.exp2 then (m * 2 ^ x.exp2.toNat, 1) else (m, 2 ^ (-x.exp2).toNat)

/-- round half away from zero of the rational n / d -/
def roundHalfAway (n : Int) (d : Nat) : Int :=
  let q := (2 * n.natAbs + d) / (2 * d)
  if n < 0 then -(q : Int) else (q : Int)

/-- `round(x, digits)`: half away from zero at `digits` decimal places, computed exactly -/
def roundSpec (x : Val) (digits : Int) : Out Val :=
  let num : Option (Int × Nat) := match x with
    | .int i => some (i, 1)
    | .float f => if f.isNaN || f.isInf then none else some (ratOf f)
    | _ => none
  match x with
  | .int _ | .float _ =>
    match num with
    | none => .unspec
    | some (n, d) =>
      if digits.natAbs > 30 then .unspec
      else if digits ≤ 0 then
        -- to a multiple of 10^(-digits): an integer
        let p : Nat := 10 ^ (-digits).toNat
        intRes (roundHalfAway n (d * p) * p)
      else
        let p : Nat := 10 ^ digits.toNat
        -- "half away from zero at that decimal place" is pinned where the scaled value x·10^digits is
        -- itself a double (the languages' own definitions multiply in floating point; where that
        -- product is inexact they can land on either side of a half: open)
        let scaled := F64.ofRat (decide (n < 0)) (n.natAbs * p) d
        let (sn, sd) := ratOf scaled
        if sn * (d : Int) != n * (p : Int) * (sd : Int) then .unspec
        else
          let q := roundHalfAway (n * p) d
          .val (.float (F64.ofRat (decide (q < 0)) q.natAbs p))
  | _ => .error

def floorSpec (up : Bool) : Val → Out Val
  | .int i => .val (.int i)
  | .float f =>
    if f.isNaN || f.isInf then .unspec
    else
      let (n, d) := ratOf f
      let fl := n / (d : Int)                 -- floor division (Int./ rounds toward −∞ for positive d)
      let r := if up then (if n % (d : Int) == 0 then fl else fl + 1) else fl
      intRes r
  | _ => .error

def rangeSpec (init limit step : Int) : Out Val :=
  if step ≤ 0 then .unspec
  else if limit ≤ init then .val (.list [])
  else
    let count := ((limit - init) + step - 1) / step
    .val (.list ((List.range count.toNat).map fun (k : Nat) => Val.int (init + k * step)))

/-- `m[k] = v` on the association list (the position of an existing key is kept) -/
def insertB : Binds → Bytes → Val → Binds
  | [], k, v => [(k, v)]
  | (k', v') :: r, k, v => if k' == k then (k', v) :: r else (k', v') :: insertB r k v

def augmentSpec (m1 m2 : Binds) : Binds :=
  -- right wins; the result is a new map (inputs untouched): the entries of m1, then those of m2, copied in
  m2.foldl (fun acc kv => insertB acc kv.1 kv.2) (m1.foldl (fun acc kv => insertB acc kv.1 kv.2) [])

def dedupKeys : Binds → List Bytes → List Bytes
  | [], _ => []
  | (k, _) :: r, seen => if seen.contains k then dedupKeys r seen else k :: dedupKeys r (k :: seen)

/-- the builtin functions on evaluated arguments; wrong arity or argument type is an error -/
def applyFn (name : Bytes) (args : List Val) : Out Val :=
  if name == nIsNonnull then
    match args with
    | [.null] => .val (.bool false)
    | [.undefined] => .val (.bool false)
    | [_] => .val (.bool true)
    | _ => .error
  else if name == nLength then
    match args with
    | [.list xs] => intRes xs.length          -- (a length beyond int64 is open)
    | _ => .error
  else if name == nKeys then
    match args with
    | [.map kvs] => .val (.list ((sortByKey (kvs.map fun kv => (kv.1, ()))).map fun kv => Val.str kv.1))   -- in sorted order
    | _ => .error
  else if name == nAugmentMap then
    match args with
    | [.map a, .map b] => .val (.map (augmentSpec a b))
    | _ => .error
  else if name == nRound then
    match args with
    | [x] => roundSpec x 0
    | [x, .int d] => if isNum x then roundSpec x d else .error
    | _ => .error
  else if name == nFloor then
    match args with
    | [x] => floorSpec false x
    | _ => .error
  else if name == nCeiling then
    match args with
    | [x] => floorSpec true x
    | _ => .error
  else if name == nMin || name == nMax then
    let isMin := name == nMin
    match args with
    | [.int a, .int b] => .val (.int (if isMin then (if a < b then a else b) else (if a > b then a else b)))
    | [a, b] =>
      match toF a, toF b with
      | some x, some y =>
        if x.isNaN || y.isNaN || (x.isZero && y.isZero) then .unspec
        else .val (.float (if isMin then (if F64.lt x y then x else y) else (if F64.lt y x then x else y)))
      | _, _ => .error
    | _ => .error
  else if name == nStrContains then
    match args with
    | [.str a, .str b] => .val (.bool (containsB a b))
    | _ => .error
  else if name == nRange then
    match args with
    | [.int l] => rangeSpec 0 l 1
    | [.int a, .int l] => rangeSpec a l 1
    | [.int a, .int l, .int s] => rangeSpec a l s
    | _ => .error
  else if name == nHasData then
    match args with
    | [] => .val (.bool true)
    | _ => .error
  else if name == nRandomInt then .unspec
  else .error

def isLoopFn (name : Bytes) : Bool :=
  name == nIndex || name == nIsFirst || name == nIsLast

def findLoop : List (Bytes × Nat × Nat) → Bytes → Option (Nat × Nat)
  | [], _ => none
  | (k, i, l) :: r, key => if k == key then some (i, l) else findLoop r key

/-! ### Expressions -/

def sIj : Bytes := [105, 106]

mutual
def eval (env : Env) : Expr → Out Val
  | .null _ => .val .null
  | .bool _ b => .val (.bool b)
  | .int _ v => .val (.int v)
  | .float _ bits => .val (.float ⟨bits⟩)
  | .str _ _ v => .val (.str v)
  | .global _ name => match find env.globals name with
    | some v => .val v
    | none => .unspec                      -- rejected at compile time
  | .func _ name args =>
    if isLoopFn name then
      match args with
      | .cons (.dataRef _ key .nil) .nil =>
        match findLoop env.loops key with
        | none => .unspec                  -- not a loop variable: the checker's business
        | some (i, l) =>
          if name == nIndex then .val (.int i)
          else if name == nIsFirst then .val (.bool (i == 0))
          else .val (.bool (i == l))
      | _ => .unspec
    else (evalList env args).bind fun vs => applyFn name vs
  | .list _ items => (evalList env items).bind fun vs => .val (.list vs)
  | .map _ items => (evalMap env items).bind fun kvs => .val (.map kvs)
  | .dataRef _ key acc =>
    if key == sIj then
      match env.ij with
      | none => .error                     -- `$ij` without injected data
      | some kvs => evalAcc env acc (.map kvs)
    else evalAcc env acc (env.lookup key)
  | .not _ a => (eval env a).bind fun v => .val (.bool (!truthy v))
  | .neg _ a => (eval env a).bind fun v =>
    match v with
    | .int i => intRes (-i)
    | .float f => .val (.float (F64.neg f))
    | _ => .error
  | .bin op _ a b =>
    match op with
    | .and => (eval env a).bind fun va =>
        if truthy va then (eval env b).bind fun vb => .val (.bool (truthy vb)) else .val (.bool false)
    | .or => (eval env a).bind fun va =>
        if truthy va then .val (.bool true) else (eval env b).bind fun vb => .val (.bool (truthy vb))
    | .elvis => (eval env a).bind fun va =>
        match va with
        | .null => eval env b
        | .undefined => eval env b
        | _ => .val va
    | op => (eval env a).bind fun va => (eval env b).bind fun vb => binop op va vb
  | .tern _ c a b => (eval env c).bind fun vc => if truthy vc then eval env a else eval env b
def evalList (env : Env) : ExprList → Out (List Val)
  | .nil => .val []
  | .cons e r => (eval env e).bind fun v => (evalList env r).bind fun vs => .val (v :: vs)
/-- a map literal: a later duplicate key replaces the earlier entry -/
def evalMap (env : Env) : MapItems → Out Binds
  | .nil => .val []
  | .cons k e r => (eval env e).bind fun v => (evalMap env r).bind fun kvs =>
      .val ((k, v) :: kvs.filter fun kv => kv.1 != k)
def evalAcc (env : Env) : AccessList → Val → Out Val
  | .nil, base => .val base
  | .cons (.key _ ns k) rest, base =>
    match access base ns (.str k) (match rest with | .nil => true | _ => false) with
    | .next v => evalAcc env rest v
    | .stop o => o
  | .cons (.index _ ns i) rest, base =>
    match access base ns (.int i) (match rest with | .nil => true | _ => false) with
    | .next v => evalAcc env rest v
    | .stop o => o
  | .cons (.expr _ ns e) rest, base =>
    (eval env e).bind fun kv =>
      let key : Key := match kv with
        | .str k => .str k
        | .int i => .int i
        | .undefined => .undef
        | .list _ => .undef               -- a collection as a key: open (its text may not exist)
        | .map _ => .undef
        | _ => .other
      match access base ns key (match rest with | .nil => true | _ => false) with
      | .next v => evalAcc env rest v
      | .stop o => o
end

/-! ### Commands -/

/-- text produced, an error, or an open case; `fuel` = the call depth ran out -/
abbrev ROut := Out (Bytes × Env)

abbrev Render := Env → Out Bytes

def evalAll (env : Env) : List Expr → Out (List Val)
  | [] => .val []
  | e :: r => (eval env e).bind fun v => (evalAll env r).bind fun vs => .val (v :: vs)

/-- does the switch value equal one of the case values?  (left to right, stopping at the first match) -/
def matchAny (env : Env) (sv : Val) : List Expr → Out Bool
  | [] => .val false
  | e :: r => (eval env e).bind fun v => (equalsV sv v).bind fun b => if b then .val true else matchAny env sv r

/-- the iterations of a loop: the variable and its helpers are bound in the body only -/
def loopSpec (body : Env → Out Bytes) (env : Env) (var : Bytes) (last : Nat) : List Val → Nat → Out Bytes
  | [], _ => .val []
  | item :: rest, i =>
    (body { (env.bind var item) with loops := (var, i, last) :: env.loops }).bind fun out =>
      (loopSpec body env var last rest (i + 1)).bind fun more => .val (out ++ more)

/-- print directives: which names exist — with the numbers of arguments they accept, the implementation
    behind them and whether they cancel autoescaping — and what an implementation computes from the value
    and the evaluated arguments -/
structure DirSem where
  lookup : Bytes → Option (List Nat × Bytes × Bool)
  apply : Bytes → Val → List Val → Out Val

def isUndef : Val → Bool
  | .undefined => true
  | _ => false

/-- the directives of a print, left to right: the value and whether the text is still to be escaped -/
def runDirs (dsem : Option DirSem) (env : Env) : List Directive → Val → Bool → Out (Val × Bool)
  | [], v, esc => .val (v, esc)
  | d :: ds, v, esc =>
    match dsem with
    | none => .unspec
    | some D =>
      match D.lookup d.name with
      | none => .error
      | some (arities, impl, cancel) =>
        if !arities.any (· == d.args.length) then .error
        else (evalAll env d.args).bind fun args => (D.apply impl v args).bind fun v' =>
          runDirs dsem env ds v' (if cancel then false else esc)

/-- the text of the matching case of a {switch}, else that of its {default} -/
def orDefault (d : Unit → Out Bytes) : Option Bytes → Out Bytes
  | some out => .val out
  | none => d ()

/-! ### message bundles

  A translation is a list of parts (`soymsg.Part`): raw text, a placeholder NAME, or a plural over a plural
  VARIABLE with one part list per plural form. -/
mutual
  inductive TPart where
    | raw (text : Bytes)
    | ph (name : Bytes)
    | plural (varName : Bytes) (cases : TCases)
  inductive TParts where
    | nil
    | cons (p : TPart) (rest : TParts)
  inductive TCases where
    | nil
    | cons (parts : TParts) (rest : TCases)
end

/-- an installed message bundle: the translation of a message id (if it has one) and the plural form of a
    number -/
structure MsgSem where
  message : Nat → Option TParts
  pluralCase : Int → Int

/-- what the render is given besides templates and data: a directive semantics, a message bundle -/
structure LibSem where
  dirs : Option DirSem := none
  msgs : Option MsgSem := none

def dirsOf (sem : Option LibSem) : Option DirSem := sem.bind (·.dirs)
def msgsOf (sem : Option LibSem) : Option MsgSem := sem.bind (·.msgs)

/-- the plural variable `vn` of a message: the value expression of its first top-level {plural} of that name -/
def findPluralS : MsgParts → Bytes → Option Expr
  | .nil, _ => none
  | .text _ _ r, n => findPluralS r n
  | .ph _ _ _ r, n => findPluralS r n
  | .plural _ vn v _ _ _ r, n => if vn == n then some v else findPluralS r n

/-- the placeholder called `name` of a message: of those with that name the one nearest to the root of the
    message, the first in document order among those (the list carries depth, name, rendering) -/
def pickPhS {α : Type} (name : Bytes) : List (Nat × Bytes × α) → Option (Nat × α) → Option α
  | [], best => best.map (·.2)
  | (d, n, f) :: r, best =>
    if n == name then
      match best with
      | some (bd, _) => if d < bd then pickPhS name r (some (d, f)) else pickPhS name r best
      | none => pickPhS name r (some (d, f))
    else pickPhS name r best

mutual
/-- a translation: raw text verbatim; a placeholder part is the source placeholder of that name (no such
    placeholder: an error); a plural part takes the form that `pluralCase n` selects for the value `n` of the
    plural variable (no such variable, not an integer, no such form: an error) -/
def renderT (B : MsgSem) (phs : List (Nat × Bytes × (Env → ROut))) (body : MsgParts) : TParts → Env → ROut
  | .nil, env => .val ([], env)
  | .cons (.raw t) rest, env => (renderT B phs body rest env).bind fun r => .val (t ++ r.1, r.2)
  | .cons (.ph name) rest, env =>
    match pickPhS name phs none with
    | none => .error
    | some f => (f env).bind fun r1 => (renderT B phs body rest r1.2).bind fun r2 => .val (r1.1 ++ r2.1, r2.2)
  | .cons (.plural vn cases) rest, env =>
    match findPluralS body vn with
    | none => .error
    | some ve => (eval env ve).bind fun v =>
      match v with
      | .int i =>
        if B.pluralCase i < 0 then .error
        else (renderTCases B phs body cases (B.pluralCase i).toNat env).bind fun r1 =>
          (renderT B phs body rest r1.2).bind fun r2 => .val (r1.1 ++ r2.1, r2.2)
      | _ => .error
def renderTCases (B : MsgSem) (phs : List (Nat × Bytes × (Env → ROut))) (body : MsgParts) : TCases → Nat → Env → ROut
  | .nil, _, _ => .error
  | .cons parts _, 0, env => renderT B phs body parts env
  | .cons _ rest, n + 1, env => renderTCases B phs body rest n env
end

/-- the data a callee starts from -/
structure CallEnv where
  entry : Binds            -- the data map as passed in (params included)
  ij : Option Binds
  globals : Binds

section
variable (reg : Registry.Reg) (hasBundle : Bool) (escape : Bool) (entry : Binds) (call : Registry.Tmpl → CallEnv → Out Bytes)
  (dsem : Option LibSem)

mutual
/-- a command: its text and the environment for the commands after it in the same block -/
def renderCmd : Cmd → Env → ROut
  | .rawText _ t, env => .val (t, env)
  | .print _ arg dirs, env =>
    if !dirs.isEmpty && (dirsOf dsem).isNone then .unspec
    else (eval env arg).bind fun v =>
      if isUndef v then .error
      else (runDirs (dirsOf dsem) env dirs v escape).bind fun r => (showVal r.1).bind fun s =>
        .val (if r.2 then htmlEscape s else s, env)
  | .msg _ id _ _ _ body, env =>
    -- no bundle, or a bundle without a translation of this message: the source; else the translation
    if !hasBundle then (renderParts body env).bind fun r => .val (r.1, env)
    else match msgsOf dsem with
      | none => .unspec                      -- a bundle whose content is not given
      | some B =>
        match B.message id with
        | none => (renderParts body env).bind fun r => .val (r.1, env)
        | some parts => (renderT B (sphAll body 0) body parts env).bind fun r => .val (r.1, env)
  | .css _ e suffix, env =>
    match e with
    | none => .val (suffix, env)
    | some e => (eval env e).bind fun v => (showVal v).bind fun s => .val (s ++ [45] ++ suffix, env)
  | .debugger _, env => .val ([], env)
  | .log _ body, env => (renderBlock body env).bind fun _ => .val ([], env)
  | .ifc _ conds, env => (renderConds conds env).bind fun out => .val (out, env)
  | .forc _ var list body ifEmpty, env =>
    (eval env list).bind fun lv =>
      match lv with
      | .list xs =>
        if xs.isEmpty then
          match ifEmpty with
          | some b => (renderBlock b env).bind fun out => .val (out, env)
          | none => .val ([], env)
        else (loopSpec (renderBlock body) env var (xs.length - 1) xs 0).bind fun out => .val (out, env)
      | _ => .error
  | .switch _ value cases, env =>
    -- the matching case wherever it stands, else the first {default}, else nothing (`renderCases` below)
    (eval env value).bind fun sv =>
      ((renderMatch cases sv env).bind (orDefault fun _ => renderDefault cases env)).bind fun out => .val (out, env)
  | .call _ name allData data params, env =>
    match Registry.lookup reg name with
    | none => .error
    | some callee =>
      let base : Out Binds :=
        if allData then .val entry
        else match data with
          | some e => (eval env e).bind fun v =>
            match v with
            | .map kvs => .val kvs
            | _ => .error
          | none => .val []
      base.bind fun b => (renderParams params env).bind fun ps =>
        -- explicit params overlay the passed data
        (call callee { entry := ps ++ b, ij := env.ij, globals := env.globals }).bind fun out =>
          .val (out, env)
  | .letValue _ name e, env => (eval env e).bind fun v => .val ([], env.bind name v)
  | .letContent _ name body, env => (renderBlock body env).bind fun out => .val ([], env.bind name (.str out))
  | .headerParam .., env => .val ([], env)
  | .namespace .., _ => .unspec
  | .template .., _ => .unspec
  | .soyDoc .., env => .val ([], env)      -- a /** */ comment inside a body is a comment
/-- a block: what it binds is visible inside only -/
def renderBlock : Block → Env → Out Bytes
  | .mk _ cmds, env => renderCmds cmds env
def renderCmds : CmdList → Env → Out Bytes
  | .nil, _ => .val []
  | .cons c rest, env =>
    (renderCmd c env).bind fun r => (renderCmds rest r.2).bind fun more => .val (r.1 ++ more)
def renderConds : CondList → Env → Out Bytes
  | .nil, _ => .val []
  | .cons _ cond body rest, env =>
    match cond with
    | none => renderBlock body env
    | some c => (eval env c).bind fun v => if truthy v then renderBlock body env else renderConds rest env
/-- the matching case, if any (a value-less case never matches) -/
def renderMatch : CaseList → Val → Env → Out (Option Bytes)
  | .nil, _, _ => .val none
  | .cons _ values body rest, sv, env =>
    (matchAny env sv values).bind fun hit =>
      if hit then (renderBlock body env).bind fun out => .val (some out) else renderMatch rest sv env
/-- the first {default} (value-less case) -/
def renderDefault : CaseList → Env → Out Bytes
  | .nil, _ => .val []
  | .cons _ values body rest, env => if values.isEmpty then renderBlock body env else renderDefault rest env
/-- the call's params, evaluated / rendered in the caller's environment (later ones first in the result) -/
def renderParams : ParamList → Env → Out Binds
  | .nil, _ => .val []
  | .value _ key e rest, env => (eval env e).bind fun v => (renderParams rest env).bind fun r => .val (r ++ [(key, v)])
  | .content _ key body rest, env =>
    (renderBlock body env).bind fun out => (renderParams rest env).bind fun r => .val (r ++ [(key, .str out)])
/-- a message body without a bundle: its parts in order (the body is one block) -/
def renderParts : MsgParts → Env → ROut
  | .nil, env => .val ([], env)
  | .text _ t rest, env => (renderParts rest env).bind fun r => .val (t ++ r.1, r.2)
  | .ph _ _ body rest, env =>
    (renderPh body env).bind fun r1 => (renderParts rest r1.2).bind fun r2 => .val (r1.1 ++ r2.1, r2.2)
  | .plural _ _ value cases _ dflt rest, env =>
    (eval env value).bind fun v =>
      match v with
      | .int i =>
        (renderPlural cases (renderParts dflt) i env).bind fun r1 =>
          (renderParts rest r1.2).bind fun r2 => .val (r1.1 ++ r2.1, r2.2)
      | _ => .error
def renderPlural : PluralCases → (Env → ROut) → Int → Env → ROut
  | .nil, dflt, _, env => dflt env
  | .cons _ v _ body rest, dflt, i, env => if i == v then renderParts body env else renderPlural rest dflt i env
def renderPh : MsgPhBody → Env → ROut
  | .htmlTag _ text, env => .val (text, env)
  | .cmd c, env => renderCmd c env
/-- the placeholders of a message with their depth below its root, in document order (a plural's cases lie
    one level deeper than its default) -/
def sphAll : MsgParts → Nat → List (Nat × Bytes × (Env → ROut))
  | .nil, _ => []
  | .text _ _ rest, d => sphAll rest d
  | .ph _ name body rest, d => (d, name, renderPh body) :: sphAll rest d
  | .plural _ _ _ cases _ dflt rest, d => sphAllCases cases (d + 3) ++ sphAll dflt (d + 2) ++ sphAll rest d
def sphAllCases : PluralCases → Nat → List (Nat × Bytes × (Env → ROut))
  | .nil, _ => []
  | .cons _ _ _ body rest, d => sphAll body d ++ sphAllCases rest d
end

/-- {switch}: the first case one of whose values equals the switch value, WHEREVER it stands (the cases
    in order, the values of each in order, stopping at the first match); when no case matches, the first
    {default}; when there is none, nothing -/
def renderCases (cs : CaseList) (sv : Val) (env : Env) : Out Bytes :=
  (renderMatch reg hasBundle escape entry call dsem cs sv env).bind
    (orDefault fun _ => renderDefault reg hasBundle escape entry call dsem cs env)
end

/-- is autoescaping on for the template? (its own attribute, else the namespace's, else on) -/
def escapeOn (t : Registry.Tmpl) : Bool :=
  (if t.autoescape != .unspecified then t.autoescape else t.nsAutoescape) != .off

/-- a template applied to the data passed to it; `fuel` bounds the call depth -/
def renderTmpl (reg : Registry.Reg) (hasBundle : Bool) (dsem : Option LibSem) : Nat → Registry.Tmpl → CallEnv → Out Bytes
  | 0, _, _ => .unspec
  | fuel + 1, t, ce =>
    renderBlock reg hasBundle (escapeOn t) ce.entry (renderTmpl reg hasBundle dsem fuel) dsem t.body
      { vars := ce.entry, loops := [], ij := ce.ij, globals := ce.globals }

/-- Spec.render: the text of template `name` on `data` -/
def render (reg : Registry.Reg) (globals : Binds) (ij : Option Binds) (msgs : Bool) (name : Bytes) (data : Binds) (fuel : Nat)
    (dsem : Option LibSem := none) : Out Bytes :=
  match Registry.lookup reg name with
  | none => .error
  | some t => renderTmpl reg msgs dsem fuel t { entry := data, ij := ij, globals := globals }

end SoyVerif.Spec.Eval
