/-
  Specification of the Go→Soy conversion, written from the property statement (C20), not from
  convert.go: "converting any JSON-like Go value (nil, booleans, all integer and float kinds, strings,
  time values, slices, string-keyed maps, structs and pointers to them) yields Soy data with the same
  structure and scalar values, … and struct fields appear under their lowerCamel names".

  `JsonLike` delimits the inputs, `Shape` says what "same structure and scalar values" means.
  Both are parameterised by the key function applied to struct field names (identity or lowerCamel).
-/
import SoyVerif.Model.Convert

namespace SoyVerif.Spec
open SoyVerif

mutual
/-- the JSON-like Go values: no existing Values, marshalers or unsupported kinds anywhere, map keys
    distinct (a Go map has distinct keys), and the keys of a struct's exported fields distinct. -/
def JsonLike (key : Bytes → Bytes) : GoVal → Bool
  | .nil => true
  | .bool _ => true
  | .int _ _ => true
  | .uint _ _ => true
  | .float32 _ => true
  | .float64 _ => true
  | .string _ => true
  | .time _ => true
  | .nilSlice => true
  | .nilMap => true
  | .nilPtr => true
  | .slice xs => JsonLikeList key xs
  | .strMap kvs => JsonLikeKvs key [] kvs
  | .struct fs => JsonLikeFields key [] fs
  | .ptr g => JsonLike key g
  | .iface g => JsonLike key g
  | _ => false
def JsonLikeList (key : Bytes → Bytes) : List GoVal → Bool
  | [] => true
  | x :: xs => JsonLike key x && JsonLikeList key xs
def JsonLikeKvs (key : Bytes → Bytes) : List Bytes → List (Bytes × GoVal) → Bool
  | _, [] => true
  | seen, (k, x) :: r => !seen.contains k && JsonLike key x && JsonLikeKvs key (seen ++ [k]) r
def JsonLikeFields (key : Bytes → Bytes) : List Bytes → List (Bytes × Bool × GoVal) → Bool
  | _, [] => true
  | seen, (_, false, _) :: r => JsonLikeFields key seen r          -- unexported: never looked at
  | seen, (name, true, x) :: r =>
    !seen.contains (key name) && JsonLike key x && JsonLikeFields key (seen ++ [key name]) r
end

mutual
/-- `Shape key g v`: the Soy value `v` has the structure and the scalars of the Go value `g`. -/
inductive Shape (key : Bytes → Bytes) : GoVal → Value → Prop
  | nil : Shape key .nil .null
  | nilPtr : Shape key .nilPtr .null
  | bool (b : Bool) : Shape key (.bool b) (.bool b)
  | int (k : IntKind) (i : Int64) : Shape key (.int k i) (.int i)
  /-- an unsigned integer becomes the Int with the same 64 bits: the same number iff it is below 2^63 -/
  | uint (k : UintKind) (u : UInt64) : Shape key (.uint k u) (.int u.toInt64)
  | float32 (f : F64) : Shape key (.float32 f) (.float f)
  | float64 (f : F64) : Shape key (.float64 f) (.float f)
  | string (s : Bytes) : Shape key (.string s) (.str s)
  | time (s : Bytes) : Shape key (.time s) (.str s)
  | nilSlice : Shape key .nilSlice (.list 0 [])
  | slice {xs vs id} : id ≠ 0 → ShapeList key xs vs → Shape key (.slice xs) (.list id vs)
  | nilMap {id} : id ≠ 0 → Shape key .nilMap (.map id [])
  | strMap {kvs m id} : id ≠ 0 → ShapeKvs key kvs m → Shape key (.strMap kvs) (.map id m)
  | struct {fs m id} : id ≠ 0 → ShapeFields key fs m → Shape key (.struct fs) (.map id m)
  | ptr {g v} : Shape key g v → Shape key (.ptr g) v
  | iface {g v} : Shape key g v → Shape key (.iface g) v
inductive ShapeList (key : Bytes → Bytes) : List GoVal → List Value → Prop
  | nil : ShapeList key [] []
  | cons {x v xs vs} : Shape key x v → ShapeList key xs vs → ShapeList key (x :: xs) (v :: vs)
inductive ShapeKvs (key : Bytes → Bytes) : List (Bytes × GoVal) → List (Bytes × Value) → Prop
  | nil : ShapeKvs key [] []
  | cons {k x v r m} : Shape key x v → ShapeKvs key r m → ShapeKvs key ((k, x) :: r) ((k, v) :: m)
/-- exported fields, in order, under `key name`; unexported fields do not appear -/
inductive ShapeFields (key : Bytes → Bytes) : List (Bytes × Bool × GoVal) → List (Bytes × Value) → Prop
  | nil : ShapeFields key [] []
  | skip {name x r m} : ShapeFields key r m → ShapeFields key ((name, false, x) :: r) m
  | field {name x v r m} : Shape key x v → ShapeFields key r m →
      ShapeFields key ((name, true, x) :: r) ((key name, v) :: m)
end

/-- ASCII lowerCamel: the first letter lower-cased, the rest unchanged -/
def asciiLowerFirst : Bytes → Bytes
  | [] => []
  | c :: r => (if 65 ≤ c ∧ c ≤ 90 then c + 32 else c) :: r

end SoyVerif.Spec
