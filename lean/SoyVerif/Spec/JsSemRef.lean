/-
  Big-step semantics of the JavaScript expression fragment the generator emits — the fragment of
  Spec/JsSem.lean extended with VARIABLES and DATA REFERENCES (locals, `opt_data.k`, `x.k`, `x[i]`,
  the null-safe conditional) and the pure built-ins (`Math.min/max/floor/ceil/round`, `.length`,
  `!= null`).  Written from ECMA-262 (5.1 §8.7 references, §11.2.1 property accessors, §11.9.3
  `== null`, §15.8.2 Math), NOT from the generator.

  As in Spec/JsSem it is the semantics of the COMMON SUBSET: numbers are integers a double holds
  exactly; everything JavaScript defines only through coercions or on values outside the subset
  (a property of a primitive, an array used as an object, a float argument of Math.*) is `unspec`.
  `error` is a thrown TypeError (property access on null / undefined).
-/
import SoyVerif.Base.Bytes
import SoyVerif.Base.F64
import SoyVerif.Spec.JsSem

namespace SoyVerif.Spec.JsSemRef
open SoyVerif
open SoyVerif.Spec.JsSem (JsOp two53 exact)

inductive JVal where
  | undefined
  | null
  | bool (b : Bool)
  | num (i : Int)
  | str (s : Bytes)
  | arr (xs : List JVal)
  | obj (kvs : List (Bytes × JVal))

instance : Inhabited JVal := ⟨.undefined⟩

inductive JOut where
  | val (v : JVal)
  | error
  | unspec

def JOut.bind (o : JOut) (f : JVal → JOut) : JOut :=
  match o with
  | .val v => f v
  | .error => .error
  | .unspec => .unspec

/-- the property `k` of an object literal / JSON object: `undefined` when absent -/
def prop : List (Bytes × JVal) → Bytes → JVal
  | [], _ => .undefined
  | (k', v) :: r, k => if k' == k then v else prop r k

/-- what the generated function can see: `opt_data`, `opt_ijData`, its `var`s by JavaScript name -/
structure JEnv where
  optData : List (Bytes × JVal)
  ijData : Option (List (Bytes × JVal))
  locals : List (Bytes × JVal)

inductive Fn1 where
  | floor | ceil | round | length | nonNull
inductive Fn2 where
  | min | max

/-- the shapes of expression text the generator writes -/
inductive JsExpr where
  | null
  | bool (b : Bool)
  | num (i : Int)
  | str (s : Bytes)
  | neg (a : JsExpr)                      -- `(- a)`
  | not (a : JsExpr)                      -- `!(a)`
  | bin (op : JsOp) (a b : JsExpr)        -- `((a) op (b))`
  | cond (c a b : JsExpr)                 -- `((c) ?a:b)`
  | nonNullElse (a a' b : JsExpr)         -- `((a) != null ? a' : b)`
  | local (name : Bytes)                  -- `name`
  | optData (key : Bytes)                 -- `opt_data.key`
  | ijData                                -- `opt_ijData`
  | member (x : JsExpr) (k : Bytes)       -- `x.k`
  | index (x : JsExpr) (i : Int)          -- `x[i]`
  | guard (g rest : JsExpr)               -- `(g == null) ? null : rest`
  | paren (x : JsExpr)                    -- `(x)`
  | call1 (f : Fn1) (a : JsExpr)          -- `Math.floor(a)`, `a.length`, `a!= null`
  | call2 (f : Fn2) (a b : JsExpr)        -- `Math.min(a,b)`
  | loopFirst (idx : Bytes)               -- `(idx == 0)`
  | loopLastEach (idx lim : Bytes)        -- `(idx == lim - 1)`
  | loopLastRange (v step lim : Bytes)    -- `(v + step >= lim)`

def numRes (i : Int) : JOut := if exact i then .val (.num i) else .unspec

/-- ToBoolean (§9.2) -/
def toBoolean : JVal → Bool
  | .undefined => false
  | .null => false
  | .bool b => b
  | .num i => i != 0
  | .str s => !s.isEmpty
  | .arr _ => true
  | .obj _ => true

/-- ToString (§9.8) of a primitive of the subset -/
def toStr? : JVal → Option Bytes
  | .null => some [110, 117, 108, 108]
  | .bool b => some (if b then [116, 114, 117, 101] else [102, 97, 108, 115, 101])
  | .num i => some (F64.intDigits i)
  | .str s => some s
  | _ => none

def isStr : JVal → Bool
  | .str _ => true
  | _ => false

/-- `v == null` (§11.9.3): true for null and undefined only -/
def isNullish : JVal → Bool
  | .undefined => true
  | .null => true
  | _ => false

def binop (op : JsOp) (a b : JVal) : JOut :=
  match op with
  | .add =>
    match a, b with
    | .num x, .num y => numRes (x + y)
    | _, _ =>
      if isStr a || isStr b then
        match toStr? a, toStr? b with
        | some s1, some s2 => .val (.str (s1 ++ s2))
        | _, _ => .unspec
      else .unspec
  | .sub => match a, b with
    | .num x, .num y => numRes (x - y)
    | _, _ => .unspec
  | .mul => match a, b with
    | .num x, .num y => numRes (x * y)
    | _, _ => .unspec
  | .mod => match a, b with
    | .num x, .num y => if y == 0 then .unspec else numRes (Int.tmod x y)
    | _, _ => .unspec
  | .lt => match a, b with
    | .num x, .num y => .val (.bool (decide (x < y)))
    | _, _ => .unspec
  | .le => match a, b with
    | .num x, .num y => .val (.bool (decide (x ≤ y)))
    | _, _ => .unspec
  | .gt => match a, b with
    | .num x, .num y => .val (.bool (decide (y < x)))
    | _, _ => .unspec
  | .ge => match a, b with
    | .num x, .num y => .val (.bool (decide (y ≤ x)))
    | _, _ => .unspec
  | .eq => match a, b with
    | .null, .null => .val (.bool true)
    | .bool x, .bool y => .val (.bool (x == y))
    | .num x, .num y => .val (.bool (x == y))
    | .str x, .str y => .val (.bool (x == y))
    | _, _ => .unspec
  | .ne => match a, b with
    | .null, .null => .val (.bool false)
    | .bool x, .bool y => .val (.bool (!(x == y)))
    | .num x, .num y => .val (.bool (!(x == y)))
    | .str x, .str y => .val (.bool (!(x == y)))
    | _, _ => .unspec
  | .and => .unspec
  | .or => .unspec

/-- `x.k` on an evaluated `x` -/
def getMember (v : JVal) (k : Bytes) : JOut :=
  match v with
  | .obj kvs => .val (prop kvs k)
  | .undefined => .error
  | .null => .error
  | _ => .unspec

/-- `x[i]` on an evaluated `x` -/
def getIndex (v : JVal) (i : Int) : JOut :=
  match v with
  | .arr xs => if i < 0 then .unspec else .val (xs.getD i.toNat .undefined)
  | .undefined => .error
  | .null => .error
  | _ => .unspec

def apply1 (f : Fn1) (v : JVal) : JOut :=
  match f with
  | .floor | .ceil | .round =>
    match v with
    | .num i => .val (.num i)             -- an integer is its own floor / ceiling / rounding
    | _ => .unspec
  | .length =>
    match v with
    | .arr xs => numRes xs.length
    | .undefined => .error
    | .null => .error
    | _ => .unspec
  | .nonNull => .val (.bool (!isNullish v))

def apply2 (f : Fn2) (a b : JVal) : JOut :=
  match a, b with
  | .num x, .num y =>
    match f with
    | .min => .val (.num (if x < y then x else y))
    | .max => .val (.num (if x > y then x else y))
  | _, _ => .unspec

/-- the number a variable holds -/
def localNum (env : JEnv) (x : Bytes) : Option Int :=
  match env.locals.find? (·.1 == x) with
  | some (_, .num i) => some i
  | _ => none

def eval (env : JEnv) : JsExpr → JOut
  | .null => .val .null
  | .bool b => .val (.bool b)
  | .num i => if exact i then .val (.num i) else .unspec
  | .str s => .val (.str s)
  | .neg a => (eval env a).bind fun v => match v with
    | .num i => numRes (-i)
    | _ => .unspec
  | .not a => (eval env a).bind fun v => .val (.bool (!toBoolean v))
  | .bin .and a b => (eval env a).bind fun va => match va with
    | .bool false => .val (.bool false)
    | .bool true => (eval env b).bind fun vb => match vb with
      | .bool y => .val (.bool y)
      | _ => .unspec
    | _ => .unspec
  | .bin .or a b => (eval env a).bind fun va => match va with
    | .bool true => .val (.bool true)
    | .bool false => (eval env b).bind fun vb => match vb with
      | .bool y => .val (.bool y)
      | _ => .unspec
    | _ => .unspec
  | .bin op a b => (eval env a).bind fun va => (eval env b).bind fun vb => binop op va vb
  | .cond c a b => (eval env c).bind fun vc => if toBoolean vc then eval env a else eval env b
  | .nonNullElse a a' b => (eval env a).bind fun va => if isNullish va then eval env b else eval env a'
  | .local name =>
    match (env.locals.find? (·.1 == name)) with
    | some kv => .val kv.2
    | none => .unspec                      -- not a declared `var` of the function
  | .optData key => .val (prop env.optData key)
  | .ijData =>
    match env.ijData with
    | some kvs => .val (.obj kvs)
    | none => .unspec                      -- a function called without injected data: outside the subset
  | .member x k => (eval env x).bind fun v => getMember v k
  | .index x i => (eval env x).bind fun v => getIndex v i
  | .guard g rest => (eval env g).bind fun v => if isNullish v then .val .null else eval env rest
  | .paren x => eval env x
  | .call1 f a => (eval env a).bind fun v => apply1 f v
  | .call2 f a b => (eval env a).bind fun va => (eval env b).bind fun vb => apply2 f va vb
  -- the tests of a loop's first / last iteration: comparisons of numeric variables (§11.9.3, §11.8.4 on numbers)
  | .loopFirst idx =>
    match localNum env idx with
    | some i => .val (.bool (i == 0))
    | none => .unspec
  | .loopLastEach idx lim =>
    match localNum env idx, localNum env lim with
    | some i, some n => (numRes (n - 1)).bind fun _ => .val (.bool (i == n - 1))
    | _, _ => .unspec
  | .loopLastRange v step lim =>
    match localNum env v, localNum env step, localNum env lim with
    | some a, some s, some l => (numRes (a + s)).bind fun _ => .val (.bool (decide (l ≤ a + s)))
    | _, _, _ => .unspec

end SoyVerif.Spec.JsSemRef
