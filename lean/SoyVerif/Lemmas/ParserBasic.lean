/-
  Plumbing for proofs about the expression parser model (`Model/Parser.lean`):

  * the state monad `P = StateT PState (Except PErr)` run on a state (`bind_ok`);
  * the STREAM VIEW of a parser state: `At st ts` — the tokens (without positions) the parser
    will see next are `ts`, whether the first one sits in the channel (`peekCount = 0`) or has
    been read and backed up (`peekCount = 1`); `At1` the backed-up form every complete
    `parseExpr` ends in; `Just st it ts` the state right after `next` returned `it`;
  * `next` / `backup` / `peek` / `expect` on such states;
  * the table facts (`TableOK`) the proofs need from the GENERATED tables, and the operator
    loop's three moves: stop, binary operator, ternary.
-/
import SoyVerif.Model.PrintTokens

set_option linter.unusedSimpArgs false

namespace SoyVerif.Lemmas.ParserBasic
open SoyVerif SoyVerif.Model SoyVerif.Model.Parser SoyVerif.Model.PrintTokens SoyVerif.Model.Printer

/-! ### the monad -/

theorem bind_ok {α β : Type} {x : P α} {f : α → P β} {st st' : PState} {a : α}
    (h : x st = .ok (a, st')) : (x >>= f) st = f a st' := by
  show (StateT.bind x f) st = _
  unfold StateT.bind
  simp only [h]
  rfl

theorem pure_run {α : Type} (a : α) (st : PState) : (pure a : P α) st = .ok (a, st) := rfl

/-! ### the stream view -/

def At (st : PState) (ts : List Tk) : Prop :=
  (st.peekCount = 0 ∧ st.rest.map Item.tk = ts) ∨ (st.peekCount = 1 ∧ (st.tok0 :: st.rest).map Item.tk = ts)

def At1 (st : PState) (ts : List Tk) : Prop :=
  st.peekCount = 1 ∧ (st.tok0 :: st.rest).map Item.tk = ts

def Just (st : PState) (it : Item) (ts : List Tk) : Prop :=
  st.peekCount = 0 ∧ st.tok0 = it ∧ st.rest.map Item.tk = ts

theorem At1.at {st ts} (h : At1 st ts) : At st ts := Or.inr h
theorem Just.at {st it ts} (h : Just st it ts) : At st ts := Or.inl ⟨h.1, h.2.2⟩

theorem at_init (items : List Item) : At (initState items) (items.map Item.tk) := Or.inl ⟨rfl, rfl⟩

theorem next_at {st : PState} {t : Tk} {ts : List Tk} (h : At st (t :: ts)) :
    ∃ it st', next st = .ok (it, st') ∧ it.typ = t.typ ∧ it.val = t.val ∧ Just st' it ts := by
  rcases h with ⟨h0, hr⟩ | ⟨h1, hr⟩
  · cases hrest : st.rest with
    | nil => simp [hrest] at hr
    | cons x r =>
      simp [hrest] at hr
      refine ⟨x, { st with rest := r, tok0 := x }, ?_, ?_, ?_, ?_⟩
      · simp [next, bind, StateT.bind, get, getThe, MonadStateOf.get, StateT.get, set, StateT.set, MonadStateOf.set, modify, modifyGet, MonadStateOf.modifyGet, StateT.modifyGet, pure, StateT.pure, Except.pure, Except.bind, nextItem, tokenAt, h0, hrest]
      · rw [← hr.1]; rfl
      · rw [← hr.1]; rfl
      · exact ⟨h0, rfl, hr.2⟩
  · simp at hr
    refine ⟨st.tok0, { st with peekCount := 0 }, ?_, ?_, ?_, ?_⟩
    · simp [next, bind, StateT.bind, get, getThe, MonadStateOf.get, StateT.get, set, StateT.set, MonadStateOf.set, modify, modifyGet, MonadStateOf.modifyGet, StateT.modifyGet, pure, StateT.pure, Except.pure, Except.bind, nextItem, tokenAt, h1]
    · rw [← hr.1]; rfl
    · rw [← hr.1]; rfl
    · exact ⟨rfl, rfl, hr.2⟩

theorem backup_just {st : PState} {it : Item} {ts : List Tk} (h : Just st it ts) :
    ∃ st', backup st = .ok ((), st') ∧ At1 st' (it.tk :: ts) := by
  refine ⟨{ st with peekCount := st.peekCount + 1 }, rfl, ?_, ?_⟩
  · simp [h.1]
  · simp [h.2.1, h.2.2]

/-- on a backed-up state, `next` followed by `backup` restores the state exactly -/
theorem next_backup_at1 {st : PState} {t : Tk} {ts : List Tk} (h : At1 st (t :: ts)) :
    ∃ it st', next st = .ok (it, st') ∧ it.typ = t.typ ∧ it.val = t.val ∧ backup st' = .ok ((), st) := by
  obtain ⟨h1, hr⟩ := h
  simp at hr
  refine ⟨st.tok0, { st with peekCount := 0 }, ?_, ?_, ?_, ?_⟩
  · simp [next, bind, StateT.bind, get, getThe, MonadStateOf.get, StateT.get, set, StateT.set, MonadStateOf.set, modify, modifyGet, MonadStateOf.modifyGet, StateT.modifyGet, pure, StateT.pure, Except.pure, Except.bind, nextItem, tokenAt, h1]
  · rw [← hr.1]; rfl
  · rw [← hr.1]; rfl
  · cases st
    simp_all [backup, modify, modifyGet, MonadStateOf.modifyGet, StateT.modifyGet, pure, Except.pure]

theorem peek_at {st : PState} {t : Tk} {ts : List Tk} (h : At st (t :: ts)) :
    ∃ it st', peek st = .ok (it, st') ∧ it.typ = t.typ ∧ it.val = t.val ∧ At1 st' (t :: ts) := by
  rcases h with ⟨h0, hr⟩ | ⟨h1, hr⟩
  · cases hrest : st.rest with
    | nil => simp [hrest] at hr
    | cons x r =>
      simp [hrest] at hr
      refine ⟨x, { st with rest := r, tok0 := x, peekCount := 1 }, ?_, ?_, ?_, ?_⟩
      · simp [peek, bind, StateT.bind, get, getThe, MonadStateOf.get, StateT.get, set, StateT.set, MonadStateOf.set, modify, modifyGet, MonadStateOf.modifyGet, StateT.modifyGet, pure, StateT.pure, Except.pure, Except.bind, nextItem, tokenAt, h0, hrest]
      · rw [← hr.1]; rfl
      · rw [← hr.1]; rfl
      · exact ⟨rfl, by simp [hr.1, hr.2]⟩
  · have hr' := hr
    simp at hr
    refine ⟨st.tok0, st, ?_, ?_, ?_, ⟨h1, hr'⟩⟩
    · simp [peek, bind, StateT.bind, get, getThe, MonadStateOf.get, StateT.get, set, StateT.set, MonadStateOf.set, modify, modifyGet, MonadStateOf.modifyGet, StateT.modifyGet, pure, StateT.pure, Except.pure, Except.bind, nextItem, tokenAt, h1]
    · rw [← hr.1]; rfl
    · rw [← hr.1]; rfl

/-- `peek` does not change a backed-up state -/
theorem peek_at1 {st : PState} {t : Tk} {ts : List Tk} (h : At1 st (t :: ts)) :
    ∃ it, peek st = .ok (it, st) ∧ it.typ = t.typ ∧ it.val = t.val := by
  obtain ⟨h1, hr⟩ := h
  simp at hr
  refine ⟨st.tok0, ?_, ?_, ?_⟩
  · simp [peek, bind, StateT.bind, get, getThe, MonadStateOf.get, StateT.get, set, StateT.set, MonadStateOf.set, modify, modifyGet, MonadStateOf.modifyGet, StateT.modifyGet, pure, StateT.pure, Except.pure, Except.bind, nextItem, tokenAt, h1]
  · rw [← hr.1]; rfl
  · rw [← hr.1]; rfl

theorem expect_at {st : PState} {t : Tk} {ts : List Tk} (h : At st (t :: ts)) :
    ∃ it st', expect t.typ st = .ok (it, st') ∧ it.typ = t.typ ∧ it.val = t.val ∧ Just st' it ts := by
  obtain ⟨it, st', hn, ht, hv, hj⟩ := next_at h
  refine ⟨it, st', ?_, ht, hv, hj⟩
  unfold expect
  rw [bind_ok hn]
  simp [ht, pure_run]


/-! ### facts about the generated tables

`TableOK` lists what the proofs use from `Gen/ParseTables.lean`; `Inst/C17.lean` proves it by
`decide` on the tables regenerated from /repo on every run. -/

structure TableOK : Prop where
  /-- `isBinaryOp` holds exactly for the fourteen operators `newBinaryOpNode` knows -/
  binop : ∀ t ∈ ItemType.all, isBinaryOp t = (binOpOf t).isSome
  /-- `isUnaryOp` holds exactly for `not` and unary minus -/
  unop : ∀ t ∈ ItemType.all, isUnaryOp t = (t == .tNot || t == .tNegate)
  /-- the printer's levels are the parser's table shifted by one -/
  prec : ∀ op ∈ BinOp.all, precedence (tokOf op) + 1 = binPrec op
  precNot : precedence .tNot + 1 = precUnary
  precNeg : precedence .tNegate + 1 = precUnary

theorem mem_all (t : ItemType) : t ∈ ItemType.all := by
  cases t <;> simp [ItemType.all]

theorem binop_mem_all (op : BinOp) : op ∈ BinOp.all := by
  cases op <;> simp [BinOp.all]

theorem binOpOf_tokOf (op : BinOp) : binOpOf (tokOf op) = some op := by cases op <;> rfl

theorem tokOf_of_binOpOf {t : ItemType} {op : BinOp} (h : binOpOf t = some op) : t = tokOf op := by
  cases t <;> simp [binOpOf] at h <;> subst h <;> rfl

theorem leftMin_ge (op : BinOp) : binPrec op ≤ leftMin op := by cases op <;> decide
theorem rightMin_le (op : BinOp) : rightMin op ≤ binPrec op + 1 := by cases op <;> decide
theorem binPrec_le (op : BinOp) : binPrec op ≤ precMul := by cases op <;> decide
theorem binPrec_pos (op : BinOp) : 1 ≤ binPrec op := by cases op <;> decide

section
variable (T : TableOK)
include T

theorem isBinaryOp_eq (t : ItemType) : isBinaryOp t = (binOpOf t).isSome := T.binop t (mem_all t)
theorem isUnaryOp_eq (t : ItemType) : isUnaryOp t = (t == .tNot || t == .tNegate) := T.unop t (mem_all t)
theorem isBinaryOp_tokOf (op : BinOp) : isBinaryOp (tokOf op) = true := by
  rw [isBinaryOp_eq T, binOpOf_tokOf]; rfl
theorem prec_tokOf (op : BinOp) : precedence (tokOf op) + 1 = binPrec op := T.prec op (binop_mem_all op)

/-- every binary operator binds less tightly than the unary ones -/
theorem binop_prec_lt {t : ItemType} (h : isBinaryOp t = true) : precedence t + 1 < precUnary := by
  rw [isBinaryOp_eq T] at h
  cases hb : binOpOf t with
  | none => simp [hb] at h
  | some op =>
    have := tokOf_of_binOpOf hb
    subst this
    have h1 := prec_tokOf T op
    have h2 := binPrec_le op
    simp [precMul, precUnary] at *
    omega
end

/-! ### the operator loop -/

/-- the loop of `parseExpr(p)` stops in front of a token of type `h` -/
def Stops (p : Nat) (h : ItemType) : Prop :=
  (isBinaryOp h = false ∨ precedence h < p) ∧ (p = 0 → h ≠ .tTernIf)

section
variable (pf : Bytes → Option UInt64)

theorem exprLoop_stop {F p : Nat} {e : Expr} {st : PState} {t : Tk} {ts : List Tk}
    (hst : At st (t :: ts)) (hs : Stops p t.typ) :
    ∃ st2, exprLoop pf (F + 1) p e st = .ok (e, st2) ∧ At1 st2 (t :: ts) := by
  obtain ⟨it, st1, hn, ht, hv, hj⟩ := next_at hst
  obtain ⟨st2, hb, h2⟩ := backup_just hj
  refine ⟨st2, ?_, ?_⟩
  · unfold exprLoop
    rw [bind_ok hn]
    have c1 : (!isBinaryOp it.typ || decide (precedence it.typ < p)) = true := by
      rw [ht]; rcases hs.1 with h | h <;> simp [h]
    have c2 : (p == 0 && it.typ == ItemType.tTernIf) = false := by
      rw [ht]
      by_cases hp : p = 0
      · simp [hs.2 hp]
      · simp [hp]
    simp only [c1, c2, if_true, if_false, Bool.false_eq_true]
    rw [bind_ok hb]
    rfl
  · have : it.tk = t := by cases t; cases it; simp_all [Item.tk]
    rw [← this]; exact h2

/-- the same on a backed-up state: the state is unchanged -/
theorem exprLoop_stop1 {F p : Nat} {e : Expr} {st : PState} {t : Tk} {ts : List Tk}
    (hst : At1 st (t :: ts)) (hs : Stops p t.typ) :
    exprLoop pf (F + 1) p e st = .ok (e, st) := by
  obtain ⟨it, st1, hn, ht, hv, hb⟩ := next_backup_at1 hst
  unfold exprLoop
  rw [bind_ok hn]
  have c1 : (!isBinaryOp it.typ || decide (precedence it.typ < p)) = true := by
    rw [ht]; rcases hs.1 with h | h <;> simp [h]
  have c2 : (p == 0 && it.typ == ItemType.tTernIf) = false := by
    rw [ht]
    by_cases hp : p = 0
    · simp [hs.2 hp]
    · simp [hp]
  simp only [c1, c2, if_true, if_false, Bool.false_eq_true]
  rw [bind_ok hb]
  rfl

/-- the loop takes a binary operator of sufficient precedence -/
theorem exprLoop_bin (T : TableOK) {F p : Nat} {e : Expr} {st : PState} {op : BinOp} {v : Bytes} {ts : List Tk}
    (hst : At st (⟨tokOf op, v⟩ :: ts)) (hp : p + 1 ≤ binPrec op) :
    ∃ pos st1, At st1 ts ∧
      exprLoop pf (F + 1) p e st =
        (parseExpr pf F (rightMin op - 1) >>= fun rhs => exprLoop pf F p (Expr.bin op pos e rhs)) st1 := by
  obtain ⟨it, st1, hn, ht, hv, hj⟩ := next_at hst
  refine ⟨it.pos, st1, hj.at, ?_⟩
  have ht' : it.typ = tokOf op := ht
  have hq := prec_tokOf T op
  conv => lhs; unfold exprLoop
  rw [bind_ok hn]
  have c1 : (!isBinaryOp (tokOf op) || decide (precedence (tokOf op) < p)) = false := by
    rw [isBinaryOp_tokOf T]
    simp; omega
  have hr : (if (tokOf op == ItemType.tElvis) = true then 0 else binPrec op) = rightMin op - 1 := by cases op <;> rfl
  simp only [ht', c1, if_false, Bool.false_eq_true, binOpOf_tokOf, hq, hr]

/-- at level 0 the loop enters the ternary on `?` -/
theorem exprLoop_tern (T : TableOK) {F : Nat} {e : Expr} {st : PState} {v : Bytes} {ts : List Tk}
    (hst : At st (⟨.tTernIf, v⟩ :: ts)) :
    ∃ st1, At st1 ts ∧ exprLoop pf (F + 1) 0 e st = parseTernary pf F e st1 := by
  obtain ⟨it, st1, hn, ht, hv, hj⟩ := next_at hst
  refine ⟨st1, hj.at, ?_⟩
  have ht' : it.typ = .tTernIf := ht
  conv => lhs; unfold exprLoop
  rw [bind_ok hn]
  have c1 : (!isBinaryOp it.typ || decide (precedence it.typ < 0)) = true := by
    rw [ht', isBinaryOp_eq T]; rfl
  simp only [c1, if_true, ht']
  rfl
end

end SoyVerif.Lemmas.ParserBasic
