/-
  The invariant of the interpreter model that carries C06 (no panic), C02 (scopes are restored, the
  callee cannot touch the caller's frames) and C08 (caller-owned maps are never written):

    Good W ctx st r :  r is not a panic,
                       if r is ok the scope is again `ctx`,
                       the heap only grows, every cell that existed keeps its `ro` mark, and keeps its
                       contents unless it is writable (`W`), and no write reached a caller-owned map.

  `GoodRun run` = for every scope whose top frame is an own (not caller-owned) cell, `run` is Good with
  exactly that top frame writable.
-/
import SoyVerif.Model.Eval

namespace SoyVerif.Model.Eval
open SoyVerif SoyVerif.Model

/-- the cell of the innermost frame -/
def top : Scope → Nat
  | [] => 0
  | f :: _ => f.ref

/-- the innermost frame exists and is not a caller-owned map -/
def Own (ctx : Scope) (st : St) : Prop :=
  ∃ f r c, ctx = f :: r ∧ st.heap[f.ref]? = some c ∧ c.ro = false

structure Ext (W : Nat → Prop) (st st' : St) : Prop where
  len : st.heap.length ≤ st'.heap.length
  keep : ∀ i c, st.heap[i]? = some c → ∃ c', st'.heap[i]? = some c' ∧ c'.ro = c.ro ∧ (¬ W i → c'.vars = c.vars)
  foreign : st'.foreign = st.foreign

structure Good (W : Nat → Prop) (ctx : Scope) (st : St) (r : R) : Prop where
  np : r.cls ≠ .panic
  ctx_eq : r.cls = .ok → r.ctx = ctx
  ext : Ext W st r.st

def GoodRun (run : Run) : Prop :=
  ∀ ctx st, Own ctx st → Good (fun i => i = top ctx) ctx st (run ctx st)

/-- a property of the remembered {default} of a switch is kept by `pickDefault` -/
theorem pickDefault_all {P : Run → Prop} {values : List Expr} {body : Run} {dflt : Option Run} (hb : P body)
    (hd : ∀ d, dflt = some d → P d) : ∀ d, pickDefault values body dflt = some d → P d := by
  intro d h
  unfold pickDefault at h
  split at h
  · simp only [Option.some.injEq] at h; rw [← h]; exact hb
  · exact hd d h

theorem Ext.refl (W : Nat → Prop) (st : St) : Ext W st st :=
  ⟨Nat.le_refl _, fun _ c h => ⟨c, h, rfl, fun _ => rfl⟩, rfl⟩

/-- states that differ in output / fresh-identity counter only -/
theorem Ext.of_heap_eq {W : Nat → Prop} {st st' : St} (hh : st'.heap = st.heap) (hf : st'.foreign = st.foreign) :
    Ext W st st' :=
  ⟨by rw [hh]; exact Nat.le_refl _, fun _ c h => ⟨c, by rw [hh]; exact h, rfl, fun _ => rfl⟩, hf⟩

theorem Ext.trans {W W' : Nat → Prop} {s0 s1 s2 : St} (h1 : Ext W s0 s1) (h2 : Ext W' s1 s2)
    (hw : ∀ i, i < s0.heap.length → W' i → W i) : Ext W s0 s2 := by
  refine ⟨Nat.le_trans h1.len h2.len, ?_, by rw [h2.foreign, h1.foreign]⟩
  intro i c hc
  obtain ⟨c1, hc1, hro1, hv1⟩ := h1.keep i c hc
  obtain ⟨c2, hc2, hro2, hv2⟩ := h2.keep i c1 hc1
  refine ⟨c2, hc2, by rw [hro2, hro1], ?_⟩
  intro hnw
  have hi : i < s0.heap.length := by
    have := List.getElem?_eq_some_iff.mp hc
    exact this.1
  have : ¬ W' i := fun h => hnw (hw i hi h)
  rw [hv2 this, hv1 hnw]

theorem Ext.mono {W W' : Nat → Prop} {s0 s1 : St} (h : Ext W s0 s1) (hw : ∀ i, W i → W' i) : Ext W' s0 s1 :=
  ⟨h.len, fun i c hc => by
    obtain ⟨c', h1, h2, h3⟩ := h.keep i c hc
    exact ⟨c', h1, h2, fun hn => h3 (fun hwi => hn (hw i hwi))⟩, h.foreign⟩

/-- an own top frame stays an own top frame -/
theorem Own.ext {W : Nat → Prop} {ctx : Scope} {st st' : St} (h : Own ctx st) (e : Ext W st st') : Own ctx st' := by
  obtain ⟨f, r, c, hctx, hc, hro⟩ := h
  obtain ⟨c', hc', hro', _⟩ := e.keep _ c hc
  exact ⟨f, r, c', hctx, hc', by rw [hro', hro]⟩

/-! ### heap operations -/

theorem heapSet_length (h : List Cell) (i : Nat) (k : Bytes) (v : Value) : (heapSet h i k v).1.length = h.length := by
  induction h generalizing i with
  | nil => simp [heapSet]
  | cons c r ih =>
    cases i with
    | zero => simp [heapSet]
    | succ n => simp [heapSet, ih]

theorem heapSet_get (h : List Cell) (i : Nat) (k : Bytes) (v : Value) (j : Nat) (c : Cell) (hc : h[j]? = some c) :
    ∃ c', (heapSet h i k v).1[j]? = some c' ∧ c'.ro = c.ro ∧ (j ≠ i → c'.vars = c.vars) := by
  induction h generalizing i j with
  | nil => simp at hc
  | cons d r ih =>
    cases i with
    | zero =>
      cases j with
      | zero =>
        simp at hc; subst hc
        exact ⟨{ d with vars := Value.insert d.vars k v }, by simp [heapSet], rfl, fun h => absurd rfl h⟩
      | succ m =>
        simp at hc
        exact ⟨c, by simp [heapSet, hc], rfl, fun _ => rfl⟩
    | succ n =>
      cases j with
      | zero =>
        simp at hc; subst hc
        exact ⟨d, by simp [heapSet], rfl, fun _ => rfl⟩
      | succ m =>
        simp at hc
        obtain ⟨c', h1, h2, h3⟩ := ih n m hc
        exact ⟨c', by simp [heapSet, h1], h2, fun hne => h3 (fun e => hne (by rw [e]))⟩

theorem heapSet_ro (h : List Cell) (i : Nat) (k : Bytes) (v : Value) (c : Cell) (hc : h[i]? = some c) :
    (heapSet h i k v).2 = c.ro := by
  induction h generalizing i with
  | nil => simp at hc
  | cons d r ih =>
    cases i with
    | zero => simp at hc; subst hc; simp [heapSet]
    | succ n => simp at hc; simp [heapSet, ih n hc]

/-- `set` on a scope whose top frame is own: only that cell changes, nothing caller-owned is hit -/
theorem set_ext {ctx : Scope} {st st2 : St} {k : Bytes} {v : Value} (hown : Own ctx st)
    (h : set ctx st k v = some st2) : Ext (fun i => i = top ctx) st st2 := by
  obtain ⟨f, r, c, hctx, hc, hro⟩ := hown
  subst hctx
  simp only [set] at h
  have hset := heapSet_ro st.heap f.ref k v c hc
  cases hs : heapSet st.heap f.ref k v with
  | mk h' ro =>
    rw [hs] at h hset
    simp only [Option.some.injEq] at h
    simp only at hset
    subst h
    refine ⟨?_, ?_, ?_⟩
    · have := heapSet_length st.heap f.ref k v
      rw [hs] at this; simp only at this ⊢; omega
    · intro i c0 hc0
      obtain ⟨c', h1, h2, h3⟩ := heapSet_get st.heap f.ref k v i c0 hc0
      rw [hs] at h1
      exact ⟨c', h1, h2, fun hn => h3 (fun e => hn (by simp [top, e]))⟩
    · simp only [hset, hro]; simp

theorem set_ne_none {ctx : Scope} {st : St} {k : Bytes} {v : Value} (hown : Own ctx st) : set ctx st k v ≠ none := by
  obtain ⟨f, r, c, hctx, _, _⟩ := hown
  subst hctx
  simp [set]

theorem push_spec (ctx : Scope) (st : St) :
    (push ctx st).1 = ⟨st.heap.length, false⟩ :: ctx ∧ Own (push ctx st).1 (push ctx st).2 ∧
    (∀ W, Ext W st (push ctx st).2) ∧ (push ctx st).2.out = st.out := by
  refine ⟨rfl, ?_, ?_, rfl⟩
  · exact ⟨⟨st.heap.length, false⟩, ctx, ⟨[], false⟩, rfl, by simp [push], rfl⟩
  · intro W
    refine ⟨by simp [push], ?_, rfl⟩
    intro i c hc
    have hi : i < st.heap.length := (List.getElem?_eq_some_iff.mp hc).1
    exact ⟨c, by simp [push, List.getElem?_append_left hi, hc], rfl, fun _ => rfl⟩

theorem noteImpossible_ext (W : Nat → Prop) (a : Bool) (ctx : Scope) (st : St) : Ext W st (noteImpossible a ctx st) := by
  unfold noteImpossible
  split
  · exact Ext.of_heap_eq rfl rfl
  · exact Ext.refl _ _

theorem write_ext (W : Nat → Prop) (st : St) (b : Bytes) : Ext W st (write st b) :=
  Ext.of_heap_eq rfl rfl

theorem writeAll_heap (st : St) (cs : List Bytes) : (writeAll st cs).heap = st.heap ∧ (writeAll st cs).foreign = st.foreign := by
  induction cs generalizing st with
  | nil => exact ⟨rfl, rfl⟩
  | cons c r ih =>
    have := ih (write st c)
    simp only [writeAll, List.foldl] at this ⊢
    exact this

theorem evalIn_ext {g : GEnv} {e : Expr} {ctx : Scope} {st st1 : St} {v : Value} (W : Nat → Prop)
    (h : evalIn g e ctx st = some (v, st1)) : Ext W st st1 := by
  unfold evalIn at h
  split at h
  · simp only [Option.some.injEq, Prod.mk.injEq] at h
    obtain ⟨_, rfl⟩ := h
    exact Ext.of_heap_eq rfl rfl
  · simp at h

theorem evalList_ext {g : GEnv} {ctx : Scope} (W : Nat → Prop) :
    ∀ (es : List Expr) (st st1 : St) (vs : List Value), evalList g ctx es st = some (vs, st1) → Ext W st st1 := by
  intro es
  induction es with
  | nil => intro st st1 vs h; simp [evalList] at h; obtain ⟨_, rfl⟩ := h; exact Ext.refl _ _
  | cons e r ih =>
    intro st st1 vs h
    unfold evalList at h
    split at h
    · rename_i v sta he
      split at h
      · rename_i vs' stb hr
        simp only [Option.some.injEq, Prod.mk.injEq] at h
        obtain ⟨_, rfl⟩ := h
        exact (evalIn_ext W he).trans (ih _ _ _ hr) (fun _ _ h => h)
      · simp at h
    · simp at h

theorem matchCase_ext {g : GEnv} {ctx : Scope} {sv : Value} (W : Nat → Prop) :
    ∀ (es : List Expr) (st st1 : St) (b : Bool), matchCase g ctx sv es st = some (b, st1) → Ext W st st1 := by
  intro es
  induction es with
  | nil => intro st st1 b h; simp [matchCase] at h; obtain ⟨_, rfl⟩ := h; exact Ext.refl _ _
  | cons e r ih =>
    intro st st1 b h
    unfold matchCase at h
    split at h
    · simp at h
    · rename_i v sta he
      split at h
      · simp only [Option.some.injEq, Prod.mk.injEq] at h
        obtain ⟨_, rfl⟩ := h
        exact evalIn_ext W he
      · exact (evalIn_ext W he).trans (ih _ _ _ h) (fun _ _ h => h)

theorem runDirectives_ext {g : GEnv} {ctx : Scope} (W : Nat → Prop) :
    ∀ (ds : List Directive) (v : Value) (esc : Bool) (st : St) (v' : Value) (esc' : Bool) (st1 : St),
      runDirectives g ctx ds v esc st = some (v', esc', st1) → Ext W st st1 := by
  intro ds
  induction ds with
  | nil =>
    intro v esc st v' esc' st1 h
    simp [runDirectives] at h; obtain ⟨_, _, rfl⟩ := h; exact Ext.refl _ _
  | cons d r ih =>
    intro v esc st v' esc' st1 h
    unfold runDirectives at h
    split at h
    · simp at h
    · split at h
      · simp at h
      · split at h
        · simp at h
        · rename_i args sta hl
          split at h
          · simp at h
          · exact (evalList_ext W _ _ _ _ hl).trans (ih _ _ _ _ _ _ h) (fun _ _ h => h)

end SoyVerif.Model.Eval
