/-
  Per-token lemmas, part 3: string literals.  `stringLexer(q)` consumes exactly a spelling
  `q body q` whose body has no unescaped `q` and no backslash without a successor (`strOk`) —
  for ARBITRARY body bytes: multi-byte runes, invalid UTF-8 (RuneError of width 1), an escaped
  multi-byte rune.  `Printer.quoteString v` is such a spelling for every byte string `v`.
-/
import SoyVerif.Lemmas.LexPrintTok

set_option linter.unusedSimpArgs false
set_option linter.unusedVariables false

namespace SoyVerif.Lemmas.LexPrint
open SoyVerif SoyVerif.Model SoyVerif.Model.Lex SoyVerif.Model.PrintTokens

variable {tg : Int}

/-- the inside of a string literal quoted with `q`: a backslash always has a successor (which is
    skipped), and no unescaped `q` occurs -/
def bodyOk (q : UInt8) : Bytes → Bool
  | [] => true
  | [b] => b != 92 && b != q
  | b :: c :: s => if b == 92 then bodyOk q s else b != q && bodyOk q (c :: s)

/-- a string token: an opening quote (`'` or `"`), a body, the same quote -/
def strOk : Bytes → Bool
  | [] => false
  | q :: r => (q == 39 || q == 34) && r.getLast? == some q && bodyOk q r.dropLast

theorem bodyOk_esc (q c : UInt8) (s : Bytes) : bodyOk q (92 :: c :: s) = bodyOk q s := by
  rw [bodyOk]; simp

theorem bodyOk_esc_end (q : UInt8) : bodyOk q [92] = false := by
  rw [bodyOk]; simp

theorem bodyOk_plain {q b : UInt8} (s : Bytes) (h : b ≠ 92) : bodyOk q (b :: s) = (b != q && bodyOk q s) := by
  cases s with
  | nil => rw [bodyOk, bodyOk]; simp [h]
  | cons c s => rw [bodyOk]; simp [h]

theorem bodyOk_drop_hi {q : UInt8} : ∀ (c : Bytes) {t : Bytes}, (∀ x ∈ c, 128 ≤ x.toNat) → bodyOk q (c ++ t) = true →
    bodyOk q t = true
  | [], t, _, h => h
  | x :: c, t, hc, h => by
    have hx := hc x (by simp)
    have h92 : x ≠ 92 := by
      intro e; rw [e] at hx; simp at hx
    simp only [List.cons_append, bodyOk_plain _ h92, Bool.and_eq_true] at h
    exact bodyOk_drop_hi c (fun y hy => hc y (by simp [hy])) h.2

/-- one iteration of `stringLexer` on a rune that is not eof (the eof exit — an Error item — is not
    on the path of a well-quoted literal, so its shape is not mentioned here) -/
theorem lexString_some {q : Int} {l l1 : Lexer} {r : Int} (hn : l.next = some (r, l1)) (hne : r ≠ eof) :
    lexString q l =
      if r = 92 then
        match l1.next with
        | none => none
        | some (_, l2) => lexString q l2
      else if r = q then
        match l1.emit .tString with
        | none => none
        | some l2 => some (some .insideTag, l2)
      else lexString q l1 := by
  rw [lexString]
  split
  · rename_i heq; rw [hn] at heq; exact absurd heq (by simp)
  · rename_i r1 l1' heq
    rw [hn] at heq
    simp only [Option.some.injEq, Prod.mk.injEq] at heq
    obtain ⟨rfl, rfl⟩ := heq
    split
    · rename_i he; exact absurd he hne
    · split
      · split <;> rename_i h2
        · simp only [h2]
        · simp only [h2]
      · rfl

/-- the high bytes a multi-byte rune swallows lie inside the body: the closing quote is ASCII -/
theorem hi_prefix {q : UInt8} (hq : q.toNat < 128) {body rest c s' : Bytes} (h : body ++ q :: rest = c ++ s')
    (hc : ∀ x ∈ c, 128 ≤ x.toNat) : ∃ body', body = c ++ body' ∧ s' = body' ++ q :: rest := by
  induction c generalizing body with
  | nil => exact ⟨body, rfl, by simpa using h.symm⟩
  | cons x c ih =>
    cases body with
    | nil =>
      simp only [List.nil_append, List.cons_append, List.cons.injEq] at h
      have := hc x (by simp)
      rw [← h.1] at this; omega
    | cons y body =>
      simp only [List.cons_append, List.cons.injEq] at h
      obtain ⟨body', h1, h2⟩ := ih h.2 (fun z hz => hc z (by simp [hz]))
      exact ⟨body', by rw [h.1, h1]; rfl, h2⟩

/-- `stringLexer(q)` from inside a literal: it runs to the closing quote and emits the token -/
theorem lexString_body {inp : Array UInt8} {st pe : Nat} {qb : UInt8} {rest : Bytes} {le it : Item} {its : Array Item}
    (hq : qb = 39 ∨ qb = 34)
    (he : ∀ w, (L tg inp pe st w le its).emit .tString = some (L tg inp pe pe w it (its.push it))) :
    ∀ (n : Nat) (body : Bytes) (p : Nat) (w : Int), body.length ≤ n → InpAt inp p (body ++ qb :: rest) →
      bodyOk qb body = true → p + body.length + 1 = pe →
      lexString (qb.toNat : Int) (L tg inp p st w le its) = some (some .insideTag, L tg inp pe pe 1 it (its.push it)) := by
  have hq128 : qb.toNat < 128 := by rcases hq with rfl | rfl <;> decide
  have hq92 : qb.toNat ≠ 92 := by rcases hq with rfl | rfl <;> decide
  intro n
  induction n with
  | zero =>
    intro body p w hl h hb hpe
    have : body = [] := List.eq_nil_of_length_eq_zero (by omega)
    subst this
    have hn := next_L (tg := tg) (s := rest) (by simpa using h) hq128 st w le its
    rw [lexString_some hn (by simp only [eof]; omega), if_neg (by omega), if_pos rfl]
    have : p + 1 = pe := by simpa using hpe
    rw [this, he 1]
  | succ n ih =>
    intro body p w hl h hb hpe
    cases body with
    | nil =>
      have hn := next_L (tg := tg) (s := rest) (by simpa using h) hq128 st w le its
      rw [lexString_some hn (by simp only [eof]; omega), if_neg (by omega), if_pos rfl]
      have : p + 1 = pe := by simpa using hpe
      rw [this, he 1]
    | cons b s =>
      have h0 : InpAt inp p (b :: (s ++ qb :: rest)) := by simpa using h
      obtain ⟨r, c, s', hcs, hc, hlo, hhi, hn⟩ := next_any (tg := tg) h0 st w le its
      obtain ⟨body', hs, hs'⟩ := hi_prefix hq128 hcs hc
      have htail : InpAt inp (p + (c.length + 1)) s' := by
        have h0' : InpAt inp p ((b :: c) ++ s') := by rw [List.cons_append, ← hcs]; exact h0
        have := inpAt_append h0'
        simpa using this
      have hre : r ≠ eof := by
        by_cases hlt : b.toNat < 128
        · rw [(hlo hlt).1]; simp only [eof]; omega
        · have := hhi (by omega); simp only [eof]; omega
      rw [lexString_some hn hre]
      by_cases hb92 : b = 92
      · -- an escape: the next rune is skipped
        subst hb92
        obtain ⟨hr, hcn⟩ := hlo (by decide)
        subst hcn
        simp only [List.nil_append] at hs
        rw [if_pos (by rw [hr]; rfl)]
        rw [hs] at hb hl hpe h0
        cases body' with
        | nil => rw [bodyOk_esc_end] at hb; exact absurd hb (by simp)
        | cons c2 s2 =>
          rw [bodyOk_esc] at hb
          have h1 : InpAt inp (p + 1) (c2 :: (s2 ++ qb :: rest)) := by
            have := inpAt_tail h0; simpa using this
          obtain ⟨r2, c', s'', hcs2, hc2, _, _, hn2⟩ := next_any (tg := tg) h1 st ((([] : Bytes).length + 1 : Nat) : Int) le its
          obtain ⟨body'', hs2, hs2'⟩ := hi_prefix hq128 hcs2 hc2
          have htail2 : InpAt inp (p + 1 + (c'.length + 1)) (body'' ++ qb :: rest) := by
            have h1' : InpAt inp (p + 1) ((c2 :: c') ++ s'') := by rw [List.cons_append, ← hcs2]; exact h1
            have := inpAt_append h1'
            rw [hs2'] at this
            simpa using this
          simp only [List.length_nil, Nat.zero_add] at hn2 ⊢
          rw [hn2]
          simp only
          subst hs2
          refine ih body'' _ _ ?_ htail2 (bodyOk_drop_hi c' hc2 hb) ?_
          · simp only [List.length_cons, List.length_append] at hl; omega
          · simp only [List.length_cons, List.length_append] at hpe; omega
      · -- an ordinary rune
        rw [bodyOk_plain _ hb92] at hb
        simp only [Bool.and_eq_true, bne_iff_ne, ne_eq] at hb
        have hrq : r ≠ (qb.toNat : Int) ∧ r ≠ 92 ∧ r ≠ eof := by
          by_cases hlt : b.toNat < 128
          · obtain ⟨hr, _⟩ := hlo hlt
            rw [hr]
            refine ⟨?_, ?_, by simp only [eof]; omega⟩
            · intro e; apply hb.1; exact UInt8.toNat_inj.mp (by omega)
            · intro e; apply hb92; exact UInt8.toNat_inj.mp (by simp; omega)
          · have := hhi (by omega)
            refine ⟨by omega, by omega, by simp only [eof]; omega⟩
        rw [if_neg hrq.2.1, if_neg hrq.1]
        subst hs
        rw [hs'] at htail
        refine ih body' _ _ ?_ htail (bodyOk_drop_hi c hc hb.2) ?_
        · simp only [List.length_cons, List.length_append] at hl; omega
        · simp only [List.length_cons, List.length_append] at hpe; omega

theorem dropLast_getLast? {α} (r : List α) (q : α) (h : r.getLast? = some q) : r.dropLast ++ [q] = r := by
  have hne : r ≠ [] := by intro e; rw [e] at h; simp at h
  have := List.dropLast_concat_getLast hne
  rw [List.getLast?_eq_some_getLast hne] at h
  simp only [Option.some.injEq] at h
  rw [← h]; exact this

theorem strOk_parts {val : Bytes} (h : strOk val = true) :
    ∃ q body, val = q :: (body ++ [q]) ∧ (q = 39 ∨ q = 34) ∧ bodyOk q body = true := by
  cases val with
  | nil => simp [strOk] at h
  | cons q r =>
    simp only [strOk, Bool.and_eq_true, Bool.or_eq_true, beq_iff_eq] at h
    obtain ⟨⟨hq, hl⟩, hb⟩ := h
    refine ⟨q, r.dropLast, ?_, hq, hb⟩
    congr 1
    exact (dropLast_getLast? r q hl).symm

/-- a string token -/
theorem step_string {inp p} {val rest : Bytes} (h : InpAt inp p (val ++ rest)) (hs : strOk val = true) (le its) :
    Step2 tg inp p le its ⟨.tString, val⟩ := by
  obtain ⟨q, body, rfl, hq, hb⟩ := strOk_parts hs
  intro w
  have h0 : InpAt inp p (q :: (body ++ q :: rest)) := by simpa using h
  have hq128 : q < 128 := by rcases hq with rfl | rfl <;> decide
  have he : ∀ w, (L tg inp (p + (q :: (body ++ [q])).length) p w le its).emit .tString =
      some (L tg inp (p + (q :: (body ++ [q])).length) (p + (q :: (body ++ [q])).length) w
        (itemOf ⟨.tString, q :: (body ++ [q])⟩ (p + (q :: (body ++ [q])).length))
        (its.push (itemOf ⟨.tString, q :: (body ++ [q])⟩ (p + (q :: (body ++ [q])).length)))) :=
    fun w => emit_L h rfl w le its .tString
  refine ⟨1, .str (q.toNat : Int), L tg inp (p + 1) p 1 le its, ?_, ?_⟩
  · simp only [step, lexInsideTag, next_L h0 hq128, Option.bind_eq_bind, Option.bind_some]
    rcases hq with rfl | rfl <;>
      simp [isSpaceEOL, isSpace, isEndOfLine, lexInsideTagMid, lexInsideTagRest]
  · simp only [step]
    exact lexString_body hq he body.length body (p + 1) 1 (Nat.le_refl _) (inpAt_tail h0) hb
      (by simp only [List.length_cons, List.length_append, List.length_nil]; omega)

theorem quoteByte_cases (b : UInt8) :
    (∃ x, Printer.quoteByte b = [92, x]) ∨ (Printer.quoteByte b = [b] ∧ b ≠ 92 ∧ b ≠ 39) := by
  unfold Printer.quoteByte
  split
  · exact Or.inl ⟨_, rfl⟩
  split
  · exact Or.inl ⟨_, rfl⟩
  split
  · exact Or.inl ⟨_, rfl⟩
  split
  · exact Or.inl ⟨_, rfl⟩
  split
  · exact Or.inl ⟨_, rfl⟩
  split
  · exact Or.inl ⟨_, rfl⟩
  split
  · exact Or.inl ⟨_, rfl⟩
  · rename_i h1 h2 _ _ _ _ _
    exact Or.inr ⟨rfl, by simpa using h1, by simpa using h2⟩

/-- `ast.quoteString` always produces a literal the lexer reads as one string token -/
theorem bodyOk_quote : ∀ (k t : Bytes), bodyOk 39 t = true → bodyOk 39 (k.flatMap Printer.quoteByte ++ t) = true
  | [], t, h => by simpa using h
  | b :: k, t, h => by
    have ih := bodyOk_quote k t h
    simp only [List.flatMap_cons, List.append_assoc]
    rcases quoteByte_cases b with ⟨x, hx⟩ | ⟨hx, h92, h39⟩
    · rw [hx]; exact (bodyOk_esc _ _ _).trans ih
    · rw [hx]
      simp only [List.cons_append, List.nil_append]
      rw [bodyOk_plain _ h92]
      simp [h39, ih]

theorem strOk_quoteString (k : Bytes) : strOk (Printer.quoteString k) = true := by
  have hb := bodyOk_quote k [] rfl
  simp only [List.append_nil] at hb
  simp only [Printer.quoteString, List.cons_append, List.nil_append, strOk, beq_self_eq_true, Bool.true_or, Bool.true_and,
    Bool.and_eq_true, beq_iff_eq]
  refine ⟨by simp, ?_⟩
  simpa using hb

end SoyVerif.Lemmas.LexPrint
