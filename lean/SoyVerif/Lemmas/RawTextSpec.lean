/-
  Step B of the C15 proof: the index-free state machine equals the declarative
  line-joining specification `Spec.joinLines` on every byte string.
-/
import SoyVerif.Lemmas.RawText
import SoyVerif.Spec.JoinLines
namespace SoyVerif.Model
open SoyVerif.Spec

theorem isWs_eq (b : UInt8) : isWs b = (isSpace b || isEndOfLine b) := by
  simp [isWs, isSpace, isEndOfLine, Bool.or_assoc]
theorem isNL_eq (b : UInt8) : isNL b = isEndOfLine b := rfl
theorem tight_eq (b : UInt8) : tight b = isTightJoiner b := rfl

/-- `tight` on the byte before a run, `none` = there is none (the run is at the start of the text:
    the state machine's `noChar`) -/
def tightO : Option UInt8 → Bool
  | none => true
  | some b => tight b

theorem tightO_eq (p : Option UInt8) : tightO p = isTightJoinerO p := by cases p <;> rfl

/-- well-formed token lists: non-empty tokens, alternating kinds -/
def WF : List Tok → Prop
  | [] => True
  | [Tok.ws w] => w ≠ []
  | [Tok.chunk c] => c ≠ []
  | Tok.ws w :: Tok.chunk c :: ts => w ≠ [] ∧ WF (Tok.chunk c :: ts)
  | Tok.chunk c :: Tok.ws w :: ts => c ≠ [] ∧ WF (Tok.ws w :: ts)
  | _ => False

theorem tokenize_wf : ∀ s : Bytes, WF (tokenize s)
  | [] => trivial
  | b :: rest => by
    have ih := tokenize_wf rest
    unfold tokenize
    cases h : tokenize rest with
    | nil => by_cases hb : isWs b <;> simp [hb, WF]
    | cons t ts =>
      rw [h] at ih
      cases t with
      | ws w =>
        by_cases hb : isWs b <;> simp only [hb, if_true, if_false, Bool.false_eq_true]
        · cases ts with
          | nil => simp [WF]
          | cons t2 ts2 => cases t2 <;> simp_all [WF]
        · simp [WF]; exact ih
      | chunk c =>
        by_cases hb : isWs b <;> simp only [hb, if_true, if_false, Bool.false_eq_true]
        · simp [WF]; exact ih
        · cases ts with
          | nil => simp [WF]
          | cons t2 ts2 => cases t2 <;> simp_all [WF]

/-- the rendering of a whitespace run in progress: `w0` seen so far, `nl` = it contains a
    line break (or it is the phantom run of trimBefore), `p` = byte before the run -/
def contRun (ta : Bool) (p : Option UInt8) (nl : Bool) (w0 : Bytes) : List Tok → Bytes
  | [] => if !nl && !ta then w0 else []
  | [Tok.ws w] => if !(nl || hasNL w) && !ta then w0 ++ w else []
  | Tok.ws w :: Tok.chunk c :: ts =>
      (if !(nl || hasNL w) then w0 ++ w else if tightO p || tight (firstByte c) then [] else [32]) ++ c ++ renderRest ta (lastByte c) ts
  | Tok.chunk c :: ts =>
      (if !nl then w0 else if tightO p || tight (firstByte c) then [] else [32]) ++ c ++ renderRest ta (lastByte c) ts
  | Tok.ws _ :: Tok.ws _ :: _ => []


/-- `renderRest` with an optional byte before (proof device: the state machine's `lastChar`
    before the first chunk is `noChar`) -/
def renderRestO (ta : Bool) (p : Option UInt8) : List Tok → Bytes
  | [] => []
  | [Tok.ws w] => edgeWs ta w
  | Tok.ws w :: Tok.chunk c :: ts =>
      (if !hasNL w then w else if tightO p || tight (firstByte c) then [] else [32]) ++ c ++ renderRest ta (lastByte c) ts
  | Tok.chunk c :: ts => c ++ renderRest ta (lastByte c) ts
  | Tok.ws _ :: Tok.ws _ :: _ => []

theorem renderRestO_some (ta : Bool) (b : UInt8) (toks : List Tok) (wf : WF toks) :
    renderRestO ta (some b) toks = renderRest ta b toks := by
  cases toks with
  | nil => rfl
  | cons t ts =>
    cases t with
    | chunk c => simp [renderRestO, renderRest]
    | ws w =>
      cases ts with
      | nil => simp [renderRestO, renderRest]
      | cons t2 ts2 =>
        cases t2 with
        | ws w2 => simp [WF] at wf
        | chunk c => simp [renderRestO, renderRest, innerWs, tightO]

theorem lastByte_cons (b : UInt8) (c : Bytes) (h : c ≠ []) : lastByte (b :: c) = lastByte c := by
  cases c with
  | nil => exact absurd rfl h
  | cons x xs => simp [lastByte]

@[simp] theorem hasNL_nil : hasNL [] = false := rfl
@[simp] theorem hasNL_cons (b : UInt8) (w : Bytes) : hasNL (b :: w) = (isEndOfLine b || hasNL w) := by
  simp [hasNL, isNL_eq]
@[simp] theorem hasNL_append (u w : Bytes) : hasNL (u ++ w) = (hasNL u || hasNL w) := by
  simp [hasNL]

theorem tok_nil (b : UInt8) (r : Bytes) (h : tokenize r = []) :
    tokenize (b :: r) = if isWs b then [Tok.ws [b]] else [Tok.chunk [b]] := by
  rw [tokenize]; simp [h]
theorem tok_ws (b : UInt8) (r : Bytes) (w : Bytes) (ts : List Tok) (h : tokenize r = Tok.ws w :: ts) :
    tokenize (b :: r) = if isWs b then Tok.ws (b :: w) :: ts else Tok.chunk [b] :: Tok.ws w :: ts := by
  rw [tokenize]; simp [h]
theorem tok_chunk (b : UInt8) (r : Bytes) (c : Bytes) (ts : List Tok) (h : tokenize r = Tok.chunk c :: ts) :
    tokenize (b :: r) = if isWs b then Tok.ws [b] :: Tok.chunk c :: ts else Tok.chunk (b :: c) :: ts := by
  rw [tokenize]; simp [h]

theorem loopB (ta : Bool) : ∀ rest : Bytes,
    (∀ st : AState, st.inRun = false →
        aLoop ta rest st = st.out ++ renderRestO ta st.lastChar (tokenize rest)) ∧
    (∀ st : AState, st.inRun = true →
        aLoop ta rest st = st.out ++ contRun ta st.charBeforeTrim st.seenNewline st.run (tokenize rest))
  | [] => by
    constructor
    · intro st h; simp [aLoop, aFinal, h, tokenize, renderRestO]
    · intro st h
      simp only [aLoop, aFinal, h, tokenize, contRun, Bool.and_true]
      by_cases hc : (!st.seenNewline && !ta) = true
      · simp [hc]
      · have : (!st.seenNewline && !ta) = false := by simpa using hc
        simp [this]
  | b :: r => by
    obtain ⟨ihI, ihR⟩ := loopB ta r
    have wf := tokenize_wf r
    constructor
    · intro st h
      unfold aLoop aStep aFlush
      simp only [h, Bool.false_eq_true, false_and, if_false]
      by_cases hb : (isSpace b || isEndOfLine b) = true
      · have hw : isWs b = true := by rw [isWs_eq]; exact hb
        simp only [hb, if_true]
        rw [ihR _ rfl]
        cases ht : tokenize r with
        | nil =>
          rw [tok_nil b r ht]
          cases ta <;> cases h1 : isEndOfLine b <;> simp [hw, contRun, renderRest, renderRestO, edgeWs, h1]
        | cons t ts =>
          rw [ht] at wf
          cases t with
          | ws w =>
            rw [tok_ws b r w ts ht]
            simp only [hw, if_true]
            cases ts with
            | nil => cases ta <;> cases h1 : isEndOfLine b <;> cases h2 : hasNL w <;> simp [contRun, renderRest, renderRestO, edgeWs, h1, h2]
            | cons t2 ts2 =>
              cases t2 with
              | ws w2 => simp [WF] at wf
              | chunk c => cases h1 : isEndOfLine b <;> cases h2 : hasNL w <;> simp [contRun, renderRest, renderRestO, innerWs, h1, h2]
          | chunk c =>
            rw [tok_chunk b r c ts ht]
            cases h1 : isEndOfLine b <;> simp [hw, contRun, renderRest, renderRestO, innerWs, h1]
      · have hw : isWs b = false := by rw [isWs_eq]; simpa using hb
        simp only [hb, if_false, Bool.false_eq_true]
        rw [ihI _ rfl, renderRestO_some ta b _ wf]
        cases ht : tokenize r with
        | nil => rw [tok_nil b r ht]; simp [hw, renderRest, renderRestO, lastByte]
        | cons t ts =>
          rw [ht] at wf
          cases t with
          | ws w => rw [tok_ws b r w ts ht]; simp [hw, renderRest, renderRestO, lastByte]
          | chunk c =>
            have hc : c ≠ [] := by
              cases ts with
              | nil => simpa [WF] using wf
              | cons t2 ts2 => cases t2 <;> simp_all [WF]
            rw [tok_chunk b r c ts ht]
            simp [hw, renderRest, renderRestO, lastByte_cons b c hc]
    · intro st h
      unfold aLoop aStep aFlush
      by_cases hb : (isSpace b || isEndOfLine b) = true
      · -- the run continues with `b`
        have hw : isWs b = true := by rw [isWs_eq]; exact hb
        have hstep : aLoop ta r (if st.inRun = true ∧ isSpace b = true then { st with run := st.run ++ [b] }
            else if st.inRun = true ∧ isEndOfLine b = true then { st with run := st.run ++ [b], seenNewline := true }
            else (let st1 := (if st.inRun = true then
                    (if (!st.seenNewline) = true then { st with out := st.out ++ st.run, inRun := false, run := [] }
                     else if (!isTightJoinerO st.charBeforeTrim && !isTightJoiner b) = true then
                       { st with out := st.out ++ [32], inRun := false, run := [] }
                     else { st with inRun := false, run := [] })
                  else st)
                  let nl := isEndOfLine b
                  if (isSpace b || nl) = true then
                    { st1 with seenNewline := nl, inRun := true, run := [b], charBeforeTrim := st1.lastChar }
                  else
                    { st1 with seenNewline := nl, out := st1.out ++ [b], lastChar := b }))
            = st.out ++ contRun ta st.charBeforeTrim (st.seenNewline || isEndOfLine b) (st.run ++ [b]) (tokenize r) := by
          by_cases h1 : isSpace b = true
          · have h2 : isEndOfLine b = false := by
              simp only [isSpace, isEndOfLine, Bool.or_eq_true, beq_iff_eq] at h1 ⊢
              rcases h1 with rfl | rfl <;> decide
            simp only [h, h1, and_self, if_true]
            rw [ihR _ rfl]; simp [h2]
          · have h2 : isEndOfLine b = true := by simpa [h1] using hb
            simp only [h, h1, h2, and_self, and_false, if_false, if_true, Bool.false_eq_true]
            rw [ihR _ rfl]; simp
        rw [hstep]
        cases ht : tokenize r with
        | nil =>
          rw [tok_nil b r ht]
          simp [hw, contRun]
        | cons t ts =>
          rw [ht] at wf
          cases t with
          | ws w =>
            rw [tok_ws b r w ts ht]
            simp only [hw, if_true]
            cases ts with
            | nil => simp [contRun, Bool.or_assoc]
            | cons t2 ts2 =>
              cases t2 with
              | ws w2 => simp [WF] at wf
              | chunk c => simp [contRun, Bool.or_assoc]
          | chunk c =>
            rw [tok_chunk b r c ts ht]
            simp [hw, contRun, firstByte]
      · -- a chunk starts: the run is flushed
        have hw : isWs b = false := by rw [isWs_eq]; simpa using hb
        have h1 : isSpace b = false := by
          cases h1 : isSpace b <;> simp_all
        have h2 : isEndOfLine b = false := by
          cases h2 : isEndOfLine b <;> simp_all
        have hfb : ∀ c : Bytes, firstByte (b :: c) = b := by intro c; simp [firstByte]
        simp only [h, h1, h2, and_false, if_false, if_true, Bool.false_eq_true, Bool.or_self]
        by_cases h3 : st.seenNewline = true
        · by_cases h4 : (!isTightJoinerO st.charBeforeTrim && !isTightJoiner b) = true
          · simp only [h3, h4, Bool.not_true, Bool.false_eq_true, if_false, if_true]
            rw [ihI _ rfl, renderRestO_some ta b _ wf]
            cases ht : tokenize r with
            | nil => rw [tok_nil b r ht]; simp_all [contRun, renderRest, renderRestO, tight_eq, tightO_eq, lastByte, firstByte]
            | cons t ts =>
              rw [ht] at wf
              cases t with
              | ws w => rw [tok_ws b r w ts ht]; simp_all [contRun, renderRest, renderRestO, tight_eq, tightO_eq, lastByte, firstByte]
              | chunk c =>
                have hc : c ≠ [] := by
                  cases ts with
                  | nil => simpa [WF] using wf
                  | cons t2 ts2 => cases t2 <;> simp_all [WF]
                rw [tok_chunk b r c ts ht]
                simp_all [contRun, renderRest, renderRestO, tight_eq, tightO_eq, lastByte_cons b c hc, firstByte]
          · have h4' : (!isTightJoinerO st.charBeforeTrim && !isTightJoiner b) = false := by simpa using h4
            simp only [h3, h4', Bool.not_true, Bool.false_eq_true, if_false]
            rw [ihI _ rfl, renderRestO_some ta b _ wf]
            cases ht : tokenize r with
            | nil => rw [tok_nil b r ht]; simp_all [contRun, renderRest, renderRestO, tight_eq, tightO_eq, lastByte, firstByte]
            | cons t ts =>
              rw [ht] at wf
              cases t with
              | ws w => rw [tok_ws b r w ts ht]; simp_all [contRun, renderRest, renderRestO, tight_eq, tightO_eq, lastByte, firstByte]
              | chunk c =>
                have hc : c ≠ [] := by
                  cases ts with
                  | nil => simpa [WF] using wf
                  | cons t2 ts2 => cases t2 <;> simp_all [WF]
                rw [tok_chunk b r c ts ht]
                simp_all [contRun, renderRest, renderRestO, tight_eq, tightO_eq, lastByte_cons b c hc, firstByte]
        · have h3' : st.seenNewline = false := by simpa using h3
          simp only [h3', Bool.not_false, if_true]
          rw [ihI _ rfl, renderRestO_some ta b _ wf]
          cases ht : tokenize r with
          | nil => rw [tok_nil b r ht]; simp_all [contRun, renderRest, renderRestO, lastByte, firstByte]
          | cons t ts =>
            rw [ht] at wf
            cases t with
            | ws w => rw [tok_ws b r w ts ht]; simp_all [contRun, renderRest, renderRestO, lastByte, firstByte]
            | chunk c =>
              have hc : c ≠ [] := by
                cases ts with
                | nil => simpa [WF] using wf
                | cons t2 ts2 => cases t2 <;> simp_all [WF]
              rw [tok_chunk b r c ts ht]
              simp_all [contRun, renderRest, renderRestO, lastByte_cons b c hc, firstByte]


theorem render_false (ta : Bool) (toks : List Tok) (wf : WF toks) :
    render false ta toks = renderRestO ta none toks := by
  cases toks with
  | nil => rfl
  | cons t ts =>
    cases t with
    | chunk c => simp [render, renderRestO]
    | ws w =>
      cases ts with
      | nil => cases ta <;> cases h : hasNL w <;> simp [render, renderRestO, edgeWs, h]
      | cons t2 ts2 =>
        cases t2 with
        | ws w2 => simp [WF] at wf
        | chunk c => cases h : hasNL w <;> simp [render, renderRestO, edgeWs, h, tightO]

theorem render_true (ta : Bool) (toks : List Tok) (wf : WF toks) :
    render true ta toks = contRun ta none true [] toks := by
  cases toks with
  | nil => simp [render, contRun]
  | cons t ts =>
    cases t with
    | chunk c => simp [render, contRun, tightO]
    | ws w =>
      cases ts with
      | nil => simp [render, contRun]
      | cons t2 ts2 =>
        cases t2 with
        | ws w2 => simp [WF] at wf
        | chunk c => simp [render, contRun, edgeWs, tightO]

theorem rawtextA_eq_joinLines (s : Bytes) (tb ta : Bool) : rawtextA s tb ta = joinLines s tb ta := by
  unfold rawtextA joinLines
  cases tb with
  | false =>
    rw [(loopB ta s).1 (aInit false) rfl, render_false ta _ (tokenize_wf s)]
    simp [aInit]
  | true =>
    rw [(loopB ta s).2 (aInit true) rfl, render_true ta _ (tokenize_wf s)]
    simp [aInit]

end SoyVerif.Model
